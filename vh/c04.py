"""C04 — retries respect every budget, spare non-idempotent requests, and terminate.

stage 1  TLC checks spec/Retry.tla (implementation-shaped model of the urlopen retry loop +
         Retry.from_int / increment / is_retry / is_exhausted / sleep) against the Rules clauses, through the
         same total monitor that later judges real traces: all counter combinations x gating flags x routes x
         outcome sequences (collapsed graph), the model with the named deviation RetryAfterNotClamped enabled (must
         be refuted: SleepsInRange, nothing else first), and termination under weak fairness.
stage 2  TLC emits, for a pairwise-covering + seeded sample of configurations (passed as JSON), every
         environment history (outcome sequence) with the Model's expected observations.
stage 3  each scenario drives the REAL HTTPConnectionPool.urlopen (direct pool, pool behind a forwarding proxy
         as ProxyManager builds it, CONNECT-tunnel pool for pre-send refusals) over vh/net.py: faults injected at
         connect / send / receive of the current attempt, scripted replies, time.sleep of urllib3.util.retry
         replaced by a recorder.  The recorded trace is ground truth: connection attempts, wire messages seen by
         the scripted peer, the stage of every injected fault, replies, sleeps, final outcome.
stage 4  TLC validates every trace (spec/Retry_Trace.tla): the Rules verdict (hard: names the failing clause) and
         the Model refinement verdict (conforms / drift), plus seeded random scenarios beyond the
         enumeration bound.
"""
from __future__ import annotations

import copy
import email.utils
import errno
import http.client
import itertools
import json
import math
import multiprocessing as mp
import os
import random
import socket

from . import known, tlc
from . import net as vnet

NONE, FALSE = -9, -8
DEFAULT_BMAX = 120000
PROXY_URL = "http://proxy.test:3128"
CLAUSES = ["FalseReraises", "WithinBudgets", "NoResendAfterReach", "RetryAfterOnlyFor", "SleepsInRange",
           "CallerRetryUntouched", "ExhaustionShape", "Terminates"]
INVARIANTS = ["TypeOK", "InvWithinBudgets", "InvNoResendAfterReach", "InvFalseReraises", "InvRetryAfterOnlyFor",
              "InvSleepsInRange", "InvCallerRetryUntouched", "InvExhaustionShape", "InvAccounted", "InvDeriveAgrees",
              "InvWireBound"]
ACTIONS = ["Derive", "Attempt", "Classify", "Increment", "StatusRetry", "StatusPass", "Sleep", "Recurse", "Raise",
           "Return"]

# ground truth of the environment alphabet (mirrors OC in spec/Retry.tla; any disagreement shows as Model drift,
# because the Model's predicted fault / reply events are computed from OC)
OUTCOMES = {
    "ConnRefused": ("connect", "refused", 0, -1), "ConnTimeout": ("connect", "timeout", 0, -1),
    "TunRefused": ("tunnel", "refused", 0, -1), "SendErr": ("send", "unreach", 0, -1),
    "ReadTimeout": ("recv", "timeout", 0, -1), "ReadReset": ("recv", "reset", 0, -1),
    "ReadEOF": ("recv", "eof", 0, -1), "ReadGarbage": ("recv", "garbage", 0, -1),
    "OK200": ("status", "resp", 200, -1), "S500": ("status", "resp", 500, -1), "S500RA": ("status", "resp", 500, 11000),
    "S429RA": ("status", "resp", 429, 7000), "S429RA0": ("status", "resp", 429, 0), "S503RA": ("status", "resp", 503, 3000),
    "S413RA": ("status", "resp", 413, 300000), "S404RA": ("status", "resp", 404, 9000),
    # Retry-After as an HTTP-date: (.., what the server asks for in ms (a past date asks for 0), date - now in s)
    "S429RAdSkew": ("status", "resp", 429, 0, -2), "S503RAdSkew": ("status", "resp", 503, 0, -2),
    "S413RAdPast": ("status", "resp", 413, 0, -86400), "S500RAdPast": ("status", "resp", 500, 0, -86400),
    "S429RAdNow": ("status", "resp", 429, 0, 0), "S429RAdFut": ("status", "resp", 429, 4000, 4),
    "S500RAdFut": ("status", "resp", 500, 4000, 4),
}
VIRTUAL_NOW = 1_700_000_000.0     # time.time() as seen by urllib3.util.retry (whole second: HTTP-dates are exact)
PLAIN = [o for o in OUTCOMES if o != "TunRefused"]
TUNNEL = ["ConnRefused", "ConnTimeout", "TunRefused"]


def jobs():
    """size of every process pool (VERIF_JOBS caps it; default: all cores)"""
    return max(1, int(os.environ.get("VERIF_JOBS") or 0) or os.cpu_count() or 4)


# ------------------------------------------------------------------------------ configurations

FIELDS = ["id", "how", "level", "total", "connect", "read", "status", "other", "allowed", "forcelist", "ros", "respect",
          "factor", "bmax", "jitter", "method", "route", "ka"]
DOM = {
    "level": ["request", "pool"], "total": [NONE, FALSE, 0, 1, 2], "connect": [NONE, FALSE, 0, 1, 2],
    "read": [NONE, FALSE, 0, 1, 2], "status": [NONE, 0, 1, 2], "other": [NONE, 0, 1, 2],
    "allowed": ["default", "none", "post"], "forcelist": [False, True], "ros": [True, False], "respect": [True, False],
    "factor": [0, 100, 100000], "bmax": [DEFAULT_BMAX, 1000], "jitter": [0, 500],
    "method": ["GET", "POST", "PUT", "DELETE"], "route": ["direct", "forward"], "ka": ["keep", "close"],
}


def base_cfg(**kw):
    c = {"id": 0, "how": "retry", "level": "request", "total": NONE, "connect": NONE, "read": NONE, "status": NONE,
         "other": NONE, "allowed": "default", "forcelist": False, "ros": True, "respect": True, "factor": 0,
         "bmax": DEFAULT_BMAX, "jitter": 0, "method": "GET", "route": "direct", "ka": "keep"}
    c.update(kw)
    return c


def pairwise(rng, dom, tries=40):
    """Greedy seeded pairwise covering array over `dom` (dict name -> values)."""
    names = sorted(dom)
    need = {(a, va, b, vb) for a, b in itertools.combinations(names, 2) for va in dom[a] for vb in dom[b]}
    rows = []
    while need:
        best, gain = None, -1
        seedpair = next(iter(sorted(need, key=repr)))
        for _ in range(tries):
            row = {n: rng.choice(dom[n]) for n in names}
            row[seedpair[0]], row[seedpair[2]] = seedpair[1], seedpair[3]
            g = sum(1 for a, b in itertools.combinations(names, 2) if (a, row[a], b, row[b]) in need)
            if g > gain:
                best, gain = row, g
        rows.append(best)
        for a, b in itertools.combinations(names, 2):
            need.discard((a, best[a], b, best[b]))
    return rows


def form_cfgs():
    out = []
    for how in ("false", "int", "default"):
        for level in ("request", "pool"):
            for t in ((0, 1, 2) if how == "int" else (0,)):
                if how == "default" and level == "pool":
                    continue
                for meth in DOM["method"]:
                    for route in DOM["route"]:
                        for ka in DOM["ka"]:
                            out.append(base_cfg(how=how, level=level, total=t, method=meth, route=route, ka=ka))
    return out


def tunnel_cfgs():
    out = []
    for t in (FALSE, 0, 1, 2):
        for cn in (NONE, FALSE, 0, 1):
            for ot in (NONE, 0, 1, 2):
                for meth in ("GET", "POST"):
                    out.append(base_cfg(total=t, connect=cn, other=ot, method=meth, route="tunnel", ka="close"))
    return out


# always part of the sample, so that every clause of the Rules is exercised non-vacuously for every seed
ANCHORS = [
    base_cfg(total=2, allowed="none", forcelist=True, factor=100, bmax=1000, method="POST"),        # retries of every kind, backoff
    base_cfg(total=2, forcelist=True, jitter=500, method="GET", ka="close"),
    base_cfg(total=2, read=0, forcelist=True, method="POST", route="forward"),                      # class of the repaired D2
    base_cfg(total=1, status=1, ros=False, forcelist=True, method="PUT", level="pool"),
    base_cfg(total=2, other=1, method="GET", route="tunnel", ka="close"),                           # `other` budget
    base_cfg(how="false", total=0, method="GET"), base_cfg(how="int", total=1, method="DELETE", level="pool"),
    base_cfg(how="default", total=0, method="POST", route="forward"),
]
FEATURES = ["retry-after-date:past", "retry-after-date:future", "retry-after:connect", "retry-after:read", "retry-after:status", "retry-after:other", "sleep:backoff",
            "sleep:retry-after", "end:response", "end:maxretry", "end:raise", "reuse", "caller-retry-object"]


def features(tr):
    """Coverage bookkeeping only (never a verdict): which situations did this real run go through?"""
    f, last, lastra = set(), None, -1
    for e in tr["ev"]:
        if e["ev"] == "att":
            if last:
                f.add("retry-after:" + last)
            if not e["newconn"]:
                f.add("reuse")
        elif e["ev"] == "fault":
            last = {"connect": "connect", "tunnel": "other", "send": "read", "recv": "read"}[e["stage"]]
        elif e["ev"] == "reply":
            last, lastra = ("status", e["ra"]) if e["kind"] == "resp" else ("read", -1)
        elif e["ev"] == "sleep":
            f.add("sleep:retry-after" if last == "status" and e["lo"] == lastra else "sleep:backoff")
        elif e["ev"] == "end":
            f.add("end:" + e["kind"])
    for i, o in enumerate(tr["seq"][:-1]):     # a dated Retry-After reply that was followed by another attempt
        if len(OUTCOMES[o]) > 4:
            f.add("retry-after-date:" + ("past" if OUTCOMES[o][4] < 0 else "future" if OUTCOMES[o][4] > 0 else "now"))
    if tr["cfg"]["how"] == "retry":
        f.add("caller-retry-object")
    return f


def bounded(c):
    return policy(c)["total"] != NONE


def policy(c):
    if c["how"] == "retry":
        return {k: c[k] for k in ("total", "connect", "read", "status", "other", "allowed", "forcelist", "ros", "respect",
                                  "factor", "bmax", "jitter")}
    t = {"int": c["total"], "false": FALSE, "default": 3}[c["how"]]
    return {"total": t, "connect": NONE, "read": NONE, "status": NONE, "other": NONE, "allowed": "default",
            "forcelist": False, "ros": True, "respect": True, "factor": 0, "bmax": DEFAULT_BMAX, "jitter": 0}


def sample_cfgs(rng, n_random, n_forms, n_tunnel):
    """Pairwise cover of the Retry-object domain + seeded random rows + forms + tunnel family; ids 1.."""
    rows = [dict(a) for a in ANCHORS] + [base_cfg(**r) for r in pairwise(rng, DOM)]
    for _ in range(n_random):
        rows.append(base_cfg(**{n: rng.choice(v) for n, v in DOM.items()}))
    forms = form_cfgs()
    rng.shuffle(forms)
    rows += forms[:n_forms]
    tun = tunnel_cfgs()
    rng.shuffle(tun)
    rows += tun[:n_tunnel]
    seen, out = set(), []
    for r in rows:
        key = json.dumps({k: r[k] for k in FIELDS if k != "id"}, sort_keys=True)
        if key not in seen:
            seen.add(key)
            r["id"] = len(out) + 1
            out.append(r)
    return out


# ------------------------------------------------------------------------------ driving the real code

class Runaway(BaseException):
    """The retry loop went on although the environment only answers 200: not terminating."""


class HarnessProblem(BaseException):
    """The scripted environment was used in a way the driver cannot account for (machinery)."""


def _dec(v):
    return None if v == NONE else False if v == FALSE else v


def _enc(v):
    return NONE if v is None else FALSE if v is False else int(v)


def make_retry(c):
    from urllib3.util.retry import Retry
    kw = dict(total=_dec(c["total"]), connect=_dec(c["connect"]), read=_dec(c["read"]), status=_dec(c["status"]),
              other=_dec(c["other"]), status_forcelist=[500] if c["forcelist"] else None, raise_on_status=c["ros"],
              respect_retry_after_header=c["respect"], backoff_factor=c["factor"] / 1000.0,
              backoff_max=c["bmax"] / 1000.0, backoff_jitter=c["jitter"] / 1000.0)
    if c["allowed"] == "none":
        kw["allowed_methods"] = None
    elif c["allowed"] == "post":
        kw["allowed_methods"] = frozenset(["POST"])
    return Retry(**kw)


def retries_arg(c):
    """The value the caller passes as `retries` (or None when nothing is given at that level)."""
    if c["how"] == "retry":
        return make_retry(c)
    if c["how"] == "int":
        return int(c["total"])
    if c["how"] == "false":
        return False
    return None


def _snapshot(r):
    from urllib3.util.retry import Retry
    if isinstance(r, Retry):
        return copy.deepcopy({k: v for k, v in vars(r).items()})
    return repr(r)


def family(x):
    from urllib3 import exceptions as ex
    if isinstance(x, ex.ProxyError):
        return "proxy"
    if isinstance(x, ex.ResponseError):
        return "resp"
    if isinstance(x, ex.ConnectTimeoutError):
        return "conn"
    if isinstance(x, (ex.ReadTimeoutError, ex.ProtocolError)):
        return "read"
    return "x:" + type(x).__name__


def chain(x, cap=40):
    """Every exception reachable from x through reason / original_error / args / __cause__ / __context__."""
    seen, todo = [], [x]
    while todo and len(seen) < cap:
        e = todo.pop(0)
        if e is None or any(e is s for s in seen) or not isinstance(e, BaseException):
            continue
        seen.append(e)
        todo += [getattr(e, "reason", None), getattr(e, "original_error", None), e.__cause__, e.__context__]
        todo += [a for a in getattr(e, "args", ()) if isinstance(a, BaseException)]
    return seen


class Driver:
    """Scripted environment for one urlopen call: applies seq[i] to the i-th attempt, records ground truth."""

    def __init__(self, cfg, seq):
        self.cfg, self.seq = cfg, list(seq)
        self.tail = "TunRefused" if cfg["route"] == "tunnel" else "OK200"
        self.i = 0
        self.consumed = []
        self.events = []
        self.open_att = False          # an attempt has started and its outcome is not yet known
        self.pending_recv = None       # (kind, exception) to raise at the next receive of this attempt
        self.last = None               # (stage, kind, status, injected exception or None)
        self.natt = 0
        self.now = VIRTUAL_NOW

    # -- helpers
    def cur(self):
        return self.seq[self.i] if self.i < len(self.seq) else self.tail

    def nxt(self):
        return self.seq[self.i + 1] if self.i + 1 < len(self.seq) else self.tail

    def ev(self, ev, **kw):
        e = {"ev": ev, "newconn": False, "stage": "", "kind": "", "status": 0, "ra": -1, "lo": 0, "hi": 0, "method": "",
             "form": "", "fam": "", "carries": "na", "same": True, "rt": []}
        e.update(kw)
        self.events.append(e)

    def begin(self, newconn):
        if self.open_att:
            return
        self.natt += 1
        if self.natt > len(self.seq) + 8:
            raise Runaway()
        self.open_att = True
        self.ev("att", newconn=newconn)

    def consume(self, exc=None):
        o = self.cur()
        stage, kind, status, ra = OUTCOMES[o][:4]
        self.consumed.append(o)
        self.i += 1
        self.open_att = False
        self.last = (stage, kind, status, exc)
        return stage, kind, status, ra

    # -- seams of vh/net.py
    def script(self, cid, address):
        drv = self

        class FaultMap:
            def __init__(self, what):
                self.what = what

            def get(self, k, default=None):
                if k == "*":
                    return None
                return drv.on_send() if self.what == "send" else drv.on_recv()

        class Script:
            maps = {"send": FaultMap("send"), "recv": FaultMap("recv")}

            def get(self, key, default=None):
                if key == "connect":
                    return drv.on_connect()
                return self.maps.get(key, default)

        self.begin(True)         # a dial is a connection attempt on the wire
        return Script()

    def on_connect(self):
        stage, kind = OUTCOMES[self.cur()][:2]
        if stage != "connect":
            return None
        exc = ConnectionRefusedError(errno.ECONNREFUSED, "refused") if kind == "refused" else socket.timeout("timed out")
        self.consume(exc)
        self.ev("fault", stage="connect", kind=kind)
        return exc

    def on_send(self):
        self.begin(False)        # request bytes on a connection that was not just dialled: reuse
        stage, kind = OUTCOMES[self.cur()][:2]
        if stage != "send":
            return None
        exc = OSError(errno.EHOSTUNREACH, "no route to host")
        self.consume(exc)
        self.ev("fault", stage="send", kind=kind)
        return exc

    def on_recv(self):
        if self.pending_recv is None:
            return None
        kind, exc = self.pending_recv
        self.pending_recv = None
        self.consume(exc)
        self.ev("fault", stage="recv", kind=kind)
        return exc

    def responder(self, peer, req):
        o = self.cur()
        stage, kind, status, ra = OUTCOMES[o][:4]
        if req.method == "CONNECT":
            if stage != "tunnel":
                raise HarnessProblem(f"CONNECT received but the scripted outcome is {o}")
            self.consume(None)
            self.ev("fault", stage="tunnel", kind=kind)
            return vnet.Reply(vnet.http_response(407, b"", reason="Proxy Authentication Required", keepalive=False),
                              close=True)
        if not self.open_att:
            raise HarnessProblem(f"request received outside an attempt ({o})")
        self.ev("msg", method=req.method, form="abs" if req.target.startswith("http://") else "origin")
        if stage == "recv" and kind in ("timeout", "reset"):
            exc = socket.timeout("timed out") if kind == "timeout" else ConnectionResetError(errno.ECONNRESET, "reset")
            self.pending_recv = (kind, exc)
            return vnet.Reply(silent=True)
        if stage == "recv":
            self.consume(None)
            self.ev("reply", kind=kind)
            return vnet.Reply(data=b"" if kind == "eof" else b"garbage\r\n\r\n", close=True)
        if stage != "status":
            raise HarnessProblem(f"request reached the server but the scripted outcome is {o}")
        keep = self.cfg["ka"] == "keep" and OUTCOMES[self.nxt()][0] not in ("connect", "tunnel")
        self.consume(None)
        self.ev("reply", kind="resp", status=status, ra=ra)
        if len(OUTCOMES[o]) > 4:      # HTTP-date relative to the virtual clock urllib3.util.retry reads
            hs = [("Retry-After", email.utils.formatdate(self.now + OUTCOMES[o][4], usegmt=True))]
        else:
            hs = [("Retry-After", str(ra // 1000))] if ra >= 0 else []
        return vnet.Reply(vnet.http_response(status, b"body-%d" % status, headers=hs, keepalive=keep), close=not keep)


class SleepRecorder:
    """Stands in for the `time` module inside urllib3.util.retry."""

    def __init__(self, drv, real):
        self.drv, self.real = drv, real

    def sleep(self, x):
        ms = int(max(-2_000_000_000, min(2_000_000_000, math.ceil(float(x) * 1000 - 1e-6))))
        self.drv.ev("sleep", lo=ms, hi=ms)
        if x < 0:                      # exactly what time.sleep does
            raise ValueError("sleep length must be non-negative")
        self.drv.now += float(x)

    def time(self):
        return self.drv.now

    def __getattr__(self, name):
        return getattr(self.real, name)


def execute(cfg, seq):
    """Run one scenario on the real code; returns the trace {cfg, seq (consumed), ev}."""
    import urllib3
    import urllib3.util.retry as ur
    from urllib3 import exceptions as ex
    from urllib3.util.retry import Retry

    drv = Driver(cfg, seq)
    arg = retries_arg(cfg)
    pool_arg = arg if cfg["level"] == "pool" else None
    req_arg = arg if cfg["level"] == "request" else None
    before = (_snapshot(arg), _snapshot(Retry.DEFAULT))
    body = b"x=1" if cfg["method"] in ("POST", "PUT") else None
    timeout = urllib3.Timeout(connect=2.0, read=3.0)
    real_time = ur.time
    ur.time = SleepRecorder(drv, real_time)
    problem = None
    try:
        with vnet.Net(drv.responder, scripts=drv.script):
            if cfg["route"] == "direct":
                pool = urllib3.HTTPConnectionPool("a.test", 80, timeout=timeout, retries=pool_arg)
                url, kw = "/x", {}
            else:
                pm = urllib3.ProxyManager(PROXY_URL, proxy_headers={"Proxy-Authorization": "Basic eA=="},
                                          timeout=timeout, retries=pool_arg)
                if cfg["route"] == "forward":
                    pool = pm.connection_from_url("http://a.test/x")
                    url, kw = "http://a.test/x", {"assert_same_host": False, "redirect": False}
                else:
                    pool = pm.connection_from_url("https://a.test/x")
                    url, kw = "/x", {"redirect": False}
            pool_before = _snapshot(pool.retries)
            end = None
            try:
                r = pool.urlopen(cfg["method"], url, body=body, retries=req_arg, **kw)
                rt = r.retries
                end = dict(kind="response", status=int(r.status),
                           rt=[_enc(rt.total), _enc(rt.connect), _enc(rt.read), _enc(rt.status), _enc(rt.other)]
                           if isinstance(rt, Retry) else [])
            except ex.MaxRetryError as e:
                end = dict(kind="maxretry", fam=family(e.reason), carries=_carries(drv, e.reason))
            except ex.HTTPError as e:
                end = dict(kind="raise", fam=family(e), carries=_carries(drv, e))
            except Runaway:
                end = dict(kind="runaway")
            except (HarnessProblem, vnet.HarnessStall) as e:
                problem = f"{type(e).__name__}: {e}"
                end = dict(kind="raw", fam="x:" + type(e).__name__)
            except Exception as e:   # anything that is not a urllib3 error
                end = dict(kind="raw", fam="x:" + type(e).__name__, carries=_carries(drv, e))
            same = (before == (_snapshot(arg), _snapshot(Retry.DEFAULT))) and pool_before == _snapshot(pool.retries)
            drv.ev("end", same=bool(same), **end)
            pool.close()
    finally:
        ur.time = real_time
    tr = {"cfg": cfg, "seq": drv.consumed, "ev": drv.events}
    if problem:
        tr["problem"] = problem
    return tr


def _carries(drv, exc):
    """Does the exception that reached the caller carry the LAST cause (ground truth from the driver)?"""
    from urllib3 import exceptions as ex
    if drv.last is None:
        return "no"
    stage, kind, status, injected = drv.last
    ch = chain(exc)
    if injected is not None:
        return "yes" if any(e is injected for e in ch) else "no"
    if stage == "recv" and kind == "eof":
        return "yes" if any(isinstance(e, http.client.RemoteDisconnected) for e in ch) else "no"
    if stage == "recv" and kind == "garbage":
        return "yes" if any(isinstance(e, http.client.BadStatusLine) for e in ch) else "no"
    if stage == "tunnel":
        return "yes" if any(isinstance(e, OSError) and "Tunnel connection failed" in str(e) for e in ch) else "no"
    if stage == "status":
        return "yes" if isinstance(exc, ex.ResponseError) and str(status) in str(exc) else "no"
    return "no"


def observed(tr):
    """The observations the emitted expectations speak about."""
    ev = tr["ev"]
    end = ev[-1]
    return {"n": sum(1 for e in ev if e["ev"] == "att"), "msgs": sum(1 for e in ev if e["ev"] == "msg"),
            "sl": [[e["lo"], e["hi"]] for e in ev if e["ev"] == "sleep"], "endk": end["kind"], "ends": end["status"],
            "endf": end["fam"], "rt": end["rt"]}


def expectation_met(sc, tr):
    o = observed(tr)
    if tr["seq"] != sc["seq"]:
        return "outcomes consumed %s, model %s" % (tr["seq"], sc["seq"])
    for k in ("n", "msgs", "endk", "ends", "endf", "rt"):
        if o[k] != sc[k]:
            return f"{k}: observed {o[k]}, model {sc[k]}"
    if len(o["sl"]) != len(sc["sl"]):
        return f"sleeps: observed {o['sl']}, model {sc['sl']}"
    for (lo, hi), (mlo, mhi) in zip(o["sl"], sc["sl"]):
        if not (mlo <= lo and hi <= mhi):
            return f"sleeps: observed {o['sl']}, model {sc['sl']}"
    return None


# ------------------------------------------------------------------------------ TLC: configurations / runs

MC_CFG = """SPECIFICATION MCSpec
CONSTANTS Cfgs <- NoCfgs
  Family <- {family}
  DT <- {dt}
  DCR <- {dcr}
  DSO <- {dso}
  DFlag <- {dflag}
  DRoutes <- {routes}
  OnlyBounded = {bounded}
  Outcomes <- {outcomes}
  MaxLen = {maxlen}
  KnownDefects <- {defects}
  TrackTrail = FALSE
{view}
{checks}
CHECK_DEADLOCK FALSE
"""
EMIT_CFG = """SPECIFICATION Spec
CONSTANTS Cfgs <- FileCfgs
  Family <- FamAll
  DT <- TQuick
  DCR <- CRQuick
  DSO <- SOQuick
  DFlag <- JustTrue
  DRoutes <- RBoth
  OnlyBounded = FALSE
  Outcomes <- EmitOutcomes
  MaxLen = {maxlen}
  KnownDefects <- {defects}
  TrackTrail = TRUE
ACTION_CONSTRAINT EmitSC
CHECK_DEADLOCK FALSE
"""
TRACE_CFG = """SPECIFICATION TSpec
CONSTANTS Cfgs <- Nothing
  Outcomes <- AllOutcomes
  MaxLen = 0
  KnownDefects <- Nothing
  TrackTrail = FALSE
CHECK_DEADLOCK FALSE
"""


def mc_cfg(checks, view=True, **kw):
    d = dict(family="FamAll", dt="TQuick", dcr="CRQuick", dso="SOQuick", dflag="JustTrue", routes="RDirect",
             outcomes="OutcomesCore", maxlen=3, defects="NoDefects", bounded="FALSE")
    d.update(kw)
    lines = "\n".join(("PROPERTY " if c == "Terminates" else "INVARIANT ") + c for c in checks)
    return MC_CFG.format(view="VIEW View" if view else "", checks=lines, **d)


def stage1(rep, quick):
    dummy = {"files": {"cfgs.json": "[]"}, "env": {"CFG_FILE": "cfgs.json"}}
    # (a) the repaired design satisfies every clause
    plans = [("design", dict(outcomes="OutcomesTiny"), INVARIANTS)]
    if not quick:
        plans = [("design/full-counters", dict(dt="TFull", dcr="CRFull", dso="SOFull", maxlen=5), INVARIANTS),
                 ("design/flags+routes", dict(dflag="BOOLEAN", routes="RBoth"), INVARIANTS)]
    for name, kw, checks in plans:
        r = tlc.run("MC_Retry", mc_cfg(checks, **kw), workers="auto", heap="3g", timeout=7200, expect_fail=True, **dummy)
        rep.add_tlc(f"MC_Retry {name}", r)
        if r.error:
            raise tlc.MachineryError(f"stage 1 ({name}): {r.error}\n{r.out[-2000:]}")
        if r.violated:
            rep.violation("DesignViolatesRules", f"TLC: {r.violated} violated by the Model ({name})",
                          {"kind": "stage1", "run": name})
    # (b) vacuity: every action of the Model fires (coverage of a small run)
    r = tlc.run("MC_Retry", mc_cfg(["InvRules"], family="FamSmall", maxlen=2, routes="RBoth"), workers="auto", heap="2g",
                timeout=3600, coverage=True, **dummy)
    cov = {a: r.coverage.get(a, (0, 0)) for a in ACTIONS}
    rep.extra["action_coverage"] = {a: list(v) for a, v in cov.items()}
    dead = [a for a, v in cov.items() if v[1] == 0]
    if dead:
        raise tlc.MachineryError(f"stage 1: actions never taken (vacuous model): {dead}")
    rep.add_tlc("MC_Retry coverage", r)
    # (c) the named deviation RetryAfterNotClamped (a Retry-After date in the past slept unclamped) is REFUTED by
    #     the Rules: TLC must report SleepsInRange, and nothing before it
    dev = dict(family="FamSmall", routes="RDirect", defects="DefectUnclamped", outcomes="OutcomesTiny")
    r = tlc.run("MC_Retry", mc_cfg(["InvSleepsInRange"], **dev), workers=2, heap="2g", timeout=3600, expect_fail=True, **dummy)
    r2 = tlc.run("MC_Retry", mc_cfg(["InvOnlyUnclampedSignature"], maxlen=2, **dev), workers="auto", heap="2g", timeout=3600,
                 expect_fail=True, **dummy)
    rep.add_tlc("MC_Retry RetryAfterNotClamped (signature only)", r2)
    rep.extra["deviation_refuted"] = {"RetryAfterNotClamped": r.violated, "beyond_signature": r2.violated}
    if r.violated != ["InvSleepsInRange"] or r2.violated or r2.error:
        raise tlc.MachineryError(f"stage 1: the deviation RetryAfterNotClamped should break SleepsInRange (and only that "
                                 f"first); TLC reported {r.violated} / {r2.violated} {r2.error}")
    # (d) termination under weak fairness, environment unconstrained (MaxLen beyond every budget)
    r = tlc.run("MC_Retry", mc_cfg(["Terminates", "InvWireBound"], view=False, maxlen=7, bounded="TRUE", outcomes="OutcomesTiny",
                                   **(dict(dcr="CRMini", dso="SOSmall") if quick else dict(routes="RBoth"))),
                workers="auto", heap="3g", timeout=7200, expect_fail=True, **dummy)
    rep.add_tlc("MC_Retry liveness", r)
    if r.error:
        raise tlc.MachineryError(f"stage 1 (liveness): {r.error}\n{r.out[-2000:]}")
    if r.violated:
        rep.violation("DesignViolatesRules", f"TLC: {r.violated} violated by the Model (liveness)",
                      {"kind": "stage1", "run": "liveness"})


def validate(traces):
    """Batch trace validation by TLC: [(tid, pos, clause, model verdict, model pos)]."""
    slim = [{"cfg": t["cfg"], "seq": t["seq"], "ev": t["ev"]} for t in traces]
    r = tlc.run("Retry_Trace", TRACE_CFG, workers=1, files={"traces.json": json.dumps(slim)},
                env={"TRACE_FILE": "traces.json"}, timeout=7200, heap="3g")
    vs = tlc.tagged_tuples(r.out, "VERDICT")
    if len(vs) != len(traces) or any(len(v) != 5 for v in vs) or sorted(v[0] for v in vs) != list(range(1, len(traces) + 1)):
        raise tlc.MachineryError(f"trace validation produced {len(vs)} verdicts for {len(traces)} traces\n{r.out[-2000:]}")
    return r, sorted(vs)


def nontrivial_key(tr):
    """A trace is non-trivial when at least one fault or retryable status was applied and a retry decision made."""
    c = tr["cfg"]
    return json.dumps([c["id"], tr["seq"]])


def judge(traces, verdicts):
    """Turn TLC's verdicts into results: list of dicts (kind violation|known|drift|problem)."""
    out = []
    for tr, (tid, pos, clause, mv, mpos) in zip(traces, verdicts):
        case = {"kind": "scenario", "cfg": tr["cfg"], "seq": tr["seq"], "scripted": tr.get("scripted", tr["seq"])}
        if tr.get("problem"):
            out.append({"kind": "problem", "what": tr["problem"], "case": case})
            continue
        if clause == "Accounted":
            out.append({"kind": "problem", "what": f"monitor could not account for an attempt at event {pos}", "case": case})
            continue
        if clause != "ok":
            facts = {"route": tr["cfg"]["route"], "clause": clause, "model": mv, "last_outcome": (tr["seq"] or [""])[-1]}
            out.append({"kind": "bad", "clause": clause, "facts": facts, "case": case,
                        "what": f"{clause} fails at event {pos} of the recorded trace: cfg={_short(tr['cfg'])} "
                                f"outcomes={tr['seq']} events={_brief(tr['ev'][:pos])}"})
        if mv == "drift":
            out.append({"kind": "drift", "case": case,
                        "what": f"trace is not a behaviour of the Model (event {mpos}): cfg={_short(tr['cfg'])} "
                                f"outcomes={tr['seq']} events={_brief(tr['ev'])}"})
    return out


def _short(c):
    p = {k: c[k] for k in ("how", "level", "method", "route", "total", "connect", "read", "status", "other", "allowed",
                           "forcelist", "ros", "respect", "factor", "bmax", "jitter", "ka")}
    return json.dumps(p, separators=(",", ":"))


def _brief(evs):
    out = []
    for e in evs:
        if e["ev"] == "att":
            out.append("att" + ("+dial" if e["newconn"] else ""))
        elif e["ev"] == "msg":
            out.append("msg:" + e["method"])
        elif e["ev"] == "fault":
            out.append(f"fault:{e['stage']}/{e['kind']}")
        elif e["ev"] == "reply":
            out.append(f"reply:{e['kind']}" + (f"/{e['status']}" if e["status"] else "") + (f"/ra={e['ra']}" if e["ra"] >= 0 else ""))
        elif e["ev"] == "sleep":
            out.append(f"sleep:{e['lo']}")
        else:
            out.append(f"end:{e['kind']}" + (f"/{e['status']}" if e["status"] else "") + (f"/{e['fam']}" if e["fam"] else "")
                       + ("" if e["same"] else "/caller-retry-mutated") + ("/last-cause-missing" if e["carries"] == "no" else ""))
    return " ".join(out)


def _emit_shard(args):
    """One shard: TLC emits the scenarios of its configurations; each is executed at once; traces validated."""
    cfgs, maxlen, outcomes, defects, batch = args
    by_id = {c["id"]: c for c in cfgs}
    stats = {"emitted": 0, "executed": 0, "events": 0, "exp_mismatch": 0, "exp_mismatch_samples": [], "results": [],
             "nontrivial": [], "samples": [], "traces": 0, "features": {}}
    pending = []

    def flush():
        if not pending:
            return
        traces = [t for _, t in pending]
        _, vs = validate(traces)
        stats["traces"] += len(traces)
        for (sc, tr), v in zip(pending, vs):
            mm = sc.get("_mismatch")
            if mm and v[3] != "drift":     # TLC accepts the trace as a Model behaviour, yet the emitted expectation differs
                stats["results"].append({"kind": "drift", "what": "emitted expectation not met although TLC accepts "
                                         "the trace as a Model behaviour: " + mm,
                                         "case": {"kind": "scenario", "cfg": tr["cfg"], "seq": tr["seq"],
                                                  "scripted": sc["seq"]}})
        stats["results"] += judge(traces, vs)
        del pending[:]

    def on_line(ln):
        if not ln.startswith('<<"SC"'):
            return False
        for sc in tlc.tagged_json(ln, "SC"):
            stats["emitted"] += 1
            cfg = by_id[sc["id"]]
            tr = execute(cfg, sc["seq"])
            tr["scripted"] = sc["seq"]
            stats["executed"] += 1
            stats["events"] += len(tr["ev"])
            for ft in features(tr):
                stats["features"][ft] = stats["features"].get(ft, 0) + 1
            mm = expectation_met(sc, tr)
            if mm:
                stats["exp_mismatch"] += 1
                sc["_mismatch"] = mm
                if len(stats["exp_mismatch_samples"]) < 3:
                    stats["exp_mismatch_samples"].append({"cfg": _short(cfg), "seq": sc["seq"], "why": mm})
            if any(OUTCOMES[o][0] != "status" or OUTCOMES[o][2] != 200 for o in tr["seq"]):
                stats["nontrivial"].append(nontrivial_key(tr))
            if len(stats["samples"]) < 2 and len(tr["seq"]) >= 2:
                stats["samples"].append({"scenario": {"cfg": _short(cfg), "seq": sc["seq"], "expected": {
                    k: sc[k] for k in ("n", "msgs", "sl", "endk", "ends", "endf", "rt")}}, "trace": _brief(tr["ev"])})
            pending.append((sc, tr))
            if len(pending) >= batch:
                flush()
        return True

    text = EMIT_CFG.format(maxlen=maxlen, defects=defects).replace("EmitOutcomes", outcomes)
    r = tlc.run("MC_Retry", text, workers=1, heap="2g", timeout=14400, on_line=on_line,
                files={"cfgs.json": json.dumps(cfgs)}, env={"CFG_FILE": "cfgs.json"})
    flush()
    stats["tlc"] = {"generated": r.generated, "distinct": r.distinct, "wall": round(r.wall, 1)}
    return stats


def _random_shard(args):
    """Seeded random scenarios beyond the enumeration bound, executed and validated."""
    seed, n, maxlen = args
    rng = random.Random(seed)
    traces = []
    for k in range(n):
        if rng.random() < 0.12:
            cfg = dict(rng.choice(tunnel_cfgs()))
            seq = [rng.choice(TUNNEL) for _ in range(rng.randint(1, maxlen))]
        elif rng.random() < 0.15:
            cfg = dict(rng.choice(form_cfgs()))
            seq = [rng.choice(PLAIN) for _ in range(rng.randint(1, maxlen))]
        else:
            cfg = base_cfg(**{nm: rng.choice(v) for nm, v in DOM.items()})
            seq = [rng.choice(PLAIN) for _ in range(rng.randint(1, maxlen))]
        cfg["id"] = 100000 + k
        tr = execute(cfg, seq)
        tr["scripted"] = seq
        traces.append(tr)
    _, vs = validate(traces)
    res = judge(traces, vs)
    return {"n": n, "events": sum(len(t["ev"]) for t in traces), "results": res,
            "features": sorted(set().union(*[features(t) for t in traces])),
            "nontrivial": [nontrivial_key(t) for t in traces if len(t["seq"]) > 1],
            "sample": {"random_scenario": {"cfg": _short(traces[0]["cfg"]), "seq": traces[0]["scripted"]},
                       "trace": _brief(traces[0]["ev"])}}


def _collect(rep, results, findings):
    nk = 0
    for r in results:
        if r["kind"] == "bad":
            f = known.match(findings, r["facts"])
            if f is not None:
                rep.known.append((f["id"], f["what"]))
                nk += 1
                if "known_sample" not in rep.extra:
                    rep.extra["known_sample"] = r["what"]
            else:
                rep.violation(r["clause"], r["what"], r["case"])
        elif r["kind"] == "drift":
            rep.drift.append(r["what"])
        elif r["kind"] == "problem":
            raise tlc.MachineryError(f"harness problem: {r['what']} in {json.dumps(r['case'])[:600]}")
    return nk


def run(rep):
    quick = rep.tier == "quick"
    rng = random.Random(rep.seed * 7919 + 4)
    findings = known.load("C04")
    rep.rule = ("stage 2-4: a scenario = (Retry configuration, method, route) x outcome sequence; every history TLC "
                "emits for the sampled configurations (pairwise cover + seeded sample) is executed on the real "
                "urlopen and its recorded trace validated by TLC; a case is non-trivial when at least one fault or "
                "non-200 response was applied (so a retry decision was taken); distinct = distinct (configuration, "
                "applied outcome sequence)")
    rep.assumptions = ["faults are injected at connect / first send / first receive of an attempt (not mid-body)",
                       "CONNECT-tunnel route: only pre-send refusals (no TLS party); TLS handshake failures not exercised",
                       "http.client's own request/response state machine is part of the system as used",
                       "TLC 1.8 and CPython are trusted"]
    stage1(rep, quick)
    J = jobs()
    if quick:
        cfgs = sample_cfgs(rng, n_random=30, n_forms=24, n_tunnel=10)
        plans = [(cfgs, 3, "OutcomesEmit", "NoDefects")]
    else:
        cfgs = sample_cfgs(rng, n_random=420, n_forms=400, n_tunnel=128)
        deep = [dict(c) for c in cfgs if bounded(c)][:160]
        plans = [(cfgs, 3, "OutcomesAll", "NoDefects"), (deep, 5, "OutcomesTiny", "NoDefects")]
    rep.extra["configurations"] = len(cfgs)
    totals = {"emitted": 0, "executed": 0, "exp_mismatch": 0, "events": 0}
    feats = {f: 0 for f in FEATURES}
    known_hits = 0
    with mp.Pool(J) as pool:
        for pcfgs, maxlen, outs, defects in plans:
            order = sorted(pcfgs, key=lambda c: (c["id"] * 2654435761) % 1000003)
            k = max(1, min(len(order), J * 2))
            shards = [order[i::k] for i in range(k)]
            outsr = pool.map(_emit_shard, [(s, maxlen, outs, defects, 4000) for s in shards], chunksize=1)
            for o in outsr:
                if o["emitted"] != o["executed"] or o["traces"] != o["executed"]:
                    raise tlc.MachineryError(f"emitted {o['emitted']} scenarios, executed {o['executed']}, validated {o['traces']}")
                if o["emitted"] == 0:
                    raise tlc.MachineryError("an emission shard produced no scenario")
                for kk in totals:
                    totals[kk] += o[kk]
                for ft, n in o["features"].items():
                    feats[ft] = feats.get(ft, 0) + n
                rep.traces += o["traces"]
                rep.evaluations += o["executed"]
                rep.nontrivial.update(o["nontrivial"])
                for s in o["samples"][:1]:
                    rep.sample(s, cap=4)
                known_hits += _collect(rep, o["results"], findings)
                rep.extra.setdefault("expectation_mismatch_samples", [])
                rep.extra["expectation_mismatch_samples"] = (rep.extra["expectation_mismatch_samples"] + o["exp_mismatch_samples"])[:3]
        # random leg beyond the bound
        nrand, per, rl = (600, 150, 6) if quick else (24000, 1500, 8)
        outsr = pool.map(_random_shard, [(rep.seed * 100003 + s, per, rl) for s in range(nrand // per)], chunksize=1)
        for o in outsr:
            rep.traces += o["n"]
            rep.evaluations += o["n"]
            totals["events"] += o["events"]
            rep.nontrivial.update(o["nontrivial"])
            for ft in o["features"]:
                feats[ft] = feats.get(ft, 0) + 1
            known_hits += _collect(rep, o["results"], findings)
        rep.sample(outsr[0]["sample"], cap=6)
    rep.extra.update({"scenarios_emitted": totals["emitted"], "scenarios_executed": totals["executed"],
                      "random_scenarios": nrand, "trace_events": totals["events"],
                      "expectation_mismatches": totals["exp_mismatch"],
                      "situations_covered": feats, "known_finding_traces": known_hits})
    missing = [f for f in FEATURES if not feats.get(f)]
    if missing:
        raise tlc.MachineryError(f"situations never reached by any executed scenario (vacuous run): {missing}")
    if totals["emitted"] < (1000 if quick else 50000):
        raise tlc.MachineryError(f"only {totals['emitted']} scenarios emitted")
    rep.exhaustive = True


def replay(rep, path):
    with open(path) as fh:
        doc = json.load(fh)
    case = doc["case"]
    rep.rule = "replay of one recorded case"
    if case.get("kind") == "stage1":
        stage1(rep, True)
        return
    tr = execute(case["cfg"], case.get("scripted") or case["seq"])
    _, vs = validate([tr])
    rep.traces += 1
    rep.evaluations += 1
    rep.nontrivial.update({1, 2})
    rep.states = rep.states or 1
    rep.transitions = rep.transitions or 1
    findings = known.load("C04")
    _collect(rep, judge([tr], vs), findings)
