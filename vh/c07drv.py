"""C07 driver: run ONE lattice point against the real urllib3 with a real TLS handshake and record
the facts the specification judges.  No verdict is computed here."""
from __future__ import annotations

import ssl
import warnings

from . import tlsnet

# ---- concrete values behind the abstract lattice levels (mirrored by name tables in TLSVerify.tla)
HOSTS = {"lower": "a.svc.test", "upper": "A.SVC.TEST", "dot": "a.svc.test.", "ipv4": "127.0.0.1",
         "ipv6zone": "[fe80::1%eth0]"}
URL_HOSTS = dict(HOSTS, ipv6zone="[fe80::1%25eth0]")
SANS = {"exact": (("a.svc.test",), None), "wildcard": (("*.svc.test",), None), "mismatch": (("other.test",), None),
        "ip_match": (("127.0.0.1", "fe80::1"), None), "ip_mismatch": (("127.0.0.2", "fe80::2"), None),
        "cn_only": ((), "a.svc.test")}
# the name "the certificate carries" used for assert_hostname / server_hostname = matching
CERTNAME = {"exact": "a.svc.test", "wildcard": "b.svc.test", "mismatch": "other.test", "ip_match": "127.0.0.1",
            "ip_mismatch": "127.0.0.2", "cn_only": "a.svc.test"}
NOMATCH = "nomatch.test"
REQS = {"default": None, "REQUIRED": "CERT_REQUIRED", "OPTIONAL": "CERT_OPTIONAL", "NONE": "CERT_NONE"}
PROXY_HOST = "proxy.test"

_AUTH = None
_BACKEND = "ssl"


def authority():
    global _AUTH
    if _AUTH is None:
        _AUTH = tlsnet.Authority()
    return _AUTH


def set_backend(backend):
    """Once per worker process.  pyOpenSSL is injected exactly the way users do it."""
    global _BACKEND
    if backend == "pyopenssl" and _BACKEND != "pyopenssl":
        import urllib3.contrib.pyopenssl as pyo
        pyo.inject_into_urllib3()
    elif backend == "ssl" and _BACKEND == "pyopenssl":
        import urllib3.contrib.pyopenssl as pyo
        pyo.extract_from_urllib3()
    _BACKEND = backend


def make_context(kind, backend, auth):
    """Caller-supplied SSLContext of the given kind (None for 'none')."""
    if kind == "none":
        return None
    if kind == "urllib3_ctx":
        # the documented way to obtain a context: urllib3's own factory (either backend)
        from urllib3.util.ssl_ import create_urllib3_context
        c = create_urllib3_context()
        c.load_verify_locations(cafile=auth.capath)
        return c
    if backend == "pyopenssl":
        # what a caller gets from urllib3's own factory while pyOpenSSL is injected
        from urllib3.util.ssl_ import create_urllib3_context
        c = create_urllib3_context(cert_reqs=ssl.CERT_NONE if kind == "mode_none" else ssl.CERT_REQUIRED)
        c.load_verify_locations(cafile=auth.capath)
        c.check_hostname = (kind == "default_like")      # a plain attribute on PyOpenSSLContext
        return c
    c = ssl.create_default_context(cafile=auth.capath)
    if kind in ("nocheck", "mode_none"):
        c.check_hostname = False
    if kind == "mode_none":
        c.verify_mode = ssl.CERT_NONE
    return c


def client_kwargs(p, auth, der, variant=0, ctx="make"):
    kw = {"timeout": 8.0}
    if ctx == "make":
        ctx = make_context(p["ctx"], p["backend"], auth)
    # how the configured CAs are supplied: a file, PEM text, a hashed directory, through the caller's
    # context (load_verify_locations done by the caller), or not at all (=> the default trust store)
    if (ctx is None) != (p["casrc"] != "ctx"):
        raise ValueError(f"lattice point outside the lattice: ctx={p['ctx']} casrc={p['casrc']}")
    if ctx is not None:
        kw["ssl_context"] = ctx
        if p["route"].startswith("tunnel_https"):
            kw["ca_certs"] = auth.capath      # the proxy leg builds its own context and needs the CA too
    elif p["casrc"] == "file":
        kw["ca_certs"] = auth.capath
    elif p["casrc"] == "data":
        # PEM text, or (bytes mean DER to the ssl module) the same certificate in DER
        kw["ca_cert_data"] = auth.cadata if variant % 2 else ssl.PEM_cert_to_DER_cert(auth.cadata)
    elif p["casrc"] == "dir":
        kw["ca_cert_dir"] = auth.cadir
    if REQS[p["reqs"]] is not None:
        kw["cert_reqs"] = REQS[p["reqs"]] if variant % 3 else getattr(ssl, REQS[p["reqs"]])
    if p["ah"] == "False":
        kw["assert_hostname"] = False
    elif p["ah"] == "match":
        kw["assert_hostname"] = CERTNAME[p["san"]]
    elif p["ah"] == "mismatch":
        kw["assert_hostname"] = NOMATCH
    pin = tlsnet.pins(der)
    if p["fp"] == "right":
        kw["assert_fingerprint"] = pin[("sha256", "sha256_colon_upper", "sha1", "md5")[variant % 4]]
    elif p["fp"] == "wrong":
        kw["assert_fingerprint"] = pin[("wrong_tail", "wrong_other")[variant % 2]]
    elif p["fp"] == "badlen":
        kw["assert_fingerprint"] = pin["badlen"]
    if p["sh"] == "match":
        kw["server_hostname"] = CERTNAME[p["san"]]
    elif p["sh"] == "mismatch":
        kw["server_hostname"] = NOMATCH
    return kw


def exc_chain(e):
    """Class names along .reason / __cause__ / __context__ / args[0] (outermost first)."""
    out, seen = [], set()
    while e is not None and id(e) not in seen and len(out) < 8:
        seen.add(id(e))
        out.append(type(e).__module__ + "." + type(e).__qualname__)
        nxt = getattr(e, "reason", None)
        if not isinstance(nxt, BaseException):
            nxt = e.__cause__ or (e.args[0] if e.args and isinstance(e.args[0], BaseException) else None) or e.__context__
        e = nxt
    return out


HTTPS_PROXY_ROUTES = ("tunnel_https_good", "tunnel_https_bad", "tunnel_https_pinned", "tunnel_https_shared",
                      "tunnel_https_shared_pah")
GOOD = {"issuer": "trusted", "san": "exact", "host": "lower"}     # the server of an EARLIER connection


def _plan_and_proxy_kw(route, auth, origin, ctx, variant, good_proxy=False):
    """Server-side plan for a route + the proxy-related client keywords."""
    plan, kw = {"origin": origin, "proxy": None}, {}
    if route == "tunnel_http":
        plan["proxy"] = "http"
    elif route in HTTPS_PROXY_ROUTES:
        plan["proxy"] = "https"
        bad = route.endswith("bad") and not good_proxy
        plan["proxy_leaf"] = auth.leaf("untrusted" if bad else "trusted", (PROXY_HOST,), None)
        if route == "tunnel_https_pinned":
            kw["proxy_assert_fingerprint"] = tlsnet.pins(plan["proxy_leaf"][1])[("sha256", "sha256_colon_upper")[variant % 2]]
        if route.startswith("tunnel_https_shared"):
            if ctx is not None:
                kw["proxy_ssl_context"] = ctx            # ONE object for both legs
            if route.endswith("_pah"):
                kw["proxy_assert_hostname"] = PROXY_HOST
    return plan, kw


def prior_connection(p, auth, ctx, variant):
    """History of the caller's context object: one earlier request through the SAME object, with
    assert_hostname=<name> (after_ah) or the right pin (after_fp), same cert_reqs and route kind, to a
    good server behind a good proxy.  Recorded, not judged."""
    import urllib3
    sans, cn = SANS[GOOD["san"]]
    origin = auth.leaf("trusted", sans, cn)
    q = dict(p, ah="match" if p["hist"] == "after_ah" else "unset", fp="right" if p["hist"] == "after_fp" else "unset",
             sh="unset", **GOOD)
    kw = client_kwargs(q, auth, origin[1], variant, ctx=ctx)
    plan, pkw = _plan_and_proxy_kw(p["route"], auth, origin, ctx, variant, good_proxy=True)
    kw.update(pkw)
    out = {"status": 0, "exc": []}
    net = tlsnet.TLSNet(plan)
    pm = None
    with warnings.catch_warnings(), net:
        warnings.simplefilter("ignore")
        try:
            if p["route"] == "direct":
                pm = urllib3.PoolManager(retries=False, **kw)
            else:
                scheme = "https" if plan["proxy"] == "https" else "http"
                pm = urllib3.ProxyManager(f"{scheme}://{PROXY_HOST}:3128", retries=False, **kw)
            out["status"] = pm.urlopen("GET", f"https://{URL_HOSTS['lower']}/").status
        except Exception as e:  # noqa: BLE001 - recorded
            out["exc"] = exc_chain(e)
        out["joined"] = net.wait(14.0)
    try:
        if pm is not None:
            pm.clear()
    except Exception:  # noqa: BLE001
        pass
    out["check_hostname_after"] = bool(getattr(ctx, "check_hostname", False))
    return out


def run_point(p, variant=0, no_retry=False):
    """Execute lattice point p (dict of level names) once.  Returns the observation record."""
    import urllib3
    from urllib3.connection import HTTPSConnection
    from urllib3.exceptions import HTTPError, InsecureRequestWarning

    auth = authority()
    if p["backend"] != _BACKEND:
        raise RuntimeError(f"worker backend {_BACKEND} cannot run point for {p['backend']}")
    sans, cn = SANS[p["san"]]
    origin = auth.leaf(p["issuer"], sans, cn)
    route = p["route"]
    ctx = make_context(p["ctx"], p["backend"], auth)
    prior = None
    if p.get("hist", "fresh") != "fresh" and ctx is not None and p["backend"] == "ssl":
        # (a pyOpenSSL caller context cannot serve a second connection at all: finding C07-F2)
        prior = prior_connection(p, auth, ctx, variant)
    plan, pkw = _plan_and_proxy_kw(route, auth, origin, ctx, variant)
    kw = client_kwargs(p, auth, origin[1], variant, ctx=ctx)
    kw.update(pkw)
    seen = []

    class RecConn(HTTPSConnection):
        def connect(self):
            try:
                super().connect()
            finally:
                seen.append({"at": "connect", "v": bool(self.is_verified), "pv": self.proxy_is_verified})

        def request(self, *a, **k):
            seen.append({"at": "request", "v": bool(self.is_verified), "pv": self.proxy_is_verified})
            return super().request(*a, **k)

    obs = {"status": None, "exc": [], "exc_msg": "", "stage": "build", "prior": prior}
    pool = pm = None
    net = tlsnet.TLSNet(plan)
    with warnings.catch_warnings(record=True) as w, net:
        warnings.simplefilter("always")
        try:
            # API variants (not lattice dimensions): bare pool or PoolManager; retries off or one retry
            retries = False if (variant % 4 or no_retry) else 1
            obs["api"] = {"retries": retries, "via": "pool"}
            if route == "direct" and variant % 3 != 2:
                pool = urllib3.HTTPSConnectionPool(HOSTS[p["host"]], 443, retries=retries, **kw)
                pool.ConnectionCls = RecConn
                obs["stage"] = "request"
                r = pool.urlopen("GET", "/")
            else:
                if route == "direct":
                    pm = urllib3.PoolManager(retries=retries, **kw)
                    obs["api"]["via"] = "poolmanager"
                else:
                    scheme = "https" if plan["proxy"] == "https" else "http"
                    pm = urllib3.ProxyManager(f"{scheme}://{PROXY_HOST}:3128", retries=retries, **kw)
                    obs["api"]["via"] = "proxymanager"
                pool = pm.connection_from_host(URL_HOSTS[p["host"]].replace("%25", "%"), 443, "https")
                pool.ConnectionCls = RecConn
                obs["stage"] = "request"
                r = pm.urlopen("GET", f"https://{URL_HOSTS[p['host']]}/")
            obs["status"] = r.status
            obs["body_ok"] = (r.data == b"ok")
        except HTTPError as e:
            obs["exc"], obs["exc_msg"] = exc_chain(e), str(e)[:160]
            held = e  # noqa: F841 - keep the traceback alive: closing must not depend on garbage collection
        except Exception as e:  # noqa: BLE001 - recorded; classified by the specification
            obs["exc"], obs["exc_msg"] = exc_chain(e), str(e)[:160]
            held = e  # noqa: F841
        # ground truth from the server side, taken BEFORE the harness closes or drops anything
        obs["joined"] = net.wait(14.0)
        obs["conns"] = net.records()
        obs["seen"] = seen
        obs["warned"] = any(issubclass(x.category, InsecureRequestWarning) for x in w)
        obs["warnings"] = sorted({x.category.__name__ for x in w})
    try:
        if pm is not None:
            pm.clear()
        elif pool is not None:
            pool.close()
    except Exception:  # noqa: BLE001
        pass
    held = None  # noqa: F841
    return obs
