"""C02 - concurrent requests never share a connection, exceed maxsize, or deadlock.

stage 1  TLC checks spec/PoolConc.tla (statement-level model of _get_conn / _put_conn / close() with
         2-3 request threads and an optional closer thread) for every Rules clause as INVARIANT lines
         and the liveness PROPERTY under weak fairness; named deviations must each break the clause
         they aim at (anti-vacuity); action coverage is read back.
stage 2  TLC emits every distinct ordering of critical events (test / load / qget / qput / swap per
         thread) with the outcomes the model expects; each ordering is replayed *directed* on the
         real pool under the deterministic scheduler (vh/sched.py) and the observations compared
         (a mismatch is MODEL-DRIFT, never by itself a violation).
stage 3  independently: stateless bounded-preemption DFS over schedules of the real code, plus
         VERIF_SEED-randomised deep schedules.
stage 4  the event trace of EVERY executed schedule (stages 2 and 3) is validated by TLC against
         spec/PoolConc_Trace.tla - the same Rules operators, total monitor naming the failing clause
         (each worker task validates its own batch; the verdict on a schedule is TLC's, never Python's).
"""
from __future__ import annotations

import collections
import json
import multiprocessing as mp
import os
import random
import re
import threading
import time
from concurrent.futures import ThreadPoolExecutor

from . import known, tlc

J = max(1, int(os.environ.get("VERIF_JOBS") or os.cpu_count() or 4))   # size of every process pool
JVMS = max(1, J // 2)                                                    # TLC JVMs running side by side
TW = min(2, J)                                                           # workers of a stage-1 TLC run

RULES = ["ExclusiveUse", "NotPooledWhileUsed", "NoDuplicate", "BlockBound", "OwnResponse", "ClosedPoolOutcome",
         "ClosedAndDroppedLeavesNothing"]

MC_CFG = """SPECIFICATION Spec
CONSTANTS NThreads = {nt}
  HasCloser = {closer}
  MaxSize = {m}
  Block = {block}
  Reqs = {reqs}
  Streaming = {stream}
  Outcomes = {outcomes}
  MaxFails = 1
  MaxConn <- MCMaxConn
  Deviations = {dev}
  Repairs = {rep}
  KeepHist = {keep}
{props}
CHECK_DEADLOCK FALSE
"""
TRACE_CFG = """SPECIFICATION TSpec
CONSTANTS NThreads = {nt}
  HasCloser = {closer}
  MaxSize = {m}
  Block = {block}
  Reqs = 1
  Streaming = FALSE
  Outcomes = {{"ok"}}
  MaxFails = 1
  MaxConn = 1000
  Deviations = {{}}
  Repairs = {{}}
  KeepHist = FALSE
CHECK_DEADLOCK FALSE
"""
SAFETY = "INVARIANT TypeOK\n" + "".join(f"INVARIANT Inv_{c}\n" for c in RULES)


def B(x):
    return "TRUE" if x else "FALSE"


def S(xs):
    return "{" + ", ".join('"%s"' % x for x in xs) + "}"


def mc_cfg(nt=2, closer=False, m=1, block=True, reqs=1, stream=False, outcomes=("ok", "fail"), dev=(), repairs=(),
           keep=False, props=""):
    return MC_CFG.format(nt=nt, closer=B(closer), m=m, block=B(block), reqs=reqs, stream=B(stream),
                         outcomes=S(outcomes), dev=S(dev), rep=S(repairs), keep=B(keep), props=props)


# ------------------------------------------------------------------------------------------ stage 1

def _stage1_plans(quick):
    """(name, cfg kwargs, props, expected-violated list)"""
    plans = []
    live_ok = SAFETY + "INVARIANT Inv_NoHang\nPROPERTY EventuallyQuiescent\n"
    live_d8 = SAFETY + "INVARIANT Inv_HangOnlyD8\nPROPERTY QuiescentOrD8\n"
    if quick:
        # one of each kind on the smallest constants: no closer / closer x block
        grid = [(1, True, False, False, 2, ("ok", "okclose", "fail")), (2, False, False, True, 1, ("ok", "okclose", "fail", "partial")),
                (1, True, True, True, 1, ("ok", "fail", "partial")), (1, False, True, False, 1, ("ok", "fail"))]
    else:
        grid = []
        for m in (1, 2):
            for block in (True, False):
                for closer in (False, True):
                    stream = (m == 2) != closer
                    oc = ("ok", "okclose", "fail") if (closer or (m == 1 and block)) else ("ok", "fail")
                    grid.append((m, block, closer, stream, 1 if closer else 2, oc + (("partial",) if stream else ())))
    for m, block, closer, stream, reqs, outcomes in grid:
        kw = dict(nt=2, closer=closer, m=m, block=block, stream=stream, reqs=reqs, outcomes=outcomes)
        plans.append((f"as-is m={m} block={block} closer={closer} stream={stream}", kw,
                      live_d8 if (closer and block) else live_ok, []))
    # the hang of D8 is reproduced at design level, and the proposed repair removes it
    d8kw = dict(nt=2, closer=True, m=1, block=True, reqs=1, outcomes=("ok", "fail"))
    plans.append(("D8 as-is: EventuallyQuiescent must FAIL", d8kw, "PROPERTY EventuallyQuiescent\n", ["TemporalProperty"]))
    if not quick:
        plans.append(("D8 repaired (WakeOnClose)", dict(d8kw, repairs=("WakeOnClose",)), live_ok, []))
        plans.append(("D8 repaired (WakeOnClose) m=2 stream", dict(d8kw, m=2, stream=True, repairs=("WakeOnClose",)), live_ok, []))
        # ... but the sentinel repair is NOT sufficient: with two waiters on a maxsize=1 pool a late put into the
        # orphaned queue prevents the sentinel from being handed on and the second waiter still hangs
        plans.append(("D8 sentinel repair is insufficient with 3 threads", dict(nt=3, closer=True, m=1, block=True, reqs=1,
                      outcomes=("ok",), repairs=("WakeOnClose",)), "INVARIANT Inv_NoHang\n", ["Inv_NoHang"]))
    # deviations: every clause must be breakable (anti-vacuity of the invariants)
    nb = dict(nt=2, closer=True, m=1, block=False, reqs=1, outcomes=("ok",))
    plans.append(("dev D12", dict(nb, dev=("D12",)), SAFETY, ["Inv_ClosedPoolOutcome"]))
    plans.append(("dev NoAttrArm", dict(nb, dev=("NoAttrArm",)), SAFETY, ["Inv_ClosedPoolOutcome"]))
    plans.append(("dev DoublePut", dict(nt=2, m=2, block=False, reqs=2, outcomes=("ok",), dev=("DoublePut",)), SAFETY,
                  ["Inv_ExclusiveUse", "Inv_NotPooledWhileUsed", "Inv_NoDuplicate", "Inv_OwnResponse"]))
    plans.append(("dev NoClearConn", dict(nt=2, m=2, block=False, reqs=2, stream=True, outcomes=("ok",), dev=("NoClearConn",)),
                  SAFETY, ["Inv_ExclusiveUse", "Inv_NotPooledWhileUsed", "Inv_NoDuplicate", "Inv_OwnResponse"]))
    # a checkout that reads the queue reference by a statement of its own hangs OUTSIDE the recorded D8 class
    plans.append(("dev LoadOnce", dict(nt=2, closer=True, m=1, block=True, reqs=1, outcomes=("ok",), dev=("LoadOnce",)),
                  SAFETY + "INVARIANT Inv_HangOnlyD8\n", ["Inv_HangOnlyD8"]))
    # release_conn() of an unfinished response must close the connection BEFORE it puts it back
    plans.append(("dev PutBeforeClose", dict(nt=2, m=1, block=True, reqs=1, stream=True, outcomes=("ok", "partial"),
                                             dev=("PutBeforeClose",)), SAFETY, ["Inv_ExclusiveUse", "Inv_OwnResponse"]))
    # a close() that drains first and disables the pool afterwards strands checkouts OUTSIDE the recorded D8 class
    plans.append(("dev DrainThenDisable", dict(nt=1, closer=True, m=1, block=True, reqs=1, outcomes=("ok",),
                                               dev=("DrainThenDisable",)), SAFETY + "INVARIANT Inv_HangOnlyD8\n", ["Inv_HangOnlyD8"]))
    plans.append(("dev NoBlockRaise", dict(nt=2, m=1, block=True, reqs=1, outcomes=("ok",), dev=("NoBlockRaise",)), SAFETY,
                  ["Inv_BlockBound", "Inv_ClosedPoolOutcome"]))
    if not quick:
        for closer in (False, True):
            for block in (True, False):
                kw = dict(nt=3, closer=closer, m=1 if block else 2, block=block, reqs=1, stream=not block,
                          outcomes=("ok", "fail") if (block or not closer) else ("ok",))
                plans.append((f"as-is 3 threads block={block} closer={closer}", kw,
                              live_d8 if (closer and block) else live_ok, []))
        plans.append(("as-is 2x2 closer block=False", dict(nt=2, closer=True, m=1, block=False, reqs=2,
                                                           outcomes=("ok", "okclose", "fail")), live_ok, []))
        plans.append(("as-is 2x2 closer block=True", dict(nt=2, closer=True, m=1, block=True, reqs=2,
                                                          outcomes=("ok", "okclose", "fail")), live_d8, []))
    return plans


_COVLINE = re.compile(r"^<(\w+) line \d+, col \d+ to line \d+, col \d+ of module PoolConc \((\d+) (\d+) (\d+) (\d+)\)>: (\d+):(\d+)", re.M)


def _coverage(out):
    """Per-action (distinct, total) keyed by the source text of the action (Crit(G1(t), ...) etc.)."""
    with open(os.path.join(tlc.SPEC_DIR, "PoolConc.tla")) as fh:
        src = fh.read().splitlines()
    cov = {}
    for m in _COVLINE.finditer(out):
        ln, c0, c1 = int(m.group(2)), int(m.group(3)), int(m.group(5))
        text = src[ln - 1][c0 - 1:c1] if int(m.group(4)) == ln else m.group(1)      # the use site, e.g. Crit(G1(t), t, "test")
        a = re.search(r"\b(Start|G1|G2|G3S|G3|G4|Send|Recv|Fin|RespRead|RelClose|RespRelease|P2|P3Log|P3|P4|PEnd|End|C0|C1|C2|C3|Drop)\b", text)
        if a:
            d, t = cov.get(a.group(1), (0, 0))
            cov[a.group(1)] = (d + int(m.group(7)), t + int(m.group(6)))
    return cov


def _run_plan(plan):
    name, kw, props, expect = plan
    r = tlc.run("MC_PoolConc", mc_cfg(props=props, **kw), workers=TW, heap="3g", timeout=3000,
                expect_fail=True, coverage=not expect and "as-is" in name and kw.get("nt") == 2 and kw.get("m") == 1 and kw.get("block"))
    if r.error and "Temporal propert" in r.error:      # TLC 1.8 wording: "Temporal property X was violated."
        r.violated.append("TemporalProperty")
        r.error = None
    if r.error or not r.generated:
        raise tlc.MachineryError(f"stage 1 '{name}': TLC failed: {r.error}\n{r.out[-2500:]}")
    return name, kw, expect, r


def stage1(rep, quick):
    plans = _stage1_plans(quick)
    with ThreadPoolExecutor(JVMS) as ex:
        results = list(ex.map(_run_plan, plans))
    cov_all = collections.Counter()
    for name, kw, expect, r in results:
        rep.add_tlc(name, r)
        rep.stage1[-1]["violated"] = r.violated
        if expect:
            if not r.violated or not set(r.violated) <= set(expect):
                raise tlc.MachineryError(f"stage 1 '{name}': expected TLC to report one of {expect}, got {r.violated} "
                                         f"(the clause is vacuous or the model changed)\n{r.out[-1500:]}")
        else:
            for v in r.violated:
                rep.violation("Design:" + v, f"TLC: {v} violated on the design model, run '{name}'",
                              {"kind": "design", "plan": name, "tail": r.out[-4000:]})
            for a, (d, t) in _coverage(r.out).items():
                cov_all[a] += t
    need = ["Start", "G1", "G2", "G3", "G4", "Send", "Recv", "Fin", "RespRead", "RelClose", "RespRelease", "P2", "P3", "P4", "PEnd",
            "End", "C0", "C1", "C2", "Drop"]
    missing = [a for a in need if cov_all.get(a, 0) == 0]
    if missing:
        raise tlc.MachineryError(f"stage 1: model actions never taken (vacuous): {missing}; seen {dict(cov_all)}")
    rep.extra["action_coverage"] = dict(cov_all)
    rep.extra["stage1_runs"] = len(results)


# ------------------------------------------------------------------------------- configurations

def cfg_key(c):
    return (f"m{c['maxsize']}{'B' if c['block'] else 'N'}{'K' if c['closer'] else '-'}{'S' if c['stream'] else 'P'}"
            f"t{c['nthreads']}r{c['reqs']}" + "".join(f"[{k}:{','.join(v)}]" for k, v in sorted(c['script'].items())))


def group_key(c):
    return (c["nthreads"], bool(c["closer"]), c["maxsize"], bool(c["block"]))


def configurations(quick, seed):
    """maxsize {1,2} x block {T,F} x closer {F,T}; both response modes; every script has a failing attempt."""
    rng = random.Random(seed * 7919 + 13)
    out = []
    for m in (1, 2):
        for block in (True, False):
            for closer in (False, True):
                for stream in ((False, True) if not quick else ((m == 2) != closer,)):
                    nts = (2,) if quick else (2, 3)
                    if closer and block:
                        nts = (1,) + nts          # a single request thread racing close()
                    for nt in nts:
                        reqs = 1 if (closer or nt == 3) else 2
                        failing = str(rng.randint(1, nt))
                        script = {failing: ["fail", "ok"]}
                        if nt > 1:
                            other = str(rng.choice([t for t in range(1, nt + 1) if str(t) != failing]))
                            script[other] = ["partial"] if stream else (["okclose"] if reqs == 2 else ["ok"])
                        out.append(dict(maxsize=m, block=block, closer=closer, stream=stream, nthreads=nt, reqs=reqs,
                                        script=script, retries=1))
    return out


# ------------------------------------------------------------------------------ stage 3 (workers)

_PREPARED = {}


def _prep(dense):
    from . import c02drv
    if _PREPARED.get("dense") != dense:
        _PREPARED["points"] = c02drv.prepare(dense=dense)
        _PREPARED["dense"] = dense
    return c02drv


def _short(decisions):
    """Decision list -> compact string: T1 -> "1", K -> "K"."""
    return "".join(d[1:] if d.startswith("T") else d for d in decisions)


def _long(dec):
    return ["K" if ch == "K" else "T" + ch for ch in dec]


def _summ(cfg, r, kind):
    return {"cfg": cfg, "kind": kind, "decisions": r["decisions"], "events": r["events"], "deadlock": r["deadlock"],
            "pre": r["preemptions"], "stuck": r["stuck"]}


def _finish(ci, runs, dense):
    """Stage 4 inside the worker: validate the traces of this task with one TLC batch and return compact
    records (the event lists stay in the worker except for failing traces and a sample)."""
    if not runs:
        return []
    groups = collections.defaultdict(list)
    for i, s in enumerate(runs):
        groups[group_key(s["cfg"])].append({"id": i, "events": s["events"]})
    verdicts = {}
    for gk, trs in sorted(groups.items()):
        vs, _ = validate_group((gk, trs))
        for x in vs:
            verdicts[x[0]] = x[1:]
    if len(verdicts) != len(runs):
        raise tlc.MachineryError(f"trace validation returned {len(verdicts)} verdicts for {len(runs)} traces")
    out, kept = [], 0
    for i, s in enumerate(runs):
        v = verdicts[i]
        ev = s["events"]
        rec = {"ci": ci, "cfg": s["cfg"] if s["kind"] == "directed" else None, "kind": s["kind"], "dec": _short(s["decisions"]),
               "pre": s["pre"], "deadlock": s["deadlock"], "stuck": s["stuck"], "v": v, "nev": len(ev), "dense": dense,
               "cpe": any(e["e"] == "end" and e["out"] == "ClosedPoolError" for e in ev), "late": _late_put(ev),
               "mismatch": s.get("mismatch"), "events": None, "ordering": None}
        if (v[1] != "ok" or (s["pre"] >= 2 and s["cfg"]["closer"])) and kept < 3:
            kept += 1
            rec["events"] = [{k: x for k, x in e.items() if x not in (0, "", [])} for e in ev]
        if s["kind"] == "directed" and i < 2:
            rec["ordering"] = s["ordering"]
        out.append(rec)
    return out


def _prefix_preemptions(dec, en, upto):
    k = 0
    for j in range(1, upto):
        if dec[j] != dec[j - 1] and dec[j - 1] in en[j]:
            k += 1
    return k


def _children(prefix_len, r, bound):
    """Unexplored sibling prefixes of one executed schedule (stateless DFS)."""
    dec = r["decisions"]
    en = [s[2] for s in r["steps"]]
    out = []
    for i in range(prefix_len, len(dec)):
        base = _prefix_preemptions(dec, en, i)
        for alt in en[i]:
            if alt == dec[i]:
                continue
            k = base + (1 if i > 0 and dec[i - 1] != alt and dec[i - 1] in en[i] else 0)
            if k <= bound:
                out.append(dec[:i] + [alt])
    return out


def _dfs_task(args):
    """Explore the subtrees below `prefixes` (bounded preemptions) on the real code; validate; compact."""
    ci, cfg, prefixes, bound, limit, dense, nrand, seed = args
    drv = _prep(dense)
    from . import sched
    stack = [p if p is None else list(p) for p in reversed(prefixes)]
    runs = []
    truncated = 0
    rng = random.Random(seed)
    for _ in range(nrand):       # seeded deep schedules of this configuration ride along (one TLC batch per task)
        r = drv.one_run(cfg, sched.RandomChooser(rng, rng.choice([0.15, 0.35, 0.6])))
        runs.append(_summ(cfg, r, "random"))
    limit += nrand
    while stack:
        if len(runs) >= limit:
            truncated = len(stack)
            break
        p = stack.pop()
        expand = p is not None
        p = p or []
        ch = sched.PrefixChooser(p)
        r = drv.one_run(cfg, ch)
        if ch.diverged:
            raise tlc.MachineryError(f"C02 DFS: schedule prefix {p} is not reproducible (non-determinism in the harness)")
        runs.append(_summ(cfg, r, "dfs"))
        if expand:
            stack.extend(_children(len(p), r, bound))
    return {"runs": _finish(ci, runs, dense), "truncated": truncated}


def _root_task(args):
    ci, cfg, bound, dense = args
    drv = _prep(dense)
    from . import sched
    r = drv.one_run(cfg, sched.PrefixChooser([]))      # only to find the first-level branches; re-run (and validated)
    return {"children": _children(0, r, bound), "points": _PREPARED["points"], "fallback": drv.fallbacks()}


def _dfs_jobs(ci, cfg, children, bound, budget, dense, nrand, seed, chunk=1200):
    """Partition the root schedule and its child subtrees into tasks of about `chunk` schedules; the
    per-configuration budget is shared evenly (a task that hits its share reports how many subtrees it left
    unexplored); the configuration's random schedules are spread over the same tasks."""
    prefixes = [None] + list(children)       # None: the root schedule itself (its branches are the other entries)
    n = max(1, min(len(prefixes), -(-budget // chunk)))
    per = max(20, budget // n)
    return [(ci, cfg, prefixes[j::n], bound, per, dense, nrand // n + (1 if j < nrand % n else 0), seed * 131 + j)
            for j in range(n)]


CRITICAL = ("test", "load", "qget", "qput", "swap")


def _directed_task(args):
    ci, cfg, ords = args
    drv = _prep(False)
    from . import sched
    runs = []
    for o in ords:
        c = dict(cfg, script={str(t + 1): list(sc) for t, sc in enumerate(o["script"]) if sc})
        names = [drv.tname(p, c) for p, _ in o["hist"]]
        ch = sched.DirectedChooser(list(zip(names, [k for _, k in o["hist"]])), CRITICAL)
        r = drv.one_run(c, ch)
        s = _summ(c, r, "directed")
        # observations the model attached to this ordering
        res = {t: [] for t in range(1, c["nthreads"] + 1)}
        for e in r["events"]:
            if e["e"] == "end" and e["t"] in res:
                res[e["t"]].append(e["out"])
        stuck = sorted(drv.tid_of(n, c) for n in r["stuck"])
        mism = None
        if ch.mismatch and not (o["hung"] and r["deadlock"] and ch.mismatch[3].startswith("ordering exhausted")):
            mism = f"ordering not realised at {ch.mismatch}"
        elif [res[t] for t in sorted(res)] != [list(x) for x in o["res"]]:
            mism = f"outcomes {res} differ from the model's {o['res']}"
        elif bool(o["hung"]) != bool(r["deadlock"]) or (o["hung"] and stuck != sorted(o["stuck"])):
            mism = f"hang: code {stuck if r['deadlock'] else None}, model {o['stuck'] if o['hung'] else None}"
        s["mismatch"] = mism
        s["ordering"] = o
        runs.append(s)
    return {"runs": _finish(ci, runs, False), "truncated": 0}


# ------------------------------------------------------------------------------------------ stage 2

_ORD = re.compile(r'^<<"ORD", "((?:[^"\\]|\\.)*)">>$')


def emit_orderings(kw):
    """All distinct terminal orderings of the model for one configuration."""
    seen = {}

    def on_line(ln):
        m = _ORD.match(ln)
        if not m:
            return False
        o = json.loads(m.group(1).replace('\\\\', '\x00').replace('\\"', '"').replace('\x00', '\\'))
        key = json.dumps([o["hist"], o["script"]])
        seen.setdefault(key, o)
        return True

    r = tlc.run("MC_PoolConc", mc_cfg(keep=True, props="ACTION_CONSTRAINT Reduce\nACTION_CONSTRAINT Emit\n", **kw), workers=min(2, J), heap="3g",
                timeout=3000, on_line=on_line)
    return r, [seen[k] for k in sorted(seen)]


def _independent(a, b):
    """Two critical events of different threads commute unless they conflict on the pool pointer
    (swap vs test/load/swap) or on the queue (qget/qput vs qget/qput)."""
    if a[0] == b[0]:
        return False
    ka, kb = a[1], b[1]
    ptr = {"test", "load", "swap"}
    if ka in ptr and kb in ptr:
        return "swap" not in (ka, kb)
    if ka in ("qget", "qput") and kb in ("qget", "qput"):
        return False
    return True


def canonical(hist):
    """Lexicographically least linearisation of the Mazurkiewicz trace of `hist` (by thread id)."""
    h = [tuple(x) for x in hist]
    n = len(h)
    preds = [[j for j in range(i) if not _independent(h[j], h[i])] for i in range(n)]
    done, out = set(), []
    while len(out) < n:
        ready = [i for i in range(n) if i not in done and all(j in done for j in preds[i])]
        i = min(ready, key=lambda i: (h[i][0], i))
        done.add(i)
        out.append(h[i])
    return out


def _emit_job(kw):
    r, ords = emit_orderings(kw)
    classes = {}
    for o in ords:
        key = json.dumps([canonical(o["hist"]), o["script"]])
        classes.setdefault(key, o)
    return kw, r, len(ords), [classes[k] for k in sorted(classes)]


# ------------------------------------------------------------------------------------------ stage 4

def validate_group(args):
    """One TLC batch: traces recorded under the same (nthreads, closer, maxsize, block)."""
    gk, traces = args
    nt, closer, m, block = gk
    r = tlc.run("PoolConc_Trace", TRACE_CFG.format(nt=nt, closer=B(closer), m=m, block=B(block)), workers=1,
                files={"traces.json": json.dumps(traces)}, env={"TRACE_FILE": "traces.json"}, timeout=3000, heap="3g")
    v = tlc.tagged_tuples(r.out, "VERDICT")
    if len(v) != len(traces) or any(len(x) != 5 for x in v):
        raise tlc.MachineryError(f"trace validation: {len(v)} verdicts for {len(traces)} traces\n{r.out[-2000:]}")
    return [(x[0], x[1], x[2], x[3], x[4]) for x in v], r.distinct


# ---------------------------------------------------------------------------------------------- run

def _case(rec, cfg):
    return {"kind": "schedule", "cfg": cfg, "decisions": _long(rec["dec"]), "dense": bool(rec["dense"]), "source": rec["kind"]}


def judge(rep, findings, recs, cfgs):
    tallies = collections.Counter()
    for rec in recs:
        cfg = rec["cfg"] or cfgs[rec["ci"]]
        pos, clause, cls, drift = rec["v"]
        tallies[clause] += 1
        key = cfg_key(cfg)
        if rec["pre"] > 0 or rec["deadlock"]:
            rep.nontrivial.add((key, rec["dec"], rec["dense"]))
        if drift != "-":
            rep.drift.append(f"{drift} at cfg {key} schedule {rec['dec']}")
        if rec.get("mismatch"):
            rep.drift.append(f"directed replay: {rec['mismatch']} (cfg {key})")
        if clause == "ok":
            continue
        facts = {"clause": clause, "block": bool(cfg["block"]), "closer": bool(cfg["closer"]),
                 "history": "checkout-parked-on-queue-orphaned-by-close" if cls == "D8" else "other"}
        f = known.match(findings, facts)
        what = f"{clause} at event {pos} of the trace; cfg {key}; schedule {rec['dec']}; stuck={rec['stuck']}"
        if f is not None:
            rep.known.append((f["id"], f["what"]))
            tallies["known:" + f["id"]] += 1
            if "known_sample" not in rep.extra and rec["events"]:
                rep.extra["known_sample"] = {"finding": f["id"], "case": _case(rec, cfg), "events": rec["events"]}
        else:
            rep.violation(clause, what, _case(rec, cfg))
    return tallies


def run(rep):
    quick = rep.tier == "quick"
    findings = known.load("C02")
    rep.rule = ("a schedule of the real pool code is one case; it is non-trivial when it contains at least one "
                "preemption (a switch away from a thread that could have continued) or ends with threads parked; "
                "distinct_nontrivial counts distinct (configuration, decision list) pairs")
    rep.assumptions = [
        "preemption granularity: source lines that test/load/store self.pool, every queue operation (entry, i.e. "
        "after the queue reference was loaded), socket send; thorough adds every line of _get_conn/_put_conn/close/"
        "_close_pool_connections/release_conn/_new_conn; bytecode-level races inside one line are not explored",
        "queue.LifoQueue's condition-variable internals are replaced by the scheduler-aware CoopQueue (identical "
        "non-blocking semantics; stdlib wake-up correctness is trusted)",
        "bounded: 2-3 request threads, 1-2 requests each, at most one failing attempt per request, "
        "preemption bound 2 (quick) / 3 (thorough) for the DFS with a per-configuration schedule budget; "
        "random schedules are unbounded in preemptions",
        "TLC 1.8 and CPython 3.12 sys.monitoring are trusted"]
    bound = 2 if quick else 3
    budget = 600 if quick else 2500          # DFS schedules per configuration
    cfgs = configurations(quick, rep.seed)
    recs = []
    trunc = 0
    s1 = {}

    def _s1():
        try:
            stage1(rep, quick)
        except BaseException as ex:      # re-raised in the main thread below
            s1["error"] = ex

    with mp.Pool(J) as pool:
        # stage 1 (JVMs) runs next to the schedule exploration (Python processes); the process pool
        # is forked before the thread starts
        th = threading.Thread(target=_s1, name="stage1")
        if os.environ.get("C02_SKIP_STAGE1") != "1":     # development aid for mutation runs: such a run can never pass
            th.start()
        else:
            rep.extra["stage1_skipped"] = True
        # stage 3: DFS roots -> subtree tasks, random deep schedules (each task validates its own traces: stage 4)
        roots = pool.map(_root_task, [(ci, c, bound, False) for ci, c in enumerate(cfgs)])
        points = roots[0]["points"]
        rep.extra["preemption_points"] = points
        for fb in roots[0]["fallback"]:
            rep.drift.append(f"preemption points not located by pattern; dense fallback used ({fb})")
        nrand = 24 if quick else 300
        tasks = []
        for ci, (c, root) in enumerate(zip(cfgs, roots)):
            tasks += _dfs_jobs(ci, c, root["children"], bound, budget, False, nrand, rep.seed * 100003 + ci,
                               chunk=700 if quick else 1200)
        dfs_results = pool.imap_unordered(_dfs_task, tasks)      # runs while TLC emits the orderings
        # stage 2: orderings emitted by TLC (2 threads x 1 request, with / without closer)
        ekws = [dict(nt=2, closer=closer, m=1, block=block, reqs=1, stream=False, outcomes=("ok", "fail"))
                for closer in (False, True) for block in (True, False)]
        ekws.append(dict(nt=2, closer=False, m=1, block=True, reqs=1, stream=True, outcomes=("ok", "partial")))
        if not quick:
            ekws += [dict(nt=2, closer=True, m=2, block=block, reqs=1, stream=True, outcomes=("ok", "fail", "partial"))
                     for block in (True, False)]
        with ThreadPoolExecutor(JVMS) as ex:
            emitted = list(ex.map(_emit_job, ekws))
        djobs = []
        n_emitted = n_classes = n_selected = 0
        rng = random.Random(rep.seed)
        for kw, r, n_all, classes in emitted:
            rep.stage1.append({"run": f"emission {kw}", "distinct_states": r.distinct, "states_generated": r.generated,
                               "depth": r.depth, "wall_s": round(r.wall, 2), "orderings": n_all, "classes": len(classes)})
            if n_all == 0:
                raise tlc.MachineryError(f"stage 2: TLC emitted no ordering for {kw}")
            n_emitted += n_all
            n_classes += len(classes)
            cap = 4000        # i.e. every emitted class of these small configurations is replayed
            sel = classes if len(classes) <= cap else rng.sample(classes, cap)
            n_selected += len(sel)
            cfg = dict(maxsize=kw["m"], block=kw["block"], closer=kw["closer"], stream=kw["stream"], nthreads=kw["nt"],
                       reqs=kw["reqs"], script={}, retries=1)
            step = 260 if quick else 125
            for j in range(0, len(sel), step):
                djobs.append((-1, cfg, sel[j:j + step]))
        for out in dfs_results:
            recs.extend(out["runs"])
            trunc += out["truncated"]
        for out in pool.imap_unordered(_directed_task, djobs):
            recs.extend(out["runs"])
        if th.ident is not None:
            th.join()
    if not quick:
        dcfgs = [(ci, c) for ci, c in enumerate(cfgs) if c["nthreads"] == 2]
        with mp.Pool(J) as pool:
            droots = pool.map(_root_task, [(ci, c, 2, True) for ci, c in dcfgs])
            rep.extra["preemption_points_dense"] = droots[0]["points"]
            dtasks = []
            for (ci, c), root in zip(dcfgs, droots):
                dtasks += _dfs_jobs(ci, c, root["children"], 2, 1000, True, 80, rep.seed * 7 + ci)
            for out in pool.imap_unordered(_dfs_task, dtasks):
                recs.extend(out["runs"])
                trunc += out["truncated"]
    if "error" in s1:
        raise s1["error"]
    recs.sort(key=lambda r: (r["dense"], r["ci"], r["kind"], r["dec"]))       # deterministic order whatever the pool did
    tallies = judge(rep, findings, recs, cfgs)
    by = collections.Counter((r["kind"], r["dense"]) for r in recs)
    n_dfs, n_rand, n_dir = by[("dfs", False)], by[("random", False)], by[("directed", False)]
    if n_dir != n_selected:
        raise tlc.MachineryError(f"stage 2: {n_selected} orderings selected but {n_dir} replayed")
    rep.traces = rep.evaluations = len(recs)
    realised = sum(1 for r in recs if r["kind"] == "directed" and not r.get("mismatch"))
    rep.extra.update({
        "schedules_dfs": n_dfs, "schedules_random": n_rand, "schedules_directed": n_dir,
        "schedules_dense": by[("dfs", True)] + by[("random", True)],
        "orderings_emitted": n_emitted, "ordering_classes": n_classes, "orderings_replayed": n_dir,
        "orderings_realised": realised, "dfs_subtrees_not_explored": trunc, "preemption_bound": bound,
        "dfs_budget_per_configuration": budget,
        "configurations": [cfg_key(c) for c in cfgs], "verdict_tallies": dict(tallies),
        "trace_events": sum(r["nev"] for r in recs), "deadlocks_seen": sum(1 for r in recs if r["deadlock"]),
    })
    if n_dfs < len(cfgs) * 10 or n_dir == 0 or n_rand == 0:
        raise tlc.MachineryError(f"too few schedules executed: dfs={n_dfs} random={n_rand} directed={n_dir}")
    closed = sum(1 for r in recs if r["cpe"])
    orphan = sum(1 for r in recs if r["late"])
    rep.extra["schedules_with_ClosedPoolError"] = closed
    rep.extra["schedules_with_put_into_orphaned_queue"] = orphan
    if closed == 0 or orphan == 0:
        raise tlc.MachineryError(f"the close() races were never exercised (ClosedPoolError runs={closed}, late puts={orphan})")
    for r in recs:
        if r["events"] and r["v"][1] == "ok":
            rep.sample({"cfg": cfg_key(r["cfg"] or cfgs[r["ci"]]), "schedule": r["dec"], "events": r["events"][:40]}, cap=2)
    for r in recs:
        if r["ordering"]:
            rep.sample({"model_ordering": r["ordering"], "realised": not r.get("mismatch")}, cap=4)
    rep.exhaustive = trunc == 0
    rep.extra["c02_own_wall_s"] = round(time.time() - rep.t0, 1)
    if rep.extra.get("stage1_skipped"):
        rep.states = rep.transitions = 0
        rep.assumptions.append("STAGE 1 WAS SKIPPED (C02_SKIP_STAGE1=1): this run is not a complete check")
        if not rep.violations:
            raise tlc.MachineryError("stage 1 was skipped (C02_SKIP_STAGE1=1): such a run can only report violations, never pass")


def _late_put(events):
    swapped = False
    for e in events:
        if e["e"] == "swap":
            swapped = True
        elif swapped and e["e"] == "put" and e["res"] == "ok":
            return True
    return False


def replay(rep, path):
    with open(path) as fh:
        doc = json.load(fh)
    case = doc["case"]
    rep.rule = "replay of one recorded case"
    rep.nontrivial.update({1})
    rep.states = rep.states or 1
    rep.transitions = rep.transitions or 1
    if case.get("kind") != "schedule":
        stage1(rep, True)
        return
    dense = bool(case.get("dense"))
    drv = _prep(dense)
    from . import sched
    ch = sched.PrefixChooser(case["decisions"])
    r = drv.one_run(case["cfg"], ch)
    recs = _finish(0, [_summ(case["cfg"], r, "replay")], dense)
    rep.traces = rep.evaluations = 1
    judge(rep, known.load("C02"), recs, [case["cfg"]])
    if ch.diverged:
        rep.drift.append("replay: the recorded schedule could not be followed exactly on the current tree")
