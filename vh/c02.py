"""C02 - concurrent requests never share a connection, exceed maxsize, or deadlock.

stage 1  TLC checks spec/PoolConc.tla (statement-level model of _get_conn / _put_conn / close() with
         2-3 request threads and an optional closer thread) for every Rules clause as INVARIANT lines
         and the liveness PROPERTY under weak fairness; named deviations must each break the clause
         they aim at (anti-vacuity); action coverage is read back.
stage 2  TLC emits every distinct ordering of critical events (test / load / qget / qput / swap per
         thread) with the outcomes the model expects; each ordering is replayed *directed* on the
         real pool under the deterministic scheduler (vh/sched.py) and the observations compared
         (a mismatch is MODEL-DRIFT, never by itself a violation).
stage 3  independently: stateless bounded-preemption DFS over schedules of the real code, plus
         VERIF_SEED-randomised deep schedules.
stage 4  the event trace of EVERY executed schedule (stages 2 and 3) is validated by TLC against
         spec/PoolConc_Trace.tla - the same Rules operators, total monitor naming the failing clause.
"""
from __future__ import annotations

import collections
import json
import multiprocessing as mp
import os
import random
import re
from concurrent.futures import ThreadPoolExecutor

from . import known, tlc

J = max(1, int(os.environ.get("VERIF_JOBS") or os.cpu_count() or 4))   # size of every process pool
JVMS = max(1, J // 4)                                                    # TLC JVMs running side by side
TW = min(4, J)                                                           # workers of a stage-1 TLC run

RULES = ["ExclusiveUse", "NotPooledWhileUsed", "NoDuplicate", "BlockBound", "OwnResponse", "ClosedPoolOutcome",
         "ClosedAndDroppedLeavesNothing"]

MC_CFG = """SPECIFICATION Spec
CONSTANTS NThreads = {nt}
  HasCloser = {closer}
  MaxSize = {m}
  Block = {block}
  Reqs = {reqs}
  Streaming = {stream}
  Outcomes = {outcomes}
  MaxFails = 1
  MaxConn <- MCMaxConn
  Deviations = {dev}
  Repairs = {rep}
  KeepHist = {keep}
{props}
CHECK_DEADLOCK FALSE
"""
TRACE_CFG = """SPECIFICATION TSpec
CONSTANTS NThreads = {nt}
  HasCloser = {closer}
  MaxSize = {m}
  Block = {block}
  Reqs = 1
  Streaming = FALSE
  Outcomes = {{"ok"}}
  MaxFails = 1
  MaxConn = 1000
  Deviations = {{}}
  Repairs = {{}}
  KeepHist = FALSE
CHECK_DEADLOCK FALSE
"""
SAFETY = "INVARIANT TypeOK\n" + "".join(f"INVARIANT Inv_{c}\n" for c in RULES)


def B(x):
    return "TRUE" if x else "FALSE"


def S(xs):
    return "{" + ", ".join('"%s"' % x for x in xs) + "}"


def mc_cfg(nt=2, closer=False, m=1, block=True, reqs=1, stream=False, outcomes=("ok", "fail"), dev=(), repairs=(),
           keep=False, props=""):
    return MC_CFG.format(nt=nt, closer=B(closer), m=m, block=B(block), reqs=reqs, stream=B(stream),
                         outcomes=S(outcomes), dev=S(dev), rep=S(repairs), keep=B(keep), props=props)


# ------------------------------------------------------------------------------------------ stage 1

def _stage1_plans(quick):
    """(name, cfg kwargs, props, expected-violated list)"""
    plans = []
    live_ok = SAFETY + "INVARIANT Inv_NoHang\nPROPERTY EventuallyQuiescent\n"
    live_d8 = SAFETY + "INVARIANT Inv_HangOnlyD8\nPROPERTY QuiescentOrD8\n"
    for m in (1, 2):
        for block in (True, False):
            for closer in (False, True):
                stream = (m == 2) != closer     # both response modes appear under every (block, closer)
                kw = dict(nt=2, closer=closer, m=m, block=block, stream=stream,
                          reqs=1 if closer else 2,
                          outcomes=("ok", "okclose", "fail") if (closer or (m == 1 and block)) else ("ok", "fail"))
                d8 = closer and block
                plans.append((f"as-is m={m} block={block} closer={closer} stream={stream}", kw,
                              live_d8 if d8 else live_ok, []))
    # the hang of D8 is reproduced at design level, and the proposed repair removes it
    d8kw = dict(nt=2, closer=True, m=1, block=True, reqs=1, outcomes=("ok", "fail"))
    plans.append(("D8 as-is: EventuallyQuiescent must FAIL", d8kw, "PROPERTY EventuallyQuiescent\n", ["TemporalProperty"]))
    plans.append(("D8 repaired (WakeOnClose)", dict(d8kw, repairs=("WakeOnClose",)), live_ok, []))
    if not quick:
        plans.append(("D8 repaired (WakeOnClose) m=2 stream", dict(d8kw, m=2, stream=True, repairs=("WakeOnClose",)), live_ok, []))
        # ... but the sentinel repair is NOT sufficient: with two waiters on a maxsize=1 pool a late put into the
        # orphaned queue prevents the sentinel from being handed on and the second waiter still hangs
        plans.append(("D8 sentinel repair is insufficient with 3 threads", dict(nt=3, closer=True, m=1, block=True, reqs=1,
                      outcomes=("ok",), repairs=("WakeOnClose",)), "INVARIANT Inv_NoHang\n", ["Inv_NoHang"]))
    # deviations: every clause must be breakable (anti-vacuity of the invariants)
    nb = dict(nt=2, closer=True, m=1, block=False, reqs=1, outcomes=("ok",))
    plans.append(("dev D12", dict(nb, dev=("D12",)), SAFETY, ["Inv_ClosedPoolOutcome"]))
    plans.append(("dev NoAttrArm", dict(nb, dev=("NoAttrArm",)), SAFETY, ["Inv_ClosedPoolOutcome"]))
    plans.append(("dev DoublePut", dict(nt=2, m=2, block=False, reqs=2, outcomes=("ok",), dev=("DoublePut",)), SAFETY,
                  ["Inv_ExclusiveUse", "Inv_NotPooledWhileUsed", "Inv_NoDuplicate", "Inv_OwnResponse"]))
    plans.append(("dev NoClearConn", dict(nt=2, m=2, block=False, reqs=2, stream=True, outcomes=("ok",), dev=("NoClearConn",)),
                  SAFETY, ["Inv_ExclusiveUse", "Inv_NotPooledWhileUsed", "Inv_NoDuplicate", "Inv_OwnResponse"]))
    plans.append(("dev NoBlockRaise", dict(nt=2, m=1, block=True, reqs=1, outcomes=("ok",), dev=("NoBlockRaise",)), SAFETY,
                  ["Inv_BlockBound", "Inv_ClosedPoolOutcome"]))
    if not quick:
        for closer in (False, True):
            for block in (True, False):
                kw = dict(nt=3, closer=closer, m=1 if block else 2, block=block, reqs=1, stream=not block,
                          outcomes=("ok", "fail"))
                plans.append((f"as-is 3 threads block={block} closer={closer}", kw,
                              live_d8 if (closer and block) else live_ok, []))
        plans.append(("as-is 2x2 closer block=False", dict(nt=2, closer=True, m=1, block=False, reqs=2,
                                                           outcomes=("ok", "okclose", "fail")), live_ok, []))
        plans.append(("as-is 2x2 closer block=True", dict(nt=2, closer=True, m=1, block=True, reqs=2,
                                                          outcomes=("ok", "okclose", "fail")), live_d8, []))
    return plans


_COVLINE = re.compile(r"^<(\w+) line \d+, col \d+ to line \d+, col \d+ of module PoolConc \((\d+) (\d+) (\d+) (\d+)\)>: (\d+):(\d+)", re.M)


def _coverage(out):
    """Per-action (distinct, total) keyed by the source text of the action (Crit(G1(t), ...) etc.)."""
    with open(os.path.join(tlc.SPEC_DIR, "PoolConc.tla")) as fh:
        src = fh.read().splitlines()
    cov = {}
    for m in _COVLINE.finditer(out):
        ln, c0, c1 = int(m.group(2)), int(m.group(3)), int(m.group(5))
        text = src[ln - 1][c0 - 1:c1] if int(m.group(4)) == ln else m.group(1)      # the use site, e.g. Crit(G1(t), t, "test")
        a = re.search(r"\b(Start|G1|G2|G3S|G3|G4|Send|Recv|Fin|RespRead|RespRelease|P2|P3Log|P3|P4|PEnd|End|C0|C1|C2|C3|Drop)\b", text)
        if a:
            d, t = cov.get(a.group(1), (0, 0))
            cov[a.group(1)] = (d + int(m.group(7)), t + int(m.group(6)))
    return cov


def _run_plan(plan):
    name, kw, props, expect = plan
    r = tlc.run("MC_PoolConc", mc_cfg(props=props, **kw), workers=TW, heap="3g", timeout=3000,
                expect_fail=True, coverage=not expect and "as-is" in name)
    if r.error and "Temporal propert" in r.error:      # TLC 1.8 wording: "Temporal property X was violated."
        r.violated.append("TemporalProperty")
        r.error = None
    if r.error or not r.generated:
        raise tlc.MachineryError(f"stage 1 '{name}': TLC failed: {r.error}\n{r.out[-2500:]}")
    return name, kw, expect, r


def stage1(rep, quick):
    plans = _stage1_plans(quick)
    with ThreadPoolExecutor(JVMS) as ex:
        results = list(ex.map(_run_plan, plans))
    cov_all = collections.Counter()
    for name, kw, expect, r in results:
        rep.add_tlc(name, r)
        rep.stage1[-1]["violated"] = r.violated
        if expect:
            if not r.violated or not set(r.violated) <= set(expect):
                raise tlc.MachineryError(f"stage 1 '{name}': expected TLC to report one of {expect}, got {r.violated} "
                                         f"(the clause is vacuous or the model changed)\n{r.out[-1500:]}")
        else:
            for v in r.violated:
                rep.violation("Design:" + v, f"TLC: {v} violated on the design model, run '{name}'",
                              {"kind": "design", "plan": name, "tail": r.out[-4000:]})
            for a, (d, t) in _coverage(r.out).items():
                cov_all[a] += t
    need = ["Start", "G1", "G2", "G3", "G4", "Send", "Recv", "Fin", "RespRead", "RespRelease", "P2", "P3", "P4", "PEnd",
            "End", "C0", "C1", "C2", "Drop"]
    missing = [a for a in need if cov_all.get(a, 0) == 0]
    if missing:
        raise tlc.MachineryError(f"stage 1: model actions never taken (vacuous): {missing}; seen {dict(cov_all)}")
    rep.extra["action_coverage"] = dict(cov_all)
    rep.extra["stage1_runs"] = len(results)


# ------------------------------------------------------------------------------- configurations

def cfg_key(c):
    return (f"m{c['maxsize']}{'B' if c['block'] else 'N'}{'K' if c['closer'] else '-'}{'S' if c['stream'] else 'P'}"
            f"t{c['nthreads']}r{c['reqs']}" + "".join(f"[{k}:{','.join(v)}]" for k, v in sorted(c['script'].items())))


def group_key(c):
    return (c["nthreads"], bool(c["closer"]), c["maxsize"], bool(c["block"]))


def configurations(quick, seed):
    """maxsize {1,2} x block {T,F} x closer {F,T}; both response modes; every script has a failing attempt."""
    rng = random.Random(seed * 7919 + 13)
    out = []
    for m in (1, 2):
        for block in (True, False):
            for closer in (False, True):
                for stream in ((False, True) if not quick else ((m == 2) != closer,)):
                    nts = (2,) if quick else (2, 3)
                    for nt in nts:
                        reqs = 1 if (closer or nt == 3) else 2
                        failing = str(rng.randint(1, nt))
                        other = str(rng.choice([t for t in range(1, nt + 1) if str(t) != failing]))
                        script = {failing: ["fail", "ok"], other: ["okclose"] if reqs == 2 else ["ok"]}
                        out.append(dict(maxsize=m, block=block, closer=closer, stream=stream, nthreads=nt, reqs=reqs,
                                        script=script, retries=1))
    return out


# ------------------------------------------------------------------------------ stage 3 (workers)

_PREPARED = {}


def _prep(dense):
    from . import c02drv
    if _PREPARED.get("dense") != dense:
        _PREPARED["points"] = c02drv.prepare(dense=dense)
        _PREPARED["dense"] = dense
    return c02drv


def _summ(cfg, r, kind):
    return {"cfg": cfg, "kind": kind, "decisions": r["decisions"], "events": r["events"], "deadlock": r["deadlock"],
            "pre": r["preemptions"], "stuck": r["stuck"]}


def _prefix_preemptions(dec, en, upto):
    k = 0
    for j in range(1, upto):
        if dec[j] != dec[j - 1] and dec[j - 1] in en[j]:
            k += 1
    return k


def _children(prefix_len, r, bound):
    """Unexplored sibling prefixes of one executed schedule (stateless DFS)."""
    dec = r["decisions"]
    en = [s[2] for s in r["steps"]]
    out = []
    for i in range(prefix_len, len(dec)):
        base = _prefix_preemptions(dec, en, i)
        for alt in en[i]:
            if alt == dec[i]:
                continue
            k = base + (1 if i > 0 and dec[i - 1] != alt and dec[i - 1] in en[i] else 0)
            if k <= bound:
                out.append(dec[:i] + [alt])
    return out


def _dfs_task(args):
    """Explore the subtree below `prefix` (bounded preemptions) on the real code."""
    cfg, prefix, bound, limit, dense = args
    drv = _prep(dense)
    from . import sched
    stack = [list(prefix)]
    runs = []
    truncated = False
    while stack:
        if len(runs) >= limit:
            truncated = True
            break
        p = stack.pop()
        ch = sched.PrefixChooser(p)
        r = drv.one_run(cfg, ch)
        if ch.diverged:
            raise tlc.MachineryError(f"C02 DFS: schedule prefix {p} is not reproducible (non-determinism in the harness)")
        runs.append(_summ(cfg, r, "dfs"))
        stack.extend(_children(len(p), r, bound))
    return {"runs": runs, "truncated": truncated}


def _root_task(args):
    cfg, bound, dense = args
    drv = _prep(dense)
    from . import sched
    r = drv.one_run(cfg, sched.PrefixChooser([]))
    return {"run": _summ(cfg, r, "dfs"), "children": _children(0, r, bound), "points": _PREPARED["points"]}


def _random_task(args):
    cfg, seed, n, dense = args
    drv = _prep(dense)
    from . import sched
    rng = random.Random(seed)
    runs = []
    for _ in range(n):
        r = drv.one_run(cfg, sched.RandomChooser(rng, rng.choice([0.15, 0.35, 0.6])))
        runs.append(_summ(cfg, r, "random"))
    return {"runs": runs, "truncated": False}


CRITICAL = ("test", "load", "qget", "qput", "swap")


def _directed_task(args):
    cfg, ords = args
    drv = _prep(False)
    from . import sched
    runs = []
    for o in ords:
        c = dict(cfg, script={str(t + 1): list(sc) for t, sc in enumerate(o["script"]) if sc})
        names = [drv.tname(p, c) for p, _ in o["hist"]]
        ch = sched.DirectedChooser(list(zip(names, [k for _, k in o["hist"]])), CRITICAL)
        r = drv.one_run(c, ch)
        s = _summ(c, r, "directed")
        # observations the model attached to this ordering
        res = {t: [] for t in range(1, c["nthreads"] + 1)}
        for e in r["events"]:
            if e["e"] == "end" and e["t"] in res:
                res[e["t"]].append(e["out"])
        stuck = sorted(drv.tid_of(n, c) for n in r["stuck"])
        mism = None
        if ch.mismatch and not (o["hung"] and r["deadlock"] and ch.mismatch[3].startswith("ordering exhausted")):
            mism = f"ordering not realised at {ch.mismatch}"
        elif [res[t] for t in sorted(res)] != [list(x) for x in o["res"]]:
            mism = f"outcomes {res} differ from the model's {o['res']}"
        elif bool(o["hung"]) != bool(r["deadlock"]) or (o["hung"] and stuck != sorted(o["stuck"])):
            mism = f"hang: code {stuck if r['deadlock'] else None}, model {o['stuck'] if o['hung'] else None}"
        s["mismatch"] = mism
        s["ordering"] = o
        runs.append(s)
    return {"runs": runs, "truncated": False}


# ------------------------------------------------------------------------------------------ stage 2

_ORD = re.compile(r'^<<"ORD", "((?:[^"\\]|\\.)*)">>$')


def emit_orderings(kw):
    """All distinct terminal orderings of the model for one configuration."""
    seen = {}

    def on_line(ln):
        m = _ORD.match(ln)
        if not m:
            return False
        o = json.loads(m.group(1).replace('\\\\', '\x00').replace('\\"', '"').replace('\x00', '\\'))
        key = json.dumps([o["hist"], o["script"]])
        seen.setdefault(key, o)
        return True

    r = tlc.run("MC_PoolConc", mc_cfg(keep=True, props="ACTION_CONSTRAINT Reduce\nACTION_CONSTRAINT Emit\n", **kw), workers=min(2, J), heap="3g",
                timeout=3000, on_line=on_line)
    return r, [seen[k] for k in sorted(seen)]


def _independent(a, b):
    """Two critical events of different threads commute unless they conflict on the pool pointer
    (swap vs test/load/swap) or on the queue (qget/qput vs qget/qput)."""
    if a[0] == b[0]:
        return False
    ka, kb = a[1], b[1]
    ptr = {"test", "load", "swap"}
    if ka in ptr and kb in ptr:
        return "swap" not in (ka, kb)
    if ka in ("qget", "qput") and kb in ("qget", "qput"):
        return False
    return True


def canonical(hist):
    """Lexicographically least linearisation of the Mazurkiewicz trace of `hist` (by thread id)."""
    h = [tuple(x) for x in hist]
    n = len(h)
    preds = [[j for j in range(i) if not _independent(h[j], h[i])] for i in range(n)]
    done, out = set(), []
    while len(out) < n:
        ready = [i for i in range(n) if i not in done and all(j in done for j in preds[i])]
        i = min(ready, key=lambda i: (h[i][0], i))
        done.add(i)
        out.append(h[i])
    return out


def _emit_job(kw):
    r, ords = emit_orderings(kw)
    classes = {}
    for o in ords:
        key = json.dumps([canonical(o["hist"]), o["script"]])
        classes.setdefault(key, o)
    return kw, r, len(ords), [classes[k] for k in sorted(classes)]


# ------------------------------------------------------------------------------------------ stage 4

def validate_group(args):
    """One TLC batch: traces recorded under the same (nthreads, closer, maxsize, block)."""
    gk, traces = args
    nt, closer, m, block = gk
    r = tlc.run("PoolConc_Trace", TRACE_CFG.format(nt=nt, closer=B(closer), m=m, block=B(block)), workers=1,
                files={"traces.json": json.dumps(traces)}, env={"TRACE_FILE": "traces.json"}, timeout=3000, heap="3g")
    v = tlc.tagged_tuples(r.out, "VERDICT")
    if len(v) != len(traces) or any(len(x) != 5 for x in v):
        raise tlc.MachineryError(f"trace validation: {len(v)} verdicts for {len(traces)} traces\n{r.out[-2000:]}")
    return [(x[0], x[1], x[2], x[3], x[4]) for x in v], r.distinct


def validate_all(pool, runs):
    """runs: list of summaries with 'events'.  Returns verdict per run index."""
    groups = collections.defaultdict(list)
    for i, s in enumerate(runs):
        groups[group_key(s["cfg"])].append({"id": i, "events": s["events"]})
    jobs = []
    for gk, trs in sorted(groups.items()):
        for j in range(0, len(trs), 4000):
            jobs.append((gk, trs[j:j + 4000]))
    verdicts = {}
    with ThreadPoolExecutor(JVMS) as ex:
        for vs, _ in ex.map(validate_group, jobs):
            for i, pos, clause, cls, drift in vs:
                verdicts[i] = (pos, clause, cls, drift)
    if len(verdicts) != len(runs):
        raise tlc.MachineryError(f"trace validation returned {len(verdicts)} verdicts for {len(runs)} runs")
    return verdicts


# ---------------------------------------------------------------------------------------------- run

def _case(s, dense):
    return {"kind": "schedule", "cfg": s["cfg"], "decisions": s["decisions"], "dense": dense, "source": s["kind"]}


def judge(rep, findings, runs, verdicts, dense):
    tallies = collections.Counter()
    for i, s in enumerate(runs):
        pos, clause, cls, drift = verdicts[i]
        tallies[clause] += 1
        key = cfg_key(s["cfg"])
        if s["pre"] > 0 or s["deadlock"]:
            rep.nontrivial.add((key, tuple(s["decisions"])))
        if drift != "-":
            rep.drift.append(f"{drift} at cfg {key} schedule {''.join(d[-1] for d in s['decisions'])}")
        if s.get("mismatch"):
            rep.drift.append(f"directed replay: {s['mismatch']} (cfg {key})")
        if clause == "ok":
            continue
        facts = {"clause": clause, "block": bool(s["cfg"]["block"]), "closer": bool(s["cfg"]["closer"]),
                 "history": "checkout-parked-on-queue-orphaned-by-close" if cls == "D8" else "other"}
        f = known.match(findings, facts)
        what = (f"{clause} at event {pos} of the trace; cfg {key}; schedule "
                f"{' '.join(s['decisions'])}; stuck={s['stuck']}")
        if f is not None:
            rep.known.append((f["id"], f["what"]))
            tallies["known:" + f["id"]] += 1
            if "known_sample" not in rep.extra:
                rep.extra["known_sample"] = {"finding": f["id"], "case": _case(s, dense),
                                             "events": [{k: v for k, v in e.items() if v not in (0, "", [])} for e in s["events"]]}
        else:
            rep.violation(clause, what, _case(s, dense))
    return tallies


def run(rep):
    quick = rep.tier == "quick"
    findings = known.load("C02")
    rep.rule = ("a schedule of the real pool code is one case; it is non-trivial when it contains at least one "
                "preemption (a switch away from a thread that could have continued) or ends with threads parked; "
                "distinct_nontrivial counts distinct (configuration, decision list) pairs")
    rep.assumptions = [
        "preemption granularity: source lines that test/load/store self.pool, every queue operation (entry, i.e. "
        "after the queue reference was loaded), socket send; bytecode-level races inside one line are not explored",
        "queue.LifoQueue's condition-variable internals are replaced by the scheduler-aware CoopQueue (identical "
        "non-blocking semantics; stdlib wake-up correctness is trusted)",
        "bounded: 2-3 request threads, 1-2 requests each, at most one failing attempt per request, "
        "preemption bound 2 (quick) / 3 (thorough) for the DFS; random schedules are unbounded in preemptions",
        "TLC 1.8 and CPython 3.12 sys.monitoring are trusted"]
    stage1(rep, quick)

    bound = 2 if quick else 3
    cfgs = configurations(quick, rep.seed)
    all_runs = []
    trunc = 0
    with mp.Pool(J) as pool:
        # stage 2: orderings emitted by TLC (2 threads x 1 request, with / without closer)
        ekws = [dict(nt=2, closer=closer, m=1, block=block, reqs=1, stream=False, outcomes=("ok", "fail"))
                for closer in (False, True) for block in (True, False)]
        if not quick:
            ekws += [dict(nt=2, closer=True, m=2, block=block, reqs=1, stream=True, outcomes=("ok", "fail")) for block in (True, False)]
        with ThreadPoolExecutor(JVMS) as ex:
            emitted = list(ex.map(_emit_job, ekws))
        djobs = []
        n_emitted = n_classes = n_selected = 0
        rng = random.Random(rep.seed)
        for kw, r, n_all, classes in emitted:
            rep.stage1.append({"run": f"emission {kw}", "distinct_states": r.distinct, "states_generated": r.generated,
                               "depth": r.depth, "wall_s": round(r.wall, 2), "orderings": n_all, "classes": len(classes)})
            if n_all == 0:
                raise tlc.MachineryError(f"stage 2: TLC emitted no ordering for {kw}")
            n_emitted += n_all
            n_classes += len(classes)
            cap = 250 if quick else 4000
            sel = classes if len(classes) <= cap else rng.sample(classes, cap)
            n_selected += len(sel)
            cfg = dict(maxsize=kw["m"], block=kw["block"], closer=kw["closer"], stream=kw["stream"], nthreads=kw["nt"],
                       reqs=kw["reqs"], script={}, retries=1)
            for j in range(0, len(sel), 50):
                djobs.append((cfg, sel[j:j + 50]))
        # stage 3: DFS roots -> subtree tasks, random deep schedules
        roots = pool.map(_root_task, [(c, bound, False) for c in cfgs])
        rep.extra["preemption_points"] = roots[0]["points"]
        if not any("swap" in d.values() for d in roots[0]["points"].values()) or \
           sum(1 for d in roots[0]["points"].values() for k in d.values() if k in ("test", "load")) < 4:
            raise tlc.MachineryError(f"AST selection found too few shared-state lines: {roots[0]['points']}")
        tasks = []
        limit = 400 if quick else 6000
        for c, root in zip(cfgs, roots):
            all_runs.append(root["run"])
            for ch in root["children"]:
                tasks.append((c, ch, bound, limit, False))
        nrand = 40 if quick else 600
        rtasks = [(c, rep.seed * 100003 + i, nrand, False) for i, c in enumerate(cfgs)]
        for out in pool.imap(_dfs_task, tasks, chunksize=4):
            all_runs.extend(out["runs"])
            trunc += out["truncated"]
        n_dfs = len(all_runs)
        for out in pool.imap(_random_task, rtasks):
            all_runs.extend(out["runs"])
        n_rand = len(all_runs) - n_dfs
        n_dir0 = len(all_runs)
        for out in pool.imap(_directed_task, djobs):
            all_runs.extend(out["runs"])
        n_dir = len(all_runs) - n_dir0
        if n_dir != n_selected:
            raise tlc.MachineryError(f"stage 2: {n_selected} orderings selected but {n_dir} replayed")
        dense_runs = []
        if not quick:
            # every line of the pool functions is a preemption point (dense), bound 2
            dcfgs = [c for c in cfgs if c["nthreads"] == 2]
            droots = pool.map(_root_task, [(c, 2, True) for c in dcfgs])
            dtasks = []
            for c, root in zip(dcfgs, droots):
                dense_runs.append(root["run"])
                dtasks += [(c, ch, 2, 1500, True) for ch in root["children"]]
            for out in pool.imap(_dfs_task, dtasks, chunksize=4):
                dense_runs.extend(out["runs"])
                trunc += out["truncated"]
            for out in pool.imap(_random_task, [(c, rep.seed * 7 + i, 200, True) for i, c in enumerate(dcfgs)]):
                dense_runs.extend(out["runs"])
        # stage 4: every executed schedule goes through TLC
        verdicts = validate_all(pool, all_runs)
        dverdicts = validate_all(pool, dense_runs) if dense_runs else {}
    tallies = judge(rep, findings, all_runs, verdicts, False)
    tallies.update(judge(rep, findings, dense_runs, dverdicts, True))
    rep.traces = len(all_runs) + len(dense_runs)
    rep.evaluations = rep.traces
    realised = sum(1 for s in all_runs if s["kind"] == "directed" and not s.get("mismatch"))
    rep.extra.update({
        "schedules_dfs": n_dfs, "schedules_random": n_rand, "schedules_directed": n_dir, "schedules_dense": len(dense_runs),
        "orderings_emitted": n_emitted, "ordering_classes": n_classes, "orderings_replayed": n_dir,
        "orderings_realised": realised, "dfs_subtrees_truncated": trunc, "preemption_bound": bound,
        "configurations": [cfg_key(c) for c in cfgs], "verdict_tallies": dict(tallies),
        "trace_events": sum(len(s["events"]) for s in all_runs) + sum(len(s["events"]) for s in dense_runs),
        "deadlocks_seen": sum(1 for s in all_runs + dense_runs if s["deadlock"]),
    })
    if n_dfs < len(cfgs) * 10 or n_dir == 0 or n_rand == 0:
        raise tlc.MachineryError(f"too few schedules executed: dfs={n_dfs} random={n_rand} directed={n_dir}")
    closed = sum(1 for s in all_runs if any(e["e"] == "end" and e["out"] == "ClosedPoolError" for e in s["events"]))
    orphan = sum(1 for s in all_runs if _late_put(s["events"]))
    rep.extra["schedules_with_ClosedPoolError"] = closed
    rep.extra["schedules_with_put_into_orphaned_queue"] = orphan
    if closed == 0 or orphan == 0:
        raise tlc.MachineryError(f"the close() races were never exercised (ClosedPoolError runs={closed}, late puts={orphan})")
    for s in all_runs:
        if s["pre"] >= 2 and s["cfg"]["closer"]:
            rep.sample({"cfg": cfg_key(s["cfg"]), "schedule": " ".join(s["decisions"]),
                        "events": [{k: v for k, v in e.items() if v not in (0, "", [])} for e in s["events"]][:40]}, cap=2)
    for s in all_runs:
        if s["kind"] == "directed":
            rep.sample({"model_ordering": s["ordering"], "realised": not s.get("mismatch")}, cap=4)
    rep.exhaustive = trunc == 0


def _late_put(events):
    swapped = False
    for e in events:
        if e["e"] == "swap":
            swapped = True
        elif swapped and e["e"] == "put" and e["res"] == "ok":
            return True
    return False


def replay(rep, path):
    with open(path) as fh:
        doc = json.load(fh)
    case = doc["case"]
    rep.rule = "replay of one recorded case"
    rep.nontrivial.update({1})
    rep.states = rep.states or 1
    rep.transitions = rep.transitions or 1
    if case.get("kind") != "schedule":
        stage1(rep, True)
        return
    drv = _prep(bool(case.get("dense")))
    from . import sched
    ch = sched.PrefixChooser(case["decisions"])
    r = drv.one_run(case["cfg"], ch)
    s = _summ(case["cfg"], r, "replay")
    vs, _ = validate_group((group_key(case["cfg"]), [{"id": 0, "events": s["events"]}]))
    rep.traces = rep.evaluations = 1
    verdicts = {0: vs[0][1:]}
    judge(rep, known.load("C02"), [s], verdicts, bool(case.get("dense")))
    if ch.diverged:
        rep.drift.append("replay: the recorded schedule could not be followed exactly on the current tree")
