"""Known findings: genuine defects recorded rather than repaired (see DESIGN.md §5).

known_findings.json is read-only at run time.  Each entry has an id, a property, a human
description and a `match` object; a violation is attributed to a finding only when the check's own
signature function says so (the check passes a dict of facts about the violating case and every
key in `match` must be equal in it)."""
from __future__ import annotations

import json
import os

ROOT = os.path.dirname(os.path.dirname(os.path.abspath(__file__)))


def load(pid: str) -> list:
    with open(os.path.join(ROOT, "known_findings.json")) as fh:
        doc = json.load(fh)
    found = list(doc.get("findings", []))
    # known_findings.d/ holds what the GROWTH stages (vh/extras.py) record about the unchanged tree: observations outside
    # every listed statement (see DESIGN.md section 8); vh/main.py never prints them as KNOWN-FINDING lines.  While a check
    # is being built its findings may also be staged there; tools/merge_findings.py moves those into known_findings.json.
    d = os.path.join(ROOT, "known_findings.d")
    if os.path.isdir(d):
        for fn in sorted(os.listdir(d)):
            if fn.endswith(".json"):
                with open(os.path.join(d, fn)) as fh:
                    found += json.load(fh).get("findings", [])
    return [f for f in found if f["property"] == pid]


def match(findings: list, facts: dict):
    for f in findings:
        m = f["match"]
        if all(facts.get(k) == v if not isinstance(v, list) else facts.get(k) in v for k, v in m.items()):
            return f
    return None
