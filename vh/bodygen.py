"""Response generation shared by C12 and C13 (independent of urllib3).

A *case* fixes payload, content coding, framing, chunk-size vector, segmentation and optional damage
(cut / corruption).  `build(case)` returns the head bytes, the body bytes as they appear on the wire,
the layout of the wire body (which byte belongs to which framing element), the transfer-decoded raw
body and the expected decoded payload, all computed with stdlib zlib / gzip and the zstandard package
only -- never with urllib3.
"""
from __future__ import annotations

import gzip
import io
import random
import zlib

import zstandard

CODINGS = ["identity", "gzip", "gzip-mm", "deflate", "deflate-raw", "zstd", "zstd-mf",
           "gzip,deflate", "deflate,gzip", "gzip,zstd", "zstd,gzip", "zstd-mf,deflate-raw"]
FRAMINGS = ["cl", "chunked", "close"]
HEADER = {"identity": None, "gzip": "gzip", "gzip-mm": "gzip", "deflate": "deflate", "deflate-raw": "deflate",
          "zstd": "zstd", "zstd-mf": "zstd"}
STRICT = {"zstd", "zstd-mf"}          # codings for which an incomplete stream must be an error


class GenError(Exception):
    pass


def payload(size: int, seed: int) -> bytes:
    """Deterministic payload with line structure (for iteration) and moderate compressibility."""
    rng = random.Random(seed * 7919 + size)
    out = bytearray()
    words = [b"alpha", b"beta", b"\n", b"gamma\n", b"\x00\xff", b"delta-delta-delta", b"\r\n", b"0", b"e" * 40]
    while len(out) < size:
        if rng.random() < 0.3:
            out += bytes(rng.getrandbits(8) for _ in range(rng.randint(1, 12)))
        else:
            out += rng.choice(words)
    return bytes(out[:size])


def _split(data: bytes, parts: int, rng) -> list:
    if parts <= 1 or len(data) < parts:
        return [data]
    cuts = sorted(rng.sample(range(1, len(data)), parts - 1))
    return [data[a:b] for a, b in zip([0] + cuts, cuts + [len(data)])]


def _enc1(data: bytes, coding: str, rng):
    """One coding layer.  Returns (encoded, boundaries) where boundaries are the offsets in `encoded`
    at which a member / frame ends (including the final one)."""
    if coding == "identity":
        return data, []
    if coding == "gzip":
        e = gzip.compress(data, mtime=0)
        return e, [len(e)]
    if coding == "gzip-mm":
        parts = _split(data, rng.choice([2, 3]), rng) if data else [b"", b""]
        if len(parts) == 1:
            parts = [parts[0], b""]
        out, bounds = b"", []
        for p in parts:
            out += gzip.compress(p, mtime=0)
            bounds.append(len(out))
        return out, bounds
    if coding == "deflate":
        e = zlib.compress(data)
        return e, [len(e)]
    if coding == "deflate-raw":
        c = zlib.compressobj(6, zlib.DEFLATED, -zlib.MAX_WBITS)
        e = c.compress(data) + c.flush()
        return e, [len(e)]
    if coding == "zstd":
        e = zstandard.ZstdCompressor(level=3).compress(data)
        return e, [len(e)]
    if coding == "zstd-mf":
        parts = _split(data, rng.choice([2, 3]), rng) if data else [b"", b""]
        if len(parts) == 1:
            parts = [parts[0], b""]
        out, bounds = b"", []
        for p in parts:
            out += zstandard.ZstdCompressor(level=3).compress(p)
            bounds.append(len(out))
        return out, bounds
    raise GenError("unknown coding " + coding)


def _dec1(data: bytes, coding: str) -> bytes:
    """Independent one-shot decoder (raises on undecodable / incomplete input)."""
    if coding == "identity":
        return data
    if coding in ("gzip", "gzip-mm"):
        return gzip.decompress(data)
    if coding == "deflate":
        return zlib.decompress(data)
    if coding == "deflate-raw":
        d = zlib.decompressobj(-zlib.MAX_WBITS)
        out = d.decompress(data)
        if not d.eof:
            raise zlib.error("incomplete raw deflate stream")
        return out
    if coding in ("zstd", "zstd-mf"):
        out = io.BytesIO()
        pos = 0
        if not data:
            raise zstandard.ZstdError("empty")
        while pos < len(data):
            o = zstandard.ZstdDecompressor().decompressobj()
            out.write(o.decompress(data[pos:]))
            if not o.eof:
                raise zstandard.ZstdError("incomplete frame")
            pos = len(data) - len(o.unused_data)
        return out.getvalue()
    raise GenError("unknown coding " + coding)


def encode(data: bytes, coding: str, seed: int):
    """Apply a (possibly stacked) coding.  Returns (encoded, Content-Encoding value or None, boundaries of the
    OUTERMOST layer, list of layer names in application order)."""
    rng = random.Random(seed * 104729 + len(data))
    layers = coding.split(",")
    cur, bounds = data, []
    for ly in layers:
        cur, bounds = _enc1(cur, ly, rng)
    hdr = ", ".join(HEADER[ly] for ly in layers if HEADER[ly]) or None
    return cur, hdr, bounds, layers


def decode(data: bytes, coding: str) -> bytes:
    """Independent decode of a full encoded body (outermost layer first)."""
    for ly in reversed(coding.split(",")):
        data = _dec1(data, ly)
    return data


def try_decode(data: bytes, coding: str):
    """(True, bytes) when the independent decoders accept the stream, else (False, None)."""
    try:
        return True, decode(data, coding)
    except (zlib.error, OSError, EOFError, zstandard.ZstdError, ValueError):
        return False, None


def chunk_vector(n: int, kind: str, seed: int) -> list:
    """Chunk-size vectors (sizes sum to n; no zero-size data chunk)."""
    rng = random.Random(seed * 31 + n)
    if n == 0:
        return []
    if kind == "one":
        return [n]
    if kind == "ones":
        return [1] * n if n <= 64 else [1] * 64 + [n - 64]
    if kind == "sevens":
        return [7] * (n // 7) + ([n % 7] if n % 7 else [])
    if kind == "big":
        v, left = [], n
        while left:
            s = min(left, rng.choice([17, 256, 4096, 9000, 70000]))
            v.append(s)
            left -= s
        return v
    v, left = [], n                                        # "rand"
    while left:
        s = min(left, rng.choice([1, 2, 3, 5, 8, 13, 16, 31, 100, 1000]))
        v.append(s)
        left -= s
    return v


def chunked_wire(body: bytes, sizes: list, ext: bool, seed: int):
    """Chunked transfer coding of `body` with the given chunk sizes.  Returns (wire, layout) where layout is a
    list of (kind, start, end, chunk_index) with kind in size/data/crlf/last/trailer."""
    rng = random.Random(seed * 17 + len(body))
    out, lay, pos = bytearray(), [], 0
    for i, s in enumerate(sizes):
        line = (b"%X" if (ext and rng.random() < 0.3) else b"%x") % s
        if ext and rng.random() < 0.6:
            line += rng.choice([b";ext=1", b";a;b=c", b'; q="x y"', b";" + b"n" * 30])
        line += b"\r\n"
        lay.append(("size", len(out), len(out) + len(line), i))
        out += line
        lay.append(("data", len(out), len(out) + s, i))
        out += body[pos:pos + s]
        pos += s
        lay.append(("crlf", len(out), len(out) + 2, i))
        out += b"\r\n"
    if pos != len(body):
        raise GenError("chunk vector does not cover the body")
    last = b"0" + (b";last=1" if (ext and rng.random() < 0.3) else b"") + b"\r\n"
    lay.append(("last", len(out), len(out) + len(last), len(sizes)))
    out += last
    lay.append(("trailer", len(out), len(out) + 2, len(sizes)))
    out += b"\r\n"
    return bytes(out), lay


def build(case: dict) -> dict:
    """case: size, pseed, coding, framing, chunks (kind), ext (bool), [damage: {kind, at, byte}]
    -> dict(head, wire, layout, raw, expect_decoded, ce, bounds, close, cut, dmg_class ...)."""
    pl = payload(case["size"], case.get("pseed", 0))
    enc, ce, bounds, layers = encode(pl, case["coding"], case.get("pseed", 0))
    ok, back = try_decode(enc, case["coding"])
    if not ok or back != pl:
        raise GenError("independent decoder does not invert the encoder for %r" % (case,))
    framing = case["framing"]
    hs = [("Content-Type", "application/octet-stream")]
    if ce:
        hs.append(("Content-Encoding", ce))
    dmg = case.get("damage")
    raw = enc
    codepos = None
    if dmg and dmg["kind"] == "corruptcode":
        # single-byte corruption of the compressed stream (position given as a fraction index)
        codepos = dmg["at"] % max(1, len(enc))
        b = bytearray(enc)
        b[codepos] ^= dmg.get("xor", 0x55) or 0x55
        raw = bytes(b)
    if framing == "cl":
        hs.append(("Content-Length", str(len(raw))))
        wire, lay = raw, [("data", 0, len(raw), 0)]
    elif framing == "chunked":
        hs.append(("Transfer-Encoding", "chunked"))
        sizes = chunk_vector(len(raw), case.get("chunks", "rand"), case.get("pseed", 0))
        wire, lay = chunked_wire(raw, sizes, bool(case.get("ext")), case.get("pseed", 0))
    elif framing == "close":
        hs.append(("Connection", "close"))
        wire, lay = raw, [("data", 0, len(raw), 0)]
    else:
        raise GenError("unknown framing " + framing)
    head = ("HTTP/1.1 200 OK\r\n" + "".join(f"{k}: {v}\r\n" for k, v in hs) + "\r\n").encode("latin-1")
    res = {"payload": pl, "enc": enc, "raw": raw, "ce": ce, "bounds": bounds, "layers": layers, "head": head,
           "wire": wire, "layout": lay, "close": framing == "close", "cut": None, "dclass": "none",
           "must_error": False, "check_bytes": True, "codepos": codepos}
    if not dmg:
        return res
    k = dmg["kind"]
    if k == "cut":
        at = dmg["at"]
        if not (0 <= at < len(wire)):
            raise GenError("cut outside the wire body")
        res["cut"] = at
        res.update(classify_cut(framing, lay, at, raw, case["coding"], wire))
    elif k in ("badsize", "negsize", "emptysize"):
        if framing != "chunked":
            raise GenError("chunk-size corruption needs chunked framing")
        sizes_l = [x for x in lay if x[0] == "size"]
        if not sizes_l:
            raise GenError("no chunk-size line to corrupt")
        ent = sizes_l[dmg["at"] % len(sizes_l)]
        line = bytearray(wire[ent[1]:ent[2]])
        ndig = 0
        while ndig < len(line) and line[ndig:ndig + 1] not in (b";", b"\r"):
            ndig += 1
        if k == "badsize":
            line[dmg.get("digit", 0) % ndig] = ord(dmg.get("byte", "g"))
            new = bytes(line)
        elif k == "negsize":
            if ndig < 2:
                raise GenError("negative size needs a two-digit size line")
            line[0] = ord("-")
            new = bytes(line)
        else:
            new = bytes(line[ndig:])
        res["wire"] = wire[:ent[1]] + new + wire[ent[2]:]
        res["dclass"] = k
        res["must_error"] = True
        res["check_bytes"] = True           # whatever is delivered before the bad line is still a prefix
        res["bad_chunk"] = ent[3]
    elif k == "corruptcode":
        ok2, back2 = try_decode(raw, case["coding"])
        first_end = bounds[0] if bounds else len(enc)
        outer = layers[-1]
        if ok2:
            # the independent decoder accepts the corrupted stream: its output is the reference
            res["dclass"] = "corrupt-decodable"
            res["payload"] = back2
            res["must_error"] = False
            res["either"] = True
            res["check_bytes"] = False
        elif outer in ("gzip", "gzip-mm") and codepos >= first_end:
            # urllib3 (like other clients) tolerates garbage after the first gzip member: Either
            res["dclass"] = "corrupt-later-member"
            res["either"] = True
            res["check_bytes"] = False
        else:
            res["dclass"] = "corrupt-undecodable"
            res["must_error"] = True
            res["check_bytes"] = False
    else:
        raise GenError("unknown damage " + k)
    return res


def classify_cut(framing, lay, at, raw, coding, wire):
    """Where does a cut after `at` wire bytes fall relative to the framing?"""
    strict = coding.split(",")[-1] in STRICT
    if framing == "cl":
        return {"dclass": "cut-cl", "must_error": True}
    if framing == "chunked":
        for kind, a, b, i in lay:
            if a <= at < b or (at == a == b):
                break
        last = [x for x in lay if x[0] == "last"][0]
        if at <= last[1]:
            cls = {"size": "cut-size-line", "data": "cut-chunk-data", "crlf": "cut-chunk-crlf",
                   "last": "cut-before-last"}[kind]
            return {"dclass": cls, "must_error": True}
        return {"dclass": "cut-in-last-or-trailer", "must_error": False, "either": True}
    # close-delimited: the framing cannot tell; only a strict coding can
    if coding == "identity":
        return {"dclass": "cut-close-identity", "must_error": False, "either": True, "check_bytes": True}
    ok, _ = try_decode(raw[:at], coding)
    if strict and not ok:
        return {"dclass": "cut-close-strict", "must_error": True}
    return {"dclass": "cut-close-lenient", "must_error": False, "either": True}
