"""Response generation shared by C12 and C13 (independent of urllib3).

A *case* fixes payload, content coding, framing, chunk-size vector, segmentation and optional damage
(cut / corruption).  `build(case)` returns the head bytes, the body bytes as they appear on the wire,
the layout of the wire body (which byte belongs to which framing element), the transfer-decoded raw
body and the expected decoded payload, all computed with stdlib zlib / gzip and the zstandard package
only -- never with urllib3.
"""
from __future__ import annotations

import gzip
import io
import random
import zlib

import zstandard

CODINGS = ["identity", "gzip", "gzip-mm", "deflate", "deflate-raw", "zstd", "zstd-mf",
           "gzip,deflate", "deflate,gzip", "gzip,zstd", "zstd,gzip", "zstd-mf,deflate-raw"]
FRAMINGS = ["cl", "chunked", "close"]
HEADER = {"identity": None, "gzip": "gzip", "gzip-mm": "gzip", "deflate": "deflate", "deflate-raw": "deflate",
          "zstd": "zstd", "zstd-mf": "zstd"}
STRICT = {"zstd", "zstd-mf"}          # codings for which an incomplete stream must be an error


class GenError(Exception):
    pass


def payload(size: int, seed: int) -> bytes:
    """Deterministic payload with line structure (for iteration) and moderate compressibility."""
    rng = random.Random(seed * 7919 + size)
    if size > 200000:                    # LARGE class (> buffer sizes, > 1 MiB): incompressible, so that the encoded
        return rng.randbytes(size)       # body on the wire is large too
    out = bytearray()
    words = [b"alpha", b"beta", b"\n", b"gamma\n", b"\x00\xff", b"delta-delta-delta", b"\r\n", b"0", b"e" * 40]
    while len(out) < size:
        if rng.random() < 0.3:
            out += bytes(rng.getrandbits(8) for _ in range(rng.randint(1, 12)))
        else:
            out += rng.choice(words)
    return bytes(out[:size])


def _split(data: bytes, parts: int, rng) -> list:
    if parts <= 1 or len(data) < parts:
        return [data]
    cuts = sorted(rng.sample(range(1, len(data)), parts - 1))
    return [data[a:b] for a, b in zip([0] + cuts, cuts + [len(data)])]


def _parts(data: bytes, rng, members):
    """Split `data` into member payloads: explicit sizes when given, else 2-3 random parts."""
    if members:
        out, pos = [], 0
        for m in members:
            out.append(data[pos:pos + m])
            pos += m
        if pos != len(data):
            raise GenError("member sizes do not cover the payload")
        return out
    parts = _split(data, rng.choice([2, 3]), rng) if data else [b"", b""]
    if len(parts) == 1:
        parts = [parts[0], b""]
    return parts


def _enc1(data: bytes, coding: str, rng, members=None):
    """One coding layer.  Returns (encoded, boundaries) where boundaries are the offsets in `encoded`
    at which a member / frame ends (including the final one)."""
    if coding == "identity":
        return data, []
    if coding == "gzip":
        e = gzip.compress(data, mtime=0)
        return e, [len(e)]
    if coding == "gzip-mm":
        parts = _parts(data, rng, members)
        out, bounds = b"", []
        for p in parts:
            out += gzip.compress(p, mtime=0)
            bounds.append(len(out))
        return out, bounds
    if coding == "deflate":
        e = zlib.compress(data)
        return e, [len(e)]
    if coding == "deflate-raw":
        c = zlib.compressobj(6, zlib.DEFLATED, -zlib.MAX_WBITS)
        e = c.compress(data) + c.flush()
        return e, [len(e)]
    if coding == "zstd":
        e = zstandard.ZstdCompressor(level=3).compress(data)
        return e, [len(e)]
    if coding == "zstd-mf":
        parts = _parts(data, rng, members)
        out, bounds = b"", []
        for p in parts:
            out += zstandard.ZstdCompressor(level=3).compress(p)
            bounds.append(len(out))
        return out, bounds
    raise GenError("unknown coding " + coding)


def _dec1(data: bytes, coding: str) -> bytes:
    """Independent one-shot decoder (raises on undecodable / incomplete input)."""
    if coding == "identity":
        return data
    if coding in ("gzip", "gzip-mm"):
        return gzip.decompress(data)
    if coding == "deflate":
        return zlib.decompress(data)
    if coding == "deflate-raw":
        d = zlib.decompressobj(-zlib.MAX_WBITS)
        out = d.decompress(data)
        if not d.eof:
            raise zlib.error("incomplete raw deflate stream")
        return out
    if coding in ("zstd", "zstd-mf"):
        out = io.BytesIO()
        pos = 0
        if not data:
            raise zstandard.ZstdError("empty")
        while pos < len(data):
            o = zstandard.ZstdDecompressor().decompressobj()
            out.write(o.decompress(data[pos:]))
            if not o.eof:
                raise zstandard.ZstdError("incomplete frame")
            pos = len(data) - len(o.unused_data)
        return out.getvalue()
    raise GenError("unknown coding " + coding)


def encode(data: bytes, coding: str, seed: int, members=None):
    """Apply a (possibly stacked) coding.  Returns (encoded, Content-Encoding value or None, boundaries of the
    OUTERMOST layer, list of layer names in application order).  `members` = explicit payload sizes of the
    members / frames of the (single) multi-member layer; for a stack they apply to the outermost layer, whose
    input is then split proportionally."""
    rng = random.Random(seed * 104729 + len(data))
    layers = coding.split(",")
    cur, bounds = data, []
    for i, ly in enumerate(layers):
        mem = None
        if members and ly in ("gzip-mm", "zstd-mf") and i == len(layers) - 1:
            if len(layers) == 1:
                mem = list(members)
            else:                                   # split the inner layer's output in the same proportions
                tot, acc, mem = sum(members) or 1, 0, []
                for m in members[:-1]:
                    k = max(1, min(len(cur) - 1, (len(cur) * (acc + m)) // tot)) - sum(mem)
                    mem.append(max(0, k))
                    acc += m
                mem.append(len(cur) - sum(mem))
        cur, bounds = _enc1(cur, ly, rng, mem)
    hdr = ", ".join(HEADER[ly] for ly in layers if HEADER[ly]) or None
    return cur, hdr, bounds, layers


def decode(data: bytes, coding: str) -> bytes:
    """Independent decode of a full encoded body (outermost layer first)."""
    for ly in reversed(coding.split(",")):
        data = _dec1(data, ly)
    return data


def try_decode(data: bytes, coding: str):
    """(True, bytes) when the independent decoders accept the stream, else (False, None)."""
    try:
        return True, decode(data, coding)
    except (zlib.error, OSError, EOFError, zstandard.ZstdError, ValueError):
        return False, None


def chunk_vector(n: int, kind: str, seed: int) -> list:
    """Chunk-size vectors (sizes sum to n; no zero-size data chunk)."""
    rng = random.Random(seed * 31 + n)
    if n == 0:
        return []
    if kind == "one":
        return [n]
    if kind == "ones":
        return [1] * n if n <= 64 else [1] * 64 + [n - 64]
    if kind == "sevens":
        return [7] * (n // 7) + ([n % 7] if n % 7 else [])
    if kind == "big":
        v, left = [], n
        while left:
            s = min(left, rng.choice([17, 256, 4096, 9000, 70000]))
            v.append(s)
            left -= s
        return v
    v, left = [], n                                        # "rand"
    while left:
        s = min(left, rng.choice([1, 2, 3, 5, 8, 13, 16, 31, 100, 1000]))
        v.append(s)
        left -= s
    return v


def chunked_wire(body: bytes, sizes: list, ext: bool, seed: int):
    """Chunked transfer coding of `body` with the given chunk sizes.  Returns (wire, layout) where layout is a
    list of (kind, start, end, chunk_index) with kind in size/data/crlf/last/trailer."""
    rng = random.Random(seed * 17 + len(body))
    out, lay, pos = bytearray(), [], 0
    for i, s in enumerate(sizes):
        line = (b"%X" if (ext and rng.random() < 0.3) else b"%x") % s
        if ext and rng.random() < 0.6:
            line += rng.choice([b";ext=1", b";a;b=c", b'; q="x y"', b";" + b"n" * 30])
        line += b"\r\n"
        lay.append(("size", len(out), len(out) + len(line), i))
        out += line
        lay.append(("data", len(out), len(out) + s, i))
        out += body[pos:pos + s]
        pos += s
        lay.append(("crlf", len(out), len(out) + 2, i))
        out += b"\r\n"
    if pos != len(body):
        raise GenError("chunk vector does not cover the body")
    last = b"0" + (b";last=1" if (ext and rng.random() < 0.3) else b"") + b"\r\n"
    lay.append(("last", len(out), len(out) + len(last), len(sizes)))
    out += last
    lay.append(("trailer", len(out), len(out) + 2, len(sizes)))
    out += b"\r\n"
    return bytes(out), lay


# ------------------------------------------------------------------ independent streaming verdict
def _status1(data: bytes, layer: str):
    """Verdict of an independent STREAMING decoder for one layer on `data`:
    (status, output, zstd_incomplete) with status in ok | incomplete | error | latererror | empty."""
    if layer == "identity":
        return "ok", data, False
    if not data:
        return "empty", b"", False
    if layer in ("gzip", "gzip-mm"):
        pos, out, members = 0, b"", 0
        while True:
            d = zlib.decompressobj(16 + zlib.MAX_WBITS)
            try:
                out += d.decompress(data[pos:])
            except zlib.error:
                return ("latererror" if members else "error"), out, False
            if not d.eof:
                return "incomplete", out, False
            members += 1
            if not d.unused_data:
                return "ok", out, False
            pos = len(data) - len(d.unused_data)
    if layer in ("deflate", "deflate-raw"):
        # "deflate" on the wire is zlib or raw deflate in practice: decodable if either reading works
        best = None
        for wb in (zlib.MAX_WBITS, -zlib.MAX_WBITS):
            d = zlib.decompressobj(wb)
            try:
                out = d.decompress(data)
            except zlib.error:
                continue
            st = "ok" if d.eof else "incomplete"
            if best is None or (st == "ok" and best[0] != "ok"):
                best = (st, out, False)
        return best or ("error", b"", False)
    if layer in ("zstd", "zstd-mf"):
        pos, out = 0, b""
        while pos < len(data):
            o = zstandard.ZstdDecompressor().decompressobj()
            try:
                out += o.decompress(data[pos:])
            except zstandard.ZstdError:
                return "error", out, False
            if not o.eof:
                return "incomplete", out, True
            pos = len(data) - len(o.unused_data)
        return "ok", out, False
    raise GenError("unknown coding " + layer)


def stream_status(raw: bytes, coding: str):
    """Verdict on the whole (possibly stacked) content coding, outermost layer first.
    -> (indep, strict, output) : indep as in spec/BodyRules.tla; strict = zstd's rule applies (for an incomplete
    stream: a zstd layer is among the incomplete ones; otherwise: some layer is zstd)."""
    layers = coding.split(",")
    data, worst, zinc = raw, "ok", False
    for ly in reversed(layers):
        st, data, zi = _status1(data, ly)
        zinc = zinc or zi
        if st in ("error", "latererror"):
            return st, any(x.startswith("zstd") for x in layers), data
        if st == "empty":
            return ("empty" if worst == "ok" else worst), any(x.startswith("zstd") for x in layers), b""
        if st == "incomplete":
            worst = "incomplete"
    strict = zinc if worst == "incomplete" else any(x.startswith("zstd") for x in layers)
    return worst, strict, data


HEX = b"0123456789abcdefABCDEF"


def size_line_class(wire: bytes, start: int, orig_line: bytes) -> str:
    """Strict RFC 9112 reading of the chunk-size line that starts at `start` in the damaged wire (independent of
    urllib3 / http.client): same | lenient | ext | othersize | malformed  (spec/BodyRules.tla, fact `line`)."""
    nl = wire.find(b"\n", start)
    if nl < 0:
        return "malformed"
    line = wire[start:nl + 1]
    bare_lf = not line.endswith(b"\r\n")
    content = line[:-1] if bare_lf else line[:-2]
    if b"\r" in content:
        return "malformed"                       # a CR that is not part of the terminator: the LF was destroyed and the
                                                 # "line" now runs into the chunk data
    sizepart, sep, ext = content.partition(b";")
    s = sizepart.strip(b" \t")
    if not s or any(c not in HEX for c in s):
        return "malformed"                       # no size, sign, junk after / inside the digits, CR without LF, ...
    osize, _, oext = orig_line[:-2].partition(b";")
    if int(s, 16) != int(osize, 16):
        return "othersize"                       # well-formed line announcing another size
    if s != sizepart or bare_lf:
        return "lenient"                         # SP / HTAB around the size, bare LF: recipients may tolerate
    if (sep + ext) != (orig_line[:-2][len(osize):]):
        return "ext"                             # only the extension changed: recipients ignore extensions
    return "same"


DMG_KIND = {"none": "none", "cut": "cut", "junksize": "junksize", "badsize": "badsize", "negsize": "negsize", "emptysize": "emptysize",
            "corruptcode": "corrupt", "trunccode": "none"}


def build(case: dict) -> dict:
    """case: size | members (payload bytes per member / frame), pseed, coding, framing, chunks (kind) | sizes
    (explicit chunk-size vector), ext (bool), decode (bool, default True),
    damage: {kind: cut | badsize | negsize | emptysize | corruptcode | trunccode, at, ...}
    -> head, wire (damaged body bytes as sent), layout of the undamaged framing, raw (transfer-decoded content as
    sent), payload (decoded), expected (what the caller must receive), facts (spec/BodyRules.tla), cut, ..."""
    members = case.get("members")
    size = sum(members) if members else case["size"]
    seed = case.get("pseed", 0)
    pl = payload(size, seed)
    enc, ce, bounds, layers = encode(pl, case["coding"], seed, members)
    ok, back = try_decode(enc, case["coding"])
    if not ok or back != pl:
        raise GenError("independent decoder does not invert the encoder for %r" % (case,))
    framing = case["framing"]
    decode_on = bool(case.get("decode", True))
    hs = [("Content-Type", "application/octet-stream")]
    if ce:
        hs.append(("Content-Encoding", ce))
    dmg = case.get("damage") or None
    kind = dmg["kind"] if dmg else "none"
    raw, codepos = enc, None
    if kind == "corruptcode":
        if case["coding"] == "identity":
            raise GenError("nothing to corrupt in an identity body")
        codepos = dmg["at"] % max(1, len(enc))
        b = bytearray(enc)
        b[codepos] ^= dmg.get("xor", 0x55) or 0x55
        raw = bytes(b)
    elif kind == "trunccode":
        if case["coding"] == "identity" or not (0 < dmg["at"] < len(enc)):
            raise GenError("truncation point outside the encoded stream")
        raw = enc[:dmg["at"]]
    if framing == "cl":
        hs.append(("Content-Length", str(len(raw))))
        wire, lay = raw, [("data", 0, len(raw), 0)]
    elif framing == "chunked":
        hs.append(("Transfer-Encoding", "chunked"))
        sizes = case.get("sizes")
        if sizes is None:
            sizes = chunk_vector(len(raw), case.get("chunks", "rand"), seed)
        wire, lay = chunked_wire(raw, list(sizes), bool(case.get("ext")), seed)
    elif framing == "close":
        hs.append(("Connection", "close"))
        wire, lay = raw, [("data", 0, len(raw), 0)]
    else:
        raise GenError("unknown framing " + framing)
    head = ("HTTP/1.1 200 OK\r\n" + "".join(f"{k}: {v}\r\n" for k, v in hs) + "\r\n").encode("latin-1")
    res = {"payload": pl, "enc": enc, "raw": raw, "ce": ce, "bounds": bounds, "layers": layers, "head": head,
           "wire": wire, "layout": lay, "close": framing == "close", "cut": None, "codepos": codepos,
           "garbled": kind in ("badsize", "negsize", "emptysize", "corruptcode", "trunccode", "sizebyte")}
    linecls = "none"
    carried = raw                                # content bytes the (damaged) framing still carries
    if kind == "cut":
        at = dmg["at"]
        if not (0 <= at < len(wire)):
            raise GenError("cut outside the wire body")
        res["cut"] = at
        carried = b"".join(wire[a:min(b, at)] for k, a, b, _ in lay if k == "data" and a < at)
    elif kind in ("badsize", "negsize", "emptysize"):
        if framing != "chunked":
            raise GenError("chunk-size corruption needs chunked framing")
        sizes_l = [x for x in lay if x[0] == "size"]
        if not sizes_l:
            raise GenError("no chunk-size line to corrupt")
        ent = sizes_l[dmg["at"] % len(sizes_l)]
        line = bytearray(wire[ent[1]:ent[2]])
        ndig = 0
        while ndig < len(line) and line[ndig:ndig + 1] not in (b";", b"\r"):
            ndig += 1
        if kind == "badsize":
            line[dmg.get("digit", 0) % ndig] = ord(dmg.get("byte", "g"))
            new = bytes(line)
        elif kind == "negsize":
            new = b"-" + bytes(line)
        else:
            new = bytes(line[ndig:])
        res["wire"] = wire[:ent[1]] + new + wire[ent[2]:]
        res["bad_chunk"] = ent[3]
    elif kind == "sizebyte":
        # one byte of one chunk-size line (index len(sizes) = the terminating zero-size chunk line) replaced
        if framing != "chunked":
            raise GenError("chunk-size corruption needs chunked framing")
        lines = [x for x in lay if x[0] in ("size", "last")]
        ent = lines[dmg["line"] % len(lines)]
        pos = ent[1] + dmg["pos"] % (ent[2] - ent[1])
        rep = dmg["byte"] if isinstance(dmg["byte"], int) else ord(dmg["byte"])
        if wire[pos] == rep:
            raise GenError("replacement equals the original byte")
        res["wire"] = wire[:pos] + bytes([rep]) + wire[pos + 1:]
        linecls = size_line_class(res["wire"], ent[1], wire[ent[1]:ent[2]])
        nl = res["wire"].find(b"\n", ent[1])
        tok = res["wire"][ent[1]:(nl if nl >= 0 else len(res["wire"]))].split(b";", 1)[0]
        try:                                     # what int(token, 16) -- both parsers' reading -- makes of the size token
            res["int16"] = int(tok, 16)
        except ValueError:
            res["int16"] = None
        res["bad_chunk"] = ent[3]
    if decode_on:
        indep, strict, out = stream_status(carried, case["coding"])
        expected = pl
        if kind in ("corruptcode", "trunccode", "cut") and indep == "ok":
            expected = out           # e.g. a stream cut exactly at a frame end is a complete, shorter body
    else:
        indep, strict, expected = "ok", False, raw
    res["expected"] = expected
    fdmg = DMG_KIND.get(kind, kind)
    if kind == "sizebyte" and linecls == "same":
        fdmg, linecls = "none", "none"           # e.g. a token character of an extension replaced by another one
    res["facts"] = {"framing": framing, "strict": bool(strict), "decoding": bool(decode_on and ce),
                    "dmg": fdmg, "indep": indep, "total": len(expected),
                    # after a malformed / re-sized line the parsers are out of step with the data: what they hand out before
                    # they notice is not judged, only that they never end normally
                    "checkbytes": kind != "corruptcode" and linecls not in ("othersize", "malformed"), "line": linecls}
    res["layout3"] = [[k, a, b] for k, a, b, _ in lay]
    res["cutat"] = res["cut"] if res["cut"] is not None else 0
    return res
