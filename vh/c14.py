"""C14 — URL parsing is total, canonical, and agrees with RFC 3986 on what the host is.

stage 1  TLC enumerates every string over the delimiter-heavy alphabet up to the length bound
         (sharded by leading symbols; the shards partition the domain) and checks on each one that
         the independent reading Ref (spec/Url.tla) is well defined (Recompose,
         AuthorityEndsAtFirstDelimiter, HostNeverContainsDelimiter) and that Model |= Rules
         (ModelSatisfiesRules, ModelNormalForm); EncoderSound is checked on the encoder's alphabet
stage 2  the same runs emit, sparsely, the reference reading (kind, positions of userinfo / host,
         port) and the observation the model predicts (strings that print nothing: the model
         predicts LocationParseError)
stage 3  the real parse_url (and the re-parse of its string form) is called on EVERY string of the
         domain; an observation identical to the one TLC emitted is covered by the stage-1 proof of
         ModelSatisfiesRules; every other observation (model "unknown": IP-literals, %-hosts; or
         any disagreement) is recorded as a trace
stage 4  recorded traces + grammar-generated hostile URLs + random unicode (+ a sample of the
         agreeing observations) are validated by TLC against spec/Url_Trace.tla: Url!Verdict names
         the failing clause (hard), Drift compares with ModelParse (soft)

Watchdog: every evaluation of the real code runs in a forked worker under a CPU-time budget
(vh/guard.py: max(2 s, 200 x median per-input CPU time) of WORKER CPU time, so machine load cannot
trip it); an input whose evaluation is killed is recorded with the observation "did-not-return",
which Url!Verdict judges with the hard clause Totality:DidNotReturn.  The harness never hangs.

NOT covered: the running-time clause ("no super-linear running time") - a resource bound is not
expressible in TLA+/TLC.  An informational timing probe is recorded in the evidence; it can flag
only a totality violation (an exception other than LocationParseError), never a timing one.
"""
from __future__ import annotations

import itertools
import json
import multiprocessing as mp
import os
import random
import time

from . import guard, known, tlc

JOBS = int(os.environ.get("VERIF_JOBS") or os.cpu_count() or 4)   # every pool is sized by this

NONE = [1114112]
ALPHA12 = [97, 49, 47, 63, 35, 92, 64, 58, 91, 93, 37, 46]
ALPHA13 = ALPHA12 + [66]
ALPHAENC = [37, 97, 49, 66, 122, 32, 47, 64, 63, 233]
PREFIX = {0: "", 1: "http://", 2: "https://", 3: "HTTP://a@", 4: "hTTps://B:1@"}
FIELDS = ("scheme", "auth", "host", "port", "path", "query", "fragment")

STAGE1_INVS = ["Recompose", "AuthorityEndsAtFirstDelimiter", "HostNeverContainsDelimiter",
               "ModelSatisfiesRules", "ModelNormalForm"]

MC_CFG = """SPECIFICATION Spec
CONSTANTS Alphabet <- {alpha}
  MaxLen <- MCMaxLen
  Seeds <- MCSeeds
  Grow <- MCGrow
  PrefixId = {p}
  N = {n}
  SeedLen = {sl}
  C1 = {c1}
  C2 = {c2}
  WLevel = 1
  WShard = 0
  WShards = 1
{invs}
CHECK_DEADLOCK FALSE
"""
TRACE_CFG = """SPECIFICATION TSpec
CONSTANTS Alphabet <- TrAlphabet
  MaxLen = 0
  Seeds <- TrSeeds
  Grow = FALSE
CHECK_DEADLOCK FALSE
"""


# ------------------------------------------------------------------------------ real code

def _api():
    from urllib3.exceptions import LocationParseError
    from urllib3.util.url import parse_url
    return parse_url, LocationParseError


def cps(x):
    return NONE if x is None else [ord(c) for c in x]


def text(a):
    return "".join(map(chr, a))


def urec(u):
    return {"scheme": cps(u.scheme), "auth": cps(u.auth), "host": cps(u.host),
            "port": -1 if u.port is None else (u.port if -2 ** 31 < u.port < 2 ** 31 else 2 ** 31 - 1),
            "path": cps(u.path), "query": cps(u.query), "fragment": cps(u.fragment)}


DUMMY = {"scheme": NONE, "auth": NONE, "host": NONE, "port": -1, "path": NONE, "query": NONE, "fragment": NONE}


def observe(s, ref=()):
    """One trace: the real parse_url on s, and on the string form of its result."""
    parse_url, LPE = _api()
    ev = {"kind": "parse", "s": [ord(c) for c in s], "k": "url", "u": DUMMY, "k2": "-", "u2": DUMMY, "ref": list(ref)}
    try:
        u = parse_url(s)
    except LPE:
        ev["k"] = "lpe"
        return ev
    except Exception as ex:       # anything else is what the totality clause forbids
        ev["k"] = type(ex).__name__
        return ev
    if type(u).__name__ != "Url":
        ev["k"] = "not-a-Url:" + type(u).__name__
        return ev
    ev["u"] = urec(u)
    try:
        u2 = parse_url(u.url)
        ev["k2"], ev["u2"] = "url", urec(u2)
    except LPE:
        ev["k2"] = "lpe"
    except Exception as ex:
        ev["k2"] = type(ex).__name__
    return ev


def validate(traces):
    """Batch trace validation by TLC.  Returns [(tid, clause, drift, facts)]."""
    if not traces:
        return []
    r = tlc.run("Url_Trace", TRACE_CFG, workers=1, files={"traces.json": json.dumps(traces)},
                env={"TRACE_FILE": "traces.json"}, timeout=7200, heap="3g")
    vs = tlc.tagged_tuples(r.out, "VERDICT")
    if len(vs) != len(traces) or any(len(v) != 5 for v in vs):
        raise tlc.MachineryError(f"Url_Trace produced {len(vs)} verdicts for {len(traces)} traces\n{r.out[-2000:]}")
    out = []
    for tid, _pos, clause, drift, facts in vs:
        out.append((tid, clause, drift, json.loads(facts)))
    if [v[0] for v in out] != list(range(1, len(traces) + 1)):
        raise tlc.MachineryError("Url_Trace verdicts out of order")
    return out


def judge(traces, res):
    """Validate `traces`, file bad verdicts / drift in the shard result `res`."""
    for i in range(0, len(traces), 4000):
        part = traces[i:i + 4000]
        for (tid, clause, drift, facts), ev in zip(validate(part), part):
            res["traces"] += 1
            res["clauses"][clause] = res["clauses"].get(clause, 0) + 1
            if clause.startswith("Machinery"):
                raise tlc.MachineryError(f"{clause} on {text(ev['s'])!r}")
            if clause != "ok":
                if len(res["bad"]) < 25:
                    res["bad"].append((clause, facts, ev))
                res["nbad"] += 1
            elif drift != "-":
                if len(res["drift"]) < 10:
                    res["drift"].append(f"{drift} on {text(ev['s'])!r}: observed {ev['k']} "
                                        f"{[None if ev['u'][f] == NONE else (ev['u'][f] if f == 'port' else text(ev['u'][f])) for f in FIELDS]}")
                res["ndrift"] += 1


def _new_res():
    return {"traces": 0, "clauses": {}, "bad": [], "nbad": 0, "drift": [], "ndrift": 0}


# ------------------------------------------------------------------------------ stages 1-3 (one shard)

def guarded_observe(strings, res, **kw):
    """observe() on every string inside the CPU-time watchdog (vh/guard.py).  A string whose evaluation
    was killed yields the observation k = "did-not-return"; strings abandoned after too many kills are
    counted in res["skipped"] (the run is a failure by then)."""
    _api()           # import the code under test before forking, so the workers start warm
    evs, dnr, info = guard.guarded_map(observe, strings, **kw)
    for i, used in dnr.items():
        evs[i] = dict(observe_stub(strings[i]), k="did-not-return", cpu_s=round(used, 2))
    res["dnr"] = res.get("dnr", 0) + len(dnr)
    res["skipped"] = res.get("skipped", 0) + len(info["skipped"])
    res["budget_s"] = max(res.get("budget_s", 0.0), info["budget_s"])
    res["max_input_cpu_s"] = max(res.get("max_input_cpu_s", 0.0), info["max_input_cpu_s"])
    return evs


def observe_stub(s):
    return {"kind": "parse", "s": [ord(c) for c in s], "k": "-", "u": DUMMY, "k2": "-", "u2": DUMMY, "ref": []}


def _exhaustive_shard(job):
    plan, c1, c2, sample_seed = job
    alpha = {"MCAlpha12": ALPHA12, "MCAlpha13": ALPHA13}[plan["alpha"]]
    pfx = PREFIX[plan["p"]]
    rng = random.Random(sample_seed)
    emitted = {}
    res = _new_res()
    res.update(emitted=0, agree=0, evaluations=0, accepted=0, nontrivial=0, samples=[])
    pending = []

    def on_line(ln):
        if not ln.startswith('<<"R", "'):
            return False
        if not ln.endswith('">>'):
            raise tlc.MachineryError("truncated emission line: " + ln[:200])
        d = json.loads(ln[8:-3].replace('\\"', '"'))
        emitted[text(d[0])] = d[1:]
        res["emitted"] += 1
        return True

    invs = "".join(f"INVARIANT {i}\n" for i in STAGE1_INVS + ["EmitRef"])
    r = tlc.run("MC_Url", MC_CFG.format(alpha=plan["alpha"], p=plan["p"], n=plan["n"], sl=plan["sl"], c1=c1, c2=c2, invs=invs),
                workers=1, on_line=on_line, timeout=14400)
    res.update(distinct=r.distinct, generated=r.generated, violated=r.violated, wall=r.wall, domain=0)
    if r.violated:        # TLC stopped at the counter-example: the run is reported as a stage-1 violation
        res["trace"] = [ln for ln in r.out.splitlines() if ln.startswith("s = ")][-1:]
        return res
    # the whole domain of this shard (strings that printed nothing: the model predicts LocationParseError)
    if plan["sl"] == 0:
        heads, maxrest = [""], plan["n"]
    elif c1 == 0:
        heads, maxrest = [""] + ([chr(c) for c in alpha] if plan["sl"] == 2 else []), 0
    else:
        heads, maxrest = [chr(c1) + (chr(c2) if plan["sl"] == 2 else "")], plan["n"] - plan["sl"]
    chars = [chr(c) for c in alpha]
    domain = [pfx + h + "".join(tup) for h in heads for k in range(0, maxrest + 1) for tup in itertools.product(chars, repeat=k)]
    res["domain"] = len(domain)
    dset = set(domain)
    if len(domain) != r.distinct or len(dset) != len(domain) or any(s not in dset for s in emitted):
        raise tlc.MachineryError(f"shard {plan} c1={c1} c2={c2}: python domain {len(domain)} != TLC distinct states {r.distinct}")
    # stage 3: the real parse_url on every string of the domain, inside the CPU-time watchdog
    for s, ev in zip(domain, guarded_observe(domain, res)):
        if ev is None:
            continue                      # abandoned after too many kills (counted in res["skipped"])
        res["evaluations"] += 1
        d = emitted.get(s)
        if d is None:                     # the model predicts LocationParseError
            if ev["k"] == "lpe":
                res["agree"] += 1
                if rng.random() < plan["sample"]:
                    pending.append(ev)
            else:
                if ev["k"] == "url":
                    res["accepted"] += 1
                pending.append(ev)
            continue
        kind, pos, port, mk, mu, k2m, samem, _demand = d
        ev["ref"] = [kind, pos, port]
        if ev["k"] == "url":
            res["accepted"] += 1
            if kind == "auth" and ev["u"]["host"] not in (NONE, []):
                res["nontrivial"] += 1
        agree = False
        if mk == "url" and ev["k"] == "url":
            got = [ev["u"][f] for f in FIELDS]
            agree = got == mu and ev["k2"] == k2m and (ev["u2"] == ev["u"]) == samem
        if agree:
            res["agree"] += 1
            if rng.random() < plan["sample"]:
                pending.append(ev)
            if len(res["samples"]) < 1 and kind == "auth" and ev["u"]["auth"] != NONE and port >= 0 and len(ev["u"]["host"]) > 1:
                res["samples"].append({"input": s, "reference": {"kind": kind, "positions": pos, "port": port},
                                       "parse_url": [None if x == NONE else (x if isinstance(x, int) else text(x)) for x in got]})
        else:
            pending.append(ev)
    judge(pending, res)
    return res


# ------------------------------------------------------------------------------ stage 4 generators

SCHEMES = ["http", "https", "HTTP", "hTTps", "", "ftp", "ws+x", "1http", "h.t-p+", "http+unix", "httpx", "HTTPS"]
USERINFOS = ["", "", "u", "u:p", "a@b", "a@b@c", "%41", "%4", "%zz", "u\\", " ", "é", ":", "@", "U%3aP", "a%40b", "#", "?", "/",
             "%25", "%2541", "a%41%"]
HOSTS = ["example.com", "EXAMPLE.com.", "127.0.0.1", "[::1]", "[FE80::1%25eth0]", "[fe80::1%eth0]", "[::1", "::1]", "[v1.x]",
         "bücher.example", "BÜCHER.example", "xn--bcher-kva.example", "a%41b", "a%zz", "a b", "a\\b", "", "1.2.3.4.5",
         "256.1.1.1", "a..b", ".", "ex_ample", "0x7f.1", "[::ffff:1.2.3.4]", "[1:2:3:4:5:6:7:8]", "[1:2:3:4:5:6:7:8:9]",
         "[::1%25]", "[::1%25a%41]", "[::1%25a/b]", "[::1]x", "x[::1]", "[[::1]]", "例え.jp", "a․b", "ａ.com",
         "-a.com", "a" * 64 + ".com", "ß.de", "a‍.b", "[::1%eth0%25x]", "[A::B%25Zone]", "EXAMPLE.COM", "1.2.3", "[::]",
         "\ud800.com", "a,b", "a;b", "a=b", "a~b", "a!b", "%", "%2e", "a%2Eb", "example.com\n", "a\nb.com", "example.com\r",
         "example.com\u2028", "[::1]\n"]
PORTS = ["", "", ":", ":80", ":443", ":080", ":0", ":00000", ":65535", ":65536", ":99999", ":100000", ":4294967377",
         ":1" + "0" * 20, ":-1", ":+80", ":8o", ": 80", ":٨٠", ":８０", ":0000000000000000000080", ":8 0",
         ":80:80", ":80@", ":0x50", ":80\n", ":\n", ":80\r", ":80 ", ":80\x0b"]
PATHS = ["", "", "/", "/a/../b", "/./a", "/..", "/a/.", "a/..", "/%2e%2e/", "/a%2fb", "/a b", "/é", "/%7e", "/%zz", "/%",
         "//x", "/\\x", "\\", "/a/../../..", "/.../", "/a;p", "/@", "/:", "/./", "/a/./b/../c", "/..a", "/a..", "/.a/..b/",
         "/%2E/", "/%C3%A9", "/%c3%a9", "/😀", "/a%", "/%4", "/%%41", "/[x]", "/{x}", "/a|b", "/a^b`c", "/\t", "/\n",
         "/a/..", "/../a", "\\..\\", "/a//../b", "/\x00"]
QUERIES = [None, None, "", "q", "a=b&c", "?", "%41", "%", " ", "é", "a/b", "a@b", "%3f", "%zz%41", "[]", "a\\b", "\ud800"]
FRAGS = [None, None, "", "f", "#", "?", "%zz", "é", "/", "a b", "%41%", "\\"]
DELIMS = "/?#\\@:[]%. \t\n\x00AaZz09-_~!$&'()*+,;=|^`{}<>\"éßİK例𐏿\U0001f600"


def gen_grammar(rng):
    sch = rng.choice(SCHEMES)
    ui, host, port = rng.choice(USERINFOS), rng.choice(HOSTS), rng.choice(PORTS)
    path, q, f = rng.choice(PATHS), rng.choice(QUERIES), rng.choice(FRAGS)
    s = (sch + ":" if sch else "") + rng.choice(["//", "//", "//", "", "/", "///", "\\\\", "/\\"]) \
        + (ui + "@" if ui or rng.random() < 0.1 else "") + host + port + path
    if q is not None:
        s += "?" + q
    if f is not None:
        s += "#" + f
    if rng.random() < 0.35:      # one or two point mutations at component boundaries
        for _ in range(rng.randint(1, 2)):
            i = rng.randint(0, len(s))
            c = rng.choice(DELIMS)
            op = rng.random()
            s = s[:i] + c + s[i:] if op < 0.5 else (s[:i] + c + s[i + 1:] if op < 0.8 else s[:i] + s[i + 1:])
    return s


def gen_unicode(rng):
    n = rng.randint(0, 24)
    out = []
    for _ in range(n):
        r = rng.random()
        if r < 0.35:
            out.append(rng.choice(DELIMS))
        elif r < 0.6:
            out.append(chr(rng.randint(0, 127)))
        elif r < 0.8:
            out.append(chr(rng.randint(128, 0x2FFF)))
        elif r < 0.9:
            out.append(chr(rng.randint(0xD800, 0xDFFF)))      # lone surrogates
        else:
            out.append(chr(rng.randint(0x10000, 0x10FFFF)))
    s = "".join(out)
    if rng.random() < 0.5:
        s = rng.choice(["http://", "https://", "HTTP://", "//", "http:", "http:/"]) + s
    return s


def _random_shard(job):
    seed, n = job
    rng = random.Random(seed)
    res = _new_res()
    res.update(evaluations=0, accepted=0, nontrivial=set(), samples=[], kinds={})
    strings = [gen_grammar(rng) if i % 4 else gen_unicode(rng) for i in range(n)]
    traces = []
    for s, ev in zip(strings, guarded_observe(strings, res)):
        if ev is None:
            continue
        res["evaluations"] += 1
        if ev["k"] == "url":
            res["accepted"] += 1
            if ev["u"]["host"] not in (NONE, []):
                res["nontrivial"].add(s)
        traces.append(ev)
    if traces:
        ev = traces[min(5, len(traces) - 1)]
        res["samples"].append({"input": text(ev["s"]), "outcome": ev["k"],
                               "parse_url": [None if ev["u"][f] == NONE else (ev["u"][f] if f == "port" else text(ev["u"][f])) for f in FIELDS]})
    judge(traces, res)
    return res


# ------------------------------------------------------------------------------ timing probe (informational)

PROBES = {"at-signs": lambda n: "http://" + "a@" * n, "colons": lambda n: "http://" + ":" * n,
          "percents": lambda n: "http://h/" + "%" * n, "dot-segments": lambda n: "http://h" + "/.." * n + "/a/." * n,
          "brackets": lambda n: "http://" + "[" * n, "escapes": lambda n: "http://h/?" + "%4a" * n,
          "host-labels": lambda n: "http://" + "a." * n, "digits-port": lambda n: "http://h:" + "0" * n + "80",
          "ipv6ish": lambda n: "http://[" + "1:" * n + "]", "unicode-host": lambda n: "http://" + "é" * n,
          "backslashes": lambda n: "http:" + "\\" * n, "schemeish": lambda n: "a" * n + "+" * n}


PROBE_FLOOR = 10.0     # CPU seconds; the probe never raises a timing violation, it only must not hang the harness


def _probe_one(job):
    name, n = job
    parse_url, LPE = _api()
    s = PROBES[name](n)
    t0 = time.process_time()
    try:
        parse_url(s)
        k = "url"
    except LPE:
        k = "lpe"
    except Exception as ex:
        k = type(ex).__name__
    return [k, round(time.process_time() - t0, 5)]


def timing_probe():
    """Informational: CPU seconds of parse_url on pathological repetitions of 1e3 / 1e4 / 1e5 characters."""
    jobs = [(name, n) for name in PROBES for n in (10 ** 3, 10 ** 4, 10 ** 5)]
    vals, dnr, _info = guard.guarded_map(_probe_one, jobs, floor=PROBE_FLOOR, factor=1e9, max_dnr=len(jobs))
    out, bad = {}, []
    for name in PROBES:
        ks, ts = [], []
        for (nm, n), v, i in zip(jobs, vals, range(len(jobs))):
            if nm != name:
                continue
            if i in dnr:
                ks.append(f"killed after {dnr[i]:.0f} s CPU")
                ts.append(None)
            else:
                ks.append(v[0])
                ts.append(v[1])
                if v[0] not in ("url", "lpe"):
                    bad.append((name, n, v[0]))
        out[name] = {"outcome": ks[-1], "cpu_seconds_1e3_1e4_1e5": ts,
                     "growth_1e4_to_1e5": round(ts[2] / ts[1], 1) if ts[1] and ts[2] and ts[1] > 1e-4 else None}
    return out, bad


# ------------------------------------------------------------------------------ reporting

def describe(ev):
    return f"parse_url({text(ev['s'])!r}) -> {ev['k']} " + (str([None if ev['u'][f] == NONE else (ev['u'][f] if f == 'port' else text(ev['u'][f])) for f in FIELDS]) if ev["k"] == "url" else "") \
        + (f"; re-parse -> {ev['k2']} " + str([None if ev['u2'][f] == NONE else (ev['u2'][f] if f == 'port' else text(ev['u2'][f])) for f in FIELDS]) if ev["k"] == "url" else "")


def _report(rep, findings, clause, facts, ev):
    f = dict(facts)
    f["clause"] = clause
    k = known.match(findings, f)
    what = f"{clause}: {describe(ev)}"
    if k:
        rep.known.append((k["id"], k["what"]))
    else:
        rep.violation(clause, what, {"kind": "string", "s": ev["s"]})


def _absorb(rep, findings, o, tally):
    rep.traces += o["traces"]
    rep.evaluations += o["evaluations"]
    for c, n in o["clauses"].items():
        tally[c] = tally.get(c, 0) + n
    for clause, facts, ev in o["bad"]:
        _report(rep, findings, clause, facts, ev)
    for d in o["drift"]:
        rep.drift.append(d)
    for s in o["samples"]:
        rep.sample(s, cap=6)


def run(rep):
    quick = rep.tier == "quick"
    findings = known.load("C14")
    rep.rule = ("every string of the enumerated domain is given to the real parse_url; a case is non-trivial when the "
                "reference reading has an authority and parse_url returned a Url with a non-empty host (so host / port / "
                "userinfo agreement and the normal-form clauses are really exercised); distinct by construction (distinct strings)")
    rep.assumptions = ["the running-time clause of C14 is NOT covered (resource bounds are outside TLA+/TLC); a timing probe is informational only",
                       "IDNA is an opaque table: for non-ASCII hosts only 'no delimiter in the result' is demanded",
                       "latitude: components with a stray '%' may be re-encoded wholesale; re-parse clause only for http/https with a non-empty host",
                       "TLC, CPython's re/str and the idna package are trusted"]
    if quick:
        plans = [dict(p=0, alpha="MCAlpha12", n=5, sl=1, sample=0.01), dict(p=1, alpha="MCAlpha12", n=4, sl=0, sample=0.02),
                 dict(p=3, alpha="MCAlpha13", n=3, sl=0, sample=0.05), dict(p=4, alpha="MCAlpha13", n=3, sl=0, sample=0.05)]
        enc_n, nrand, per = 4, 8000, 500
    else:
        plans = [dict(p=0, alpha="MCAlpha12", n=6, sl=2, sample=0.005), dict(p=1, alpha="MCAlpha12", n=5, sl=1, sample=0.01),
                 dict(p=2, alpha="MCAlpha12", n=4, sl=0, sample=0.02),
                 dict(p=3, alpha="MCAlpha13", n=4, sl=1, sample=0.02), dict(p=4, alpha="MCAlpha13", n=4, sl=1, sample=0.02)]
        enc_n, nrand, per = 5, 160000, 2500
    jobs = []
    for pi, plan in enumerate(plans):
        alpha = {"MCAlpha12": ALPHA12, "MCAlpha13": ALPHA13}[plan["alpha"]]
        if plan["sl"] == 0:
            shards = [(0, 0)]
        elif plan["sl"] == 1:
            shards = [(0, 0)] + [(c, 0) for c in alpha]
        else:
            shards = [(0, 0)] + [(c, d) for c in alpha for d in alpha]
        jobs += [(plan, c1, c2, rep.seed * 100003 + pi * 1009 + c1 * 131 + c2) for c1, c2 in shards]
    # big shards first
    jobs.sort(key=lambda j: -(j[0]["n"] - j[0]["sl"] if j[1] or not j[0]["sl"] else 0))
    tally = {}
    with mp.Pool(JOBS) as pool:
        aux_async = pool.map_async(_aux_stage1, [("MCAlphaEnc", enc_n, "EncoderSound", max(1, min(4, JOBS // 4))),
                                                 ("MCAlphaPath", 8 if quick else 10, "DotRemovalMatchesRFC", max(1, min(2, JOBS // 8)))], chunksize=1)
        rnd_async = pool.map_async(_random_shard, [(rep.seed * 7919 + 17 * i + 1, per) for i in range(nrand // per)])
        outs = pool.map(_exhaustive_shard, jobs, chunksize=1)
        aux = aux_async.get()
        rnd = rnd_async.get()
    # ---- stage 1: a violated invariant of the specification itself ends the run
    for j, o in zip(jobs, outs):
        for v in o["violated"]:
            rep.violation("Stage1:" + v, f"TLC: invariant {v} violated in spec/Url.tla for plan {j[0]} shard {j[1:3]}: {o.get('trace')}",
                          {"kind": "stage1", "plan": j[0]})
    if rep.violations:
        rep.states += sum(o["distinct"] for o in outs)
        rep.transitions += sum(o["generated"] for o in outs)
        return
    # ---- stage 1 bookkeeping: the shards partition the domain
    for pi, plan in enumerate(plans):
        mine = [o for j, o in zip(jobs, outs) if j[0] is plan]
        nalpha = 12 if plan["alpha"] == "MCAlpha12" else 13
        want = sum(nalpha ** k for k in range(plan["n"] + 1))
        got = sum(o["distinct"] for o in mine)
        if got != want:
            raise tlc.MachineryError(f"plan {plan}: shards cover {got} strings, domain has {want}")
        emitted = sum(o["emitted"] for o in mine)
        agree = sum(o["agree"] for o in mine)
        rep.states += got
        rep.transitions += sum(o["generated"] for o in mine)
        rep.stage1.append({"run": f"MC_Url prefix={PREFIX[plan['p']]!r} {plan['alpha']} N={plan['n']} ({len(mine)} shards)",
                           "distinct_states": got, "states_generated": sum(o["generated"] for o in mine), "depth": plan["n"] + 1,
                           "wall_s": round(max(o["wall"] for o in mine), 1), "invariants": STAGE1_INVS,
                           "emitted_reference_lines": emitted, "strings_replayed": sum(o["domain"] for o in mine),
                           "identical_to_model_prediction": agree, "sent_to_trace_validation": sum(o["traces"] for o in mine),
                           "parse_url_returned_Url": sum(o["accepted"] for o in mine)})
        if sum(o["domain"] for o in mine) != want:
            raise tlc.MachineryError(f"plan {plan}: replayed {sum(o['domain'] for o in mine)} of {want}")
        if emitted == 0 or sum(o["accepted"] for o in mine) == 0:
            raise tlc.MachineryError(f"plan {plan}: nothing emitted / nothing accepted by parse_url - vacuous")
        nt = sum(o["nontrivial"] for o in mine)
        rep.nontrivial.update((pi, x) for x in range(nt))
        for o in mine:
            _absorb(rep, findings, o, tally)
    for a in aux:
        if a["violated"]:
            rep.violation("Stage1:" + a["inv"], f"TLC: {a['inv']} violated in spec/Url.tla", {"kind": "stage1", "plan": a["inv"]})
        rep.states += a["distinct"]
        rep.transitions += a["generated"]
        rep.stage1.append({"run": f"MC_Url {a['inv']} {a['alpha']} N={a['n']}", "distinct_states": a["distinct"],
                           "states_generated": a["generated"], "depth": a["n"] + 1, "wall_s": round(a["wall"], 1),
                           "invariants": [a["inv"]]})
    # ---- stage 4
    nt0 = len(rep.nontrivial)
    for o in rnd:
        _absorb(rep, findings, o, tally)
    for o in rnd:
        rep.nontrivial.update(("rnd", x) for x in o["nontrivial"])
    if sum(o["accepted"] for o in rnd) < nrand // 20:
        raise tlc.MachineryError("grammar / unicode generator: fewer than 5% of the inputs were accepted by parse_url - vacuous")
    rep.extra["random_traces"] = {"n": sum(o["traces"] for o in rnd), "accepted": sum(o["accepted"] for o in rnd),
                                  "with_host": len(rep.nontrivial) - nt0}
    rep.extra["verdict_tally"] = tally
    allo = outs + rnd
    rep.extra["watchdog"] = {"per_input_budget_cpu_s": max(o.get("budget_s", 0.0) for o in allo),
                             "rule": f"max({guard.FLOOR} s, {guard.FACTOR:g} x median per-input CPU time of the batch), worker CPU time",
                             "did_not_return": sum(o.get("dnr", 0) for o in allo),
                             "abandoned_after_repeated_kills": sum(o.get("skipped", 0) for o in allo),
                             "max_per_input_cpu_s_seen": round(max(o.get("max_input_cpu_s", 0.0) for o in allo), 4)}
    if rep.extra["watchdog"]["abandoned_after_repeated_kills"] and not rep.violations:
        raise tlc.MachineryError("inputs were abandoned by the watchdog but no Totality:DidNotReturn violation was recorded")
    if tally.get("ok", 0) == 0:
        raise tlc.MachineryError("no trace was accepted by the monitor - vacuous")
    probe, bad = timing_probe()
    rep.extra["timing_probe_informational"] = probe
    rep.extra["not_covered"] = "running-time clause (no super-linear running time): not decidable by model checking; see timing_probe_informational"
    for name, n, k in bad:
        rep.violation("Total:OnlyUrlOrLocationParseError", f"parse_url raised {k} on pathological input {name} x {n}",
                      {"kind": "probe", "name": name, "n": n})
    rep.exhaustive = True


def _aux_stage1(args):
    """Stage-1 runs over their own alphabets: EncoderSound (encoder), DotRemovalMatchesRFC (dot segments)."""
    alpha, n, inv, workers = args
    cfg = MC_CFG.format(alpha=alpha, p=0, n=n, sl=0, c1=0, c2=0, invs=f"INVARIANT {inv}\n")
    r = tlc.run("MC_Url", cfg, workers=workers, heap="3g", timeout=7200)
    return {"distinct": r.distinct, "generated": r.generated, "violated": r.violated, "wall": r.wall, "inv": inv,
            "alpha": alpha, "n": n}


def replay(rep, path):
    with open(path) as fh:
        doc = json.load(fh)
    case = doc["case"]
    findings = known.load("C14")
    rep.rule = "replay of one recorded case"
    rep.nontrivial.update({1, 2})
    rep.states = rep.transitions = 1
    if case["kind"] == "string":
        res = _new_res()
        ev = guarded_observe([text(case["s"])], res)[0]      # same CPU-time budget as the run
        rep.evaluations += 1
        judge([ev], res)
        rep.traces += 1
        for clause, facts, e in res["bad"]:
            _report(rep, findings, clause, facts, e)
    elif case["kind"] == "probe":
        vals, dnr, _ = guard.guarded_map(_probe_one, [(case["name"], case["n"])], floor=PROBE_FLOOR, factor=1e9)
        if not dnr and vals[0][0] not in ("url", "lpe"):
            rep.violation("Total:OnlyUrlOrLocationParseError", f"parse_url raised {vals[0][0]}", case)
    else:
        rep.violation(doc["clause"], "stage-1 violations are replayed by running the check again", case)
