---------------------------- MODULE RespLife_Trace ----------------------------
(* Batch trace validation for RespLife.  vh/resplife.py drives REAL HTTPResponse objects produced by a REAL
   HTTPConnectionPool over the in-memory network and logs, after every step of the scheduler (= the code between
   two yield points of one thread, or one delivery of the server), the observable projection of the state:
   response attributes, http.client response, connection, ground truth about the OS socket and the pool queue,
   what the API calls returned, and which socket I/O happened during the step.

   For every trace this monitor
     hard  : evaluates the Rules of RespLife (StateFails on every logged observation, TransFails on every pair of
             consecutive ones, the end-of-run clauses) -- the SAME operators TLC checks on the model;
     drift : runs the Model alongside (same step functions, the logged thread / call as the only input) and
             compares ObsOf(model state) with every logged observation; the first mismatch is reported with the
             name of the first differing field.
   Total: never stops at a bad trace; prints  VERDICT|id|clause@position,...|driftpos|field  per trace, then DONE|n. *)
EXTENDS RespLife, Json, IOUtils, TLCExt

Traces == JsonDeserialize(IOEnv.TRACE_FILE)

VARIABLES tid, l, bad, drift, dfield      \* bad: sequence of <<clause, position>>, first failure of every clause
tvars == <<tid, l, bad, drift, dfield>>

Fields == <<"have", "own", "shutset", "ulen", "gen", "hfp", "hflag", "csock", "sock", "fedn", "kern", "pclosed",
            "slots", "pooled", "puts", "deliv", "nrerr", "ndisp", "nshok", "nint", "nboom", "io">>
TFields == <<"pc", "op", "res", "errk", "nops">>
NF == Len(Fields)

\* a logged observation: [22 shared fields..., pc a, op a, res a, errk a, nops a, pc b, op b, res b, errk b, nops b]
TF(a, k) == [t \in Threads |-> IF t = "a" THEN a[NF + k] ELSE a[NF + 5 + k]]
O(i, j) ==
  LET a == Traces[i].obs[j] IN
  [fr |-> Traces[i].fr, sv |-> Traces[i].sv,
   have |-> a[1], own |-> a[2], shutset |-> a[3], ulen |-> a[4], gen |-> a[5], hfp |-> a[6], hflag |-> a[7], csock |-> a[8],
   sock |-> a[9], fedn |-> a[10], kern |-> a[11], pclosed |-> a[12], slots |-> a[13], pooled |-> a[14], puts |-> a[15],
   deliv |-> a[16], nrerr |-> a[17], ndisp |-> a[18], nshok |-> a[19], nint |-> a[20], nboom |-> a[21], io |-> a[22],
   pc |-> TF(a, 1), op |-> TF(a, 2), res |-> TF(a, 3), errk |-> TF(a, 4), nops |-> TF(a, 5)]

ModelInitS(i) == Shared0(Traces[i].fr, Traces[i].sv, Traces[i].mode)
ModelInitT(i) == LET s == ModelInitS(i) pa == Traces[i].pa pb == Traces[i].pb IN
  [t \in Threads |-> IF t = "a" THEN (IF Eager /\ ~s.have THEN [Local0(pa) EXCEPT !.pc = "Done"] ELSE Local0(pa))
                     ELSE (IF Eager THEN [Local0(<<>>) EXCEPT !.pc = "Done"] ELSE Local0(pb))]

AllF == {Fields[k] : k \in 1..NF} \cup {TFields[k] : k \in 1..5}
DiffField(o, m) == LET d == {k \in 1..NF : o[Fields[k]] # m[Fields[k]]}
                       e == {k \in 1..5 : o[TFields[k]] # m[TFields[k]]} IN
                   IF d # {} THEN Fields[CHOOSE k \in d : \A j \in d : k <= j]
                   ELSE IF e # {} THEN TFields[CHOOSE k \in e : \A j \in e : k <= j]
                   ELSE "none"

RECURSIVE SetToSeq(_)
SetToSeq(S) == IF S = {} THEN <<>> ELSE LET x == CHOOSE y \in S : TRUE IN <<x>> \o SetToSeq(S \ {x})
\* append the clauses of `fails` not yet noted, with their position
Note(b, fails, pos) == LET known == {b[k][1] : k \in 1..Len(b)}
                           fresh == SetToSeq(fails \ known) IN
                       b \o [k \in 1..Len(fresh) |-> <<fresh[k], pos>>]

First(i) == LET o == O(i, 1) m == ObsOf(ModelInitS(i), ModelInitT(i)) IN
            [bad |-> Note(<<>>, StateFails(o), 1), drift |-> IF DiffField(o, m) = "none" THEN 0 ELSE 1, dfield |-> DiffField(o, m)]

TInit == /\ tid = 1 /\ l = 1
         /\ sh = ModelInitS(1) /\ th = ModelInitT(1)
         /\ bad = First(1).bad
         /\ drift = First(1).drift /\ dfield = First(1).dfield

\* the Model's successor for the logged step, or "disabled"
ModelStep(who, o) ==
  IF who = "e" THEN (IF CanFeed THEN [ok |-> TRUE, s |-> FeedFn(sh), T |-> th] ELSE [ok |-> FALSE, s |-> sh, T |-> th])
  ELSE IF CanStep(who, o) THEN LET r == StepOf(who, o) IN [ok |-> TRUE, s |-> r.s, T |-> [th EXCEPT ![who] = r.l]]
  ELSE [ok |-> FALSE, s |-> sh, T |-> th]

Advance ==
  /\ l < Len(Traces[tid].obs)
  /\ l' = l + 1 /\ tid' = tid
  /\ LET o == O(tid, l) o2 == O(tid, l + 1)
         c == TransFails(o, o2) \cup StateFails(o2)
         st == Traces[tid].steps[l]
         ms == ModelStep(st[1], st[2])
         mo == ObsOf(ms.s, ms.T)
         df == IF ~ms.ok THEN "disabled" ELSE IF mo = o2 THEN "none" ELSE DiffField(o2, mo)
     IN /\ bad' = Note(bad, c, l + 1)
        /\ IF drift # 0 THEN UNCHANGED <<sh, th, drift, dfield>>
           ELSE IF df = "none" THEN sh' = ms.s /\ th' = ms.T /\ UNCHANGED <<drift, dfield>>
           ELSE drift' = l + 1 /\ dfield' = df /\ UNCHANGED <<sh, th>>

EndClause(i) ==
  LET o == O(i, Len(Traces[i].obs)) IN
  IF Traces[i].stuck /\ o.nshok >= 1 THEN "ShutdownUnblocksReader"
  ELSE IF Traces[i].stuck /\ ~\E t \in Threads : o.pc[t] = "Recv" THEN "NoDeadlock"
  ELSE IF ~Traces[i].stuck /\ \E t \in Threads : o.pc[t] # "Done" THEN "EveryoneFinishes"
  ELSE IF Traces[i].probe = "bad" THEN "ProbeServed"
  ELSE "ok"

RECURSIVE Join(_)
Join(b) == IF b = <<>> THEN "" ELSE b[1][1] \o "@" \o ToString(b[1][2]) \o (IF Len(b) > 1 THEN "," ELSE "") \o Join(Tail(b))
Verdict(i) == LET e == EndClause(i)
                  all == IF e = "ok" THEN bad ELSE Note(bad, {e}, l)
              IN PrintT("VERDICT|" \o Traces[i].id \o "|" \o (IF all = <<>> THEN "ok" ELSE Join(all)) \o "|" \o ToString(drift) \o "|" \o dfield)

NextTrace == /\ l = Len(Traces[tid].obs)
             /\ Verdict(tid)
             /\ tid < Len(Traces)
             /\ tid' = tid + 1 /\ l' = 1
             /\ sh' = ModelInitS(tid + 1) /\ th' = ModelInitT(tid + 1)
             /\ bad' = First(tid + 1).bad
             /\ drift' = First(tid + 1).drift /\ dfield' = First(tid + 1).dfield

Last == /\ l = Len(Traces[tid].obs) /\ tid = Len(Traces)
        /\ Verdict(tid)
        /\ PrintT("DONE|" \o ToString(Len(Traces)))
        /\ UNCHANGED <<vars, tvars>>

TNext == Advance \/ NextTrace \/ Last
TSpec == TInit /\ [][TNext]_<<vars, tvars>>
=============================================================================
