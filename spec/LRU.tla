------------------------------- MODULE LRU -------------------------------
(* Sequential reference model of urllib3's RecentlyUsedContainer (property C17, container     *)
(* clause): a bounded map that remembers how recently each key was used.                       *)
(*                                                                                             *)
(* The state of a container is a sequence of entries [k |-> key, v |-> value] in recency       *)
(* order: index 1 is the least recently used entry (the next one to be evicted), the last      *)
(* index the most recently used.                                                               *)
(*                                                                                             *)
(* Rules of the reference (the property statement):                                            *)
(*   a successful get moves the entry to the most-recent end and returns its value;            *)
(*   a set of a present key replaces the value (the old value is disposed) and makes the key   *)
(*   most recent; a set of an absent key inserts it as most recent and, when the container     *)
(*   then holds more than maxsize entries, evicts the least recently used entry (disposed);    *)
(*   delete removes the entry (disposed); clear removes everything (every value disposed);     *)
(*   len / keys observe without touching recency; a get / delete of an absent key raises       *)
(*   KeyError and changes nothing; the dispose callback runs exactly once per value that       *)
(*   leaves the container.                                                                     *)
(*                                                                                             *)
(* Apply(o, m, e) is the complete effect of one operation and is the single source of truth:   *)
(* it drives the exhaustive check (this module), the emission of transitions (MC_LRU), the     *)
(* validation of traces recorded from real containers (LRU_Trace), the ghost reference of      *)
(* the concurrent model (LRUConc, LRUConc_Trace) and the pool cache (PoolCache).               *)
EXTENDS Naturals, Sequences, FiniteSets, TLC

CONSTANTS Keys,        \* set of keys (strings)
          Values,      \* set of values (integers > 0)
          MaxSizes     \* set of maxsize settings explored

NONE == "<none>"
KEYERROR == "<KeyError>"

-----------------------------------------------------------------------------
(* Pure functions on one container state                                     *)

Idx(o, k) == IF \E i \in 1..Len(o) : o[i].k = k
             THEN CHOOSE i \in 1..Len(o) : o[i].k = k ELSE 0
Has(o, k) == Idx(o, k) # 0
RemoveIdx(o, i) == [j \in 1..(Len(o) - 1) |-> IF j < i THEN o[j] ELSE o[j + 1]]
KeySet(o) == {o[i].k : i \in 1..Len(o)}
ValSeq(o) == [i \in 1..Len(o) |-> o[i].v]
Entry(k, v) == [k |-> k, v |-> v]

\* multiset equality of two sequences
Count(s, x) == Cardinality({i \in 1..Len(s) : s[i] = x})
SameBag(s1, s2) == /\ Len(s1) = Len(s2)
                   /\ \A i \in 1..Len(s1) : Count(s1, s1[i]) = Count(s2, s1[i])

\* result of an operation: new state, returned value (always a string), returned key set
\* (keys() only) and the values handed to the dispose callback, in call order
R(o, res, rk, disp) == [order |-> o, res |-> res, rk |-> rk, disp |-> disp]

GetItem(o, k, missing) ==
    LET i == Idx(o, k) IN
    IF i = 0 THEN R(o, missing, {}, <<>>)
    ELSE R(Append(RemoveIdx(o, i), o[i]), ToString(o[i].v), {}, <<>>)

SetItem(o, m, k, v) ==
    LET i == Idx(o, k) IN
    IF i # 0 THEN R(Append(RemoveIdx(o, i), Entry(k, v)), NONE, {}, <<o[i].v>>)
    ELSE LET o2 == Append(o, Entry(k, v)) IN
         IF Len(o2) > m THEN R(Tail(o2), NONE, {}, <<Head(o2).v>>)
         ELSE R(o2, NONE, {}, <<>>)

DelItem(o, k) ==
    LET i == Idx(o, k) IN
    IF i = 0 THEN R(o, KEYERROR, {}, <<>>)
    ELSE R(RemoveIdx(o, i), NONE, {}, <<o[i].v>>)

\* get-or-create (PoolManager.connection_from_pool_key): the value cached for k, refreshed, or
\* else v inserted as by set; the result is the value now cached for k
GetOrCreate(o, m, k, v) ==
    IF Has(o, k) THEN GetItem(o, k, NONE)
    ELSE LET r == SetItem(o, m, k, v) IN R(r.order, ToString(v), {}, r.disp)

\* An operation is a record [op, k, v] (k = NONE, v = 0 when unused).
\*   get   c[k]          getd  c.get(k)  (Mapping.get: None instead of KeyError, same refresh)
\*   has   k in c        (Mapping.__contains__ is `try: self[k]`: a membership test refreshes too)
\*   set   c[k] = v      del   del c[k]      clear  c.clear()     len  len(c)     keys  c.keys()
\*   goc   get-or-create under one lock section (not a container method: the pool manager's use)
\*   snap  observation of the complete recency order (harness-side probe; no effect)
Apply(o, m, e) ==
    CASE e.op = "get"   -> GetItem(o, e.k, KEYERROR)
      [] e.op = "getd"  -> GetItem(o, e.k, NONE)
      [] e.op = "has"   -> LET r == GetItem(o, e.k, "False") IN
                           IF Has(o, e.k) THEN R(r.order, "True", {}, <<>>) ELSE r
      [] e.op = "set"   -> SetItem(o, m, e.k, e.v)
      [] e.op = "del"   -> DelItem(o, e.k)
      [] e.op = "clear" -> R(<<>>, NONE, {}, ValSeq(o))
      [] e.op = "len"   -> R(o, ToString(Len(o)), {}, <<>>)
      [] e.op = "keys"  -> R(o, "<keys>", KeySet(o), <<>>)
      [] e.op = "goc"   -> GetOrCreate(o, m, e.k, e.v)
      [] e.op = "snap"  -> R(o, "<snap>", {}, <<>>)

E(op, k, v) == [op |-> op, k |-> k, v |-> v]
Ops == {E(op, k, 0) : op \in {"get", "getd", "has", "del"}, k \in Keys}
       \cup {E("set", k, v) : k \in Keys, v \in Values}
       \cup {E(op, NONE, 0) : op \in {"clear", "len", "keys"}}

WellFormed(o, m) == /\ Len(o) <= m
                    /\ \A i, j \in 1..Len(o) : i # j => o[i].k # o[j].k

-----------------------------------------------------------------------------
(* The sequential state machine: one container, any operation at any time.   *)

VARIABLES order,     \* the container
          maxsize,   \* its bound (chosen once)
          last       \* the last operation with its result (observation only; hidden by View)

vars == <<order, maxsize, last>>
View == <<order, maxsize>>

Init == /\ order = <<>>
        /\ maxsize \in MaxSizes
        /\ last = [op |-> "init", k |-> NONE, v |-> 0, res |-> NONE, rk |-> {}, disp |-> <<>>]

Do(e) == LET r == Apply(order, maxsize, e) IN
         /\ order' = r.order
         /\ last' = [op |-> e.op, k |-> e.k, v |-> e.v, res |-> r.res, rk |-> r.rk, disp |-> r.disp]
         /\ UNCHANGED maxsize

Next == \E e \in Ops : Do(e)
Spec == Init /\ [][Next]_vars

-----------------------------------------------------------------------------
(* Properties of the reference (stage 1).  They are stated declaratively, without using the   *)
(* operator definitions above, so that TLC cross-checks Apply against the statement.           *)

TypeOK == /\ maxsize \in MaxSizes
          /\ \A i \in 1..Len(order) : order[i].k \in Keys /\ order[i].v \in Values

\* the container never holds more than maxsize entries and never holds a key twice
Bound == Len(order) <= maxsize
UniqueKeys == \A i, j \in 1..Len(order) : i # j => order[i].k # order[j].k

Others(o, k) == SelectSeq(o, LAMBDA x : x.k # k)
Lookups == {"get", "getd", "has"}

\* a successful lookup / any set makes the key the most recently used one, and a get returns
\* the value stored by the latest set
Refresh == [][(/\ last'.op \in Lookups \cup {"set"}
               /\ (last'.op = "set" \/ Has(order, last'.k)))
              => IF last'.op = "set" /\ maxsize = 0 THEN order' = <<>>
                 ELSE /\ order'[Len(order')].k = last'.k
                      /\ last'.op = "set" => order'[Len(order')].v = last'.v
                      /\ last'.op # "set" => /\ order'[Len(order')].v = order[Idx(order, last'.k)].v
                                             /\ last'.res = IF last'.op = "has" THEN "True"
                                                            ELSE ToString(order[Idx(order, last'.k)].v)]_vars

\* LRU eviction: the only operation that can remove a key it does not name is a set of an
\* absent key on a full container, and the victim is the least recently used entry; the
\* entries not named by an operation keep their relative recency order
EvictsOldest == [][(last'.op \in Lookups \cup {"set", "del"})
                   => LET full == last'.op = "set" /\ ~Has(order, last'.k) /\ Len(order) >= maxsize /\ Len(order) > 0
                          keep == IF full THEN Tail(order) ELSE order IN
                      /\ Others(order', last'.k) = Others(keep, last'.k)
                      /\ full => last'.disp = <<order[1].v>>]_vars

\* exactly-once disposal: every value that was in the container (or handed to set) is afterwards
\* either still in the container or has been passed to the dispose callback, never both, never
\* twice, and nothing else is disposed (multiset conservation per step)
ExactlyOnce == [][SameBag(ValSeq(order) \o (IF last'.op = "set" THEN <<last'.v>> ELSE <<>>),
                          ValSeq(order') \o last'.disp)]_vars

\* observations do not disturb the container; failed lookups change nothing
ReadOnly == [][(\/ last'.op \in {"len", "keys"}
                \/ (last'.op \in Lookups \cup {"del"} /\ ~Has(order, last'.k)))
               => /\ order' = order /\ last'.disp = <<>>
                  /\ last'.op = "len" => last'.res = ToString(Len(order))
                  /\ last'.op = "keys" => last'.rk = KeySet(order)
                  /\ last'.op \in {"get", "del"} => last'.res = KEYERROR
                  /\ last'.op = "getd" => last'.res = NONE
                  /\ last'.op = "has" => last'.res = "False"]_vars

ClearEmpties == [][last'.op = "clear" => order' = <<>> /\ SameBag(last'.disp, ValSeq(order))]_vars
DeleteRemoves == [][(last'.op = "del" /\ Has(order, last'.k))
                    => ~Has(order', last'.k) /\ last'.disp = <<order[Idx(order, last'.k)].v>>]_vars
=============================================================================
