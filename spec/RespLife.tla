------------------------------ MODULE RespLife ------------------------------
(* Life cycle of an urllib3 HTTPResponse (src/urllib3/response.py) and of the connection it borrows from an
   HTTPConnectionPool: reading (read / read(n) / read1(n) / stream), the four disposal calls (release_conn,
   drain_conn, close, shutdown) and dropping the object -- by one caller, or by a reader thread and a disposer
   thread at the same time.  Growth module serving C01 (slot conservation, only urllib3 errors, interrupts
   propagate), C02 (no internal error / no hang under every interleaving) and C13 (a cut-off body is never
   presented as complete).

   IMPLEMENTATION-SHAPED MODEL.  One action = the code a thread runs from one yield point to the next.  The
   yield points are exactly those of the scheduler in vh/resplife.py:

     Idle      the thread is between two API calls (the step starts the next call)
     ChkFp     _raw_read:        fp_closed = getattr(self._fp, "closed", False)
     CatClose  _error_catcher:   finally, unclean exit: if self._original_response: ...close(); connection.close()
     CatRel    _error_catcher:   if self._original_response and self._original_response.isclosed(): release_conn()
     RelTest   release_conn:     if not self._pool or not self._connection: return   (+ close of an unread connection)
     RelPut    release_conn:     self._pool._put_conn(self._connection)              (loads the back-reference)
     QPut      pool queue:       LifoQueue.put(conn, block=False)
     RelClear  release_conn:     self._connection = None
     Book      _raw_read:        self._fp_bytes_read += len(data); self.length_remaining -= len(data)
     ClsBegin  close:            self._sock_shutdown = None; if not self.closed and self._fp: self._fp.close()
     ClsConn   close:            if self._connection: self._connection.close(); self.release_conn()
     ShTest    shutdown:         if not self._sock_shutdown: raise ValueError
     SockShut  socket:           socket.shutdown(SHUT_RD)
     Recv      socket:           recv_into -- enabled only when the socket is readable (data, EOF or shut down)
     BufWait   BufferedReader:   close() of the buffered file while another thread is inside a buffered read

   The response body is two units; the first arrives with the head, the second ("feed 2", with the framing
   terminator and, per scenario, the server's close) only when the environment delivers it.  With Eager = TRUE
   (one caller) the environment delivers whatever the caller waits for, so Recv never parks.

   State is kept in two variables: sh (record: response, http.client response, connection, socket, network,
   pool, counters) and th (per thread: program counter, current call, locals).  Every step is a pure function
   on (sh, th); the same functions drive model checking, emission and trace validation.

   RULES are predicates over the OBSERVABLE projection Obs(sh, th) only, so that the trace monitor evaluates
   the very same operators on what the harness saw.                                                         *)
EXTENDS Naturals, Sequences, FiniteSets, TLC

CONSTANTS Eager,      \* TRUE: sequential part (one caller, server answers on demand); FALSE: two threads + environment
          MaxOps,     \* Eager only: calls before the final drop
          Fixes       \* subset of {"shutdown", "chunkresume", "atomicrelease", "closeunder", "releaseunread"}: repaired designs; {} = the code as found
                      \* (names "break:..." are design-level mutants used as canaries: TLC must refute the named rule)

Threads == {"a", "b"}
ReadOps == {"read", "readn", "read1n", "stream"}
DispOps == {"release", "drain", "close"}
AllOps  == ReadOps \cup DispOps \cup {"shutdown", "drop"}
Labels  == {"Idle", "Done", "ChkFp", "CatClose", "CatRel", "RelTest", "RelPut", "QPut", "RelClear", "Book",
            "ClsBegin", "ClsConn", "ShTest", "SockShut", "Recv", "BufWait"}

VARIABLES sh, th
vars == <<sh, th>>

\* ------------------------------------------------------------------------------------------ scenario facts
WillClose(s) == s.sv = "close" \/ s.fr = "eof"          \* the head says Connection: close (or the body is close-delimited)
F2(s)        == IF s.sv = "cut" THEN (IF s.fr = "chunked" THEN "stub" ELSE "none") ELSE "data"
F2Closes(s)  == s.sv \in {"close", "cut"} \/ s.fr = "eof"
Total == 2

\* --------------------------------------------------------------------------- low-level effects (pure, on sh)
\* the OS socket closes when the socket object has been closed AND no buffered file refers to it any more
Settle(s)    == IF s.fdopen /\ s.sobj /\ ~s.ioref THEN [s EXCEPT !.fdopen = FALSE, !.kern = 0] ELSE s
BufClose(s)  == Settle([s EXCEPT !.ioref = FALSE])                          \* BufferedReader.close() has completed
HCloseConn(s) == IF s.hfp THEN BufClose([s EXCEPT !.hfp = FALSE]) ELSE s    \* http.client _close_conn(): fp = None; fp.close()
OrigClose(s) == HCloseConn([s EXCEPT !.hflag = TRUE])                       \* http.client HTTPResponse.close()
OrigCloseNB(s) == [s EXCEPT !.hflag = TRUE, !.hfp = FALSE]                  \* ... up to the point where fp.close() blocks
ConnSock(s)  == IF s.csock THEN Settle([s EXCEPT !.csock = FALSE, !.sobj = TRUE]) ELSE s
\* HTTPConnection.close(): sock.close(), then close the response http.client still remembers
ConnClose(s) == LET s1 == ConnSock(s) IN IF s1.cresp THEN OrigClose([s1 EXCEPT !.cresp = FALSE]) ELSE s1

Kind(exc) == IF exc = "ProtocolError" THEN "urllib3"
             ELSE IF exc = "Interrupt" THEN "interrupt"
             ELSE IF exc = "Hang" THEN "hang"
             ELSE IF exc = "ValueError" THEN "value" ELSE "raw"

\* -------------------------------------------------------------------------------- machine = [s, l, busy]
\* s: shared record, l: locals of the stepping thread, busy: another thread is inside a buffered read
Park(m, lab) == [m EXCEPT !.l.pc = lab]
Pop(m)  == [m EXCEPT !.l.stk = Tail(@)]
Push(m, c) == [m EXCEPT !.l.stk = <<c>> \o @]
Top(m) == Head(m.l.stk)

Units(r) == IF r = "data1" THEN 1 ELSE IF r = "data2" THEN 2 ELSE 0
Cap(n) == IF n < 3 THEN n + 1 ELSE n      \* puts
Cap1(n) == 1                              \* "at least once" is all the rules ask
Cap2(n) == IF n < 2 THEN n + 1 ELSE n
\* a read call that tells the caller "this is the end of the body"
Signals(o, r) == \/ o = "read" /\ r \in {"data0", "data1", "data2"}
                 \/ o \in {"readn", "read1n"} /\ r = "data0"
                 \/ o = "stream" /\ r = "end"

\* the API call of this thread returns / raises
Complete(m, r, k) ==
  LET o == m.l.op
      s1 == [m.s EXCEPT !.deliv = IF o \in ReadOps THEN @ + Units(r) ELSE @,
                        !.nrerr = IF o \in ReadOps /\ k # "none" THEN Cap1(@) ELSE @,
                        !.ndisp = IF o \in DispOps THEN Cap1(@) ELSE @,
                        !.nshok = IF o = "shutdown" /\ k = "none" THEN Cap2(@) ELSE @,
                        !.nint  = IF k = "interrupt" THEN Cap1(@) ELSE @]
      more == IF Eager THEN s1.have ELSE Len(m.l.prog) > 0
  IN [m EXCEPT !.s = s1, !.l.res = r, !.l.errk = k, !.l.nops = @ + 1,
               !.l.pc = IF more THEN "Idle" ELSE "Done", !.l.stk = <<>>]

\* an exception leaves the read machinery and reaches the API call itself
OpRaise(m) ==
  LET e == m.l.exc IN
  IF m.l.op = "drain" /\ (Kind(e) = "urllib3" \/ "break:drainswallow" \in Fixes) THEN Complete(m, "ok", "none")   \* drain_conn swallows HTTPError / OSError
  ELSE IF m.l.op = "stream" THEN Complete([m EXCEPT !.s.gen = "none"], "err:" \o e, Kind(e))
  ELSE Complete(m, "err:" \o e, Kind(e))

DataRes(n) == IF n = 0 THEN "data0" ELSE IF n = 1 THEN "data1" ELSE "data2"

FreshRaw(m) == [m EXCEPT !.l.stk = <<"raw">> \o @, !.l.data = 0, !.l.clean = FALSE, !.l.exc = "none", !.l.fpc = FALSE,
                         !.l.pc = "ChkFp"]

\* _raw_read has returned m.l.data units to read() / read1() / the stream() loop
ReadReturn(m) ==
  LET n == m.l.data IN
  IF m.l.op = "drain" THEN Complete(m, "ok", "none")
  ELSE IF m.l.op = "stream" THEN
      IF n > 0 THEN Complete([m EXCEPT !.s.gen = "plain"], DataRes(n), "none")
      ELSE IF ~m.s.hfp THEN Complete([m EXCEPT !.s.gen = "none"], "end", "none")
      ELSE FreshRaw(m)
  ELSE Complete(m, DataRes(n), "none")

\* phase 2 of dropping the response: IOBase finaliser -> close() unless `closed`, then the object is freed
DropFinish(m) == Complete([m EXCEPT !.s = BufClose([m.s EXCEPT !.have = FALSE, !.own = FALSE, !.shutset = FALSE,
                                                               !.gen = "none", !.ulen = 0, !.hfp = FALSE, !.hflag = TRUE])], "ok", "none")
DropPhase2(m) == LET m1 == [m EXCEPT !.s.gen = "none", !.l.exc = "none"] IN
                 IF m1.s.hfp THEN Park(Push(m1, "del"), "ClsBegin") ELSE DropFinish(m1)

\* the with-block of _error_catcher has been left (context on top of the stack: "raw" = _raw_read, "chk" = read_chunked)
ExitCatcher(m) ==
  LET c == Top(m) m1 == Pop(m) IN
  IF c = "raw" THEN
      IF m1.l.exc # "none" THEN OpRaise(m1)
      ELSE IF m1.l.data > 0 THEN Park(m1, "Book") ELSE ReadReturn(m1)
  ELSE \* "chk"
      IF m1.l.exc = "GeneratorExit" THEN DropPhase2(m1)
      ELSE IF m1.l.exc # "none" THEN OpRaise(m1)
      ELSE Complete([m1 EXCEPT !.s.gen = "none"], "end", "none")

Unclean(m, e) == Park([m EXCEPT !.l.clean = FALSE, !.l.exc = e], "CatClose")
Clean(m)      == Park([m EXCEPT !.l.clean = TRUE], "CatRel")

ReturnFromClose(m) ==
  LET c == Top(m) IN
  IF c = "op" THEN Complete(m, "ok", "none")
  ELSE IF c = "del" THEN DropFinish(Pop(m))
  ELSE \* "ucl": _update_chunk_length: raise InvalidChunkLength -> (IncompleteRead clause) ProtocolError
       Unclean(Pop(m), "ProtocolError")

ReturnFromRelease(m) ==
  LET c == Top(m) IN
  IF c = "op" THEN Complete(m, "ok", "none")
  ELSE IF c = "cat" THEN ExitCatcher(Pop(m))
  ELSE \* "cls"
       ReturnFromClose(Pop(m))

\* ------------------------------------------------------------------------------------------- reading
R(s) == 1 + (IF s.rcv2 = "data" THEN 1 ELSE 0)          \* body units received so far
Avail(s) == R(s) - s.pos

\* what the call must still receive before http.client can answer: nothing, feed 2, or end of file
NeedOf(s, kind) ==
  IF ~s.hfp THEN "none"
  ELSE IF kind = "chunk" THEN (IF s.hmid \/ s.pos # 1 THEN "none" ELSE "f2")
  ELSE IF s.fr = "cl" THEN (IF kind = "read" \/ s.pos >= 1 THEN "f2" ELSE "none")
  ELSE IF s.fr = "eof" THEN (IF kind = "read" \/ s.pos = 2 THEN "f2eof" ELSE IF s.pos = 1 THEN "f2" ELSE "none")
  ELSE (IF kind = "read" \/ s.pos = 1 THEN "f2" ELSE "none")
Sat(need, s, eof) == \/ need = "none"
                     \/ need = "f2" /\ (s.rcv2 = "data" \/ eof)
                     \/ need = "f2eof" /\ eof

\* Eager: the recv loop with a server that answers on demand.  Result [s, eof, bad]
RECURSIVE EagerIo(_, _, _)
EagerIo(s, need, eof) ==
  IF Sat(need, s, eof) THEN [s |-> s, eof |-> eof, bad |-> "none"]
  ELSE IF s.shut \/ s.pclosed THEN EagerIo([s EXCEPT !.io = "recv"], need, TRUE)
  ELSE IF s.fedn = 1 THEN
      IF s.sv = "boom" THEN [s |-> [s EXCEPT !.fedn = 2, !.io = "recv", !.nboom = 1], eof |-> eof, bad |-> "Interrupt"]
      ELSE IF s.sv = "reset" THEN [s |-> [s EXCEPT !.fedn = 2, !.io = "recv"], eof |-> eof, bad |-> "ProtocolError"]   \* ECONNRESET
      ELSE EagerIo([s EXCEPT !.fedn = 2, !.io = "recv", !.pclosed = F2Closes(s),
                             !.rcv2 = IF F2(s) = "none" THEN "no" ELSE F2(s)], need, eof)
  ELSE [s |-> [s EXCEPT !.io = "recv"], eof |-> eof, bad |-> "Hang"]

\* http.client's answer once the demand is met or end of file was hit: [s, data, hexc]
Http(s, kind) ==
  IF ~s.hfp THEN [s |-> s, data |-> 0, hexc |-> "none"]
  ELSE IF s.fr = "cl" THEN
      IF kind = "read" THEN
          IF R(s) = 2 THEN [s |-> HCloseConn([s EXCEPT !.pos = 2, !.hdone = TRUE]), data |-> 2 - s.pos, hexc |-> "none"]
          ELSE [s |-> HCloseConn([s EXCEPT !.pos = R(s)]), data |-> 0, hexc |-> "IncompleteRead"]
      ELSE IF Avail(s) >= 1 THEN
          LET s1 == [s EXCEPT !.pos = @ + 1] IN
          [s |-> IF kind = "readn" /\ s1.pos = 2 THEN HCloseConn([s1 EXCEPT !.hdone = TRUE]) ELSE s1, data |-> 1, hexc |-> "none"]
      ELSE [s |-> HCloseConn(s), data |-> 0, hexc |-> "none"]
  ELSE IF s.fr = "eof" THEN
      IF kind = "read" THEN [s |-> HCloseConn([s EXCEPT !.pos = R(s), !.hdone = TRUE]), data |-> Avail(s), hexc |-> "none"]
      ELSE IF Avail(s) >= 1 THEN [s |-> [s EXCEPT !.pos = @ + 1], data |-> 1, hexc |-> "none"]
      ELSE [s |-> HCloseConn([s EXCEPT !.hdone = TRUE]), data |-> 0, hexc |-> "none"]
  ELSE \* chunked, http.client's own chunk parser
      IF kind = "read" THEN
          IF s.rcv2 = "data" THEN [s |-> HCloseConn([s EXCEPT !.pos = 2, !.hmid = FALSE, !.hdone = TRUE]), data |-> 2 - s.pos, hexc |-> "none"]
          ELSE IF s.rcv2 = "stub" THEN [s |-> [s EXCEPT !.pos = 1, !.hmid = FALSE], data |-> 0, hexc |-> "IncompleteRead"]
          ELSE [s |-> HCloseConn([s EXCEPT !.pos = 1, !.hmid = FALSE]), data |-> 0, hexc |-> "IncompleteRead"]   \* EOF at a size line
      ELSE IF s.pos = 2 THEN [s |-> HCloseConn([s EXCEPT !.hmid = FALSE, !.hdone = TRUE]), data |-> 0, hexc |-> "none"]
      ELSE IF Avail(s) >= 1 THEN [s |-> [s EXCEPT !.pos = @ + 1, !.hmid = TRUE], data |-> 1, hexc |-> "none"]
      ELSE IF s.rcv2 = "stub" THEN [s |-> [s EXCEPT !.hmid = FALSE], data |-> 0, hexc |-> "IncompleteRead"]
      ELSE [s |-> HCloseConn([s EXCEPT !.hmid = FALSE]), data |-> 0, hexc |-> "IncompleteRead"]

RawKind(o) == IF o \in {"read", "drain"} THEN "read" ELSE IF o = "read1n" THEN "read1n" ELSE "readn"

\* rest of the with-block of _raw_read after self._fp_read(...) has returned (h) or raised
AfterRaw(m, h) ==
  LET k == RawKind(m.l.op)
      m1 == [m EXCEPT !.s = h.s, !.l.data = h.data] IN
  IF h.hexc = "ValueError" THEN Unclean(m1, IF "closeunder" \in Fixes THEN "ProtocolError" ELSE "ValueError")
  ELSE IF h.hexc = "AttributeError" THEN Unclean(m1, IF "closeunder" \in Fixes THEN "ProtocolError" ELSE "AttributeError")
  ELSE IF h.hexc # "none" THEN Unclean(m1, "ProtocolError")
  ELSE IF k # "read" /\ h.data = 0 THEN
      LET m2 == [m1 EXCEPT !.s = OrigClose(h.s)] IN
      IF h.s.ulen > 0 /\ h.s.fr = "cl" /\ "break:noincomplete" \notin Fixes THEN Unclean(m2, "ProtocolError") ELSE Clean(m2)
  ELSE IF k = "read1n" /\ h.s.fr = "cl" /\ h.s.ulen = h.data THEN Clean([m1 EXCEPT !.s = OrigClose([h.s EXCEPT !.hdone = TRUE])])
  ELSE Clean(m1)

\* read_chunked's own parser has what it asked for (or end of file)
AfterChunk(m) ==
  LET s == m.s IN
  IF s.pos = 2 THEN Clean([m EXCEPT !.s = OrigClose([s EXCEPT !.hdone = TRUE])])   \* terminator, trailer, original_response.close()
  ELSE IF Avail(s) >= 1 THEN Complete([m EXCEPT !.s.pos = @ + 1, !.s.gen = "chunk"], "data1", "none")
  ELSE IF s.rcv2 = "stub" THEN Unclean(m, "ProtocolError")                   \* end of file inside the chunk: IncompleteRead
  ELSE Park(Push(m, "ucl"), "ClsBegin")                                      \* end of file at the size line: self.close(), ProtocolError

\* http.client's answer when another thread closed the http.client response (fp = None) while this call was waiting
\* for the socket: whatever needs no _close_conn() is answered as usual; _close_conn() itself trips over fp = None
HttpClosedUnder(s, kind) ==
  LET r == Http([s EXCEPT !.hfp = TRUE], kind) IN
  IF r.s.hfp THEN [s |-> [s EXCEPT !.pos = r.s.pos, !.hmid = r.s.hmid], data |-> r.data, hexc |-> r.hexc]
  ELSE [s |-> [s EXCEPT !.pos = r.s.pos, !.hmid = r.s.hmid], data |-> 0, hexc |-> "AttributeError"]

IoDone(m, bad) ==
  IF bad # "none" THEN Unclean(m, bad)
  ELSE IF m.l.iok = "chunk" THEN AfterChunk(m)
  ELSE IF m.l.hfp0 /\ ~m.s.hfp THEN AfterRaw(m, HttpClosedUnder(m.s, m.l.iok))
  ELSE AfterRaw(m, Http(m.s, m.l.iok))

\* start the I/O of a read call of kind k
IoStart(m, k) ==
  LET need == NeedOf(m.s, k)
      m1 == [m EXCEPT !.l.iok = k, !.l.need = need, !.l.eof = FALSE, !.l.hfp0 = m.s.hfp] IN
  IF m.s.hfp /\ m.busy THEN [m1 EXCEPT !.l.after = "IoGo", !.l.pc = "BufWait"]     \* the buffered file is locked by a read in progress
  ELSE IF Sat(need, m.s, FALSE) THEN IoDone(m1, "none")
  ELSE IF Eager THEN LET e == EagerIo(m.s, need, FALSE) IN IoDone([m1 EXCEPT !.s = e.s, !.l.eof = e.eof], e.bad)
  ELSE Park(m1, "Recv")

\* body of read_chunked's loop: _update_chunk_length / _handle_chunk
ChunkGo(m) ==
  IF ~m.s.hfp THEN
      IF "chunkresume" \in Fixes THEN Unclean(m, "ProtocolError") ELSE Unclean(m, "AttributeError")   \* self._fp.fp is None
  ELSE IF m.s.hmid THEN Park(Push(m, "ucl"), "ClsBegin")                                             \* bad size line: self.close()
  ELSE IoStart(m, "chunk")

\* ---------------------------------------------------------------------------------- steps, by yield point
Begin(m, o) ==
  LET m0 == [m EXCEPT !.l.op = o, !.l.res = "none", !.l.errk = "none", !.l.stk = <<"op">>, !.l.data = 0, !.l.clean = FALSE, !.l.exc = "none", !.l.fpc = FALSE,
                      !.l.prog = IF Eager THEN @ ELSE Tail(@), !.s.io = "none"] IN
  IF o \in {"read", "readn", "read1n", "drain"} THEN FreshRaw(m0)
  ELSE IF o = "stream" THEN
      IF m0.s.fr # "chunked" THEN
          IF ~m0.s.hfp THEN Complete([m0 EXCEPT !.s.gen = "none"], "end", "none") ELSE FreshRaw(m0)
      ELSE LET m1 == Push(m0, "chk") IN
           IF m0.s.gen = "chunk" THEN ChunkGo(m1)
           ELSE IF ~m0.s.hfp THEN Clean(m1) ELSE ChunkGo(m1)
  ELSE IF o = "release" THEN Park(m0, "RelTest")
  ELSE IF o = "close" THEN Park(m0, "ClsBegin")
  ELSE IF o = "shutdown" THEN Park(m0, "ShTest")
  ELSE \* drop: a suspended read_chunked generator is finalised first (GeneratorExit inside _error_catcher)
      IF m0.s.gen = "chunk" THEN Unclean(Push(m0, "chk"), "GeneratorExit") ELSE DropPhase2(m0)

\* closing the buffered file while another thread is inside a buffered read blocks
CloseOrigThen(m, lab) ==
  IF m.s.hfp /\ m.busy THEN [m EXCEPT !.s = OrigCloseNB(m.s), !.l.after = lab, !.l.pc = "BufWait"]
  ELSE Park([m EXCEPT !.s = OrigClose(m.s)], lab)

StepAt(m) ==
  LET pc == m.l.pc s == m.s IN
  CASE pc = "ChkFp" ->
         LET m1 == [m EXCEPT !.l.fpc = s.hflag] IN
         IF s.hflag THEN AfterRaw([m1 EXCEPT !.l.iok = RawKind(m.l.op)], [s |-> s, data |-> 0, hexc |-> "none"])
         ELSE IoStart(m1, RawKind(m.l.op))
    [] pc = "CatClose" ->
         IF s.hfp /\ m.busy THEN [m EXCEPT !.s = OrigCloseNB(s), !.l.after = "CatClose2", !.l.pc = "BufWait"]
         ELSE LET s1 == OrigClose(s) IN Park([m EXCEPT !.s = IF s1.own THEN ConnClose(s1) ELSE s1], "CatRel")
    [] pc = "CatRel" ->
         IF ~s.hfp \/ ("break:releaseearly" \in Fixes /\ m.l.clean) THEN Park(Push(m, "cat"), "RelTest") ELSE ExitCatcher(m)
    [] pc = "RelTest" ->
         IF ~s.own THEN ReturnFromRelease(m)
         ELSE LET m0 == IF "atomicrelease" \in Fixes THEN [m EXCEPT !.s.own = FALSE, !.l.arg = TRUE] ELSE m IN
              IF (IF "releaseunread" \in Fixes THEN ~s.hdone ELSE s.hfp) THEN
                  \* a connection whose body was not read to the end is closed before it goes back (the code decides
                  \* "not read to the end" by isclosed(), which an explicit close() of the http.client response also makes true;
                  \* the repaired design asks whether http.client itself reached the end of the body)
                  LET s1 == ConnSock(m0.s) IN
                  IF s1.cresp THEN CloseOrigThen([m0 EXCEPT !.s = [s1 EXCEPT !.cresp = FALSE]], "RelPut")
                  ELSE Park([m0 EXCEPT !.s = s1], "RelPut")
              ELSE Park(m0, "RelPut")
    [] pc = "RelPut" ->
         Park([m EXCEPT !.l.arg = IF "atomicrelease" \in Fixes THEN @ ELSE s.own], "QPut")
    [] pc = "QPut" ->
         IF s.slots < 1
           THEN Park([m EXCEPT !.s.slots = @ + 1, !.s.pooled = IF m.l.arg THEN TRUE ELSE @, !.s.puts = Cap(@)], "RelClear")
           ELSE Park([m EXCEPT !.s = [(IF m.l.arg THEN ConnClose(s) ELSE s) EXCEPT !.puts = Cap(@)]], "RelClear")
    [] pc = "RelClear" ->
         ReturnFromRelease([m EXCEPT !.s.own = FALSE])
    [] pc = "Book" ->
         ReadReturn([m EXCEPT !.s.ulen = IF s.fr = "cl" /\ @ >= m.l.data THEN @ - m.l.data ELSE @])
    [] pc = "ClsBegin" ->
         LET m1 == [m EXCEPT !.s.shutset = FALSE] IN
         IF s.hfp /\ "break:closekeepsfp" \notin Fixes THEN CloseOrigThen(m1, "ClsConn") ELSE Park(m1, "ClsConn")
    [] pc = "ClsConn" ->
         IF s.own /\ "break:closenorelease" \in Fixes THEN ReturnFromClose([m EXCEPT !.s = ConnClose(s)])
         ELSE IF s.own THEN Park(Push([m EXCEPT !.s = ConnClose(s)], "cls"), "RelTest") ELSE ReturnFromClose(m)
    [] pc = "ShTest" ->
         IF "shutdown" \in Fixes THEN
             \* repaired design: refused once the connection has been given back or the socket is gone, and the test
             \* and the shutdown are one step (mutually exclusive with release_conn)
             IF "break:shutdownnoop" \in Fixes /\ ~s.shutset THEN Complete(m, "ok", "none")
             ELSE IF ~s.shutset \/ ~s.own \/ ~s.fdopen THEN Complete(m, "err:ValueError", "value")
             ELSE Complete([m EXCEPT !.s.shut = TRUE, !.s.io = "shut"], "ok", "none")
         ELSE IF ~s.shutset THEN Complete(m, "err:ValueError", "value")
         ELSE Park(m, "SockShut")
    [] pc = "SockShut" ->
         IF ~s.fdopen THEN Complete(m, "err:OSError", "raw")
         ELSE Complete([m EXCEPT !.s.shut = TRUE, !.s.io = "shut"], "ok", "none")
    [] pc = "Recv" ->
         LET m1 == IF s.kern = 1 THEN [m EXCEPT !.s.kern = 0, !.s.rcv2 = F2(s), !.s.io = "recv"]
                   ELSE [m EXCEPT !.l.eof = TRUE, !.s.io = "recv"] IN
         IF s.fr = "chunked" /\ m.l.hfp0 /\ ~s.hfp /\ s.rcv2 = "no"
           \* the call was waiting for a chunk-size line when another thread set fp = None: http.client's chunk parser
           \* goes back to self.fp for the chunk data (or to _close_conn at end of file) and trips over None
           THEN AfterRaw(m1, [s |-> m1.s, data |-> 0, hexc |-> "AttributeError"])
         ELSE IF Sat(m1.l.need, m1.s, m1.l.eof) THEN IoDone(m1, "none") ELSE m1
    [] pc = "BufWait" ->
         LET s1 == BufClose(s) IN
         IF m.l.after = "IoGo" THEN
             \* a second reader (drain_conn from another thread) gets the lock of the buffered file it asked for
             IF ~s.ioref THEN AfterRaw(m, [s |-> s, data |-> 0, hexc |-> "ValueError"])       \* "read of closed file"
             ELSE IoStart([m EXCEPT !.busy = FALSE], m.l.iok)
         ELSE IF m.l.after = "CatClose2" THEN Park([m EXCEPT !.s = IF s1.own THEN ConnClose(s1) ELSE s1], "CatRel")
         ELSE Park([m EXCEPT !.s = s1], m.l.after)

StepOps == AllOps \cup {"none"}
Readable(s) == s.kern = 1 \/ s.pclosed \/ s.shut
BusyFor(t) == \E u \in Threads \ {t} : th[u].pc = "Recv"

\* may thread t take a step (starting call o when it is idle)?
CanStep(t, o) ==
  LET l == th[t] IN
  /\ l.pc # "Done"
  /\ (l.pc = "Idle") <=> (o # "none")                 \* "none" = continue the call in progress
  /\ l.pc = "Idle" => (IF Eager THEN sh.have /\ (o = "drop" \/ l.nops < MaxOps) ELSE o = Head(l.prog))
  /\ l.pc = "Recv" => Readable(sh)
  /\ l.pc = "BufWait" => ~BusyFor(t)

StepOf(t, o) ==
  LET m == [s |-> [sh EXCEPT !.io = "none"], l |-> th[t], busy |-> BusyFor(t)] IN
  IF th[t].pc = "Idle" THEN Begin(m, o) ELSE StepAt(m)

ThreadStep(t, o) == /\ CanStep(t, o)
                    /\ LET r == StepOf(t, o) IN sh' = r.s /\ th' = [th EXCEPT ![t] = r.l]

\* the server delivers the rest of its reply (two-thread part only)
AllDone == \A t \in Threads : th[t].pc = "Done"
CanFeed == ~Eager /\ sh.fedn = 1 /\ sh.sv # "never" /\ ~AllDone      \* what the server sends after everybody is done is of no interest
FeedFn(s) == [s EXCEPT !.fedn = 2, !.io = "none", !.pclosed = F2Closes(s),
                       !.kern = IF s.fdopen /\ ~s.shut /\ F2(s) # "none" THEN 1 ELSE 0]
Feed == CanFeed /\ sh' = FeedFn(sh) /\ UNCHANGED th

Stuck == /\ ~AllDone /\ ~CanFeed
         /\ \A t \in Threads, o \in StepOps : ~CanStep(t, o)

Next == \/ \E t \in Threads, o \in StepOps : ThreadStep(t, o)
        \/ Feed
        \/ (AllDone \/ Stuck) /\ UNCHANGED vars

\* ------------------------------------------------------------------------------------------------- Init
Local0(prog) == [pc |-> IF Eager \/ Len(prog) > 0 THEN "Idle" ELSE "Done", op |-> "none", stk |-> <<>>, data |-> 0,
                 clean |-> FALSE, exc |-> "none", fpc |-> FALSE, need |-> "none", eof |-> FALSE, iok |-> "none", hfp0 |-> FALSE,
                 after |-> "none", arg |-> FALSE, res |-> "none", errk |-> "none", nops |-> 0, prog |-> prog, prog0 |-> prog]

Shared0(fr, sv, mode) ==
  LET wc == sv = "close" \/ fr = "eof"
      base == [fr |-> fr, sv |-> sv, mode |-> mode,
               have |-> TRUE, own |-> TRUE, shutset |-> TRUE, ulen |-> IF fr = "cl" THEN 2 ELSE 0, gen |-> "none",
               hfp |-> TRUE, hflag |-> FALSE, pos |-> 0, hmid |-> FALSE, ioref |-> TRUE, hdone |-> FALSE,
               csock |-> ~wc, cresp |-> ~wc, sobj |-> wc, shut |-> FALSE, fdopen |-> TRUE,
               fedn |-> 1, rcv2 |-> "no", kern |-> 0, pclosed |-> FALSE,
               slots |-> 0, pooled |-> FALSE, puts |-> 0,
               deliv |-> 0, nrerr |-> 0, ndisp |-> 0, nshok |-> 0, nint |-> 0, nboom |-> 0, io |-> "none"] IN
  IF mode = "stream" THEN base
  ELSE IF sv \in {"ka", "close"} THEN
      \* preload_content=True: the body was read to the end while the response was built; the connection is back
      [base EXCEPT !.own = FALSE, !.ulen = 0, !.hfp = FALSE, !.pos = 2, !.ioref = FALSE, !.fdopen = ~wc, !.hdone = TRUE,
                   !.fedn = 2, !.rcv2 = "data", !.pclosed = wc, !.slots = 1, !.pooled = TRUE, !.puts = 1, !.deliv = 2]
  ELSE \* the request itself failed (cut / interrupt while preloading): no response object at all
      [base EXCEPT !.have = FALSE, !.own = FALSE, !.shutset = FALSE, !.ulen = 0, !.hfp = FALSE, !.hflag = TRUE, !.ioref = FALSE,
                   !.csock = FALSE, !.cresp = FALSE, !.sobj = TRUE, !.fdopen = FALSE, !.fedn = 2,
                   !.pclosed = (sv = "cut"), !.rcv2 = IF sv = "cut" /\ fr = "chunked" THEN "stub" ELSE "no",
                   !.slots = 1, !.puts = 1, !.nboom = IF sv = "boom" THEN 1 ELSE 0, !.nint = IF sv = "boom" THEN 1 ELSE 0]

Scenarios == {x \in [fr : {"cl", "chunked", "eof"}, sv : {"ka", "close", "cut", "boom", "reset", "never"}, mode : {"stream", "preload", "preload_norel"}] :
                /\ x.fr = "eof" => x.sv = "close"
                /\ x.sv = "never" => (~Eager /\ x.fr # "eof")
                /\ x.sv \in {"boom", "reset"} => Eager
                /\ x.mode # "stream" => Eager}

InitWith(x, pa, pb) == /\ sh = Shared0(x.fr, x.sv, x.mode)
                       /\ th = [t \in Threads |-> IF t = "a" THEN (IF Eager /\ ~sh.have THEN [Local0(pa) EXCEPT !.pc = "Done"] ELSE Local0(pa))
                                                  ELSE (IF Eager THEN [Local0(<<>>) EXCEPT !.pc = "Done"] ELSE Local0(pb))]

\* ------------------------------------------------------------------------------- observable projection
SockState(s) == IF ~s.fdopen THEN "closed" ELSE IF s.shut THEN "shutrd" ELSE "open"
ObsOf(s, T) == [fr |-> s.fr, sv |-> s.sv, have |-> s.have, own |-> s.own, shutset |-> s.shutset, ulen |-> s.ulen, gen |-> s.gen,
                hfp |-> s.hfp, hflag |-> s.hflag, csock |-> s.csock, sock |-> SockState(s),
                fedn |-> s.fedn, kern |-> s.kern, pclosed |-> s.pclosed,
                slots |-> s.slots, pooled |-> s.pooled, puts |-> s.puts,
                deliv |-> s.deliv, nrerr |-> s.nrerr, ndisp |-> s.ndisp, nshok |-> s.nshok, nint |-> s.nint, nboom |-> s.nboom,
                io |-> s.io,
                pc |-> [t \in Threads |-> T[t].pc], op |-> [t \in Threads |-> T[t].op],
                res |-> [t \in Threads |-> T[t].res], errk |-> [t \in Threads |-> T[t].errk],
                nops |-> [t \in Threads |-> T[t].nops]]
Obs == ObsOf(sh, th)

\* ------------------------------------------------------------------------------------------------ RULES
\* (state rules take one observation, transition rules two consecutive ones)
Quiet(o) == \A t \in Threads : o.pc[t] \in {"Idle", "Done"}

\* SlotReturnedExactlyOnce
SlotAtMostOnce(o) == o.puts <= 1 /\ o.slots <= 1
SlotNotLost(o)    == (Quiet(o) /\ o.have /\ o.slots = 0) => (o.own /\ o.hfp)
NotPooledWhileOpen(o) == (o.pooled /\ o.csock) => ~o.hfp
\* a connection goes back to the pool open only when the server has sent its whole reply and nothing of it is left in flight
\* (otherwise the next request on that connection reads this response's bytes)
CleanWhenPooled(o) == (o.pooled /\ o.csock) => (o.fedn = 2 /\ o.kern = 0)
\* NoUseAfterRelease: no socket I/O of this response on a connection that sits idle and open in the pool
NoUseAfterRelease(o, o2) == (o.pooled /\ o.csock) => o2.io = "none"
\* ShutdownUnblocksReader
ShutdownActs(o, o2) == o2.nshok > o.nshok => o2.io = "shut"
NeverHangs(o) == \A t \in Threads : o.errk[t] # "hang"
Completed(o, o2, t) == o2.nops[t] = o.nops[t] + 1
\* nobody has called (or is inside) release_conn / drain_conn / close: the application itself has not given the body up
NoDisposalYet(o) == o.ndisp = 0 /\ \A u \in Threads : o.op[u] \notin DispOps
CutNeverComplete(o, o2) ==
  \A t \in Threads :
    (Completed(o, o2, t) /\ o2.errk[t] = "none" /\ Signals(o2.op[t], o2.res[t]) /\ o2.fr \in {"cl", "chunked"}
       /\ o.nrerr = 0 /\ NoDisposalYet(o)) => o2.deliv = Total
\* OnlyUrllib3Errors
ErrOk(o, t) == \/ o.errk[t] \in {"none", "urllib3"}
               \/ o.errk[t] = "value" /\ o.op[t] = "shutdown"
               \/ o.errk[t] = "interrupt" /\ o.nboom >= 1
OnlyUrllib3Errors(o) == \A t \in Threads : ErrOk(o, t)
InterruptsPropagate(o) == o.nint <= o.nboom /\ (Quiet(o) => o.nint = o.nboom)
\* DisposalIdempotent: the response never takes a slot back; once one of release_conn / drain_conn / close has returned
\* and everybody is between calls, the response is detached and the slot is back; further disposal calls return normally
DisposalIdempotent(o, o2) ==
  /\ o2.slots >= o.slots
  /\ (Quiet(o2) /\ o2.ndisp >= 1 /\ o2.have) => (o2.slots = 1 /\ ~o2.own)
  /\ \A t \in Threads : (Completed(o, o2, t) /\ o2.op[t] \in DispOps /\ o.ndisp >= 1) => o2.errk[t] = "none"
\* ClosedIsStable
ClosedIsStable(o, o2) == /\ (o.have /\ ~o.hfp) => ~o2.hfp
                         /\ ~o.own => ~o2.own
                         /\ o.hflag => o2.hflag
                         /\ ~o.shutset => ~o2.shutset
                         /\ o.sock = "closed" => o2.sock = "closed"
                         /\ ~o.have => ~o2.have
\* close() is final: when it returns the response is closed and detached, and (nobody else being in the middle of a
\* call) its socket is closed unless the connection sits idle in the pool
CloseIsFinal(o, o2) ==
  \A t \in Threads : (Completed(o, o2, t) /\ o2.op[t] = "close" /\ o2.errk[t] = "none") =>
      (~o2.hfp /\ ~o2.own /\ ~o2.shutset /\ (Quiet(o2) => (o2.sock = "closed" \/ (o2.pooled /\ o2.csock))))
\* C01 at quiescence: every socket that is not idle in the pool is closed
NoOrphanSocket(o) == (Quiet(o) /\ ~o.have) => (o.sock = "closed" \/ (o.pooled /\ o.csock))

F(ok, name) == IF ok THEN {} ELSE {name}
\* every clause that fails in one observation / between two consecutive observations (the trace monitor is total)
StateFails(o) ==
  F(SlotAtMostOnce(o), "SlotReturnedExactlyOnce") \cup F(SlotNotLost(o), "SlotNotLost")
    \cup F(NotPooledWhileOpen(o), "NotPooledWhileOpen") \cup F(CleanWhenPooled(o), "CleanWhenPooled") \cup F(NeverHangs(o), "NeverHangs")
    \cup F(OnlyUrllib3Errors(o), "OnlyUrllib3Errors") \cup F(InterruptsPropagate(o), "InterruptsPropagate")
    \cup F(NoOrphanSocket(o), "NoOrphanSocket")
TransFails(o, o2) ==
  F(NoUseAfterRelease(o, o2), "NoUseAfterRelease") \cup F(ShutdownActs(o, o2), "ShutdownActs")
    \cup F(CutNeverComplete(o, o2), "CutNeverComplete") \cup F(DisposalIdempotent(o, o2), "DisposalIdempotent")
    \cup F(ClosedIsStable(o, o2), "ClosedIsStable") \cup F(CloseIsFinal(o, o2), "CloseIsFinal")

\* --------------------------------------------------------------- the same rules as TLC invariants / properties
TypeOK == /\ \A t \in Threads : th[t].pc \in Labels
          /\ sh.slots \in 0..1 /\ sh.puts \in 0..3 /\ sh.pos \in 0..2 /\ sh.ulen \in 0..2 /\ sh.deliv \in 0..4
          /\ sh.hflag => ~sh.hfp
          /\ sh.hfp => sh.ioref
          /\ ~sh.fdopen => (sh.sobj /\ ~sh.ioref)
InvSlotAtMostOnce == SlotAtMostOnce(Obs)
InvSlotNotLost == SlotNotLost(Obs)
InvNotPooledWhileOpen == NotPooledWhileOpen(Obs)
InvCleanWhenPooled == CleanWhenPooled(Obs)
InvNeverHangs == NeverHangs(Obs)
InvOnlyUrllib3Errors == OnlyUrllib3Errors(Obs)
InvInterruptsPropagate == InterruptsPropagate(Obs)
InvNoOrphanSocket == NoOrphanSocket(Obs)
ObsNext == ObsOf(sh', th')
PropNoUseAfterRelease == [][NoUseAfterRelease(Obs, ObsNext)]_vars
PropShutdownActs == [][ShutdownActs(Obs, ObsNext)]_vars
PropCutNeverComplete == [][CutNeverComplete(Obs, ObsNext)]_vars
PropDisposalIdempotent == [][DisposalIdempotent(Obs, ObsNext)]_vars
PropClosedIsStable == [][ClosedIsStable(Obs, ObsNext)]_vars
PropCloseIsFinal == [][CloseIsFinal(Obs, ObsNext)]_vars
\* two-thread part: a reader blocked in recv is always released by a successful shutdown(); nobody deadlocks
InvShutdownUnblocksReader == Stuck => sh.nshok = 0
InvNoDeadlock == Stuck => \E t \in Threads : th[t].pc = "Recv"
ShutdownLeadsToDone == (sh.nshok >= 1) ~> AllDone
=============================================================================
