---------------------------- MODULE MC_Timeout ----------------------------
(* Exhaustive configurations + scenario emission for Timeout (C19).           *)
EXTENDS Timeout, Json, IOUtils, SequencesExt

CONSTANTS Plan,            \* which family of configurations (see PlanConfigs)
          ShardK, ShardS   \* emission / checking is partitioned over ShardK processes by configuration

Vals == {UNSET, NONE, 500, 2000, 10000}          \* the quantifier's (total, connect, read) domain
Bad  == {0, -1000, BOOLV, STRV}                   \* 0, -1, True, "x"
Obj(t, c, r) == [kind |-> "obj", t |-> t, c |-> c, r |-> r]
Num(n)       == [kind |-> "num", t |-> UNSET, c |-> n, r |-> UNSET]
Omit         == [kind |-> "omit", t |-> UNSET, c |-> UNSET, r |-> UNSET]

ValidObjs   == {Obj(t, c, r) : t \in Vals, c \in Vals, r \in Vals}
ValidNums   == {Num(n) : n \in {NONE, 500, 2000, 10000}}
InvalidObjs == {Obj(t, c, r) : t \in Vals \cup Bad, c \in Vals \cup Bad, r \in Vals \cup Bad} \ ValidObjs
InvalidNums == {Num(n) : n \in Bad}
AllValid    == ValidObjs \cup ValidNums \cup {Omit}
\* pool-level timeouts chosen to differ from whatever the request says (override must be total)
Contrast    == {Omit, Obj(500, 500, 500), Obj(NONE, NONE, NONE), Num(2000), Obj(10000, UNSET, 2000)}
\* a small set of request-level timeouts for mixed two-request sequences
Few         == {Obj(500, UNSET, UNSET), Obj(2000, 500, 10000), Obj(NONE, 2000, 500), Obj(10000, NONE, NONE), Num(500)}
FewBad      == InvalidNums \cup {Obj(0, 500, 500), Obj(500, BOOLV, 500), Obj(500, 500, STRV), Obj(-1000, UNSET, UNSET)}

\* the system default matters only when some effective connect/read is unset
UsesDefault(ps, rs) == \E i \in 1..Len(rs) : SrcValid(ps) /\ SrcValid(rs[i])
                          /\ (EffCfg(ps, rs[i]).c = UNSET \/ EffCfg(ps, rs[i]).r = UNSET)
Cfgs(pss, schs, rss) ==
    UNION {{[ps |-> ps, D |-> D, sch |-> sch, rs |-> rs] :
               D \in IF UsesDefault(ps, rs) THEN {7000, NONE} ELSE {7000}} : ps \in pss, sch \in schs, rs \in rss}

Both == {"http", "https"}
PlanConfigs ==
    CASE Plan = "single" ->      \* one request: every (total, connect, read) at pool level and at request level
           Cfgs(AllValid, Both, {<<Omit>>})
           \cup Cfgs(Contrast, Both, {<<r>> : r \in ValidObjs \cup ValidNums})
      [] Plan = "invalid" ->     \* every invalid construction, at pool level and at request level
           Cfgs(InvalidObjs \cup InvalidNums, {"http"}, {<<Omit>>})
           \cup Cfgs({Omit, Obj(500, 500, 500)}, {"http"}, {<<r>> : r \in InvalidObjs \cup InvalidNums})
           \cup Cfgs({Omit, Obj(2000, UNSET, 500)}, Both, {<<b, Omit>> : b \in FewBad})
      [] Plan = "shared" ->      \* two requests sharing one pool Timeout
           Cfgs(AllValid, {"http"}, {<<Omit, Omit>>})
      [] Plan = "shared_https" ->
           Cfgs(AllValid, {"https"}, {<<Omit, Omit>>})
      [] Plan = "mixed" ->       \* two requests, placements mixed
           Cfgs(Contrast, {"http"}, {<<Omit, r>> : r \in Few} \cup {<<r, Omit>> : r \in Few}
                                     \cup {<<r, q>> : r \in Few, q \in Few})
      [] Plan = "mixed_https" ->
           Cfgs(Contrast, {"https"}, {<<Omit, r>> : r \in Few} \cup {<<r, Omit>> : r \in Few}
                                     \cup {<<r, q>> : r \in Few, q \in Few})
      [] Plan = "tiny" ->        \* sensitivity runs (Dev # {})
           Cfgs({Obj(2000, 500, 10000), Obj(500, 2000, 2000)}, Both, {<<Omit, Omit>>, <<Obj(10000, 2000, 500)>>})

MCConfigSeq == SetToSeq(PlanConfigs)
MCConfigs   == {MCConfigSeq[i] : i \in {j \in 1..Len(MCConfigSeq) : j % ShardK = ShardS}}

MCDurations     == {0, 300, 1000, 5000, 20000}            \* the quantifier's connect durations
MCDurationsEdge == MCDurations \cup {500, 2000, 10000}    \* + the exact "remaining = 0" boundaries
MCDurationsTiny == {0, 300, 5000}
NoDev  == {}
DevA   == {"noclone"}
DevB   == {"maxconnect"}
DevC   == {"ignoreelapsed"}
DevD   == {"nozerocheck"}

\* ACTION_CONSTRAINT: print every completed behaviour (configuration + environment choices + the
\* model's expected observations) exactly once; the history is part of the state, so every
\* terminal state is reached by exactly one path.
Emit == (pc' = "done" /\ pc # "done") =>
            PrintT(<<"SC", ToJson([cfg |-> cfg', ctor |-> ctor', reqs |-> hist'])>>)
NConfigs == PrintT(<<"NCONFIGS", Cardinality(PlanConfigs), Cardinality(MCConfigs)>>)
=============================================================================
