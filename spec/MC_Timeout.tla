---------------------------- MODULE MC_Timeout ----------------------------
(* Exhaustive configurations + scenario emission for Timeout (C19).           *)
(* The quantifier of the property, in integer milliseconds:                    *)
(*   (total, connect, read) over {unset, None, 0.5, 2, 10} + invalid {0, -1, True, "x"};       *)
(*   connect durations {0, 0.3, 1, 5, 20}; pool-level / request-level placement;              *)
(*   fresh / reused connection; sequences of 2 requests sharing one pool Timeout.             *)
EXTENDS Timeout, Json, IOUtils, SequencesExt

CONSTANTS Plans,           \* which families of configurations (see FamilyConfigs)
          ShardK, ShardS   \* optional partition of the configurations over ShardK TLC processes

Vals == {UNSET, NONE, 500, 2000, 10000}          \* the quantifier's (total, connect, read) domain
Bad  == {0, -1000, BOOLV, STRV}                   \* 0, -1, True, "x"
Obj(t, c, r) == [kind |-> "obj", t |-> t, c |-> c, r |-> r]
Num(n)       == [kind |-> "num", t |-> UNSET, c |-> n, r |-> UNSET]
Omit         == [kind |-> "omit", t |-> UNSET, c |-> UNSET, r |-> UNSET]

Objs(V)     == [kind : {"obj"}, t : V, c : V, r : V]
ValidObjs   == Objs(Vals)
ValidNums   == {Num(n) : n \in {NONE, 500, 2000, 10000}}
InvalidObjs == {o \in Objs(Vals \cup Bad) : ~SrcValid(o)}
InvalidNums == {Num(n) : n \in Bad}
AllValid    == ValidObjs \cup ValidNums \cup {Omit}
\* pool-level timeouts chosen to differ from whatever the request says (override must be total)
Contrast    == {Omit, Obj(500, 500, 500), Obj(NONE, NONE, NONE), Num(2000), Obj(10000, UNSET, 2000)}
\* a small set of request-level timeouts for mixed two-request sequences
Few         == {Obj(500, UNSET, UNSET), Obj(2000, 500, 10000), Obj(NONE, 2000, 500), Obj(10000, NONE, NONE), Num(500)}
FewBad      == InvalidNums \cup {Obj(0, 500, 500), Obj(500, BOOLV, 500), Obj(500, 500, STRV), Obj(-1000, UNSET, UNSET)}

\* the system default (socket.getdefaulttimeout) matters only when some effective connect/read is unset
UsesDefault(ps, rs) == \E i \in 1..Len(rs) : SrcValid(ps) /\ SrcValid(rs[i])
                          /\ (EffCfg(ps, rs[i]).c = UNSET \/ EffCfg(ps, rs[i]).r = UNSET)
Cfgs(pss, schs, rss) ==
    {x \in [ps : pss, D : {7000, NONE}, sch : schs, rs : rss] : x.D = 7000 \/ UsesDefault(x.ps, x.rs)}

Both == {"http", "https"}
Pairs == {<<Omit, r>> : r \in Few} \cup {<<r, Omit>> : r \in Few} \cup {<<r, q>> : r \in Few, q \in Few}
FamilyConfigs(p) ==
    CASE p = "pool" ->        \* one request: every (total, connect, read) at pool level
           Cfgs(AllValid, Both, {<<Omit>>})
      [] p = "request" ->     \* ... and at request level, against contrasting pool timeouts
           Cfgs(Contrast, Both, {<<r>> : r \in ValidObjs \cup ValidNums})
      [] p = "request_q" ->   \* quick tier: the same against two contrasting pool timeouts only
           Cfgs({Obj(500, 500, 500), Num(2000)}, Both, {<<r>> : r \in ValidObjs \cup ValidNums})
      [] p = "invalid" ->     \* every invalid construction, at pool level and at request level
           Cfgs(InvalidObjs \cup InvalidNums, {"http"}, {<<Omit>>})
           \cup Cfgs({Omit, Obj(500, 500, 500)}, {"http"}, {<<r>> : r \in InvalidObjs \cup InvalidNums})
           \cup Cfgs({Omit, Obj(2000, UNSET, 500)}, Both, {<<b, Omit>> : b \in FewBad})
      [] p = "shared" ->      \* two requests sharing one pool Timeout
           Cfgs(AllValid, {"http"}, {<<Omit, Omit>>})
      [] p = "sameobj" ->     \* the caller passes the very same Timeout object to both requests
           Cfgs({Omit, Obj(500, 500, 500)}, {"http"}, {<<r, r>> : r \in Few})
      [] p = "shared_https" ->
           Cfgs(AllValid, {"https"}, {<<Omit, Omit>>})
      [] p = "mixed" ->       \* two requests, placements mixed (equal sources = the caller's same object)
           Cfgs(Contrast, {"http"}, Pairs)
      [] p = "mixed_https" ->
           Cfgs(Contrast, {"https"}, Pairs)
      [] p = "three" ->       \* three requests sharing one pool Timeout (beyond the quantifier)
           Cfgs(Contrast \cup Few, Both, {<<Omit, Omit, Omit>>})
      [] p = "tiny" ->        \* sensitivity runs (Dev # {})
           Cfgs({Obj(2000, 500, 10000), Obj(500, 2000, 2000)}, Both, {<<Omit, Omit>>, <<Obj(10000, 2000, 500)>>, <<Obj(UNSET, 2000, UNSET)>>})

PlanConfigs == UNION {FamilyConfigs(p) : p \in Plans}
MCConfigSeq == SetToSeq(PlanConfigs)
MCConfigs   == IF ShardK = 1 THEN PlanConfigs
               ELSE {MCConfigSeq[i] : i \in {j \in 1..Len(MCConfigSeq) : j % ShardK = ShardS}}

MCDurations     == {0, 300, 1000, 5000, 20000}            \* the quantifier's connect durations
MCDurationsEdge == MCDurations \cup {500, 2000, 10000}    \* + the exact "remaining = 0" boundaries
MCDurationsTiny == {0, 300, 5000}
NoDev  == {}
DevA   == {"noclone"}
DevB   == {"maxconnect"}
DevC   == {"ignoreelapsed"}
DevD   == {"nozerocheck"}
DevE   == {"negativeread"}
DevF   == {"mergepool"}
DevG   == {"noreapply"}
PA == {"pool", "request", "invalid"}
PQ == {"pool", "request_q", "invalid"}
PB == {"shared", "sameobj"}
PC == {"shared", "shared_https", "mixed", "mixed_https"}
PD == {"three"}
PT == {"tiny"}

\* ACTION_CONSTRAINT: print every completed behaviour (configuration + environment choices + the
\* model's expected observations) exactly once; the history is part of the state, so every
\* terminal state is reached by exactly one path.
Emit == (pc' = "done" /\ pc # "done") =>
            PrintT(<<"SC", ToJson([cfg |-> cfg', ctor |-> ctor', reqs |-> hist'])>>)
ASSUME PrintT(<<"NCONFIGS", Cardinality(PlanConfigs), Cardinality(MCConfigs)>>)
=============================================================================
