---------------------------- MODULE MC_SSLTransport ----------------------------
(* Constants, sharding and schedule emission for SSLTransport.tla.                             *)
(* A schedule is one finished behaviour: the configuration, the steps the harness has to take  *)
(* (API calls, what the peer does and when, how many units every socket.recv returns, where a  *)
(* timeout strikes) and the log the model expects.                                             *)
EXTENDS SSLTransport, Json

CONSTANTS ShardK, ShardS, EmitOn

RECURSIVE Hash(_)
Hash(sq) == IF sq = <<>> THEN 7 ELSE (31 * Hash(Tail(sq)) + Head(sq).u + Head(sq).n + Len(Head(sq).fn) + Len(Head(sq).a)) % 9973

\* Evaluated once per distinct state: every finished behaviour is printed exactly once (by one shard).
Emit == (EmitOn /\ Done /\ Hash(sched) % ShardK = ShardS) =>
           PrintT(<<"SC", ToJson([cfg |-> cfg, steps |-> sched, log |-> log])>>)
=============================================================================
