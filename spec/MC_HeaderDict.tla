---------------------------- MODULE MC_HeaderDict ----------------------------
(* Exhaustive configuration + transition emission for HeaderDict (C16).       *)
EXTENDS HeaderDict, Json, IOUtils

\* constant sources accepted by extend / update / | : dict, list of pairs (may repeat names), kwargs
MCSources == <<
  [kind |-> "dict", pairs |-> << <<"A", "1">>, <<"b", "2">> >>],
  [kind |-> "list", pairs |-> << <<"a", "1">>, <<"A", "2">>, <<"Set-Cookie", "x, y">> >>],
  [kind |-> "kw",   pairs |-> << <<"b", "">> >>],
  [kind |-> "list", pairs |-> <<>>]
>>
MCNames == {"A", "a", "B", "b", "Set-Cookie", "set-cookie"}
MCValues == {"1", "2", "x, y", ""}
MCNamesSmall == {"A", "a", "b", "Set-Cookie"}
MCValuesSmall == {"1", "x, y", ""}

\* ACTION_CONSTRAINT: print every transition of the collapsed graph exactly once as JSON.
\* Emission is sharded over ShardK processes (each explores the whole graph, prints its share).
CONSTANTS ShardK, ShardS
NIdx(n) == CASE n = "A" -> 1 [] n = "a" -> 2 [] n = "B" -> 3 [] n = "b" -> 4 [] n = "Set-Cookie" -> 5
             [] n = "set-cookie" -> 6 [] OTHER -> 0
VIdx(v) == CASE v = "1" -> 1 [] v = "2" -> 2 [] v = "x, y" -> 3 [] v = "" -> 4 [] OTHER -> 0
OIdx(o) == CASE o = "setitem" -> 1 [] o = "add" -> 2 [] o = "addc" -> 3 [] o = "setdefault" -> 4 [] o = "popd" -> 5
             [] o = "delitem" -> 6 [] o = "discard" -> 7 [] o = "pop" -> 8 [] OTHER -> 9
RECURSIVE NVals(_)
NVals(o) == IF o = <<>> THEN 0 ELSE Len(o[1].vs) + NVals(Tail(o))
ShardOf(e) == (e.i + 3 * e.j + 5 * e.src + 7 * NIdx(e.n) + 11 * VIdx(e.v) + 13 * OIdx(e.op)
               + 17 * Len(objs[e.i]) + 19 * NVals(objs[e.i])) % ShardK
Emit == (ShardOf(last') = ShardS) =>
           PrintT(<<"TR", ToJson([from |-> objs, live |-> live, op |-> last', to |-> objs', live2 |-> live'])>>)
=============================================================================
