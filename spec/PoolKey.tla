------------------------------- MODULE PoolKey -------------------------------
(* C18 — connections are never shared across differing connection settings.                  *)
(*                                                                                           *)
(* Two independently maintained lists meet in urllib3's PoolManager: the keywords with which  *)
(* a pool / connection can be configured (constructor signatures) and the fields that         *)
(* identify a pool in the manager's cache (PoolKey).  Both lists are CONSTANTS of this module  *)
(* and are extracted from the running code (inspect.signature, PoolKey._fields) into the      *)
(* generated cfg, so the theorems below are checked for the tree as it is.                    *)
(*                                                                                           *)
(* A setting value is an index: 0 = absent / None, 1..NVof[kw] = the non-None values of a       *)
(* per-keyword table held by the harness (vh/c18.py, vh/c18values.py):                         *)
(*   1..NV            three hand-picked plain values (CloneKw, DefectTwinKw, CtorDefaultKw say    *)
(*                    what the table guarantees about them; computed from the objects)           *)
(*   NV+1 .. NVof[kw] only for STRUCTURED keywords (StructKw: Retry, Timeout, ProxyConfig, Url,    *)
(*                    header / option dicts, socket-option lists, SSLContext).  These values are  *)
(*                    derived at run time from the value TYPE (inspect.signature of the           *)
(*                    constructor, namedtuple fields, dict keys, list items, settable            *)
(*                    attributes): BaseV a base object, CloneV an equal-content object built      *)
(*                    separately, and one FIELD VARIANT per constructor parameter / field that    *)
(*                    differs from the base in exactly that parameter.                           *)
(*                                                                                           *)
(* Layers:  CONTRACT  what a request asks for (capture of constructor defaults, merge of       *)
(*                    per-request overrides, proxy routing) — shared by Rules and Model;       *)
(*          RULES     the property: a three-valued verdict on two asked contexts and the        *)
(*                    demand that the serving pool is configured as asked;                     *)
(*          MODEL     what the manager does: fill in the default port, normalise into a key,    *)
(*                    look up or create the pool (one action per step).                        *)
EXTENDS Integers, Sequences, FiniteSets, TLC

CONSTANTS
    Keywords,       \* code: named parameters of HTTP(S)ConnectionPool / HTTP(S)Connection (+SOCKS) constructors
    KeyFields,      \* code: PoolKey._fields with the key_ prefix stripped
    IdentityKw,     \* code: positional identity of PoolManager._new_pool (scheme, host, port)
    ManagerOwn,     \* code: named parameters of the manager constructors (kept by the manager, not pool kwargs)
    SslKeywords,    \* code: poolmanager.SSL_KEYWORDS (dropped when an http pool is created)
    KeyDefaultKw,   \* model: fields the normaliser defaults to value 1 when None (blocksize -> _DEFAULT_BLOCKSIZE)
    NV,             \* table: number of plain (hand-picked) non-None values per keyword
    NVof,           \* table+code: [Settings -> Nat] number of non-None values of each keyword: NV, or for a
                    \*   structured keyword NV + 2 + number of constructor parameters / fields of its value type
    StructKw,       \* table+code: the structured keywords (values NV+1.. derived from the value type)
    ValueEqKw,      \* table+code: structured keywords whose type has value equality (dict, list, namedtuple): the
                    \*   separately built clone == the base in Python.  Retry, Timeout, SSLContext compare by identity.
    CloneKw,        \* table: value 3 is an equal-content / equal-meaning twin of value 1 (same setting, == in Python)
    DefectTwinKw,   \* table: values 1 and 2 are different settings that Python's == conflates (retries False / 0)
    CtorDefaultKw,  \* table+code: value 1 equals the constructor's own default (absent means that value)
    KnownDefects,   \* subset of {"PyEqTwins", "PortZero"}: recorded deviations the Model reproduces
    Deviations,     \* {} or {"LossyValueCanonicalisation"}: a seeded fault of the Model that TLC must refute
    Scenarios       \* the scenarios explored in stage 1 / emitted in stage 2 (MC_PoolKey)

NOPORT  == 0 - 1                      \* no port given
NOOV    == 0 - 1                      \* keyword not mentioned in a per-request override
NOTINTABLE == 0 - 1                      \* observed value that is none of the table's (a constructor default object)
UNKNOWN == "zz_unknown"               \* a keyword nobody accepts
Settings    == ((Keywords \cup KeyFields) \ IdentityKw) \cup {UNKNOWN}
KeySettings == KeyFields \ IdentityKw
ValsOf(kw)  == 0..NVof[kw]
BaseV       == NV + 1                 \* structured keyword: the base object
CloneV      == NV + 2                 \*   an equal-content object built separately from the same constructor arguments
FieldVs(kw) == (NV + 3)..NVof[kw]     \*   one variant per constructor parameter / field, differing from the base in it

\* TLC cannot lower-case strings; the alphabet of schemes and hosts is fixed, so Lower is a table.
Lower(s) == CASE s = "HTTP" -> "http" [] s = "HTTPS" -> "https" [] s = "A.TEST" -> "a.test"
              [] s = "B.TEST" -> "b.test" [] OTHER -> s
DefaultPort(scheme) == IF Lower(scheme) = "https" THEN 443 ELSE 80     \* port_by_scheme.get(scheme, 80)
PROXY == [scheme |-> "http", host |-> "proxy.test", port |-> 3128]      \* the proxy of a "proxy" manager

-----------------------------------------------------------------------------
(* CONTRACT: what a request asks for.                                                         *)
(* A manager is (mk, cpkw): kind "plain" | "proxy" and its connection_pool_kw.                 *)
(* A request is [scheme, host, port, via, ov]; via = "url" | "host" | "context";               *)
(* ov[kw] = NOOV (not mentioned), 0 (explicit None: remove the default) or 1..NV.              *)

\* PoolManager.__init__ / ProxyManager.__init__: named parameters (headers) stay with the manager,
\* a proxy manager forces its three proxy settings.
\* (TLCEval is the identity; it makes TLC build the function once instead of re-evaluating its body at every application)
Capture(mk, dflt) ==
    TLCEval([kw \in Settings |->
        IF mk = "proxy" /\ kw \in {"_proxy", "_proxy_headers", "_proxy_config"} THEN 1
        ELSE IF kw \in ManagerOwn THEN 0
        ELSE dflt[kw]])

\* _merge_pool_kwargs: overrides win, None removes; connection_from_context takes the caller's dict as is.
MergeKw(cpkw, r) ==
    TLCEval([kw \in Settings |->
        IF r.via = "context" THEN (IF r.ov[kw] = NOOV THEN 0 ELSE r.ov[kw])
        ELSE IF r.ov[kw] = NOOV THEN cpkw[kw] ELSE r.ov[kw]])

\* ProxyManager.connection_from_host: everything that is not https goes to the proxy's own pool.
Route(mk, r) ==
    IF mk = "proxy" /\ r.via # "context" /\ r.scheme # "https"
    THEN [scheme |-> PROXY.scheme, host |-> PROXY.host, port |-> PROXY.port]
    ELSE [scheme |-> r.scheme, host |-> r.host, port |-> r.port]

\* connection_from_url goes through parse_url, which lower-cases scheme and host
Pre(r) == IF r.via = "url" THEN [r EXCEPT !.scheme = Lower(@), !.host = Lower(@)] ELSE r

\* the asked context: endpoint as requested (port still NOPORT if none was given) + effective settings
Ask(mk, cpkw, r0) ==
    LET r == Pre(r0)  e == Route(mk, r) IN
    [scheme |-> e.scheme, host |-> e.host, port |-> e.port, via |-> r.via, s |-> MergeKw(cpkw, r)]

-----------------------------------------------------------------------------
(* RULES: the property.                                                                       *)

Eff(kw, v)      == IF v = 0 /\ kw \in CtorDefaultKw THEN 1 ELSE v       \* absent means the constructor default
\* the same setting: equal content (a second dict / list with the same items; an object built from the same arguments)
SemEq(kw, a, b) == \/ a = b
                   \/ (kw \in CloneKw /\ {a, b} = {1, 3})
                   \/ (kw \in StructKw /\ {a, b} = {BaseV, CloneV})
\* equal as Python values: the same setting AND the type has value equality.  Two separately built Retry / Timeout /
\* SSLContext objects with equal content are different Python values; the statement ("only if ... are equal") does
\* not say whether they must share, so that pair is Either.
ValEq(kw, a, b) == \/ a = b
                   \/ (kw \in CloneKw /\ {a, b} = {1, 3})
                   \/ (kw \in ValueEqKw /\ {a, b} = {BaseV, CloneV})
RulePort(c)     == IF c.port = NOPORT THEN DefaultPort(c.scheme) ELSE c.port
SameEndpoint(c1, c2) == /\ Lower(c1.scheme) = Lower(c2.scheme)
                        /\ Lower(c1.host) = Lower(c2.host)
                        /\ RulePort(c1) = RulePort(c2)
\* Latitude (DESIGN.md 4 C18/C15): an explicit port 0 is not a connectable port and the statement does not say what it
\* means; urllib3 reads it as "no port given" on the url / host routes and keeps it on the context route.
ZeroAsDefault(c) == IF c.port = 0 /\ c.via # "context" THEN DefaultPort(c.scheme) ELSE RulePort(c)
\* TLS keywords do not affect a plain-http connection (the manager drops them for http pools)
Affecting(c) == IF Lower(c.scheme) = "http" THEN Settings \ SslKeywords ELSE Settings

\* Three-valued reference on two asked contexts that were both served:
\*   MustDiffer  an endpoint component or a connection-affecting setting differs (for a structured value: ANY
\*               constructor parameter / field of the value differs)
\*   MustShare   nothing differs except case, default port, equal-content twins of a type with value equality
\*   Either      they differ only in something that cannot affect the connection
\*               (explicit constructor default vs absent; TLS keyword on plain http; equal-content objects of a
\*               type that compares by identity), or the endpoints agree only under one reading of an explicit
\*               port 0 (0 kept on the context route, read as "no port" on the host route)
Verdict(c1, c2) ==
    IF ~SameEndpoint(c1, c2) THEN "MustDiffer"
    ELSE IF \E kw \in Affecting(c1) : ~SemEq(kw, Eff(kw, c1.s[kw]), Eff(kw, c2.s[kw])) THEN "MustDiffer"
    ELSE IF /\ \A kw \in Settings : ValEq(kw, c1.s[kw], c2.s[kw])
            /\ ZeroAsDefault(c1) = ZeroAsDefault(c2) THEN "MustShare"
    ELSE "Either"

\* Is a pool configured conf = [scheme, host, port, s] what context c asked for?  (conf.s[kw] may be NOTINTABLE:
\* an object that is none of the table's values — acceptable only where nothing specific was asked.)
ConfSettingOk(kw, have, want) ==
    LET w == Eff(kw, want)  h == Eff(kw, have) IN
    IF h = NOTINTABLE THEN w = 0 ELSE SemEq(kw, h, w)
ConfEndpointOk(conf, c) == /\ conf.scheme = Lower(c.scheme)
                           /\ Lower(conf.host) = Lower(c.host)
                           /\ conf.port = RulePort(c)
ConfBadKw(conf, c) == {kw \in Affecting(c) \cap KeySettings : ~ConfSettingOk(kw, conf.s[kw], c.s[kw])}
ConfOk(conf, c) == ConfEndpointOk(conf, c) /\ ConfBadKw(conf, c) = {}

\* Signatures of the recorded deviations (DESIGN 2.6): which known defect, if any, explains that c1 and c2
\* (MustDiffer) share a pool, or that a pool serving c is configured differently.
TwinOnly(kw, a, b) == kw \in DefectTwinKw /\ {a, b} = {1, 2}
DiffKw(c1, c2) == {kw \in Affecting(c1) : ~SemEq(kw, Eff(kw, c1.s[kw]), Eff(kw, c2.s[kw]))}
PortZeroExplains(c1, c2) == /\ Lower(c1.scheme) = Lower(c2.scheme) /\ Lower(c1.host) = Lower(c2.host)
                            /\ ZeroAsDefault(c1) = ZeroAsDefault(c2)
\* the set of recorded deviations needed to explain every difference ("none" = not explained by any)
ShareSigs(c1, c2) ==
    (IF SameEndpoint(c1, c2) THEN {} ELSE IF PortZeroExplains(c1, c2) THEN {"PortZero"} ELSE {"none"})
    \cup (IF DiffKw(c1, c2) = {} THEN {}
          ELSE IF \A kw \in DiffKw(c1, c2) : TwinOnly(kw, c1.s[kw], c2.s[kw]) THEN {"PyEqTwins"} ELSE {"none"})
ConfSigs(conf, c) ==
    (IF ConfEndpointOk(conf, c) THEN {}
     ELSE IF conf.scheme = Lower(c.scheme) /\ Lower(conf.host) = Lower(c.host) /\ c.port = 0
             /\ conf.port = ZeroAsDefault(c) THEN {"PortZero"} ELSE {"none"})
    \cup (IF ConfBadKw(conf, c) = {} THEN {}
          ELSE IF \A kw \in ConfBadKw(conf, c) : TwinOnly(kw, conf.s[kw], c.s[kw]) THEN {"PyEqTwins"} ELSE {"none"})

-----------------------------------------------------------------------------
(* MODEL: the manager's steps.                                                                *)

\* connection_from_host: "if not port" — None, and (recorded deviation PortZero) an explicit 0
Falsy(p) == p = NOPORT \/ ("PortZero" \in KnownDefects /\ p = 0)
MergeStep(mk, cpkw, r) ==
    LET a == Ask(mk, cpkw, r) IN
    [a EXCEPT !.port = IF a.via # "context" /\ Falsy(@) THEN DefaultPort(a.scheme) ELSE @]

\* _default_key_normalizer: lower-case scheme and host, freeze containers (value level: CloneKw), None for
\* missing fields, blocksize default; PoolKey(**context) raises TypeError for a key_<kw> it does not know.
Rejected(ctx) == \E kw \in Settings : ctx.s[kw] # 0 /\ kw \notin KeyFields
\* The key holds the value itself.  Deviation LossyValueCanonicalisation (a fault TLC must refute, never enabled when
\* real traces are judged): the key is computed from a PROJECTION of a structured value that forgets one field (e.g. a
\* repr() that does not print it) - here the last field: the variant that differs from the base only there gets the
\* base's key component.
Canon(f, v) == IF "LossyValueCanonicalisation" \in Deviations /\ f \in StructKw /\ v = NVof[f] THEN BaseV ELSE v
Normalise(ctx) ==
    [rej |-> Rejected(ctx), scheme |-> Lower(ctx.scheme), host |-> Lower(ctx.host), port |-> ctx.port,
     s |-> TLCEval([f \in KeySettings |-> IF ctx.s[f] = 0 /\ f \in KeyDefaultKw THEN 1 ELSE Canon(f, ctx.s[f])])]

\* equality of key components is Python's == (after freezing containers)
PyEqV(kw, a, b) == \/ ValEq(kw, a, b)
                   \/ ("PyEqTwins" \in KnownDefects /\ kw \in DefectTwinKw /\ {a, b} = {1, 2})
KeyEq(k1, k2) == /\ k1.scheme = k2.scheme /\ k1.host = k2.host /\ k1.port = k2.port
                 /\ \A f \in KeySettings : PyEqV(f, k1.s[f], k2.s[f])

\* connection_from_pool_key + _new_pool.  pools is the cache: a sequence of [key, conf] in creation order.
\* out = [exc, pool]: exc "none" (served by pools[pool]), "TypeError" (key rejected), "KeyError" (pool class
\* looked up with the un-normalised scheme).
Hit(pools, key) == {i \in 1..Len(pools) : KeyEq(pools[i].key, key)}
NewConf(ctx, key) ==
    [scheme |-> ctx.scheme, host |-> Lower(ctx.host), port |-> ctx.port,
     s |-> TLCEval([f \in KeySettings |-> IF ctx.scheme = "http" /\ f \in SslKeywords THEN 0 ELSE key.s[f]])]
Serve(pools, ctx, key) ==
    IF key.rej THEN [pools |-> pools, exc |-> "TypeError", pool |-> 0]
    ELSE IF Hit(pools, key) # {} THEN [pools |-> pools, exc |-> "none", pool |-> CHOOSE i \in Hit(pools, key) : TRUE]
    ELSE IF ctx.scheme \notin {"http", "https"} THEN [pools |-> pools, exc |-> "KeyError", pool |-> 0]
    ELSE [pools |-> Append(pools, [key |-> key, conf |-> NewConf(ctx, key)]), exc |-> "none", pool |-> Len(pools) + 1]

\* one whole request (used by the trace monitor; the actions below take the same three steps one by one)
Step(mk, cpkw, pools, r) ==
    LET ctx == MergeStep(mk, cpkw, r)  key == Normalise(ctx)  sv == Serve(pools, ctx, key) IN
    [pools |-> sv.pools,
     out |-> [exc |-> sv.exc, pool |-> sv.pool, ask |-> Ask(mk, cpkw, r), ctx |-> ctx, key |-> key]]

VARIABLES sc,      \* the scenario (constant along a behaviour)
          cpkw,    \* the manager's connection_pool_kw
          pools,   \* the pool cache
          n,       \* index of the request in progress
          pc,      \* "merge" | "key" | "serve" | "done"
          ctx,     \* merged request context of the request in progress
          key,     \* its pool key
          outs     \* results of the completed requests
vars == <<sc, cpkw, pools, n, pc, ctx, key, outs>>

NoCtx == [scheme |-> "", host |-> "", port |-> NOPORT, via |-> "", s |-> [kw \in Settings |-> 0]]
NoKey == [rej |-> FALSE, scheme |-> "", host |-> "", port |-> NOPORT, s |-> [f \in KeySettings |-> 0]]

Init == /\ sc \in Scenarios
        /\ cpkw = Capture(sc.mk, sc.dflt)
        /\ pools = <<>> /\ n = 1 /\ pc = "merge" /\ ctx = NoCtx /\ key = NoKey /\ outs = <<>>

Merge == /\ pc = "merge"
         /\ ctx' = MergeStep(sc.mk, cpkw, sc.reqs[n])
         /\ pc' = "key"
         /\ UNCHANGED <<sc, cpkw, pools, n, key, outs>>

Key == /\ pc = "key"
       /\ key' = Normalise(ctx)
       /\ pc' = "serve"
       /\ UNCHANGED <<sc, cpkw, pools, n, ctx, outs>>

ServeReq == /\ pc = "serve"
            /\ LET sv == Serve(pools, ctx, key) IN
               /\ pools' = sv.pools
               /\ outs' = Append(outs, [exc |-> sv.exc, pool |-> sv.pool, ask |-> Ask(sc.mk, cpkw, sc.reqs[n]),
                                        ctx |-> ctx, key |-> key])
            /\ IF n = Len(sc.reqs) THEN pc' = "done" /\ n' = n ELSE pc' = "merge" /\ n' = n + 1
            /\ UNCHANGED <<sc, cpkw, ctx, key>>

Next == Merge \/ Key \/ ServeReq
Spec == Init /\ [][Next]_vars

-----------------------------------------------------------------------------
(* What TLC checks (stage 1).  With KnownDefects = {} these are the strict statements; with the recorded    *)
(* deviations enabled in the Model they hold exactly up to the recorded signatures.                        *)

TypeOK == /\ DOMAIN cpkw = Settings /\ \A kw \in Settings : cpkw[kw] \in ValsOf(kw)
          /\ StructKw \subseteq Settings /\ ValueEqKw \subseteq StructKw /\ \A kw \in StructKw : NVof[kw] >= NV + 3
          /\ \A kw \in Settings \ StructKw : NVof[kw] = NV
          /\ pc \in {"merge", "key", "serve", "done"}
          /\ \A i \in 1..Len(outs) : outs[i].exc \in {"none", "TypeError", "KeyError"}
          /\ \A i \in 1..Len(outs) : outs[i].exc = "none" <=> outs[i].pool \in 1..Len(pools)

Served(o) == o.exc = "none"
Pairs == {<<i, j>> \in (1..Len(outs)) \X (1..Len(outs)) : i < j /\ Served(outs[i]) /\ Served(outs[j])}

\* every keyword accepted by a constructor that is present in a request is part of the key, or the request is rejected
KeywordKeyedOrRejected ==
    \A i \in 1..Len(outs) : \A kw \in (Keywords \ IdentityKw) :
        outs[i].ask.s[kw] # 0 => \/ outs[i].exc = "TypeError"
                                 \/ (kw \in KeyFields /\ outs[i].key.s[kw] = outs[i].ask.s[kw])

\* same pool only if endpoint and every connection-affecting setting are equal
NoSharingAcrossSettings ==
    \A p \in Pairs : outs[p[1]].pool = outs[p[2]].pool =>
        \/ Verdict(outs[p[1]].ask, outs[p[2]].ask) # "MustDiffer"
        \/ ShareSigs(outs[p[1]].ask, outs[p[2]].ask) \subseteq KnownDefects

\* ... and at the level of keys: contexts one keyword apart have different keys
OneApartDistinctKeys ==
    \A i, j \in 1..Len(outs) : (i < j /\ ~outs[i].key.rej /\ ~outs[j].key.rej /\ KeyEq(outs[i].key, outs[j].key)) =>
        \/ Verdict(outs[i].ask, outs[j].ask) # "MustDiffer"
        \/ ShareSigs(outs[i].ask, outs[j].ask) \subseteq KnownDefects

\* normalisation merges only case variants, default-port variants, the default blocksize and equal-content twins
NormalisationMergesOnlyVariants ==
    \A i, j \in 1..Len(outs) : (i < j /\ ~outs[i].key.rej /\ ~outs[j].key.rej /\ KeyEq(outs[i].key, outs[j].key)) =>
        LET a == outs[i].ask  b == outs[j].ask IN
        \/ /\ SameEndpoint(a, b)
           /\ \A kw \in Settings : \/ SemEq(kw, a.s[kw], b.s[kw])
                                   \/ (kw \in KeyDefaultKw /\ kw \in CtorDefaultKw /\ {a.s[kw], b.s[kw]} = {0, 1})
        \/ (ShareSigs(a, b) # {} /\ ShareSigs(a, b) \subseteq KnownDefects)

\* equal up to case / default port / twins => the same pool
SharedWhenEqual ==
    \A p \in Pairs : Verdict(outs[p[1]].ask, outs[p[2]].ask) = "MustShare" => outs[p[1]].pool = outs[p[2]].pool

\* the pool that serves a request is configured as that request asked
PoolConfiguredAsRequested ==
    \A i \in 1..Len(outs) : Served(outs[i]) =>
        \/ ConfOk(pools[outs[i].pool].conf, outs[i].ask)
        \/ ConfSigs(pools[outs[i].pool].conf, outs[i].ask) \subseteq KnownDefects

\* per-request overrides never alter the manager's own defaults
DefaultsUntouched == cpkw = Capture(sc.mk, sc.dflt)
DefaultsNeverWritten == [][cpkw' = cpkw]_vars
=============================================================================
