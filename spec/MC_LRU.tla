------------------------------- MODULE MC_LRU -------------------------------
(* Exhaustive configuration + transition emission for the sequential LRU reference (C17).     *)
EXTENDS LRU, Json, IOUtils

MCKeys == {"a", "b", "c", "d"}
MCValues == {1, 2}
MCMaxSizes == 0..3

\* ACTION_CONSTRAINT: print every transition of the collapsed graph exactly once as JSON
\* (VIEW hides `last`, so each (state, operation) pair is generated once).
Emit == PrintT(<<"TR", ToJson([m |-> maxsize, from |-> order, op |-> last', to |-> order'])>>)
=============================================================================
