---------------------------- MODULE H2Probe_Trace ----------------------------
(* Batch trace validation for H2Probe.  The harness (vh/h2probe.py) runs REAL threads against a
   REAL urllib3.http2.probe._HTTP2ProbeCache under a cooperative scheduler and logs, after every
   step (= one lock operation + the code up to the next one), the complete projected state:
   who holds self._lock, owner/count of every key lock, the cached values, where every thread is
   parked (its pc) and what acquire_and_get returned to it.  A trace file holds many traces.

   For each trace this monitor walks the logged states and evaluates, with the SAME operators as
   the design model,
     hard  : the Rules clauses of H2Probe in every logged state, KnownIsStable between states,
             and at the end NoLockLeak / NeverStuck (the scheduler logs whether the run ended
             with every unfinished thread blocked);
     drift : whether each logged transition is a Step(t) of the Model for the logged thread.
   It is total: it never stops at a bad trace; it prints one line per trace
       <<"VERDICT", id, position, clause, driftpos>>
   with clause = "ok" or the first failing Rules clause.                                       *)
EXTENDS H2Probe, Json, IOUtils, TLCExt

TrThreads == {"t1", "t2", "t3"}
TrKeys == {"k1", "k2"}
Traces == JsonDeserialize(IOEnv.TRACE_FILE)     \* sequence of [id, states: Seq(record), steps: Seq(thread), stuck]

VARIABLES tid, l, bad, badpos, drift

tvars == <<tid, l, bad, badpos, drift>>

St(i, j) == Traces[i].states[j]
Fn(r, D) == [x \in D |-> r[x]]                \* JSON object -> function with the right domain

Bind(i, j) == /\ KeyOf' = Fn(St(i, j).keyof, Threads)
              /\ Plan' = Fn(St(i, j).plan, Threads)
              /\ glock' = St(i, j).glock
              /\ kown' = Fn(St(i, j).kown, Keys)
              /\ kcnt' = Fn(St(i, j).kcnt, Keys)
              /\ val' = Fn(St(i, j).val, Keys)
              /\ pc' = Fn(St(i, j).pc, Threads)
              /\ got' = Fn(St(i, j).got, Threads)
              /\ loc' = Fn(St(i, j).loc, Threads)

StateClause == IF ~TypeOK THEN "TypeOK"
               ELSE IF ~AtMostOneProber THEN "AtMostOneProber"
               ELSE IF ~ProberHoldsKeyLock THEN "ProberHoldsKeyLock"
               ELSE IF ~ReturnedIsCached THEN "ReturnedIsCached"
               ELSE IF ~NoValueError THEN "NoValueError"
               ELSE IF ~DoneHoldsNothing THEN "DoneHoldsNothing"
               ELSE IF ~NoLockLeak THEN "NoLockLeak"
               ELSE "ok"

\* evaluated on the last logged state of a trace
EndClause(i) == IF Traces[i].stuck THEN "NeverStuck"
                ELSE IF ~Finished THEN "EveryoneFinishes"
                ELSE "ok"

TInit == /\ tid = 1 /\ l = 1 /\ bad = "ok" /\ badpos = 0 /\ drift = 0
         /\ KeyOf = Fn(St(1, 1).keyof, Threads) /\ Plan = Fn(St(1, 1).plan, Threads)
         /\ glock = St(1, 1).glock /\ kown = Fn(St(1, 1).kown, Keys) /\ kcnt = Fn(St(1, 1).kcnt, Keys)
         /\ val = Fn(St(1, 1).val, Keys) /\ pc = Fn(St(1, 1).pc, Threads) /\ got = Fn(St(1, 1).got, Threads) /\ loc = Fn(St(1, 1).loc, Threads)

Stable == \A k \in Keys : val[k] \in Known => val'[k] = val[k]

Advance == /\ l < Len(Traces[tid].states)
           /\ Bind(tid, l + 1)
           /\ l' = l + 1 /\ tid' = tid
           /\ LET who == Traces[tid].steps[l]
                  c == IF ~Stable THEN "KnownIsStable" ELSE StateClause'
              IN /\ bad' = IF bad # "ok" THEN bad ELSE c
                 /\ badpos' = IF bad # "ok" THEN badpos ELSE IF c # "ok" THEN l + 1 ELSE 0
                 /\ drift' = IF drift # 0 THEN drift ELSE IF Step(who) THEN 0 ELSE l + 1

Verdict(i) == LET e == IF bad # "ok" THEN bad ELSE EndClause(i)
                 p == IF bad # "ok" THEN badpos ELSE IF e # "ok" THEN l ELSE 0
             IN PrintT(<<"VERDICT", Traces[i].id, p, e, drift>>)

NextTrace == /\ l = Len(Traces[tid].states)
             /\ Verdict(tid)
             /\ tid < Len(Traces)
             /\ tid' = tid + 1 /\ l' = 1 /\ bad' = "ok" /\ badpos' = 0 /\ drift' = 0
             /\ Bind(tid + 1, 1)

Last == /\ l = Len(Traces[tid].states) /\ tid = Len(Traces)
        /\ Verdict(tid)
        /\ UNCHANGED <<vars, tvars>>

TNext == Advance \/ NextTrace \/ Last
TSpec == TInit /\ [][TNext]_<<vars, tvars>>
\* initial logged state of every trace must be the Model's initial state for its scenario
=============================================================================
