---------------------------- MODULE MC_UrlHistory ----------------------------
(* Exhaustive configuration + behaviour emission for UrlHistory (C15 history / fault classes).     *)
EXTENDS UrlHistory, Json

CONSTANTS HLevel,     \* 1: quick origins, 2: all
          HShard, HShards   \* HShards = 1: everything; 4: one (manager kind, default headers) per shard;
                            \* 16: additionally one (perreq, fail) choice of the FIRST request per shard

Ascii == " !\"#$%&'()*+,-./0123456789:;<=>?@ABCDEFGHIJKLMNOPQRSTUVWXYZ[\\]^_`abcdefghijklmnopqrstuvwxyz{|}~"
Code(ch) == 31 + CHOOSE i \in 1..Len(Ascii) : SubSeq(Ascii, i, i) = ch
S(str) == [i \in 1..Len(str) |-> Code(SubSeq(str, i, i))]

MCProxyText == S("http://Proxy.test:3128")
\* HLevel 3 / 4: the variant class - URLs that differ only in a trailing dot, letter case, an explicit default
\* port, userinfo / fragment; one PoolManager, keep-alive or the server closing in between
MCVariantOrigins == {S("http://svc.example.test/"), S("http://svc.example.test./"), S("HTTP://SVC.Example.test/"),
                     S("http://svc.example.test:80/"), S("http://u:p@svc.example.test/#f"),
                     S("https://svc.example.test/"), S("https://svc.example.test./")}
MCPxChoices == IF HLevel >= 3 THEN {NONE} ELSE {NONE, MCProxyText}
MCPerReqs == IF HLevel >= 3 THEN {FALSE} ELSE BOOLEAN
MCFails == IF HLevel >= 3 THEN {FALSE} ELSE BOOLEAN
MCCloses == IF HLevel >= 3 THEN BOOLEAN ELSE {TRUE}
DevKeyDot == {"KeyStripsTrailingDot"}
MCOrigins == IF HLevel >= 3 THEN MCVariantOrigins ELSE IF HLevel = 1
             THEN {S("http://alpha.test/a"), S("http://Beta.test.:8080/b?q"), S("https://gamma.test./c")}
             ELSE {S("http://alpha.test/a"), S("http://Beta.test.:8080/b?q"), S("https://gamma.test./c"),
                   S("http://alpha.test:81"), S("https://delta.test:8443/d/../e"), S("http://[::1]:8080/")}
NoDeviations == {}
DevMutated == {"DefaultHeadersMutated"}
DevRedial == {"RedialStrippedName"}
HTrAlphabet == {}
HTrSeeds == {<<>>}

\* sharding: the shards partition the set of histories
ShardInit == /\ HInit
             /\ HShards > 1 => /\ (px = NONE) = (HShard % 2 = 0)
                                /\ defaults0.nonempty = ((HShard \div 2) % 2 = 1)
ShardFirst == (HShards = 16 /\ hist = <<>>) => /\ hist'[1].perreq = ((HShard \div 4) % 2 = 1)
                                                /\ hist'[1].fault = ((HShard \div 8) % 2 = 1)
ShardSpec == ShardInit /\ [][HNext]_hvars

\* one line per complete history: the environment's choices and the observations the model predicts
EmitHist == Len(hist) = MaxReq =>
    PrintT(<<"H", ToJson([px |-> px, mgrhdr |-> defaults0.nonempty,
                          steps |-> [i \in 1..Len(hist) |-> [u |-> hist[i].s, perreq |-> hist[i].perreq, fail |-> hist[i].fault, close |-> hist[i].closed]],
                          exp |-> [i \in 1..Len(hist) |-> [k |-> hist[i].k, dials |-> hist[i].dials, carrier |-> hist[i].carrier,
                                                           hosts |-> IF hist[i].req = <<>> THEN <<>> ELSE hist[i].req[Len(hist[i].req)].hosts]]])>>)
=============================================================================
