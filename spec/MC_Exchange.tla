---------------------------- MODULE MC_Exchange ----------------------------
(* Constants for the exhaustive check of Exchange (C03) and emission of histories.             *)
(* A history = the environment's choices (server script and caller behaviour per request) with *)
(* the Model's expected observations attached; printed once per complete behaviour.            *)
EXTENDS Exchange, Json, IOUtils

CONSTANTS ShardK, ShardS, EmitOn

ScP(fr, len, cut, ka, extra, after, late, shape, pre) ==
    [fr |-> fr, len |-> len, cut |-> cut, ka |-> ka, extra |-> extra, after |-> after, late |-> late, shape |-> shape,
     pre |-> pre]
Sc(fr, len, cut, ka, extra, after, late, shape) == ScP(fr, len, cut, ka, extra, after, late, shape, "none")
Op(kind, k, hold) == [kind |-> kind, k |-> k, hold |-> hold]

\* ---- server behaviours (hard class): framing x keep-alive x extras (same / later segment) x early EOF
HardScriptSeq == <<
    Sc("cl", 2, NoCut, TRUE, "none", "none", 0, "cells"),
    Sc("cl", 2, NoCut, TRUE, "stray", "none", 0, "cells"),
    Sc("cl", 2, NoCut, TRUE, "smuggle", "none", 0, "cells"),
    Sc("cl", 2, NoCut, TRUE, "none", "stray", 0, "cells"),
    Sc("cl", 2, NoCut, TRUE, "none", "smuggle", 0, "cells"),
    Sc("cl", 2, NoCut, TRUE, "none", "eof", 0, "cells"),
    Sc("cl", 2, NoCut, FALSE, "none", "none", 0, "cells"),
    Sc("cl", 2, 1, TRUE, "none", "none", 0, "cells"),
    Sc("chunked", 2, NoCut, TRUE, "none", "none", 0, "cells"),
    Sc("chunked", 2, NoCut, TRUE, "stray", "none", 0, "cells"),
    Sc("chunked", 2, NoCut, TRUE, "none", "smuggle", 0, "cells"),
    Sc("chunked", 2, NoCut, TRUE, "none", "eof", 0, "cells"),
    Sc("chunked", 2, 1, TRUE, "none", "none", 0, "cells"),
    Sc("close", 2, NoCut, TRUE, "none", "none", 0, "cells"),
    Sc("bodyless", 0, NoCut, TRUE, "none", "none", 0, "cells"),
    Sc("bodyless", 0, NoCut, TRUE, "stray", "none", 0, "cells"),
    Sc("bodyless", 0, NoCut, TRUE, "smuggle", "none", 0, "cells"),
    Sc("bodyless", 0, NoCut, TRUE, "none", "stray", 0, "cells"),
    Sc("bodyless", 0, NoCut, TRUE, "none", "smuggle", 0, "cells"),
    Sc("bodyless", 0, NoCut, TRUE, "none", "eof", 0, "cells"),
    Sc("drop", 0, NoCut, TRUE, "none", "none", 0, "cells")
>>
\* a smaller covering set for deeper histories
CoreScriptSeq == <<
    Sc("cl", 2, NoCut, TRUE, "none", "none", 0, "cells"),
    Sc("cl", 2, NoCut, TRUE, "none", "smuggle", 0, "cells"),
    Sc("cl", 2, 1, TRUE, "none", "none", 0, "cells"),
    Sc("chunked", 2, NoCut, TRUE, "none", "none", 0, "cells"),
    Sc("close", 2, NoCut, TRUE, "none", "none", 0, "cells"),
    Sc("bodyless", 0, NoCut, TRUE, "smuggle", "none", 0, "cells"),
    Sc("bodyless", 0, NoCut, TRUE, "none", "smuggle", 0, "cells"),
    Sc("bodyless", 0, NoCut, TRUE, "none", "eof", 0, "cells")
>>
\* ---- suspect S4: a body tail still in flight when the response is let go
S4ScriptSeq == <<
    Sc("cl", 3, NoCut, TRUE, "none", "none", 1, "cells"),
    Sc("cl", 4, NoCut, TRUE, "none", "none", 3, "http"),
    Sc("chunked", 2, NoCut, TRUE, "none", "none", 1, "cells"),
    Sc("chunked", 2, NoCut, TRUE, "none", "none", 2, "cells"),
    Sc("chunked", 4, NoCut, TRUE, "none", "none", 4, "http"),    \* one chunk: cell | head-shaped block, cell, cell, term
    Sc("cl", 2, NoCut, TRUE, "none", "none", 3, "cells")      \* the whole reply is late: the client times out on the head
>>
\* ---- unsolicited bytes with a PREFIX: {CRLF, CRLF CRLF, SP, lone LF, HTAB} x {nothing, partial status line,
\* complete response, EOF}, pending in the kernel buffer at the next checkout after a cleanly finished exchange
PreScriptSeq == <<
    ScP("bodyless", 0, NoCut, TRUE, "none", "smuggle", 0, "cells", "crlf"),
    ScP("bodyless", 0, NoCut, TRUE, "none", "smuggle", 0, "cells", "crlfcrlf"),
    ScP("bodyless", 0, NoCut, TRUE, "none", "smuggle", 0, "cells", "sp"),
    ScP("bodyless", 0, NoCut, TRUE, "none", "smuggle", 0, "cells", "lf"),
    ScP("bodyless", 0, NoCut, TRUE, "none", "smuggle", 0, "cells", "htab"),
    ScP("bodyless", 0, NoCut, TRUE, "none", "pre", 0, "cells", "crlf"),
    ScP("bodyless", 0, NoCut, TRUE, "none", "partial", 0, "cells", "none"),
    ScP("bodyless", 0, NoCut, TRUE, "none", "partial", 0, "cells", "crlf"),
    ScP("bodyless", 0, NoCut, TRUE, "none", "eof", 0, "cells", "crlf"),
    ScP("cl", 2, NoCut, TRUE, "none", "smuggle", 0, "cells", "crlf"),
    ScP("chunked", 2, NoCut, TRUE, "none", "smuggle", 0, "cells", "crlf"),
    ScP("cl", 2, NoCut, TRUE, "smuggle", "none", 0, "cells", "crlf")
>>
FinalScriptSeq == <<
    Sc("cl", 2, NoCut, TRUE, "none", "none", 0, "cells"),
    Sc("chunked", 2, NoCut, TRUE, "none", "none", 0, "cells")
>>

\* ---- caller behaviours
AllOpSeq == <<
    Op("preload", 0, FALSE), Op("read", 0, FALSE), Op("stream", 0, FALSE), Op("drain", 0, FALSE),
    Op("close", 0, FALSE), Op("ignore", 0, TRUE),
    Op("readk", 1, FALSE), Op("readk", 2, FALSE), Op("readk", 3, FALSE), Op("readk", 1, TRUE),
    Op("release", 0, FALSE), Op("release", 0, TRUE),
    Op("streamk", 1, FALSE), Op("read1", 0, FALSE), Op("read1loop", 0, FALSE)
>>
CoreOpSeq == <<
    Op("preload", 0, FALSE), Op("read", 0, FALSE), Op("stream", 0, FALSE), Op("ignore", 0, TRUE),
    Op("readk", 1, FALSE), Op("readk", 1, TRUE), Op("release", 0, FALSE)
>>
FinalOpSeq == << Op("read", 0, FALSE) >>

Range(f) == {f[i] : i \in DOMAIN f}
HardScripts == Range(HardScriptSeq)
CoreScripts == Range(CoreScriptSeq)
S4Scripts == Range(S4ScriptSeq)
PreScripts == Range(PreScriptSeq)
HardS4Scripts == HardScripts \cup S4Scripts \cup PreScripts
FinalScripts == Range(FinalScriptSeq)
AllOps == Range(AllOpSeq)
CoreOps == Range(CoreOpSeq)
FinalOps == Range(FinalOpSeq)
NoDev == {}
DevNoProbe == {"NoProbe"}
DevProbeEofOnly == {"ProbeEofOnly"}
DevProbeSkipsCrlf == {"ProbeSkipsLeadingCrlf"}
DevNoCloseOnUnclean == {"NoCloseOnUnclean"}
DevNoDiscardOnError == {"NoDiscardOnError"}
DevRawNotReady == {"RawNotReady", "ReleaseKeepsUnread"}   \* ResponseNotReady needs a pooled connection with an open response
DevReleaseKeeps == {"ReleaseKeepsUnread"}
DevAbandoned == {"AbandonedStreamLooksClean"}
DevRead1Asked == {"Read1AskedIsRead"}

\* ---- sharding over the first step's choice, emission at the end of each complete behaviour
Idx(seq, x) == CHOOSE i \in DOMAIN seq : seq[i] = x
AllScriptSeq == HardScriptSeq \o S4ScriptSeq \o PreScriptSeq
FirstChoice == Idx(AllScriptSeq, plan'[1]) + Idx(AllOpSeq, ops'[1])
Shard == (pc = "start" /\ cur = 0) => (FirstChoice % ShardK = ShardS)
Emit == (EmitOn /\ pc = "done" /\ pc' = "end") => PrintT(<<"H", ToJson(hist)>>)
ShardAndEmit == Shard /\ Emit
=============================================================================
