---------------------------- MODULE MC_HostMatch ----------------------------
(* Exhaustive configurations and emission operators for HostMatch (C08).     *)
EXTENDS HostMatch, Json, IOUtils

CONSTANTS ShardK, ShardS

\* the label alphabet of the property's quantifier (+ an upper-case label for the case clause)
La == <<"a">>
Lb == <<"b">>
Lab == <<"a", "b">>
Lstar == <<"*">>
Lastar == <<"a", "*">>
Lstara == <<"*", "a">>
Lastarb == <<"a", "*", "b">>
L2star == <<"*", "*">>
Lxna == <<"x", "n", "-", "-", "a">>
Lxnstar == <<"x", "n", "-", "-", "*">>
Lempty == <<>>
LA == <<"A">>
LXNstar == <<"X", "N", "-", "-", "*">>      \* the ACE prefix capitalised (RFC 5890: case independent)
LXNa == <<"X", "N", "-", "-", "a">>
LabelSeq == <<La, Lb, Lab, Lstar, Lastar, Lstara, Lastarb, L2star, Lxna, Lxnstar, Lempty, LA, LXNstar, LXNa>>
MCLabels14 == {LabelSeq[i] : i \in 1..14}
MCLabels12 == {LabelSeq[i] : i \in 1..12}      \* the alphabet of the property's quantifier + "A"
MCLabels8 == {La, Lb, Lstar, Lastar, L2star, Lxna, Lempty, LA}
MCLabels6 == {La, Lstar, Lstara, Lxna, Lempty, LA}
MCLabels5 == {La, Lstar, Lastar, Lxna, Lempty}
LIdx(l) == CHOOSE i \in 1..14 : LabelSeq[i] = l
RECURSIVE NameHash(_)
NameHash(n) == IF n = <<>> THEN 0 ELSE LIdx(n[1]) + 5 * NameHash(Tail(n))

\* ---------------------------------------------------------------- list level
\* addresses (family, value id): value 1 = 0x0a000001: (4,1) = 10.0.0.1 and (6,1) = ::a00:1 = ::10.0.0.1 (same
\* integer, other family: a DIFFERENT address); value 7 = 1: (4,7) = 0.0.0.1 and (6,7) = ::1; (6,2) = fe80::1;
\* (6,3) = ::ffff:10.0.0.1 (the IPv4-mapped form of 10.0.0.1: another integer); (4,4) = 10.0.0.2.
\* Texts are spelled out symbol by symbol; the harness checks them
\* against the literals it really passes (ipaddress spelling of this interpreter).
T1 == << <<"1", "0">>, <<"0">>, <<"0">>, <<"1">> >>
T4 == << <<"1", "0">>, <<"0">>, <<"0">>, <<"2">> >>
T1wild == << <<"*">>, <<"0">>, <<"0">>, <<"1">> >>
T2 == << <<"f", "e", "8", "0", ":", ":", "1">> >>
Z4 == <<":", "0", "0", "0", "0">>
T2alt == << <<"F", "E", "8", "0">> \o Z4 \o Z4 \o Z4 \o Z4 \o Z4 \o Z4 \o <<":", "0", "0", "0", "1">> >>
T3 == << <<":", ":", "f", "f", "f", "f", ":", "a", "0", "0", ":", "1">> >>
T1v6 == << <<":", ":", "a", "0", "0", ":", "1">> >>
T1v6dot == << <<":", ":", "1", "0">>, <<"0">>, <<"0">>, <<"1">> >>
Z0 == <<"0", "0", "0", "0">>
T1v6alt == << Z0 \o Z4 \o Z4 \o Z4 \o Z4 \o Z4 \o <<":", "0", "A", "0", "0", ":", "0", "0", "0", "1">> >>
T7v4 == << <<"0">>, <<"0">>, <<"0">>, <<"1">> >>
T7v6 == << <<":", ":", "1">> >>
Brack(n) == LET m == [n EXCEPT ![1] = <<"[">> \o @] IN [m EXCEPT ![Len(m)] = @ \o <<"]">>]
Zoned(n) == [n EXCEPT ![Len(n)] = @ \o <<"%", "e", "t", "h", "0">>]

DNS(n) == [t |-> "DNS", n |-> n, f |-> 0, a |-> 0, sp |-> "-"]
IP(f, a, sp) == [t |-> "IP", n |-> NoName, f |-> f, a |-> a, sp |-> sp]
OtherEntry == [t |-> "OTHER", n |-> NoName, f |-> 0, a |-> 0, sp |-> "-"]
HD(n) == [k |-> "dns", n |-> n, f |-> 0, a |-> 0, sp |-> "-"]
HI(f, a, sp, n) == [k |-> "ip", n |-> n, f |-> f, a |-> a, sp |-> sp]

MCEntrySeq == <<
    DNS(<<La, Lb>>), DNS(<<Lstar, Lb>>), DNS(<<Lastar, Lb>>), DNS(<<L2star, Lb>>), DNS(<<La, Lstar>>),
    DNS(<<Lxnstar, Lb>>), DNS(<<LXNstar, Lb>>), DNS(<<Lstar>>), DNS(T1), DNS(T1wild), IP(4, 1, "plain"), IP(6, 2, "alt"),
    IP(6, 2, "nl"), IP(6, 3, "plain"), IP(6, 1, "alt"), IP(4, 7, "plain"), OtherEntry >>
MCEntries == {MCEntrySeq[i] : i \in 1..Len(MCEntrySeq)}
\* quick tier: the entries that carry a clause each (exact, whole-label wildcard, the D13 poison, the
\* D15 capitalised ACE prefix, a one-label wildcard that globs "[v6]", IP text in a DNS entry, two IP values,
\* the two families of one integer value, a non-identity)
MCEntriesQ == {DNS(<<La, Lb>>), DNS(<<Lstar, Lb>>), DNS(<<L2star, Lb>>), DNS(<<LXNstar, Lb>>), DNS(<<Lstar>>), DNS(<<La, Lstar>>),
               DNS(T1wild), IP(4, 1, "plain"), IP(6, 2, "alt"), IP(6, 1, "alt"), OtherEntry}
MCHostSeq == <<
    HD(<<La, Lb>>), HD(<<LA, <<"B">> >>), HD(<<Lb, Lb>>), HD(<<Lab, Lb>>), HD(<<La, La>>), HD(<<Lxna, Lb>>),
    HD(<<Lempty, Lb>>), HD(<<La, Lb, Lempty>>), HD(<<La>>), HD(<<Lb, La, Lb>>), HD(<<La, Lstar>>),
    HD(<<L2star, Lb>>), HD(<<Lastar, Lb>>), HD(<<Lstar, Lb>>), HD(<<Lxnstar, Lb>>), HD(<<LXNa, Lb>>),
    HI(4, 1, "plain", T1), HI(4, 1, "brack", Brack(T1)), HI(4, 4, "plain", T4), HI(6, 2, "plain", T2), HI(6, 2, "alt", T2alt),
    HI(6, 2, "zoned", Zoned(T2)), HI(6, 2, "brack", Brack(T2)), HI(6, 2, "brackzoned", Brack(Zoned(T2))),
    HI(6, 3, "plain", T3), HI(6, 3, "brack", Brack(T3)),
    HI(6, 1, "plain", T1v6), HI(6, 1, "dotted", T1v6dot), HI(6, 1, "alt", T1v6alt), HI(6, 1, "brack", Brack(T1v6)),
    HI(6, 1, "zoned", Zoned(T1v6)), HI(6, 7, "plain", T7v6), HI(6, 7, "brackzoned", Brack(Zoned(T7v6))) >>
MCHosts == {MCHostSeq[i] : i \in 1..Len(MCHostSeq)}
MCHostsQ == {HD(<<La, Lb>>), HD(<<LA, <<"B">> >>), HD(<<Lb, Lb>>), HD(<<Lxna, Lb>>), HD(<<Lempty, Lb>>), HD(<<La>>),
             HD(<<Lb, La, Lb>>), HD(<<L2star, Lb>>), HD(<<LXNa, Lb>>),
             HI(4, 1, "plain", T1), HI(4, 1, "brack", Brack(T1)), HI(4, 4, "plain", T4), HI(6, 2, "plain", T2),
             HI(6, 2, "alt", T2alt), HI(6, 2, "zoned", Zoned(T2)), HI(6, 2, "brack", Brack(T2)),
             HI(6, 2, "brackzoned", Brack(Zoned(T2))), HI(6, 3, "plain", T3),
             HI(6, 1, "plain", T1v6), HI(6, 1, "dotted", T1v6dot), HI(6, 1, "brack", Brack(T1v6)),
             HI(6, 1, "zoned", Zoned(T1v6))}
MCCNSeq == << <<La, Lb>>, <<Lstar, Lb>>, <<L2star, Lb>>, <<Lstar>>, <<LXNstar, Lb>> >>
MCCNs == {MCCNSeq[i] : i \in 1..Len(MCCNSeq)}
NoDefects == {}
AllDefects == {"ABORT", "ACECASE"}          \* the recorded deviations (D15 / ACECASE has since been repaired in /repo)
OnlyIpInt == {"IpComparedAsInteger"}        \* a deviation the code does NOT have: shown to leave RULES, refuted by replay
OnlyAbort == {"ABORT"}                      \* (emission follows the deviations the harness finds in the tree,
OnlyAceCase == {"ACECASE"}                  \*  so MATCHER stays drift-free after a fix: commit)

\* ---------------------------------------------------------------- emission (spec -> code)
\* Invariants that are always TRUE and print.  Sharded: every shard explores the (tiny) state
\* graph and prints its share.

EmitPairs ==
    (st # <<>> /\ NameHash(st) % ShardK = ShardS) =>
        LET rcl == [h \in Hosts |-> DnsRejectClause(st, h)]          \* evaluated once per host
            must == {h \in Hosts : DnsMustAccept(st, h)}
            eith == {h \in Hosts : h \notin must /\ rcl[h] = "none"}
            macc == {h \in Hosts : DnsnameMatch(st, h) = "T"} IN
        PrintT(<<"HM", ToJson([dn |-> NameStr(st),
                               must |-> {NameStr(h) : h \in must},
                               either |-> {NameStr(h) : h \in eith},
                               macc |-> {NameStr(h) : h \in macc},
                               ace |-> {NameStr(h) : h \in {g \in Hosts : AceCase(st, g) /\ rcl[g] # "none" /\ g \notin must}},
                               rc |-> {rcl[h] : h \in Hosts},
                               nhosts |-> Cardinality(Hosts)])>>)

EIdx(e) == CHOOSE i \in 1..Len(MCEntrySeq) : MCEntrySeq[i] = e
RECURSIVE SanHash(_)
SanHash(s) == IF s = <<>> THEN 0 ELSE EIdx(s[1]) + 3 * SanHash(Tail(s))
CNIdx(c) == IF c = NoCN THEN 0 ELSE CHOOSE i \in 1..Len(MCCNSeq) : MCCNSeq[i] = c
HIdx(h) == CHOOSE i \in 1..Len(MCHostSeq) : MCHostSeq[i] = h
EmitLists ==
    /\ (st = <<>> /\ ShardS = 0) =>
          PrintT(<<"DOM", ToJson([entries |-> MCEntrySeq, hosts |-> MCHostSeq, cns |-> MCCNSeq,
                                  hsel |-> {HIdx(h) : h \in RepHosts}, esel |-> {EIdx(e) : e \in RepEntries}])>>)
    /\ (SanHash(st) % ShardK = ShardS) =>
          LET cases == {[cn |-> c.cn, h |-> x[1], on |-> x[2], api |-> x[3]] :
                           c \in Certs(st), x \in RepHosts \X BOOLEAN \X Apis}
              cl(q) == ListClass([san |-> st, cn |-> q.cn], q.h, q.on, q.api)
              mt(q) == MatcherList([san |-> st, cn |-> q.cn], q.h, q.on, q.api)
              out == {q \in cases : cl(q) # "mustnot" \/ mt(q)} IN
          PrintT(<<"LS", ToJson([san |-> [i \in 1..Len(st) |-> EIdx(st[i])], ncases |-> Cardinality(cases),
                                 rc |-> {ListRejectClause([san |-> st, cn |-> q.cn], q.h, q.on, q.api) : q \in cases},
                                 out |-> {[cn |-> CNIdx(q.cn), h |-> HIdx(q.h), on |-> q.on, api |-> q.api,
                                           cls |-> cl(q), m |-> mt(q),
                                           p |-> Poisoned([san |-> st, cn |-> q.cn], q.h, q.api),
                                           a |-> ListAceCase([san |-> st, cn |-> q.cn], q.h, q.on, q.api)] : q \in out}])>>)

EmitFp ==
    PrintT(<<"FP", ToJson([src |-> st.src, cells |-> LabelStr(st.cells), d |-> st.d,
                           acc |-> FpAccept(st.cells, AbsDig(st.src)),
                           clause |-> FpRejectClause(st.cells, AbsDig(st.src)),
                           m |-> FpM(st)])>>)
=============================================================================
