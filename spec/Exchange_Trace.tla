--------------------------- MODULE Exchange_Trace ---------------------------
(* C03 -- batch trace validation.  Every trace was recorded from a real run of                  *)
(* HTTPConnectionPool over the in-memory network (vh/c03drv.py).  Events, in order:              *)
(*   req   rid, sc (the server script for that request), out ("response" | "urllib3" | "raw"),   *)
(*         hdr (origin tag of the head that was delivered, written by the peer into the head),   *)
(*         att (arrivals of this request's attempts at the peers: socket s, ordinal n on s,      *)
(*              kpend = the peer had written bytes on s that the client had not taken out of the *)
(*              kernel -- all ground truth of the harness), probes (checkout probe outcomes)     *)
(*   op    rid, op (what the caller did with the response), res ("ok" | "urllib3" | "raw"),      *)
(*         deliv (the delivered body, tokenised into origin-tagged units),                       *)
(*         sentn (body units the peer wrote for the reply named by hdr)                          *)
(*   after rid, what, s (the peer wrote unsolicited bytes / closed s before the next checkout)   *)
(* The monitor is total: it keeps its OWN clean/unclean bookkeeping (dirty = sockets whose last  *)
(* exchange did not end cleanly), computed with ExchangeRules!CleanAfter from the script and the *)
(* caller op -- never from urllib3 state -- and judges every event with the Rules operators      *)
(* OwnHead / OwnBody / YieldFacts / ReuseOK / Urllib3Only.  One VERDICT line per trace.          *)
EXTENDS ExchangeRules, Json, IOUtils, TLCExt

Traces == JsonDeserialize(IOEnv.TRACE_FILE)

VARIABLES tid, l, dirty, hdr, cursc
tvars == <<tid, l, dirty, hdr, cursc>>

NoSc == [fr |-> "none"]
TInit == tid = 1 /\ l = 1 /\ dirty = {} /\ hdr = NoUnit /\ cursc = NoSc

\* arrivals with the monitor's own bookkeeping attached
Att(e) == [j \in 1..Len(e.att) |->
             [s |-> e.att[j].s, n |-> e.att[j].n, kpend |-> e.att[j].kpend,
              prevclean |-> e.att[j].s \notin dirty /\ \A i \in 1..(j - 1) : e.att[i].s # e.att[j].s]]

ReqClause(e) ==
    IF ~Urllib3Only(e.out) THEN "OnlyUrllib3Errors"
    ELSE IF e.out # "response" THEN "ok"
    ELSE IF ~OwnHead(e.rid, e.hdr) THEN "OnlyOwnBytes"
    ELSE IF ~ReuseOK(YieldFacts(Att(e), e.hdr)) THEN "UncleanNeverReused"
    ELSE "ok"

OpClause(e) ==
    IF ~Urllib3Only(e.res) THEN "OnlyUrllib3Errors"
    ELSE IF ~OwnBody(e.rid, hdr, e.deliv, e.sentn) THEN "OnlyOwnBytes"
    ELSE "ok"

Clause(e) == CASE e.e = "req" -> ReqClause(e) [] e.e = "op" -> OpClause(e) [] OTHER -> "ok"

NextTrace == tid' = tid + 1 /\ l' = 1 /\ dirty' = {} /\ hdr' = NoUnit /\ cursc' = NoSc

TNext ==
    /\ tid <= Len(Traces)
    /\ IF l > Len(Traces[tid].ev)
       THEN PrintT(<<"VERDICT", tid, l, "ok">>) /\ NextTrace
       ELSE LET e == Traces[tid].ev[l]
                c == Clause(e) IN
            IF c # "ok" THEN PrintT(<<"VERDICT", tid, l, c>>) /\ NextTrace
            ELSE /\ tid' = tid /\ l' = l + 1
                 /\ CASE e.e = "req" ->
                           /\ dirty' = dirty \cup {e.att[j].s : j \in 1..Len(e.att)}   \* exchanges in progress / failed
                           /\ hdr' = e.hdr /\ cursc' = e.sc
                      [] e.e = "op" ->
                           /\ dirty' = IF CleanAfter(cursc, e.op, e.res, Traces[tid].seg) THEN dirty \ {hdr.s}
                                       ELSE dirty \cup {hdr.s}
                           /\ UNCHANGED <<hdr, cursc>>
                      [] OTHER -> /\ dirty' = dirty \cup {e.s} /\ UNCHANGED <<hdr, cursc>>

TSpec == TInit /\ [][TNext]_tvars
=============================================================================
