---------------------------- MODULE MC_RedirectMeta ----------------------------
(* Configurations (those of MC_Redirect) and scenario emission for the growth module RedirectMeta. *)
EXTENDS RedirectMeta, MC_Redirect

MetaScenario == [cfg |-> cfg, hops |-> IF Mode = "planned" THEN plan ELSE hist, wire |-> wire, outcome |-> outcome,
                 bad |-> bad, meta |-> MetaExp, metabad |-> MetaBad]
MetaEmitInv == (pc = "done") => PrintT(<<"SC", ToJson(MetaScenario)>>)
=============================================================================
