---------------------------- MODULE HostMatch_Trace ----------------------------
(* Batch judgement of verdicts recorded from the real urllib3 functions (code -> spec, C08).    *)
(* The file named by IOEnv.TRACE_FILE holds tables (entries, hosts, cns, blobs) and traces:      *)
(*   kind "set"   one DNS entry (as the only SAN, or as commonName with the switch on) and the   *)
(*                set of hosts of the WHOLE domain Hosts the real function accepted              *)
(*   kind "list"  one SAN list and cases <<host, cn, switch, api, accepted>>                     *)
(*   kind "fp"    one DER blob (its three true hex digests, computed by hashlib) and cases       *)
(*                <<pin characters, accepted>>                                                   *)
(* Every case is judged with the RULES operators of HostMatch (the ones stage 1 proves MATCHER   *)
(* against and stage 2 emits from).  The monitor is total: one VERDICT line per failing case,    *)
(* one DONE line per trace with the three-valued tallies and the number of VERDICT lines.        *)
EXTENDS HostMatch, Json, IOUtils, TLCExt

T == JsonDeserialize(IOEnv.TRACE_FILE)

TrLabels12 == { <<"a">>, <<"b">>, <<"a", "b">>, <<"*">>, <<"a", "*">>, <<"*", "a">>, <<"a", "*", "b">>, <<"*", "*">>,
                <<"x", "n", "-", "-", "a">>, <<"x", "n", "-", "-", "*">>, <<>>, <<"A">> }
TrLabels14 == { <<"a">>, <<"b">>, <<"a", "b">>, <<"*">>, <<"a", "*">>, <<"*", "a">>, <<"a", "*", "b">>, <<"*", "*">>,
                <<"x", "n", "-", "-", "a">>, <<"x", "n", "-", "-", "*">>, <<>>, <<"A">>, <<"X", "N", "-", "-", "*">>,
                <<"X", "N", "-", "-", "a">> }
TrLabels8 == { <<"a">>, <<"b">>, <<"*">>, <<"a", "*">>, <<"*", "*">>, <<"x", "n", "-", "-", "a">>, <<>>, <<"A">> }
TrLabels6 == { <<"a">>, <<"*">>, <<"*", "a">>, <<"x", "n", "-", "-", "a">>, <<>>, <<"A">> }
TrLabels5 == { <<"a">>, <<"*">>, <<"a", "*">>, <<"x", "n", "-", "-", "a">>, <<>> }
TrNone == {}

Cn(i) == IF i = 0 THEN NoCN ELSE T.cns[i]
San(tr) == [i \in 1..Len(tr.san) |-> T.entries[tr.san[i]]]

\* the suffix after "/" names the recorded input class (D13 / D15) when, and only when, the deviation action
\* of MATCHER explains the verdict; it never changes the verdict itself
AceTag(b) == IF b THEN "/uppercase-ace-prefix-wildcard" ELSE ""

\* ---- kind "set"
SetClass(tr) == [h \in Hosts |-> DnsClass(tr.dn, h)]
SetBadC(tr, cls) ==
    LET acc == {tr.acc[i] : i \in 1..Len(tr.acc)} IN
    {<<0, "MustAccept:Strict", NameStr(h)>> : h \in {g \in Hosts : cls[g] = "must" /\ g \notin acc}}
    \cup {<<i, "MustReject:" \o DnsRejectClause(tr.dn, tr.acc[i]) \o AceTag(AceCase(tr.dn, tr.acc[i])), NameStr(tr.acc[i])>> :
             i \in {j \in 1..Len(tr.acc) : DnsMustReject(tr.dn, tr.acc[j])}}
    \cup {<<i, "OutsideDomain", NameStr(tr.acc[i])>> : i \in {j \in 1..Len(tr.acc) : tr.acc[j] \notin Hosts}}
SetTallyC(tr, cls) ==
    LET must == Cardinality({h \in Hosts : cls[h] = "must"})
        mustnot == Cardinality({h \in Hosts : cls[h] = "mustnot"}) IN
    <<Cardinality(Hosts), must, mustnot, Cardinality(Hosts) - must - mustnot>>
\* the class of every host of the domain is computed once per trace and shared by the verdicts and the tallies
SetJudge(tr) == LET cls == SetClass(tr) IN <<SetBadC(tr, cls), SetTallyC(tr, cls)>>

\* ---- kind "list"      case = <<host index, cn index (0 = none), switch, api, accepted>>
ListCaseClause(tr, q) ==
    LET c == [san |-> San(tr), cn |-> Cn(q[2])]
        h == T.hosts[q[1]] IN
    IF ~q[5] /\ ListMustAccept(c, h, q[3], q[4])
    THEN (IF Poisoned(c, h, q[4]) THEN "MustAccept/multi-wildcard-entry-before-match" ELSE "MustAccept")
    ELSE IF q[5] /\ ListMustReject(c, h, q[3], q[4])
    THEN "MustReject:" \o ListRejectClause(c, h, q[3], q[4]) \o AceTag(ListAceCase(c, h, q[3], q[4]))
    ELSE "ok"
ListBad(tr) == {<<i, ListCaseClause(tr, tr.cases[i]), "">> :
                   i \in {j \in 1..Len(tr.cases) : ListCaseClause(tr, tr.cases[j]) # "ok"}}
ListTally(tr) ==
    LET cl(q) == ListClass([san |-> San(tr), cn |-> Cn(q[2])], T.hosts[q[1]], q[3], q[4])
        must == Cardinality({i \in 1..Len(tr.cases) : cl(tr.cases[i]) = "must"})
        mustnot == Cardinality({i \in 1..Len(tr.cases) : cl(tr.cases[i]) = "mustnot"}) IN
    <<Len(tr.cases), must, mustnot, Len(tr.cases) - must - mustnot>>

\* ---- kind "fp"        case = <<pin characters, accepted>>
Dig(b) == [a \in Algs |-> CASE a = "md5" -> T.blobs[b].md5 [] a = "sha1" -> T.blobs[b].sha1 [] a = "sha256" -> T.blobs[b].sha256]
FpCaseClause(tr, q) ==
    IF q[2] /\ ~FpAccept(q[1], Dig(tr.blob)) THEN "FpMustReject:" \o FpRejectClause(q[1], Dig(tr.blob))
    ELSE IF ~q[2] /\ FpAccept(q[1], Dig(tr.blob)) THEN "FpMustAccept"
    ELSE "ok"
FpBad(tr) == {<<i, FpCaseClause(tr, tr.cases[i]), "">> :
                 i \in {j \in 1..Len(tr.cases) : FpCaseClause(tr, tr.cases[j]) # "ok"}}
FpTally(tr) ==
    LET must == Cardinality({i \in 1..Len(tr.cases) : FpAccept(tr.cases[i][1], Dig(tr.blob))}) IN
    <<Len(tr.cases), must, Len(tr.cases) - must, 0>>

\* <<set of failing cases, tallies>>
Judge(tr) == CASE tr.kind = "set" -> SetJudge(tr)
               [] tr.kind = "list" -> <<ListBad(tr), ListTally(tr)>>
               [] tr.kind = "fp" -> <<FpBad(tr), FpTally(tr)>>

TInit == st = 1
TNext == /\ st <= Len(T.traces)
         /\ LET tr == T.traces[st]
                jd == Judge(tr)
                bd == jd[1]
                ty == jd[2] IN
            \* one STRING per line: TLC's pretty-printer wraps long tuples over several lines, never a string
            /\ \A b \in bd : PrintT("VERDICT|" \o ToString(st) \o "|" \o ToString(b[1]) \o "|" \o b[2] \o "|" \o b[3])
            /\ PrintT("DONE|" \o ToString(st) \o "|" \o ToString(ty[1]) \o "|" \o ToString(ty[2]) \o "|" \o ToString(ty[3])
                       \o "|" \o ToString(ty[4]) \o "|" \o ToString(Cardinality(bd)))
         /\ st' = st + 1
TSpec == TInit /\ [][TNext]_vars
=============================================================================
