---------------------------- MODULE Multipart_Trace ----------------------------
(* Batch validation for C20 of bodies produced by the REAL encoder.  A trace is a record        *)
(*   [fields   |-> the field list given to urllib3 (records as in Multipart.tla),               *)
(*    explicit |-> TRUE when the caller passed a boundary, boundary |-> that boundary (else <<>>), *)
(*    body     |-> the returned body, lexed into symbols,  ct |-> the returned content type]      *)
(* The monitor is total: one VERDICT line <<"VERDICT", tid, position, clause>> per trace.         *)
(* The boundary is taken from the RETURNED content type (that is what a receiver would do); the   *)
(* body is judged by the same Parse / Expected / Judge operators TLC checked in stage 1, and then *)
(* compared with the model's Encode ("drift": parses back correctly but is not byte-identical).  *)
EXTENDS Multipart, Json, IOUtils, TLCExt

Traces == JsonDeserialize(IOEnv.TRACE_FILE)

TrNone == {}

VARIABLE tid
tvars == <<b, fs, tid>>

TInit == b = <<>> /\ fs = <<>> /\ tid = 1

Verdict(t) ==
    LET B == BoundaryOf(t.ct) IN
    IF \E i \in 1..Len(t.fields) : ~WellFormedField(t.fields[i]) THEN <<0, "malformed-trace">>
    ELSE IF ~NamesABoundary(t.ct) THEN <<0, "ContentTypeNamesBoundary">>
    ELSE IF t.explicit /\ B # t.boundary THEN <<0, "ContentTypeNamesBoundary">>
    ELSE IF ~Admissible(t.fields, B) THEN <<0, "inadmissible-trace">>
    ELSE LET j == Judge(t.fields, B, t.body) IN
         IF j[2] # "ok" THEN j
         ELSE IF t.body # Encode(t.fields, B) THEN <<0, "drift">>
         ELSE <<0, "ok">>

TNext == /\ tid <= Len(Traces)
         /\ LET v == Verdict(Traces[tid]) IN PrintT(<<"VERDICT", tid, v[1], v[2]>>)
         /\ tid' = tid + 1
         /\ UNCHANGED <<b, fs>>

TSpec == TInit /\ [][TNext]_tvars
=============================================================================
