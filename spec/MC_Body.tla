----------------------------- MODULE MC_Body -----------------------------
(* Exhaustive configurations and behaviour emission for Body.tla (C12 / C13).                    *)
(* Emission (pattern B): no VIEW, so every distinct history is a distinct state; when a           *)
(* behaviour reaches phase "done" its scenario, damage, event history (= the model's expected     *)
(* observations), connection outcome and Rules classification are printed as one JSON line.       *)
EXTENDS Body, Json, IOUtils

Sc(fr, co, st, de, en, ch) == [framing |-> fr, coding |-> co, stacked |-> st, decode |-> de, enc |-> en, chunks |-> ch,
                               large |-> FALSE]
D(n) == [i \in 1..n |-> "d"]
One(n) == D(n) \o <<"t">>                       \* a single member / frame carrying n units
Two(a, b) == D(a) \o <<"t">> \o D(b) \o <<"t">>   \* two members / frames

Framed(co, st, de, en, vecs) ==
    {Sc("cl", co, st, de, en, <<>>), Sc("close", co, st, de, en, <<>>)} \cup {Sc("chunked", co, st, de, en, v) : v \in vecs}

\* --- intact responses (C12): identity, decode on/off, single and multi member, lenient and strict codings
ScC12Tiny ==
    Framed("identity", FALSE, TRUE, D(4), {<<4>>, <<1, 3>>})
    \cup Framed("lenient", FALSE, TRUE, Two(2, 1), {<<2, 3>>})
    \cup Framed("strict", FALSE, TRUE, Two(2, 1), {<<3, 2>>})
ScC12 ==
    Framed("identity", FALSE, TRUE, D(6), {<<6>>, <<2, 4>>, <<1, 2, 3>>})
    \cup Framed("identity", FALSE, FALSE, D(5), {<<2, 3>>})
    \cup Framed("identity", FALSE, TRUE, <<>>, {<<>>})
    \cup Framed("lenient", FALSE, TRUE, One(5), {<<6>>, <<1, 5>>, <<3, 3>>})
    \cup Framed("lenient", FALSE, TRUE, Two(3, 2), {<<4, 3>>, <<2, 2, 3>>})
    \cup Framed("lenient", FALSE, FALSE, One(4), {<<2, 3>>})
    \cup Framed("strict", FALSE, TRUE, One(5), {<<6>>, <<3, 3>>})
    \cup Framed("strict", FALSE, TRUE, Two(3, 2), {<<4, 3>>, <<3, 1, 3>>, <<7>>})
    \cup Framed("strict", TRUE, TRUE, Two(2, 2), {<<3, 3>>})

\* small sets for the quick tier's liveness and deviation runs
ScC12Live ==
    Framed("identity", FALSE, TRUE, D(3), {<<1, 2>>})
    \cup Framed("strict", FALSE, TRUE, Two(2, 1), {<<3, 2>>})

\* bodies of 12 units (thorough tier, stage 1 only)
ScC12Big ==
    Framed("identity", FALSE, TRUE, D(12), {<<12>>, <<5, 7>>, <<1, 4, 7>>})
    \cup Framed("lenient", FALSE, TRUE, Two(7, 5), {<<8, 6>>, <<3, 11>>})
    \cup Framed("strict", FALSE, TRUE, Two(7, 5), {<<8, 6>>, <<14>>})
    \cup Framed("strict", TRUE, TRUE, One(12), {<<6, 7>>})

\* --- responses to be damaged (C13); the D(3) / D(2)-t-D(1) streams are truncated codings inside an intact framing
ScC13Tiny ==
    Framed("identity", FALSE, TRUE, D(3), {<<1, 2>>})
    \cup Framed("strict", FALSE, TRUE, One(2), {<<2, 1>>})
ScC13Dev == ScC13Tiny \cup Framed("strict", TRUE, TRUE, One(2), {<<2, 1>>})
ScC13 ==
    Framed("identity", FALSE, TRUE, D(4), {<<4>>, <<1, 3>>})
    \cup Framed("lenient", FALSE, TRUE, Two(2, 1), {<<2, 3>>, <<5>>})
    \cup Framed("strict", FALSE, TRUE, Two(2, 1), {<<3, 2>>, <<5>>})
    \cup Framed("strict", TRUE, TRUE, One(3), {<<2, 2>>})
    \cup Framed("lenient", FALSE, TRUE, D(3), {<<1, 2>>})
    \cup Framed("strict", FALSE, TRUE, D(3), {<<1, 2>>})
    \cup Framed("strict", FALSE, TRUE, One(2) \o D(1), {<<3, 1>>})
    \cup Framed("strict", TRUE, TRUE, D(3), {<<3>>})

\* the LARGE size class (more than 1 MiB of Content-Length; one unit = 2**18 bytes): stage 1 only, the real
\* 1 MiB+ / 3 MiB bodies are enumerated by the harness (vh/bodycheck.py large_runs)
ScLarge == { [x EXCEPT !.large = TRUE] : x \in Framed("identity", FALSE, TRUE, D(6), {<<3, 3>>})
                                              \cup Framed("lenient", FALSE, TRUE, One(6), {<<4, 3>>}) }
ScC12S1 == ScC12 \cup ScLarge
ScC13S1 == ScC13 \cup ScLarge
JustPW == {"PiecewiseReadHidesCut"}
JustSLP == {"SizeLinePrefixAccepted"}

AllDamage == {"none", "cut", "badsize", "negsize", "emptysize", "junksize", "corrupt"}
OnlyNone == {"none"}
AllApis == {"reads", "stream", "chunked", "iter", "preload"}
ReadsOnly == {"reads"}
GensOnly == {"stream", "chunked", "iter", "preload"}
AllDefects == {"D6", "D7", "D11", "F1", "F2", "F3", "F4"}
\* the deviations the code at the current commit still has (recorded findings); D6, D7, D11, F1, F3 were repaired in
\* /repo and are kept only as must-be-refuted runs (TLC must exhibit the clause each one breaks)
AsIs == {"F2", "F4"}
NoDefects == {}
JustD6 == {"D6"}
JustD7 == {"D7"}
JustD11 == {"D11"}
JustF1 == {"F1"}
JustF2 == {"F2"}
JustF3 == {"F3"}
JustF4 == {"F4"}
A1237 == {1, 2, 3, 7}
AFull == {1, 2, 3, 7, 64, 1000}
A37 == {3, 7}
A3 == {3}
A7 == {7}
A27 == {2, 7}
A13 == {1, 3}
A2 == {2}

\* stage 1 collapses histories (the monitor state already summarises them)
View == <<sc, dmg, s, mon, phase, conn, Len(hist), IF hist = <<>> THEN "" ELSE hist[Len(hist)].op>>

ClassOf(f) == IF MustRaise(f) THEN "must" ELSE IF Intact(f) THEN "intact" ELSE "either"

\* sharded emission: each of ShardK processes explores everything and prints its share of the histories
CONSTANTS ShardK, ShardS
RECURSIVE HSum(_, _)
HSum(h, i) == IF i > Len(h) THEN 0 ELSE (i * (7 * h[i].n + 3 * h[i].len + Len(h[i].op))) + HSum(h, i + 1)
HTup(h) == [i \in 1..Len(h) |-> <<h[i].op, h[i].n, h[i].len, h[i].off, h[i].err, h[i].end>>]
Emit == (phase = "disposed" /\ phase' = "done" /\ (HSum(hist, 1) + dmg.at) % ShardK = ShardS) =>
            PrintT(<<"SC", ToJson(<<sc.framing, sc.coding, sc.stacked, sc.decode, sc.enc, sc.chunks, dmg.kind, dmg.at,
                                    ClassOf(facts), HTup(hist), conn'.second, mon.verdict, Final(facts, mon, conn')>>)>>)
=============================================================================
