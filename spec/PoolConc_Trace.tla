---------------------------- MODULE PoolConc_Trace ----------------------------
(* Batch validation of event traces recorded from the REAL HTTPConnectionPool under the controlled  *)
(* scheduler (vh/sched.py, vh/c02drv.py).  Every trace of the batch was recorded with the pool       *)
(* configuration given by the constants (MaxSize, Block, NThreads, HasCloser).                        *)
(*                                                                                                   *)
(* The monitor is total: every event is accepted and updates the observable record `o` from logged   *)
(* fields only; after every event the Rules clauses of PoolConc (the very operators TLC checks on    *)
(* the design model) are evaluated on `o`, and the first failing clause is printed:                   *)
(*      <<"VERDICT", trace id, event position, clause | "ok", class, drift>>                          *)
(* class = "D8" when the failing clause is the hang and the state is in the OrphanWaiters history     *)
(* class; drift = first *soft* disagreement with the implementation-shaped model (never a violation). *)
EXTENDS PoolConc, Json, IOUtils

Traces == JsonDeserialize(IOEnv.TRACE_FILE)

VARIABLES tid, l, o, dr
tvars == <<tid, l, o, dr, vars>>

O0 == [ptr |-> "open", queue |-> [i \in 1..MaxSize |-> NONE], open |-> {}, holds |-> [t \in Threads |-> {}],
       lastio |-> <<>>, cur |-> [t \in Threads |-> <<>>], got |-> [t \in Threads |-> <<>>], outs |-> {},
       dropped |-> FALSE, alive |-> Procs, waiting |-> {}, pre |-> {}, sep |-> {}, parked |-> {}, slots |-> {}, swapok |-> TRUE]

SeqSet(s) == {s[i] : i \in 1..Len(s)}
Hold(ob, t, c) == IF t \in Threads /\ c # NONE THEN [ob.holds EXCEPT ![t] = @ \cup {c}] ELSE ob.holds
Unhold(ob, t) == IF t \in Threads THEN [ob.holds EXCEPT ![t] = {}] ELSE ob.holds

\* the observable state after event e (fields of e: e, t, c, s, q, res, r, out, bt, br, set)
Upd(ob, e) ==
    LET b == [ob EXCEPT !.lastio = <<>>] IN
    CASE e.e = "start" -> [b EXCEPT !.cur = [@ EXCEPT ![e.t] = <<e.t, e.r>>], !.got = [@ EXCEPT ![e.t] = <<>>],
                                    !.sep = @ \ {e.t}]
      [] e.e = "load" -> [b EXCEPT !.sep = IF e.res = "separate" THEN @ \cup {e.t} ELSE @ \ {e.t}]
      [] e.e = "block" -> [b EXCEPT !.parked = @ \cup {e.t}]
      [] e.e = "get" /\ e.res = "ok" /\ e.q = 1 ->
             [b EXCEPT !.queue = IF @ # <<>> THEN Pop(@) ELSE @, !.holds = Hold(b, e.t, e.c),
                       !.sep = @ \ {e.t}, !.parked = @ \ {e.t},
                       !.slots = IF e.t \in Threads THEN @ \cup {e.t} ELSE @]
      [] e.e = "get" /\ e.res = "empty" -> [b EXCEPT !.sep = @ \ {e.t}]
      [] e.e = "new" -> [b EXCEPT !.holds = Hold(b, e.t, e.c)]
      [] e.e = "dial" -> [b EXCEPT !.open = @ \cup {e.s}]
      [] e.e = "sclose" -> [b EXCEPT !.open = @ \ {e.s}]
      [] e.e = "io" -> [b EXCEPT !.lastio = IF e.t \in Threads THEN <<e.t, e.c, "io">> ELSE <<>>]
      [] e.e = "cclose" -> [b EXCEPT !.lastio = <<e.t, e.c, "close">>]        \* HTTPConnection.close() called by e.t
      [] e.e = "put" /\ e.q = 1 -> [b EXCEPT !.queue = IF e.res = "ok" THEN Append(@, e.c) ELSE @, !.holds = Unhold(b, e.t),
                                            !.slots = @ \ {e.t}]
      [] e.e = "swap" -> [b EXCEPT !.ptr = "closed", !.pre = b.parked,
                                   !.swapok = (Len(b.queue) + Cardinality(b.slots) = MaxSize)]
      [] e.e = "end" -> [b EXCEPT !.outs = @ \cup {[o |-> e.out, closed |-> b.ptr = "closed"]},
                                  !.got = IF e.t \in Threads THEN [@ EXCEPT ![e.t] = IF e.out = "resp" THEN <<e.bt, e.br>> ELSE <<>>]
                                                              ELSE @,
                                  !.holds = Unhold(b, e.t), !.slots = @ \ {e.t}]
      [] e.e = "done" -> [b EXCEPT !.alive = @ \ {e.t}]
      [] e.e = "deadlock" -> [b EXCEPT !.waiting = SeqSet(e.set)]
      [] e.e = "probe" -> [b EXCEPT !.open = SeqSet(e.set), !.dropped = TRUE]
      [] OTHER -> b

\* soft checks: the trace is not a behaviour of the model although the Rules hold
Drift(ob, e) ==
    IF e.e \in {"get", "put"} /\ e.q # 1 THEN "ForeignQueue"
    ELSE IF e.e = "get" /\ e.res = "ok" /\ (ob.queue = <<>> \/ Top(ob.queue) # e.c) THEN "QueueIsLifo"
    ELSE IF e.e = "get" /\ e.res = "empty" /\ ob.queue # <<>> THEN "QueueIsLifo"
    ELSE IF e.e = "put" /\ (e.res = "ok") # (Len(ob.queue) < MaxSize) THEN "QueueIsBounded"
    ELSE IF e.e = "get" /\ e.t = Closer /\ ob.ptr = "open" THEN "DrainOnlyAfterSwap"
    ELSE IF e.e = "probe" /\ ob.open # SeqSet(e.set) THEN "OpenBookkeeping"
    ELSE IF e.e = "put" /\ e.t \in Threads /\ e.c # NONE /\ e.c \notin ob.holds[e.t] THEN "PutsWhatItHolds"
    ELSE "-"

TInit == Init /\ tid = 1 /\ l = 1 /\ o = O0 /\ dr = "-"

NextTrace == tid' = tid + 1 /\ l' = 1 /\ o' = O0 /\ dr' = "-"

TNext ==
    /\ tid <= Len(Traces)
    /\ UNCHANGED vars
    /\ IF l > Len(Traces[tid].events)
       THEN PrintT(<<"VERDICT", Traces[tid].id, l, "ok", "-", dr>>) /\ NextTrace
       ELSE LET e == Traces[tid].events[l]
                o2 == Upd(o, e)
                c == FirstFailing(o2)
                d == IF dr = "-" THEN Drift(o, e) ELSE dr IN
            IF c = "ok"
            THEN o' = o2 /\ dr' = d /\ l' = l + 1 /\ tid' = tid
            ELSE /\ PrintT(<<"VERDICT", Traces[tid].id, l, c,
                             IF c = "EventuallyQuiescent" /\ OrphanWaiters(o2) THEN "D8" ELSE "-", d>>)
                 /\ NextTrace

TSpec == TInit /\ [][TNext]_tvars
=============================================================================
