------------------------------- MODULE MC_Wire -------------------------------
(* Exhaustive configuration + domain emission for Wire (C10).                                   *)
(*                                                                                             *)
(* The state is one request `req` plus the set `vary` of fields that still grow.  Roots: for     *)
(* every entry point (conn, pool, mgr; h2 for header fields) and every field (method, URL         *)
(* material, header name, header value) a benign request whose varying field is empty, the same    *)
(* for every pair of fields, plus the structured seed requests of the harness (automatic-header     *)
(* combinations, body kinds, embedded complete requests).  Next appends one symbol of the hostile    *)
(* alphabet to a varying field, so every string up to the bound, i.e. every hostile symbol at         *)
(* every position, is a state; every invariant is evaluated in every state.                          *)
EXTENDS Wire, Json, IOUtils

Env == JsonDeserialize(IOEnv.WIRE_ENV)    \* [host, ua : Seq(Symbol), seeds : Seq(request)]
EnvHost == Env.host
EnvUA == Env.ua

CONSTANTS MaxM, MaxU, MaxN, MaxV,   \* length bounds when one field varies (method, url, name, value)
          PairLen,                  \* length bound per field when two fields vary
          H2Len,                    \* length bound for the HTTP/2 header fields
          MaxD,                     \* length bound for URL material over the path-structure alphabet (dot segments)
          ShardK, ShardS,           \* emission sharding: this run explores share ShardS of ShardK
          PairMaxLen,               \* (refused, accepted) pairs are replayed for refused requests whose varying fields have at most this length
          EmitOn                    \* TRUE: print every explored request with its expectation

VARIABLES req, vary
vars == <<req, vary>>

Alphabet == {CR, LF, NUL, DEL, SP, HT, ":", "%", "a", "Z", NA, "#", "?", "/"}
\* pseudo-field "d": the URL material again, grown over the path-structure alphabet (dot segments, "//")
DotAlphabet == {".", "/", "a", "?", "#", "%"}
AlphabetOf(f) == IF f = "d" THEN DotAlphabet ELSE Alphabet
SymIdx(c) == CASE c = CR -> 0 [] c = LF -> 1 [] c = NUL -> 2 [] c = DEL -> 3 [] c = SP -> 4 [] c = HT -> 5
               [] c = ":" -> 6 [] c = "%" -> 7 [] c = "a" -> 8 [] c = "Z" -> 9 [] c = NA -> 10 [] c = "#" -> 11
               [] c = "?" -> 12 [] c = "/" -> 13 [] c = "." -> 14

NoBody == [kind |-> "none", chunks |-> <<>>]
Benign == [n |-> <<"Q">>, v |-> <<"a">>, skip |-> FALSE]
Hdr(n, v) == [n |-> n, v |-> v, skip |-> FALSE]
Base(level) == [level |-> level, method |-> <<"G","E","T">>, slash |-> TRUE, url |-> <<"a">>,
                hdrs |-> <<Hdr(<<"X">>, <<"a">>), Benign>>, body |-> NoBody, chunked |-> FALSE]

Field(r, f) == CASE f = "m" -> r.method [] f \in {"u", "d"} -> r.url [] f = "n" -> r.hdrs[1].n [] f = "v" -> r.hdrs[1].v
SetField(r, f, s) == CASE f = "m" -> [r EXCEPT !.method = s] [] f \in {"u", "d"} -> [r EXCEPT !.url = s]
                       [] f = "n" -> [r EXCEPT !.hdrs[1].n = s] [] f = "v" -> [r EXCEPT !.hdrs[1].v = s]
RECURSIVE Blank(_, _)
Blank(r, fs) == IF fs = {} THEN r ELSE LET f == CHOOSE x \in fs : TRUE IN Blank(SetField(r, f, <<>>), fs \ {f})

Fields == {"m", "u", "n", "v"}
Pairs == {fs \in SUBSET Fields : Cardinality(fs) = 2}
Roots ==
    {[r |-> Blank(Base(l), {f}), vary |-> {f}] : l \in {"conn", "pool", "mgr"}, f \in Fields}
    \cup {[r |-> [Blank(Base("conn"), {"u"}) EXCEPT !.slash = FALSE], vary |-> {"u"}]}
    \cup {[r |-> Blank(Base(l), {"d"}), vary |-> {"d"}] : l \in {"conn", "pool", "mgr"}}
    \cup {[r |-> Blank(Base(l), fs), vary |-> fs] : l \in {"conn", "pool", "mgr"}, fs \in Pairs}
    \cup {[r |-> Blank(Base("h2"), fs), vary |-> fs] : fs \in {{"n"}, {"v"}, {"n", "v"}}}
    \cup {[r |-> Env.seeds[i], vary |-> {}] : i \in 1..Len(Env.seeds)}

Lim(r, fs, f) == IF Cardinality(fs) = 2 THEN PairLen
                 ELSE IF r.level = "h2" THEN H2Len
                 ELSE CASE f = "m" -> MaxM [] f = "u" -> MaxU [] f = "n" -> MaxN [] f = "v" -> MaxV [] f = "d" -> MaxD

FOrd(f) == CASE f = "m" -> 1 [] f = "u" -> 2 [] f = "n" -> 3 [] f = "v" -> 4 [] f = "d" -> 5
LvlIdx(l) == CASE l = "conn" -> 0 [] l = "pool" -> 1 [] l = "mgr" -> 2 [] l = "h2" -> 3
IsRoot(r, fs) == \A f \in fs : Field(r, f) = <<>>

Init == \E x \in Roots : req = x.r /\ vary = x.vary

\* a field may grow only while every later varying field is still empty: each request has ONE path,
\* so the domain is a forest and can be sharded by the first step
Next == \E f \in vary : \E c \in AlphabetOf(f) :
           /\ Len(Field(req, f)) < Lim(req, vary, f)
           /\ \A g \in vary : FOrd(g) > FOrd(f) => Field(req, g) = <<>>
           /\ IsRoot(req, vary) => (SymIdx(c) + 5 * LvlIdx(req.level) + 3 * FOrd(f) + Cardinality(vary)) % ShardK = ShardS
           /\ req' = SetField(req, f, Append(Field(req, f), c))
           /\ vary' = vary
Spec == Init /\ [][Next]_vars

\* roots are explored by every shard but belong to shard 0 only
Mine == IsRoot(req, vary) => ShardS = 0

IsH2 == req.level = "h2"
InvParseSerializeIdentity == (Mine /\ ~IsH2) => ParseSerializeIdentity(req)
InvRefuseIffUnrepresentable == (Mine /\ ~IsH2) => RefuseIffUnrepresentable(req)
InvRefusalJudged == (Mine /\ ~IsH2) => RefusalJudged(req)
InvTargetIsSafe == (Mine /\ ~IsH2) => TargetIsSafe(req)
InvAutoOnlyWhenAbsent == (Mine /\ ~IsH2) => AutoOnlyWhenAbsent(req)
InvEncodeIdempotent == (Mine /\ ~IsH2) => EncodeIdempotent(req)
\* the six invariants above as ONE invariant that shares the serialisation and its parse (what the check runs; when it
\* fails the harness runs the six separately to name the clause)
InvAllOnRequest == (Mine /\ ~IsH2) => FirstFailing(req) = "none"
InvH1UnsafeIsH2Refused == Mine => \A i \in 1..Len(req.hdrs) : req.hdrs[i].skip \/ H1UnsafeIsH2Refused(req.hdrs[i])
InvExpectTotal == Mine => /\ Expect(req.level, req) \in {"MustRefuse", "MustBeExactlyThis", "Either"}
                          /\ (Len(req.hdrs) > 0 => H2Expect(req.hdrs[1]) \in {"MustRefuse", "MustBeExactlyThis", "Either"})

\* ---- two calls on one client object (Wire.tla section 9): the explored request, when it must be refused, is call 1;
\* call 2 is a fixed clean request through the same entry point
Second(l) == [level |-> l, method |-> <<"G","E","T">>, slash |-> TRUE, url |-> <<"p","u","b">>,
              hdrs |-> <<Hdr(<<"X","-","k">>, <<"1">>)>>, body |-> NoBody, chunked |-> FALSE]
IsFirstCall == Mine /\ ~IsH2 /\ MustRefuse(req.level, req)
InvSecondCallUntouched == IsFirstCall => SecondCallUntouched(req, Second(req.level))
InvKeptHeadIsCaught == IsFirstCall => KeptHeadIsCaught(req, Second(req.level))
InvResidueShape == (Mine /\ ~IsH2) => ResidueShape(req)
\* the pairs that are replayed: every refused seed request and every refused request whose varying fields are short
RECURSIVE VaryLen(_)
VaryLen(fs) == IF fs = {} THEN 0 ELSE LET f == CHOOSE x \in fs : TRUE IN Len(Field(req, f)) + VaryLen(fs \ {f})
IsPair == IsFirstCall /\ VaryLen(vary) <= PairMaxLen
EmitPairs == (EmitOn /\ IsPair) =>
    PrintT(<<"PR", ToJson([req |-> req, second |-> Second(req.level),
                           \* a head is certainly pending when nothing but a header stops the request (a method or target of the
                           \* latitude class may be refused first, before anything is buffered)
                           kept |-> /\ Residue(req.level, req) # <<>> /\ req.method # <<>> /\ AllIn(req.method, TChar)
                                    /\ AllIn(req.url, Printable),
                           wire2 |-> SecondCallWire({}, req.level, req, Second(req.level))])>>)

\* emission: one line per explored request (invariants are evaluated once per distinct state)
Expectation == IF IsH2 THEN H2Expect(req.hdrs[1]) ELSE Expect(req.level, req)
EmitInv == (EmitOn /\ Mine) =>
    PrintT(<<"IN", ToJson([req |-> req, vary |-> vary, expect |-> Expectation,
                           wire |-> IF ~IsH2 /\ Expectation = "MustBeExactlyThis" THEN Serialize(req.level, req) ELSE <<>>])>>)
=============================================================================
