------------------------------- MODULE Url_Trace -------------------------------
(* Batch validation for C14 and C15.  Every trace is ONE observation of the real code.        *)
(*                                                                                              *)
(* kind = "parse" (C14) - one call of the real parse_url:                                       *)
(*   [s  |-> input (code points),                                                              *)
(*    k  |-> "url" | "lpe" | "<other exception class>" | "did-not-return" (killed by the       *)
(*           harness's CPU-time watchdog: Totality:DidNotReturn),                               *)
(*    u  |-> [scheme, auth, host, path, query, fragment |-> code points or NONE, port |-> int], *)
(*    k2, u2 |-> the same for parse_url(u.url)  (the harness performs the re-parse),           *)
(*    ref |-> <<>> or the reference reading <<kind, pos, port>> TLC emitted for s (echo)]       *)
(*   The monitor is Url!Verdict (the Rules); in addition the observation is compared with the   *)
(*   model's prediction (ModelParse) - a difference there is drift, not a violation.            *)
(*                                                                                              *)
(* kind = "wire" (C15) - one request driven through a real PoolManager / ProxyManager over the  *)
(*   in-memory network, with what the network, the scripted peer and the TLS seam saw:          *)
(*   [s, px |-> proxy URL or NONE, k |-> "sent" | "<exception class>",                          *)
(*    dials |-> <<host, port>>..., req |-> [m, t, hosts]..., snis |-> server_hostname...,       *)
(*    vars |-> [s, k, samepool, samebytes]... (variant URLs driven the same way),               *)
(*    exp |-> <<>> or the WireOf record TLC emitted for (s, px) (echo)]                         *)
(*   The monitor is Url!WireClauses (the Rules: the set of failing clauses); drift = difference from the canonical WireOf    *)
(*   where the Rules leave latitude.                                                            *)
(*                                                                                              *)
(* Prints <<"VERDICT", tid, 1, clause, drift, facts>> for every trace and never stops early.    *)
EXTENDS Url, Json, IOUtils, TLCExt

Traces == JsonDeserialize(IOEnv.TRACE_FILE)

TrAlphabet == {}
TrSeeds == {<<>>}

VARIABLE tid

\* ---------------------------------------------------------------- C14
EchoOK(e) == e.ref = <<>> \/ (LET R == Ref(e.s) IN e.ref = <<R.kind, R.pos, R.port>>)

Drift(e) ==
  LET m == ModelParse(e.s) IN
  IF m.k = "unknown" THEN "-"
  ELSE IF m.k = "lpe" THEN (IF e.k = "lpe" THEN "-" ELSE "model:expected-LocationParseError")
  ELSE IF e.k # "url" THEN "model:expected-Url"
  ELSE IF e.u.host # m.u.host THEN "model:host"
  ELSE IF e.u.port # m.u.port THEN "model:port"
  ELSE IF e.u.auth # m.u.auth THEN "model:auth"
  ELSE IF e.u.scheme # m.u.scheme THEN "model:scheme"
  ELSE IF e.u.path # m.u.path THEN "model:path"
  ELSE IF e.u.query # m.u.query THEN "model:query"
  ELSE IF e.u.fragment # m.u.fragment THEN "model:fragment"
  ELSE "-"

\* input class "the authority ends with a line feed, and without that one character the observation
\* satisfies every clause" (used only to attribute a failing verdict to a recorded finding)
DropAt(t, i) == SubSeq(t, 1, i - 1) \o SubSeq(t, i + 1, Len(t))
AuthLF(R) == R.kind # "none" /\ R.authority # <<>> /\ R.authority[Len(R.authority)] = 10
OnlyAuthLF(e, R) == AuthLF(R) /\ Verdict([e EXCEPT !.s = DropAt(e.s, R.a2 - (Len(R.t) - Len(e.s)))]) = "ok"
ParseFacts(e) == LET R == Ref(e.s) IN
  [kind |-> R.kind, http |-> IsHttp(R), emptyhost |-> R.host = <<>>, hostkind |-> HostKind(R.host),
   model |-> ModelParse(e.s).k, authlf |-> AuthLF(R), onlyauthlf |-> e.k = "url" /\ OnlyAuthLF(e, R)]

\* ---------------------------------------------------------------- C15
PxMode(o) == IF o.px = NONE THEN "none" ELSE "proxy"
WireEchoOK(o) == o.exp = <<>> \/ (LET R == Ref(o.s) W == WireOf(R, PxMode(o), Ref(o.px)) IN
                                   /\ o.exp.dialhost = W.dialhost /\ o.exp.dialport = W.dialport
                                   /\ o.exp.hosthdr = W.hosthdr /\ o.exp.sni = W.sni /\ o.exp.target = W.target)
\* drift: the observation differs from the canonical image although the Rules accept it
WireDrift(o) ==
  LET R == Ref(o.s) IN
  IF o.k # "sent" THEN (IF WireDefined(R) THEN "model:expected-sent" ELSE "-")
  ELSE IF ~WireDefined(R) \/ o.req = <<>> THEN "-"
  ELSE LET W == WireOf(R, PxMode(o), Ref(o.px))
           q == o.req[Len(o.req)] IN
       IF W.mode # "forward" /\ q.t # W.target THEN "model:target"
       ELSE IF W.mode = "direct" /\ q.hosts # <<W.hosthdr>> THEN "model:hosthdr"
       ELSE "-"

\* kind = "hist" (C15): consecutive requests through one manager - [steps |-> wire observations, hdr0, hdr1 |->
\* the manager's default headers before / after]; judged by Url!HistClauses
HistFacts(h) == [history |-> TRUE, nsteps |-> Len(h.steps), mgrhdr |-> h.hdr0 # <<>>,
                 modes |-> [i \in 1..Len(h.steps) |-> WireFacts(Ref(h.steps[i].s), PxMode(h.steps[i])).mode],
                 faults |-> [i \in 1..Len(h.steps) |-> h.steps[i].fault],
                 failing |-> {i \in 1..Len(h.steps) : WireClauses(h.steps[i]) \ {"-"} # {}}]

TInit == s = <<>> /\ tid = 1
TNext == /\ tid <= Len(Traces)
         /\ LET e == Traces[tid] IN
            IF e.kind = "parse"
            THEN PrintT(<<"VERDICT", tid, 1, IF EchoOK(e) THEN Verdict(e) ELSE "Machinery:EchoMismatch", Drift(e),
                          ToJson(ParseFacts(e))>>)
            ELSE IF e.kind = "hist"
            THEN PrintT(<<"VERDICT", tid, 1, ToJson(HistClauses(e)), "-", ToJson(HistFacts(e))>>)
            ELSE PrintT(<<"VERDICT", tid, 1, ToJson(IF WireEchoOK(e) THEN WireClauses(e) ELSE {"Machinery:EchoMismatch"}), WireDrift(e),
                          ToJson(WireFacts(Ref(e.s), PxMode(e)))>>)
         /\ tid' = tid + 1 /\ UNCHANGED s
TSpec == TInit /\ [][TNext]_<<s, tid>>
=============================================================================
