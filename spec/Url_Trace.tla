------------------------------- MODULE Url_Trace -------------------------------
(* Batch validation for C14.  Every trace is ONE observation of the real parse_url:            *)
(*   [s  |-> input (code points),                                                              *)
(*    k  |-> "url" | "lpe" | "<other exception class>",                                        *)
(*    u  |-> [scheme, auth, host, path, query, fragment |-> code points or NONE, port |-> int], *)
(*    k2, u2 |-> the same for parse_url(u.url)  (the harness performs the re-parse),           *)
(*    ref |-> <<>> or the reference reading <<kind, pos, port>> TLC emitted for s (echo)]       *)
(* The monitor is Url!Verdict (the Rules); in addition the observation is compared with the     *)
(* model's prediction (ModelParse) - a difference there is drift, not a violation.              *)
(* Prints <<"VERDICT", tid, 1, clause, drift>> for every trace and never stops early.           *)
EXTENDS Url, Json, IOUtils, TLCExt

Traces == JsonDeserialize(IOEnv.TRACE_FILE)

TrAlphabet == {}
TrSeeds == {<<>>}

VARIABLE tid

EchoOK(e) == e.ref = <<>> \/ (LET R == Ref(e.s) IN e.ref = <<R.kind, R.pos, R.port>>)

Drift(e) ==
  LET m == ModelParse(e.s) IN
  IF m.k = "unknown" THEN "-"
  ELSE IF m.k = "lpe" THEN (IF e.k = "lpe" THEN "-" ELSE "model:expected-LocationParseError")
  ELSE IF e.k # "url" THEN "model:expected-Url"
  ELSE IF e.u.host # m.u.host THEN "model:host"
  ELSE IF e.u.port # m.u.port THEN "model:port"
  ELSE IF e.u.auth # m.u.auth THEN "model:auth"
  ELSE IF e.u.scheme # m.u.scheme THEN "model:scheme"
  ELSE IF e.u.path # m.u.path THEN "model:path"
  ELSE IF e.u.query # m.u.query THEN "model:query"
  ELSE IF e.u.fragment # m.u.fragment THEN "model:fragment"
  ELSE "-"

TInit == s = <<>> /\ tid = 1
TNext == /\ tid <= Len(Traces)
         /\ LET e == Traces[tid] IN
            PrintT(<<"VERDICT", tid, 1, IF EchoOK(e) THEN Verdict(e) ELSE "Machinery:EchoMismatch", Drift(e)>>)
         /\ tid' = tid + 1 /\ UNCHANGED s
TSpec == TInit /\ [][TNext]_<<s, tid>>
=============================================================================
