--------------------------- MODULE PoolKey_Trace ---------------------------
(* Batch trace validation for C18.  A trace is one scenario executed on a real PoolManager /     *)
(* ProxyManager: the manager kind and constructor defaults, the requests (endpoint, route,       *)
(* per-request overrides) and, per request, what the harness observed on the real code:          *)
(*   exc    class of the exception ("none" if a pool was returned)                              *)
(*   pool   identity of the returned pool (index in order of first appearance)                  *)
(*   dok    connection_pool_kw (and the manager's own headers) unchanged by the call            *)
(*   keyeq  for every earlier request j: did the real key function produce equal keys           *)
(*   conf   how the returned pool is configured (endpoint + per key field the index of the       *)
(*          table value found in the pool / in the keyword arguments it creates connections      *)
(*          with; NOTINTABLE (-1) = some object that is not in the table)                                 *)
(* The monitor recomputes every request with the operators of PoolKey.tla (Ask, Step) and judges  *)
(* the observations with its Rules (Verdict, ConfOk) — hard clauses — and with the Model          *)
(* (exception class, pool identity, key equality) — "drift:" clauses.  It is total: one VERDICT   *)
(* line per trace, never stops at a bad trace.                                                   *)
EXTENDS PoolKey, Json, IOUtils, TLCExt

Traces == JsonDeserialize(IOEnv.TRACE_FILE)
\* the per-keyword value counts written by the harness from the real objects (cfg: NVof <- TableNV)
TableNV == JsonDeserialize(IOEnv.C18_TABLE).nv

\* sparse sequences of <<keyword, value>> -> total functions
Has(ps, kw) == \E i \in 1..Len(ps) : ps[i][1] = kw
Get(ps, kw) == ps[CHOOSE i \in 1..Len(ps) : ps[i][1] = kw][2]
Dense(ps, dom, d) == LET present == {ps[i][1] : i \in 1..Len(ps)} IN
                     TLCEval([kw \in dom |-> IF kw \in present THEN Get(ps, kw) ELSE d])
ReqOf(r) == [scheme |-> r.scheme, host |-> r.host, port |-> r.port, via |-> r.via, ov |-> Dense(r.ov, Settings, NOOV)]
ConfOf(c) == [scheme |-> c.scheme, host |-> c.host, port |-> c.port, s |-> Dense(c.s, KeySettings, 0)]

VARIABLES tid,     \* trace being validated
          l,       \* next request of that trace
          tpools,  \* the Model's pool cache along the trace
          touts,   \* the Model's results for requests 1..l-1
          notes    \* recorded deviations (KnownDefects) the trace exhibited so far
tvars == <<sc, cpkw, pools, n, pc, ctx, key, outs, tid, l, tpools, touts, notes>>

TInit == /\ tid = 1 /\ l = 1 /\ tpools = <<>> /\ touts = <<>> /\ notes = {}
         /\ sc = 0 /\ cpkw = 0 /\ pools = <<>> /\ n = 0 /\ pc = "trace" /\ ctx = 0 /\ key = 0 /\ outs = <<>>

Earlier(T, m) == {j \in 1..Len(touts) : touts[j].exc = "none"}
ObsSame(T, j, e) == T.obs[j].pool = e.pool

\* hard clauses (Rules) and drift clauses (Model) for request l of trace T; m = the Model's result
Clause(T, e, m) ==
    LET served == Earlier(T, m)
        conf   == ConfOf(e.conf)
    IN
    IF ~e.dok THEN "DefaultsAltered"
    ELSE IF e.exc # m.exc THEN
        (IF m.exc = "none" THEN "UnexpectedException"
         ELSE IF e.exc = "none" THEN
              (IF \E j \in served : ObsSame(T, j, e) /\ Verdict(touts[j].ask, m.ask) = "MustDiffer"
               THEN "SharedAcrossSettings" ELSE "drift:Outcome")
         ELSE "drift:ExceptionClass")
    ELSE IF e.exc = "none" THEN
        (IF \E j \in served : /\ ObsSame(T, j, e) /\ Verdict(touts[j].ask, m.ask) = "MustDiffer"
                              /\ ~(ShareSigs(touts[j].ask, m.ask) \subseteq KnownDefects)
         THEN "SharedAcrossSettings"
         ELSE IF \E j \in served : ~ObsSame(T, j, e) /\ Verdict(touts[j].ask, m.ask) = "MustShare"
         THEN "NotSharedThoughEqual"
         ELSE IF ~ConfOk(conf, m.ask) /\ ~(ConfSigs(conf, m.ask) \subseteq KnownDefects)
         THEN "PoolMisconfigured"
         ELSE IF \E j \in served : ObsSame(T, j, e) # (touts[j].pool = m.pool)
         THEN "drift:PoolIdentity"
         ELSE IF \E j \in 1..Len(touts) : e.keyeq[j] # (~touts[j].key.rej /\ ~m.key.rej /\ KeyEq(touts[j].key, m.key))
         THEN "drift:KeyEquality"
         ELSE "ok")
    ELSE IF \E j \in 1..Len(touts) : e.keyeq[j] # (~touts[j].key.rej /\ ~m.key.rej /\ KeyEq(touts[j].key, m.key))
         THEN "drift:KeyEquality"
    ELSE "ok"

\* recorded deviations exhibited by request l (only evaluated when Clause = "ok")
NotesOf(T, e, m) ==
    IF e.exc # "none" THEN {}
    ELSE UNION {ShareSigs(touts[j].ask, m.ask) :
                   j \in {k \in Earlier(T, m) : ObsSame(T, k, e) /\ Verdict(touts[k].ask, m.ask) = "MustDiffer"}}
         \cup (IF ConfOk(ConfOf(e.conf), m.ask) THEN {} ELSE ConfSigs(ConfOf(e.conf), m.ask))

Final(ns) == IF ns = {} THEN "ok"
             ELSE IF ns = {"PortZero"} THEN "known:PortZero"
             ELSE IF ns = {"PyEqTwins"} THEN "known:PyEqTwins"
             ELSE "known:PortZero+PyEqTwins"

NextTrace == /\ tid' = tid + 1 /\ l' = 1 /\ tpools' = <<>> /\ touts' = <<>> /\ notes' = {}

TNext ==
    /\ tid <= Len(Traces)
    /\ UNCHANGED <<sc, cpkw, pools, n, pc, ctx, key, outs>>
    /\ LET T == Traces[tid] IN
       IF l > Len(T.reqs)
       THEN PrintT(<<"VERDICT", tid, l, Final(notes)>>) /\ NextTrace
       ELSE LET cp == Capture(T.mk, Dense(T.dflt, Settings, 0))
                st == Step(T.mk, cp, tpools, ReqOf(T.reqs[l]))
                e  == T.obs[l]
                c  == Clause(T, e, st.out)
            IN IF c = "ok"
               THEN /\ tpools' = st.pools /\ touts' = Append(touts, st.out) /\ l' = l + 1 /\ tid' = tid
                    /\ notes' = notes \cup NotesOf(T, e, st.out)
               ELSE PrintT(<<"VERDICT", tid, l, c>>) /\ NextTrace

TSpec == TInit /\ [][TNext]_tvars
=============================================================================
