----------------------------- MODULE Pool_Trace -----------------------------
(* Batch trace validation for C01 (code -> spec).                                             *)
(* Every trace is the event log of one real execution of HTTPConnectionPool recorded by       *)
(* vh/poolharness.py: queue operations seen by the recording QueueCls, dials / close() calls  *)
(* seen by the in-memory sockets, what each request and each disposal gave back to the        *)
(* caller, the quiescence snapshot (queue contents + which sockets the *peers* still see      *)
(* open) and the public probe.                                                                *)
(*                                                                                            *)
(* The monitor is TOTAL: every logged event is accepted and updates the abstract state from   *)
(* logged fields with the queue operators of Pool.tla (QTop / QRest / QHasRoom); the verdict  *)
(* comes from the Rules operators of Pool.tla (NoDuplicateOn, SlotsRestoredOn, NoOrphanOn,    *)
(* BlockBoundOn, OnlyUrllib3On, InterruptsOn) -- the same operators the INVARIANT lines of    *)
(* the Model are written with.  One <<"VERDICT", tid, position, clause>> line per trace.      *)
EXTENDS Pool, Json, IOUtils, TLCExt

Traces == JsonDeserialize(IOEnv.TRACE_FILE)

\* the Model's constants are irrelevant to the monitor (only the Rules / queue operators are used)
TrConfigs == {[n |-> 1, block |-> FALSE, retries |-> "F", preload |-> TRUE, release |-> TRUE, route |-> "direct"]}
TrSyms == {"ok_ka"}
TrDisp == {"read"}
TrNone == {}

VARIABLES tid, l,
          mq,      \* queue contents reconstructed from QGet / QPut
          mopen,   \* sockets dialled and not yet close()d by the client
          minj,    \* an interrupt (BaseException) was injected since the current request / disposal began
          mseen,   \* number of Quiesce + Probe events seen (a trace without them proves nothing)
          mlive,   \* the pool has been constructed (its constructor's own puts are not give-backs)
          mleases  \* checkouts minus give-backs since construction
tvars == <<tid, l, mq, mopen, minj, mseen, mlive, mleases>>

TInit == tid = 1 /\ l = 1 /\ mq = <<>> /\ mopen = {} /\ minj = FALSE /\ mseen = 0 /\ mlive = FALSE /\ mleases = 0

SeqSet(s) == {s[i] : i \in 1..Len(s)}

\* state update (total) -------------------------------------------------------------------------
QueueAfter(q, e, n) ==
    CASE e.ev = "QPut" /\ e.res = "ok" -> Append(q, e.item)
      [] e.ev = "QGet" /\ e.res = "ok" /\ q # <<>> -> QRest(q)
      [] OTHER -> q
OpenAfter(o, e) ==
    CASE e.ev = "Dial" /\ e.res = "ok" -> o \cup {e.sock}
      [] e.ev = "SockClose" -> o \ {e.sock}
      [] OTHER -> o
InjAfter(i, e) ==
    CASE e.ev = "Interrupt" -> TRUE
      [] e.ev \in {"ReqStart", "DispStart", "ReqEnd", "DispEnd"} -> FALSE
      [] OTHER -> i

\* a checkout is an item taken, or (non-blocking pool) the Empty that makes urlopen build a fresh connection;
\* a give-back is any _put_conn, whether the item entered the queue or was discarded as surplus
LeasesAfter(live, n, e, block) ==
    IF ~live THEN n
    ELSE CASE e.ev = "QGet" /\ e.res = "ok" -> n + 1
           [] e.ev = "QGet" /\ e.res = "empty" /\ ~block -> n + 1
           [] e.ev = "QPut" -> n - 1
           [] OTHER -> n

\* the recording queue and the monitor's queue semantics must agree (else the harness is broken)
Consistent(q, e, n) ==
    CASE e.ev = "QPut" /\ e.res = "ok"   -> QHasRoom(q, n)
      [] e.ev = "QPut" /\ e.res = "full" -> ~QHasRoom(q, n)
      [] e.ev = "QGet" /\ e.res = "ok"   -> q # <<>> /\ QTop(q) = e.item
      [] e.ev = "QGet" /\ e.res = "empty" -> q = <<>>
      [] e.ev \in {"Quiesce", "Idle"} -> e.q = q
      [] OTHER -> TRUE

\* Rules, evaluated after the event -------------------------------------------------------------
Clause(c, q, q2, o2, i, e, live, ls2) ==
    IF ~Consistent(q, e, c.n) THEN "RecorderInconsistent"
    ELSE IF e.ev = "Created" /\ ~SlotsRestoredOn(q2, c.n) THEN "SlotsRestored"
    ELSE IF ~NoDuplicateOn(q2) THEN "NoDuplicate"
    ELSE IF ~BlockBoundOn(c.block, o2, c.n) THEN "BlockBound"
    ELSE IF live /\ ~SlotsConservedOn(Len(q2), ls2, c.n, c.block) THEN "SlotsConserved"
    ELSE IF e.ev \in {"ReqEnd", "DispEnd"} /\ ~InterruptsOn([res |-> e.res, cls |-> e.cls, inj |-> i])
         THEN "InterruptsPropagate"
    ELSE IF e.ev \in {"ReqEnd", "DispEnd"} /\ ~OnlyUrllib3On([res |-> e.res, cls |-> e.cls, inj |-> i])
         THEN "OnlyUrllib3Errors"
    \* Idle: every request has returned or raised and every returned response has been disposed of, judged while
    \* the caller still holds what it was given (an exception with its traceback, the disposed responses)
    ELSE IF e.ev \in {"Quiesce", "Idle"} /\ ~SlotsRestoredOn(q2, c.n) THEN "SlotsRestored"
    ELSE IF e.ev = "Idle" /\ ~NoOrphanOn(e.qs, o2) THEN "NoOrphanSocket"
    \* ground truth: a socket whose peer has not seen the client's close must be idle in the queue
    ELSE IF e.ev = "Quiesce" /\ ~NoOrphanOn(e.qs, SeqSet(e.open)) THEN "NoOrphanSocket"
    \* and so must every socket the client never called close() on (reaped by the collector at best)
    ELSE IF e.ev = "Quiesce" /\ ~NoOrphanOn(e.qs, o2) THEN "NoOrphanSocket"
    \* the public behaviour: N streaming checkouts succeed, the N+1-th raises EmptyPoolError
    ELSE IF e.ev = "Probe" /\ c.block /\ ~(e.n = c.n /\ e.res = "EmptyPoolError") THEN "SlotsRestored"
    ELSE IF e.ev = "Probe" /\ ~c.block /\ ~SlotsRestoredOn([x \in 1..e.n |-> 0], c.n) THEN "SlotsRestored"
    ELSE "ok"

NextTrace == /\ tid' = tid + 1 /\ l' = 1 /\ mq' = <<>> /\ mopen' = {} /\ minj' = FALSE /\ mseen' = 0
             /\ mlive' = FALSE /\ mleases' = 0

TNext ==
    /\ tid <= Len(Traces)
    /\ LET tr == Traces[tid] IN
       IF l > Len(tr.events)
       THEN /\ PrintT(<<"VERDICT", tid, l, IF mseen = 2 /\ mlive THEN "ok" ELSE "Incomplete">>)
            /\ NextTrace
       ELSE LET e  == tr.events[l]
                q2 == QueueAfter(mq, e, tr.cfg.n)
                o2 == OpenAfter(mopen, e)
                ls2 == LeasesAfter(mlive, mleases, e, tr.cfg.block)
                c  == Clause(tr.cfg, mq, q2, o2, minj, e, mlive, ls2) IN
            IF c = "ok"
            THEN /\ mq' = q2 /\ mopen' = o2 /\ minj' = InjAfter(minj, e)
                 /\ mlive' = (mlive \/ e.ev = "Created") /\ mleases' = ls2
                 /\ mseen' = mseen + (IF e.ev \in {"Quiesce", "Probe"} THEN 1 ELSE 0)
                 /\ l' = l + 1 /\ tid' = tid
            ELSE PrintT(<<"VERDICT", tid, l, c>>) /\ NextTrace

\* the Model's variables are not used by the monitor; they are pinned so that TLC has a total state
Pinned == /\ cfg = [n |-> 1, block |-> FALSE, retries |-> "F", preload |-> TRUE, release |-> TRUE, route |-> "direct"]
          /\ queue = <<>> /\ conns = <<>> /\ socks = <<>> /\ resp = <<>> /\ rof = <<>>
          /\ pc = "trace" /\ cur = 0 /\ plan = "" /\ att = <<>> /\ ret = RetryInit("F") /\ err = ""
          /\ clean = FALSE /\ rel = FALSE /\ pend = "" /\ rcur = 0 /\ nd = 0 /\ inj = FALSE
          /\ outs = <<>> /\ hist = <<>> /\ ncut = 0 /\ leases = 0

TSpec == (TInit /\ Pinned) /\ [][TNext /\ UNCHANGED vars]_<<tvars, vars>>
=============================================================================
