------------------------------ MODULE MC_Retry ------------------------------
(* Exhaustive configurations (stage 1) and scenario emission (stage 2) for Retry (C04).        *)
(*                                                                                             *)
(* Stage 1: SPECIFICATION MCSpec with Family / domains chosen in the cfg; VIEW View hides the   *)
(* history variables so TLC explores the collapsed graph; the INVARIANT / PROPERTY lines of the *)
(* cfg are the Rules.                                                                           *)
(* Stage 2: Cfgs <- FileCfgs (configurations chosen by the harness: pairwise cover + seeded    *)
(* sample, passed as JSON), TrackTrail = TRUE, no VIEW: every environment history is a distinct *)
(* path; at each terminal transition EmitSC prints the scenario (configuration id x outcome     *)
(* sequence) with the Model's expected observations.                                            *)
EXTENDS Retry, Json, IOUtils

Cfg(how, level, t, cn, rd, st, ot, al, fl, ros, resp, fa, bm, ji, meth, route, ka) ==
    [id |-> 0, how |-> how, level |-> level, total |-> t, connect |-> cn, read |-> rd, status |-> st, other |-> ot,
     allowed |-> al, forcelist |-> fl, ros |-> ros, respect |-> resp, factor |-> fa, bmax |-> bm, jitter |-> ji,
     method |-> meth, route |-> route, ka |-> ka]

(* Configuration families.  They are enumerated by Init (streaming), never built as one set,    *)
(* because TLC evaluates zero-arity constant definitions eagerly.  The small domains come from   *)
(* the cfg file: DT (total), DCR (connect, read), DSO (status, other), DFlag (BOOLEAN or {TRUE}). *)
CONSTANTS Family, DT, DCR, DSO, DFlag, DRoutes, OnlyBounded
TQuick    == {NoneV, FalseV, 0, 1}
TFull     == {NoneV, FalseV, 0, 1, 2}
CRQuick   == {NoneV, FalseV, 0, 1}
CRFull    == {NoneV, FalseV, 0, 1, 2}
SOQuick   == {NoneV, 0, 1}
SOFull    == {NoneV, 0, 1, 2}
CRSmall   == {NoneV, FalseV, 0, 1}
CRTiny    == {NoneV, FalseV, 0}
CRMini    == {NoneV, 0}
SOSmall   == {NoneV, 1}
JustTrue  == {TRUE}
RDirect   == {"direct"}
RForward  == {"forward"}
RBoth     == {"direct", "forward"}
Al3 == {"default", "none", "post"}
GP  == {"GET", "POST"}
M4  == {"GET", "POST", "PUT", "DELETE"}

\* "budgets": every counter combination of the property's quantifier x what gates a retry
InBudgets(c) ==
    \E t \in DT, cn \in DCR, rd \in DCR, st \in DSO, ot \in DSO, al \in Al3, fl \in BOOLEAN, ros \in DFlag, resp \in DFlag,
       meth \in GP, route \in DRoutes :
        c = Cfg("retry", "request", t, cn, rd, st, ot, al, fl, ros, resp, 0, DefaultBackoffMax, 0, meth, route, "keep")
\* "backoff": backoff x Retry-After handling, everything retryable
InBackoff(c) ==
    \E t \in {NoneV, 2, 4}, ros \in BOOLEAN, resp \in BOOLEAN, fa \in {0, 100, 100000}, bm \in {DefaultBackoffMax, 1000},
       ji \in {0, 500}, ka \in {"keep", "close"} :
        c = Cfg("retry", "request", t, NoneV, NoneV, NoneV, NoneV, "none", TRUE, ros, resp, fa, bm, ji, "POST", "direct", ka)
\* "forms": the forms in which `retries` may be given, at request or pool level
InForms(c) ==
    \/ \E how \in {"false", "int", "default"}, level \in {"request", "pool"}, t \in {0, 1, 2}, meth \in M4,
          route \in {"direct", "forward"}, ka \in {"keep", "close"} :
        c = Cfg(how, level, t, NoneV, NoneV, NoneV, NoneV, "default", FALSE, TRUE, TRUE, 0, DefaultBackoffMax, 0, meth, route, ka)
    \/ \E t \in {FalseV, 1, 2}, rd \in {NoneV, 0}, al \in {"default", "post"}, meth \in M4, route \in {"direct", "forward"} :
        c = Cfg("retry", "pool", t, NoneV, rd, NoneV, NoneV, al, TRUE, TRUE, TRUE, 0, DefaultBackoffMax, 0, meth, route, "keep")
\* "tunnel": CONNECT tunnel; only pre-send failures are scripted (no TLS party); bounded policies
InTunnel(c) ==
    \E t \in {FalseV, 0, 1, 2}, cn \in {NoneV, FalseV, 0, 1}, ot \in {NoneV, 0, 1, 2}, meth \in GP :
        c = Cfg("retry", "request", t, cn, NoneV, NoneV, ot, "default", FALSE, TRUE, TRUE, 0, DefaultBackoffMax, 0, meth, "tunnel", "close")
InFamily(c) == \/ "budgets" \in Family /\ InBudgets(c)
               \/ "backoff" \in Family /\ InBackoff(c)
               \/ "forms"   \in Family /\ InForms(c)
               \/ "tunnel"  \in Family /\ InTunnel(c)
FamAll     == {"budgets", "backoff", "forms", "tunnel"}
FamBudgets == {"budgets"}
FamSmall   == {"backoff", "forms", "tunnel"}
FamForward == {"budgets", "forms"}

MCInit == /\ InFamily(cfg)
          /\ OnlyBounded => Bounded(cfg)          \* liveness runs: policies whose total is not None
          /\ m = M0 /\ trail = <<>> /\ evs = <<>> /\ ob = Ob0
MCSpec == MCInit /\ [][Next]_vars /\ WF_vars(Next)
NoCfgs == {}

OutcomesPlain == AllOutcomes \ {"TunRefused"}
OutcomesAll   == AllOutcomes
\* one representative per class the Model / the monitor distinguish (quick stage 1)
OutcomesCore  == {"ConnRefused", "SendErr", "ReadTimeout", "ReadEOF", "OK200", "S500", "S429RA", "S413RAdPast", "S404RA", "TunRefused"}
OutcomesTiny  == {"ConnRefused", "ReadEOF", "OK200", "S500", "S429RA", "S429RAdSkew", "S404RA", "TunRefused"}
\* what stage 2 enumerates in the quick tier (the property's list; TunRefused only applies to the tunnel route)
OutcomesEmit  == {"ConnRefused", "SendErr", "ReadTimeout", "ReadReset", "ReadEOF", "ReadGarbage", "OK200", "S500",
                  "S429RA", "S503RAdSkew", "S413RA", "S429RAdFut", "S404RA", "TunRefused"}

NoDefects == {}
DefectUnclamped == {"RetryAfterNotClamped"}

View == <<cfg, m, ob>>

\* ---------------------------------------------------------------- stage 2
FileCfgs == LET cs == JsonDeserialize(IOEnv.CFG_FILE) IN { cs[i] : i \in DOMAIN cs }

RECURSIVE SleepsOf(_)
SleepsOf(es) == IF es = <<>> THEN <<>>
                ELSE IF Head(es).ev = "sleep" THEN << <<Head(es).lo, Head(es).hi>> >> \o SleepsOf(Tail(es))
                ELSE SleepsOf(Tail(es))
Last(s) == s[Len(s)]
\* ACTION_CONSTRAINT: one line per terminal transition = per distinct (configuration, history)
EmitSC == (m'.pc = "done" /\ m.pc # "done") =>
            PrintT(<<"SC", ToJson([id |-> cfg.id, seq |-> trail', n |-> ob'.att, msgs |-> ob'.msgs,
                                   sl |-> SleepsOf(evs'),
                                   endk |-> Last(evs').kind, ends |-> Last(evs').status, endf |-> Last(evs').fam,
                                   rt |-> Last(evs').rt])>>)
=============================================================================
