------------------------------ MODULE MC_Retry ------------------------------
(* Exhaustive configurations (stage 1) and scenario emission (stage 2) for Retry (C04).        *)
(*                                                                                             *)
(* Stage 1: Cfgs <- one of the product sets below; VIEW View hides the history variables so    *)
(* TLC explores the collapsed graph; the INVARIANT / PROPERTY lines of the cfg are the Rules.  *)
(* Stage 2: Cfgs <- FileCfgs (configurations chosen by the harness: pairwise cover + seeded    *)
(* sample, passed as JSON), TrackTrail = TRUE, no VIEW: every environment history is a distinct *)
(* path; at each terminal transition EmitSC prints the scenario (configuration id x outcome     *)
(* sequence) with the Model's expected observations.                                            *)
EXTENDS Retry, Json, IOUtils

Cfg(how, level, t, cn, rd, st, ot, al, fl, ros, resp, fa, bm, ji, meth, route, ka) ==
    [id |-> 0, how |-> how, level |-> level, total |-> t, connect |-> cn, read |-> rd, status |-> st, other |-> ot,
     allowed |-> al, forcelist |-> fl, ros |-> ros, respect |-> resp, factor |-> fa, bmax |-> bm, jitter |-> ji,
     method |-> meth, route |-> route, ka |-> ka]

\* every counter combination of the property's quantifier x what gates a retry (backoff fixed)
BudgetCfgs(T, CR, SO, AL, FL, ROS, RESP, meths, routes) ==
    { Cfg("retry", "request", t, cn, rd, st, ot, al, fl, ros, resp, 0, DefaultBackoffMax, 0, meth, route, "keep") :
        t \in T, cn \in CR, rd \in CR, st \in SO, ot \in SO, al \in AL,
        fl \in FL, ros \in ROS, resp \in RESP, meth \in meths, route \in routes }
Al3 == {"default", "none", "post"}
GP  == {"GET", "POST"}
CfgsBudgetsQuick ==
    BudgetCfgs({NoneV, FalseV, 0, 1}, {NoneV, FalseV, 0, 1}, {NoneV, 0, 1}, {"default", "none"}, {TRUE}, {TRUE}, {TRUE}, GP, {"direct"})
    \cup BudgetCfgs({NoneV, FalseV, 0, 1}, {NoneV, 0}, {NoneV, 0, 1}, Al3, BOOLEAN, BOOLEAN, BOOLEAN, GP, {"direct", "forward"})
CfgsBudgetsThorough ==
    BudgetCfgs({NoneV, FalseV, 0, 1, 2}, {NoneV, FalseV, 0, 1, 2}, {NoneV, 0, 1, 2}, Al3, BOOLEAN, {TRUE}, {TRUE}, GP, {"direct"})
    \cup BudgetCfgs({NoneV, FalseV, 0, 1, 2}, {NoneV, FalseV, 0, 1}, {NoneV, 0, 1}, Al3, BOOLEAN, BOOLEAN, BOOLEAN, GP, {"direct", "forward"})
\* backoff x Retry-After handling, everything retryable
CfgsBackoff ==
    { Cfg("retry", "request", t, NoneV, NoneV, NoneV, NoneV, "none", TRUE, ros, resp, fa, bm, ji, "POST", "direct", ka) :
        t \in {NoneV, 2, 4}, ros \in BOOLEAN, resp \in BOOLEAN, fa \in {0, 100, 100000}, bm \in {DefaultBackoffMax, 1000},
        ji \in {0, 500}, ka \in {"keep", "close"} }
\* the forms in which `retries` may be given, at request or pool level
CfgsForms ==
    { Cfg(how, level, t, NoneV, NoneV, NoneV, NoneV, "default", FALSE, TRUE, TRUE, 0, DefaultBackoffMax, 0, meth, route, ka) :
        how \in {"false", "int", "default"}, level \in {"request", "pool"}, t \in {0, 1, 2},
        meth \in {"GET", "POST", "PUT", "DELETE"}, route \in {"direct", "forward"}, ka \in {"keep", "close"} }
    \cup
    { Cfg("retry", "pool", t, NoneV, rd, NoneV, NoneV, al, TRUE, TRUE, TRUE, 0, DefaultBackoffMax, 0, meth, route, "keep") :
        t \in {FalseV, 1, 2}, rd \in {NoneV, 0}, al \in {"default", "post"},
        meth \in {"GET", "POST", "PUT", "DELETE"}, route \in {"direct", "forward"} }
\* CONNECT tunnel: only pre-send failures are scripted (no TLS party); unbounded policies excluded
CfgsTunnel ==
    { Cfg("retry", "request", t, cn, NoneV, NoneV, ot, "default", FALSE, TRUE, TRUE, 0, DefaultBackoffMax, 0, meth, "tunnel", "close") :
        t \in {FalseV, 0, 1, 2}, cn \in {NoneV, FalseV, 0, 1}, ot \in {NoneV, 0, 1, 2}, meth \in {"GET", "POST"} }

CfgsStage1Quick    == CfgsBudgetsQuick \cup CfgsBackoff \cup CfgsForms \cup CfgsTunnel
CfgsStage1Thorough == CfgsBudgetsThorough \cup CfgsBackoff \cup CfgsForms \cup CfgsTunnel
CfgsForward        == { c \in CfgsBudgetsQuick \cup CfgsForms : c.route = "forward" }
CfgsLiveness       == { c \in CfgsBudgetsQuick \cup CfgsBackoff \cup CfgsForms \cup CfgsTunnel : Bounded(c) }

OutcomesPlain == AllOutcomes \ {"TunRefused"}
OutcomesAll   == AllOutcomes
OutcomesCore  == {"ConnRefused", "SendErr", "ReadTimeout", "ReadReset", "ReadEOF", "ReadGarbage", "OK200", "S500",
                  "S429RA", "S503RA", "S413RA", "S404RA", "TunRefused"}

NoDefects == {}
DefectD2  == {"D2"}

View == <<cfg, m, ob>>

\* ---------------------------------------------------------------- stage 2
FileCfgs == LET cs == JsonDeserialize(IOEnv.CFG_FILE) IN { cs[i] : i \in DOMAIN cs }

RECURSIVE SleepsOf(_)
SleepsOf(es) == IF es = <<>> THEN <<>>
                ELSE IF Head(es).ev = "sleep" THEN << <<Head(es).lo, Head(es).hi>> >> \o SleepsOf(Tail(es))
                ELSE SleepsOf(Tail(es))
Last(s) == s[Len(s)]
\* ACTION_CONSTRAINT: one line per terminal transition = per distinct (configuration, history)
EmitSC == (m'.pc = "done" /\ m.pc # "done") =>
            PrintT(<<"SC", ToJson([id |-> cfg.id, seq |-> trail', n |-> ob'.att, msgs |-> ob'.msgs,
                                   sl |-> SleepsOf(evs'),
                                   endk |-> Last(evs').kind, ends |-> Last(evs').status, endf |-> Last(evs').fam,
                                   rt |-> Last(evs').rt])>>)
=============================================================================
