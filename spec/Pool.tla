-------------------------------- MODULE Pool --------------------------------
(* C01 -- a pool never loses, duplicates or leaks connection slots, whatever the outcome.     *)
(*                                                                                            *)
(* Implementation-shaped, single-threaded model of HTTPConnectionPool.urlopen (connectionpool *)
(* .py:593-960), _get_conn / _put_conn (256-336), HTTPConnection.close, the http.client       *)
(* request/response state machine as far as it decides who closes what, and the disposal of   *)
(* a returned HTTPResponse (response.py: _error_catcher, release_conn, drain_conn, close,     *)
(* stream).  One action per real step; the environment chooses, per attempt, one outcome      *)
(* symbol (connect / send / receive fault, BaseException, or a reply) and, per returned       *)
(* response, how the caller disposes of it.                                                   *)
(*                                                                                            *)
(* Two layers over the same state:                                                            *)
(*   Rules  -- the property: operators *On(...) over the observable abstract state (queue      *)
(*             contents, sockets not yet closed, request outcomes).  They are used both by     *)
(*             the INVARIANT lines below and by the trace monitor (Pool_Trace.tla).            *)
(*   Model  -- what urllib3 does.  Known deviations of the real code are *named* and guarded   *)
(*             by KnownDefects; design-level mutants (used to show the invariants bite) too.   *)
EXTENDS Naturals, Integers, Sequences, FiniteSets, TLC

CONSTANTS Configs,        \* set of records [n, block, retries, preload, release, route]
          MaxReqs,        \* requests per history
          FirstOutcomes,  \* outcome alphabet of the first attempt of a request
          LaterOutcomes,  \* outcome alphabet of later attempts (retries, redirects)
          Disposals,      \* how the caller may dispose of a returned response
          MaxHeld,        \* responses the caller may still hold when it issues the next request
          Cuts,           \* TRUE: the server may cut one idle pooled connection between steps
          HeadOutcomes,   \* outcome alphabet of HEAD requests ({}: every request is a GET); replies to HEAD carry the
                          \* headers of the chosen reply (Content-Length / chunked / close-delimited) and no body
          BadArgs,        \* TRUE: a request may carry an invalid per-request timeout (fails before any checkout)
          KnownDefects,   \* subset of {"C01_F1"} \cup design mutants {"M_CloseNoRelease", ...}
          TreeTraits      \* behaviours that differ between revisions of the tree and do not matter to the Rules;
                          \* the check detects them on the tree under test (see vh/c01.py: detect_traits):
                          \* "ReleaseLeavesUnfinishedOpen": release_conn() of a response whose body was not read
                          \*   to the end puts the connection back as it is (later revisions close it first)
                          \* "D2_ProxyReadErrorMisfiled": EOF / reset while waiting for the reply behind a proxy is
                          \*   reported as ProxyError (D2, repaired in later revisions: ProtocolError)

NONE == 0
FalseV == 0 - 9           \* Retry.total = False
NoneV == 9                \* Retry.redirect = None

ConnectSyms == {"c_refused", "c_timeout", "c_boom"}
SendSyms    == {"s_epipe", "s_reset", "s_oserr", "s_boom"}
RecvSyms    == {"r_timeout", "r_reset", "r_eof", "r_garbage", "r_ssl", "r_boom"}
\* replies; s503_ra_bad: 503 whose Retry-After value cannot be parsed (Retry.sleep raises InvalidHeader);
\* s503_ra_boom: 503 with a valid Retry-After and an interrupt raised while urllib3 sleeps; ok_chunked: chunked framing
\* ok_10: HTTP/1.0, close-delimited body; s204_ka: body-less status; bc_* / short_close: the will-close
\* (Connection: close) variants of the mid-body faults -- http.client has then already detached the socket from
\* the connection object and handed it to the response
ReplySyms   == {"ok_ka", "ok_close", "ok_chunked", "ok_10", "s204_ka", "s503_ka", "s503_close", "s503_ra_bad",
                "s503_ra_boom", "r302_ka", "r302_close", "short", "short_close", "b_boom", "b_reset", "b_timeout",
                "bc_boom", "bc_reset", "bc_timeout"}
\* the connection object cannot even be built after the slot was checked out (ConnectionCls constructor raises:
\* http.client.InvalidURL for a host with a blank, or a BaseException)
NewSyms     == {"n_invalid", "n_boom"}
AllSyms     == NewSyms \cup ConnectSyms \cup SendSyms \cup RecvSyms \cup ReplySyms \cup {"x_stale"}

(* =============================== Rules (the property) =============================== *)
\* the queue is a bounded LIFO; these two operators are its whole semantics
QTop(q)        == q[Len(q)]
QRest(q)       == SubSeq(q, 1, Len(q) - 1)
QHasRoom(q, n) == Len(q) < n

NoDuplicateOn(q)             == \A i, j \in 1..Len(q) : (i # j /\ q[i] # NONE) => q[i] # q[j]
SlotsRestoredOn(q, n)        == Len(q) = n
\* qsocks[i] = socket of the i-th queue item (0: placeholder or closed connection object)
NoOrphanOn(qsocks, open)     == \A s \in open : \E i \in 1..Len(qsocks) : qsocks[i] = s
BlockBoundOn(block, open, n) == block => Cardinality(open) <= n
\* Slot accounting at every instant.  leases = checkouts (an item taken, or a fresh connection made because a
\* non-blocking pool was empty) minus give-backs (_put_conn calls, whether the item entered the queue or was
\* discarded as surplus).  A put without a checkout drives it negative (at once, or when the real holder returns).
SlotsConservedOn(qlen, leases, n, block) ==
    leases >= 0 /\ (IF block THEN qlen + leases = n ELSE qlen + leases >= n)
\* o = [res |-> "response"|"raised", cls |-> "urllib3"|"raw"|"interrupt"|"caller"|"none", inj |-> BOOLEAN]
\* cls = "caller": the caller passed an invalid argument and got the ValueError / TypeError saying so -- that is the
\* caller's own error, not a failure of the request, and is accepted (latitude); anything else raw is not.
OnlyUrllib3On(o)             == (o.res = "raised" /\ ~o.inj) => o.cls \in {"urllib3", "caller"}
InterruptsOn(o)              == o.inj => (o.res = "raised" /\ o.cls = "interrupt")

(* =============================== Model =============================== *)
VARIABLES cfg,     \* configuration of this history (immutable)
          queue,   \* contents of self.pool (LifoQueue): connection ids, NONE = placeholder
          conns,   \* connection objects: [sock, unfin (http.client __response), prox (has_connected_to_proxy)]
          socks,   \* sockets ever dialled: [open (close() not yet called), cut (peer closed / EOF pending)]
          resp,    \* response objects: see NewResp
          rof,     \* request id -> response id returned to the caller (0: raised)
          pc, cur, plan, att, ret, err, clean, rel, pend, rcur, nd, inj,
          outs,    \* outcomes seen by the caller: requests and disposals
          hist,    \* environment choices + expected observations (emission)
          ncut,
          leases   \* checkouts minus give-backs (see SlotsConservedOn)
vars == <<cfg, queue, conns, socks, resp, rof, pc, cur, plan, att, ret, err, clean, rel, pend, rcur, nd, inj,
          outs, hist, ncut, leases>>

Has(d) == d \in KnownDefects \cup TreeTraits

World == [q |-> queue, cn |-> conns, sk |-> socks, rs |-> resp, full |-> FALSE, ls |-> leases]

\* HTTPConnection.close(): socket closed, per-connection state reset, pending http.client response closed
WClose(w, c) ==
    IF c = NONE THEN w ELSE
    LET s == w.cn[c].sock
        u == w.cn[c].unfin IN
    [w EXCEPT !.cn[c] = [sock |-> 0, unfin |-> 0, prox |-> FALSE],
              !.sk = IF s = 0 THEN @ ELSE [@ EXCEPT ![s].open = FALSE],
              !.rs = IF u = 0 THEN @ ELSE [@ EXCEPT ![u].fp = FALSE]]

\* _put_conn(c): put, or on queue.Full close and discard
WPut(w, c) ==
    IF QHasRoom(w.q, cfg.n) THEN [w EXCEPT !.q = Append(@, c), !.ls = @ - 1]
    ELSE IF Has("M_FullNoClose") THEN [w EXCEPT !.full = TRUE, !.ls = @ - 1]
    ELSE [WClose(w, c) EXCEPT !.full = TRUE, !.ls = @ - 1]

\* HTTPResponse.release_conn()
WRelease(w, k) ==
    IF w.rs[k].conn = NONE THEN w ELSE
    LET c  == w.rs[k].conn
        \* body not read to the end: the connection is closed before it goes back (unless the tree predates that)
        w0 == IF w.rs[k].fp /\ ~Has("ReleaseLeavesUnfinishedOpen") THEN WClose(w, c) ELSE w IN
    IF Has("M_ReleaseKeepsConn") THEN WPut(w0, c)
    ELSE WPut([w0 EXCEPT !.rs[k].conn = NONE], c)

Dirty(w, s) == w.sk[s].cut \/ \E k \in 1..Len(w.rs) : w.rs[k].sock = s /\ w.rs[k].ker
Stale(w, c) == w.cn[c].unfin # 0 /\ w.rs[w.cn[c].unfin].fp

BodyErr(f) == CASE f = "short" -> "ProtocolError" [] f = "b_reset" -> "ProtocolError"
                [] f = "b_timeout" -> "ReadTimeoutError" [] f = "b_boom" -> "Interrupt" [] OTHER -> "ok"

\* one pass through HTTPResponse._error_catcher that fails: close the original response and the held
\* connection, then release it
\* Named deviation UncleanExitClosesConnOnly: only the held connection is closed, in the belief that this closes the
\* response too.  It does for a keep-alive response (the connection's current one); a will-close response was
\* detached from the connection when its head arrived, stays open, and the release below is skipped.
WBodyFail(w, k) ==
    LET c  == w.rs[k].conn
        w1 == [w EXCEPT !.rs[k].fault = "none", !.rs[k].ker = IF w.rs[k].fault = "b_timeout" THEN FALSE ELSE @]
        w2 == IF Has("UncleanExitClosesConnOnly") /\ c # NONE THEN WClose(w1, c)
              ELSE WClose([w1 EXCEPT !.rs[k].fp = FALSE], c) IN
    IF w2.rs[k].fp THEN w2 ELSE WRelease(w2, k)      \* release only `if original_response.isclosed()`

\* read() to the end
ReadAll(w, k) ==
    LET r == w.rs[k] IN
    IF ~r.fp THEN [w |-> WRelease(w, k), out |-> "ok"]
    ELSE IF r.fault = "none" THEN [w |-> WRelease([w EXCEPT !.rs[k].fp = FALSE, !.rs[k].ker = FALSE, !.rs[k].rem = FALSE], k),
                                   out |-> "ok"]
    ELSE [w |-> WBodyFail(w, k), out |-> BodyErr(r.fault)]

\* read(2) then release_conn()
Read2Rel(w, k) ==
    LET r == w.rs[k] IN
    \* the body was cut short under the caller (connection reclaimed at a later checkout): read(amt) on the closed
    \* file object finds length_remaining > 0 -> IncompleteRead -> ProtocolError
    IF ~r.fp /\ r.rem THEN [w |-> WBodyFail(w, k), out |-> "ProtocolError"] ELSE
    \* read(2) finds the end of the body: _error_catcher releases; the explicit release_conn() is then a no-op
    IF ~r.fp \/ r.len0 THEN [w |-> WRelease(WRelease([w EXCEPT !.rs[k].fp = FALSE], k), k), out |-> "ok"]
    ELSE IF r.fault \in {"none", "short"} THEN [w |-> WRelease([w EXCEPT !.rs[k].ker = FALSE], k), out |-> "ok"]
    ELSE [w |-> WBodyFail(w, k), out |-> BodyErr(r.fault)]

\* for chunk in stream(2): pass      -- no read at all when the body is already exhausted
\* A chunked response goes through read_chunked(), whose shortcut for replies to HEAD closes the response and
\* returns inside _error_catcher (which then releases); named deviation HeadShortcutOutsideCatcher: outside it.
StreamAll(w, k) ==
    IF w.rs[k].fp /\ w.rs[k].head /\ w.rs[k].chunked /\ Has("HeadShortcutOutsideCatcher")
    THEN [w |-> [w EXCEPT !.rs[k].fp = FALSE], out |-> "ok"] ELSE
    IF ~w.rs[k].fp THEN [w |-> IF Has("C01_F1") THEN w ELSE WRelease(w, k), out |-> "ok"]
    ELSE ReadAll(w, k)

\* read1 loops: "read1all"  while r.read1(): pass         "read1n"  while r.read1(2): pass
\*              "read1cl"   read1(2) until the known Content-Length has been received (no final empty read; without
\*                          a Content-Length, i.e. chunked, the caller can only loop until b"")
\* The last byte of a Content-Length body arrives without http.client closing its response (CPython <= 3.12), so
\* _raw_read closes it itself; the named deviation Read1EndDoesNotClose drops that, and "read1cl" never releases.
Read1(w, k, how) ==
    LET r == w.rs[k] IN
    IF ~r.fp /\ r.rem THEN [w |-> WBodyFail(w, k), out |-> "ProtocolError"]
    ELSE IF ~r.fp THEN [w |-> WRelease(w, k), out |-> "ok"]
    ELSE IF r.fault = "none" /\ how = "read1cl" /\ r.rem /\ Has("Read1EndDoesNotClose")
         THEN [w |-> [w EXCEPT !.rs[k].ker = FALSE, !.rs[k].rem = FALSE], out |-> "ok"]
    ELSE ReadAll(w, k)

\* close()
CloseResp(w, k) ==
    LET w1 == [w EXCEPT !.rs[k].fp = FALSE] IN
    IF w1.rs[k].conn = NONE THEN [w |-> w1, out |-> "ok"]
    ELSE [w |-> IF Has("M_CloseNoRelease") THEN WClose(w1, w1.rs[k].conn)
                ELSE WRelease(WClose(w1, w1.rs[k].conn), k), out |-> "ok"]

\* drain_conn(): read() swallowing every Exception
DrainResp(w, k) == LET x == ReadAll(w, k) IN [w |-> x.w, out |-> IF x.out = "Interrupt" THEN x.out ELSE "ok"]

Dispose(w, k, how) ==
    CASE how = "read" -> ReadAll(w, k) [] how = "read2rel" -> Read2Rel(w, k)
      [] how = "release" -> [w |-> WRelease(w, k), out |-> "ok"] [] how = "drain" -> DrainResp(w, k)
      [] how = "close" -> CloseResp(w, k) [] how = "stream" -> StreamAll(w, k)
      [] how \in {"read1all", "read1n", "read1cl"} -> Read1(w, k, how)

\* (head: the request in progress is a HEAD request -- kept here because it lives exactly as long as the budget)
RetryInit(p) == CASE p = "F"  -> [total |-> FalseV, redir |-> 0, force |-> FALSE, ror |-> FALSE, head |-> FALSE]
                  [] p = "0"  -> [total |-> 0, redir |-> NoneV, force |-> FALSE, ror |-> TRUE, head |-> FALSE]
                  [] p = "1"  -> [total |-> 1, redir |-> NoneV, force |-> FALSE, ror |-> TRUE, head |-> FALSE]
                  [] p = "R2" -> [total |-> 2, redir |-> 1, force |-> TRUE, ror |-> TRUE, head |-> FALSE]
DecTotal(t) == IF t = FalseV THEN 0 - 1 ELSE t - 1
Exhausted(r) == r.total < 0 \/ (r.redir # NoneV /\ r.redir < 0)

NeedsDisposal == ~(cfg.preload /\ cfg.release)
Live == {k \in 1..Len(resp) : resp[k].live}

Init == /\ cfg \in Configs
        /\ queue = [i \in 1..cfg.n |-> NONE]
        /\ conns = <<>> /\ socks = <<>> /\ resp = <<>> /\ rof = <<>>
        /\ pc = "idle" /\ cur = NONE /\ plan = "" /\ att = <<>> /\ ret = RetryInit("F") /\ err = ""
        /\ clean = FALSE /\ rel = FALSE /\ pend = "" /\ rcur = 0 /\ nd = 0 /\ inj = FALSE
        /\ outs = <<>> /\ hist = <<>> /\ ncut = 0 /\ leases = 0

Step(op, id, how, out) == [op |-> op, id |-> id, atts |-> att, how |-> how, out |-> out, dials |-> nd, dev |-> ""]

(* ---- caller starts request number Len(rof)+1 ---- *)
StartReq ==
    /\ pc = "idle" /\ Len(rof) < MaxReqs /\ Cardinality(Live) <= MaxHeld
    /\ \E kind \in {"get"} \cup (IF BadArgs THEN {"prefail"} ELSE {}) \cup (IF HeadOutcomes # {} THEN {"head"} ELSE {}) :
          /\ pc' = IF kind = "head" THEN "get" ELSE kind
          /\ ret' = [RetryInit(cfg.retries) EXCEPT !.head = (kind = "head")]
    /\ att' = <<>> /\ nd' = 0 /\ inj' = FALSE
    /\ cur' = NONE /\ pend' = "" /\ rcur' = 0 /\ err' = "" /\ plan' = ""
    /\ clean' = FALSE /\ rel' = cfg.release
    /\ UNCHANGED <<cfg, queue, conns, socks, resp, rof, outs, hist, ncut, leases>>

EndReq(out, res, cls, k) ==
    /\ pc' = "idle"
    /\ rof' = Append(rof, k)
    /\ outs' = Append(outs, [res |-> res, cls |-> cls, inj |-> inj \/ cls = "interrupt"])
    /\ hist' = Append(hist, Step("req", Len(rof) + 1, IF pc = "prefail" THEN "badarg" ELSE IF ret.head THEN "head" ELSE "", out))

(* ---- the request fails before any checkout: urlopen(timeout=<not a number>) -> ValueError from _get_timeout. ---- *)
(* Design: the caller gets its ValueError and the pool is not touched.  The named deviation PutWithoutCheckout   *)
(* is the tree in which _get_timeout sits inside urlopen's try block: the finally clause sees an unclean exit    *)
(* with conn = None and gives a placeholder "back" although nothing was taken (phantom slot; on a full blocking  *)
(* queue FullPoolError replaces the ValueError).  TLC must refute it (SlotsConserved).                           *)
PreFail ==
    /\ pc = "prefail"
    /\ LET w == IF Has("PutWithoutCheckout") THEN WPut(World, NONE) ELSE World IN
       /\ queue' = w.q /\ conns' = w.cn /\ socks' = w.sk /\ resp' = w.rs /\ leases' = w.ls
       /\ IF w.full /\ cfg.block THEN EndReq("FullPoolError", "raised", "urllib3", 0)
          ELSE EndReq("ValueError", "raised", "caller", 0)
    /\ UNCHANGED <<cfg, cur, plan, att, ret, err, clean, rel, pend, rcur, nd, inj, ncut>>

(* ---- _get_conn + the environment's choice of this attempt's outcome ---- *)
GetConn ==
    /\ pc = "get"
    /\ clean' = FALSE /\ rel' = cfg.release /\ rcur' = 0
    /\ IF queue = <<>> /\ cfg.block
       THEN \* queue.Empty -> EmptyPoolError; except arm: clean_exit, no release
            /\ EndReq("EmptyPoolError", "raised", "urllib3", 0) /\ err' = ""
            /\ UNCHANGED <<cfg, queue, conns, socks, resp, cur, plan, att, ret, pend, nd, inj, ncut, leases>>
       ELSE LET item == IF queue = <<>> THEN NONE ELSE QTop(queue)
                q1 == IF queue = <<>> THEN queue ELSE QRest(queue)
                w0 == [World EXCEPT !.q = q1, !.ls = @ + 1]
                \* is_connection_dropped: no socket, or readable (EOF / unsolicited or unread bytes)
                dropped == item # NONE /\ (conns[item].sock = 0 \/ Dirty(w0, conns[item].sock))
                w1 == IF dropped /\ ~Has("M_DroppedNotClosed") THEN WClose(w0, item)
                      ELSE IF dropped /\ conns[item].sock # 0
                           THEN [w0 EXCEPT !.cn[item] = [sock |-> 0, unfin |-> 0, prox |-> FALSE]]  \* mutant: forgotten
                           ELSE w0
                alphabet == IF ret.head THEN HeadOutcomes ELSE IF att = <<>> THEN FirstOutcomes ELSE LaterOutcomes IN
            /\ \E sym \in alphabet \cup {"x_stale"} :
                  IF sym \in NewSyms
                  THEN \* self._new_conn() raises: the slot is checked out, urlopen's `conn` is still None
                       /\ item = NONE
                       /\ plan' = sym /\ att' = Append(att, sym)
                       /\ cur' = NONE /\ queue' = w1.q /\ conns' = w1.cn /\ socks' = w1.sk /\ resp' = w1.rs
                       /\ leases' = w1.ls
                       /\ err' = IF sym = "n_boom" THEN "Interrupt" ELSE "HTTPException"
                       /\ inj' = (inj \/ sym = "n_boom")
                       /\ pc' = "except"
                  ELSE LET w2 == IF item = NONE THEN [w1 EXCEPT !.cn = Append(@, [sock |-> 0, unfin |-> 0, prox |-> FALSE])]
                                 ELSE w1
                           c == IF item = NONE THEN Len(w2.cn) ELSE item IN
                       /\ IF Stale(w2, c) THEN sym = "x_stale"
                          ELSE sym \in alphabet /\ sym # "x_stale" /\ (w2.cn[c].sock # 0 => sym \notin ConnectSyms)
                       /\ plan' = sym /\ att' = Append(att, sym)
                       /\ cur' = c /\ queue' = w2.q /\ conns' = w2.cn /\ socks' = w2.sk /\ resp' = w2.rs
                       /\ leases' = w2.ls
                       /\ err' = "" /\ pc' = "connect" /\ UNCHANGED inj
            /\ UNCHANGED <<cfg, rof, ret, pend, nd, outs, hist, ncut>>

(* ---- HTTPConnection.connect (auto_open on the first send) ---- *)
Connect ==
    /\ pc = "connect"
    /\ IF conns[cur].sock # 0 THEN pc' = "send" /\ UNCHANGED <<conns, socks, err, nd, inj>>
       ELSE IF plan \in ConnectSyms
       THEN /\ err' = CASE plan = "c_refused" -> "NewConnectionError" [] plan = "c_timeout" -> "ConnectTimeoutError"
                        [] OTHER -> "Interrupt"
            /\ inj' = (inj \/ plan = "c_boom")
            /\ pc' = "except" /\ nd' = nd + 1 /\ UNCHANGED <<conns, socks>>
       ELSE /\ socks' = Append(socks, [open |-> TRUE, cut |-> FALSE])
            /\ conns' = [conns EXCEPT ![cur].sock = Len(socks) + 1, ![cur].prox = (cfg.route = "fwd")]
            /\ nd' = nd + 1 /\ pc' = "send" /\ UNCHANGED <<err, inj>>
    /\ UNCHANGED <<cfg, queue, resp, rof, cur, plan, att, ret, clean, rel, pend, rcur, outs, hist, ncut, leases>>

(* ---- conn.request(): one sendall; EPIPE / ECONNRESET are swallowed by _make_request ---- *)
Send ==
    /\ pc = "send"
    /\ IF plan = "s_oserr" THEN err' = "OSError" /\ pc' = "except" /\ UNCHANGED inj
       ELSE IF plan = "s_boom" THEN err' = "Interrupt" /\ pc' = "except" /\ inj' = TRUE
       ELSE pc' = "recv" /\ UNCHANGED <<err, inj>>
    /\ UNCHANGED <<cfg, queue, conns, socks, resp, rof, cur, plan, att, ret, clean, rel, pend, rcur, nd, outs, hist, ncut,
                   leases>>

IsClose(sym) == sym \in {"ok_close", "ok_10", "s503_close", "r302_close", "short_close", "bc_boom", "bc_reset", "bc_timeout"}
PeerCloses(sym) == IsClose(sym) \/ sym = "short"
StatusOf(sym) == IF sym \in {"r302_ka", "r302_close"} THEN "302" ELSE IF sym = "s204_ka" THEN "204"
                 ELSE IF sym \in {"s503_ka", "s503_close", "s503_ra_bad", "s503_ra_boom"} THEN "503" ELSE "200"
RetryAfterOf(sym) == IF sym = "s503_ra_bad" THEN "bad" ELSE IF sym = "s503_ra_boom" THEN "boom" ELSE ""
FaultOf(sym) == CASE sym \in {"short", "short_close"} -> "short" [] sym \in {"b_boom", "bc_boom"} -> "b_boom"
                  [] sym \in {"b_reset", "bc_reset"} -> "b_reset" [] sym \in {"b_timeout", "bc_timeout"} -> "b_timeout"
                  [] OTHER -> "none"
NoBody(sym) == StatusOf(sym) \in {"302", "204"}

(* ---- conn.getresponse(): status line + headers; http.client closes on Connection: close ---- *)
Recv ==
    /\ pc = "recv"
    /\ LET w == World
           sym == IF plan \in {"s_epipe", "s_reset"} THEN "ok_ka" ELSE plan IN
       IF plan = "x_stale" THEN      \* http.client ResponseNotReady: previous response not finished
            /\ err' = "HTTPException" /\ pc' = "except" /\ UNCHANGED <<conns, socks, resp, rcur, inj>>
       ELSE IF sym = "r_timeout" THEN err' = "ReadTimeoutError" /\ pc' = "except" /\ UNCHANGED <<conns, socks, resp, rcur, inj>>
       ELSE IF sym \in {"r_reset", "r_eof"} THEN   \* ConnectionError in begin(): http.client closes the connection
            \* ... which forgets that the proxy had been reached; getresponse() restores that fact unless the tree
            \* predates the repair of D2 (then the error is misfiled as ProxyError by Translate)
            LET w0 == WClose(w, cur)
                w1 == IF Has("D2_ProxyReadErrorMisfiled") THEN w0 ELSE [w0 EXCEPT !.cn[cur].prox = w.cn[cur].prox] IN
            /\ err' = "ConnectionError" /\ pc' = "except"
            /\ conns' = w1.cn /\ socks' = w1.sk /\ resp' = w1.rs /\ UNCHANGED <<rcur, inj>>
       ELSE IF sym = "r_garbage" THEN err' = "HTTPException" /\ pc' = "except" /\ UNCHANGED <<conns, socks, resp, rcur, inj>>
       ELSE IF sym = "r_ssl" THEN err' = "BaseSSLError" /\ pc' = "except" /\ UNCHANGED <<conns, socks, resp, rcur, inj>>
       ELSE IF sym = "r_boom" THEN err' = "Interrupt" /\ inj' = TRUE /\ pc' = "except" /\ UNCHANGED <<conns, socks, resp, rcur>>
       ELSE \* a reply: head parsed
            LET s == conns[cur].sock
                k == Len(resp) + 1
                r == [live |-> FALSE, conn |-> NONE, hc |-> cur, sock |-> s, fp |-> TRUE,
                      ker |-> ~(NoBody(sym) \/ ret.head \/ sym \in {"b_timeout", "bc_timeout"}),
                      fault |-> IF ret.head THEN "none" ELSE FaultOf(sym),
                      len0 |-> NoBody(sym) \/ ret.head, status |-> StatusOf(sym), head |-> ret.head,
                      \* rem: length_remaining is a number > 0 (Content-Length framing, body not delivered yet)
                      rem |-> ~NoBody(sym) /\ ~ret.head /\ sym \notin {"ok_chunked", "ok_10"},
                      chunked |-> sym = "ok_chunked", ra |-> RetryAfterOf(sym)]
                w1 == [w EXCEPT !.rs = Append(@, r),
                                !.sk[s].cut = PeerCloses(sym)]
                \* will_close: http.client closes the connection object right away (the fd lingers in the response)
                w2 == IF IsClose(sym) THEN WClose(w1, cur) ELSE [w1 EXCEPT !.cn[cur].unfin = k] IN
            /\ conns' = w2.cn /\ socks' = w2.sk /\ resp' = w2.rs /\ rcur' = k
            /\ pc' = IF cfg.preload THEN "preload" ELSE "ok"
            /\ UNCHANGED <<err, inj>>
    /\ UNCHANGED <<cfg, queue, rof, cur, plan, att, ret, clean, rel, pend, nd, outs, hist, ncut, leases>>

(* ---- HTTPResponse.__init__(preload_content=True): read() before _connection is known ---- *)
Preload ==
    /\ pc = "preload"
    /\ LET x == ReadAll(World, rcur) IN
       /\ queue' = x.w.q /\ conns' = x.w.cn /\ socks' = x.w.sk /\ resp' = x.w.rs /\ leases' = x.w.ls
       /\ IF x.out = "ok" THEN pc' = "ok" /\ UNCHANGED <<err, inj>>
          ELSE /\ err' = x.out /\ pc' = "except" /\ inj' = (inj \/ x.out = "Interrupt")
    /\ UNCHANGED <<cfg, rof, cur, plan, att, ret, clean, rel, pend, rcur, nd, outs, hist, ncut>>

(* ---- response._connection = response_conn; clean_exit = True ---- *)
(* A preloaded response that was handed the connection (release_conn=False) gives it back at once in        *)
(* _make_request: its body was read to the end while it was being built, before _connection was known.     *)
(* The named deviation C01_F1 is the tree before that repair (finding C01-F1): no release here, and stream() *)
(* on the exhausted body performs no read, so nothing ever releases.  It is kept only as a deviation run    *)
(* that TLC must refute (SlotsRestored).                                                                    *)
Ok ==
    /\ pc = "ok"
    /\ LET w0 == [World EXCEPT !.rs[rcur].conn = IF cfg.release THEN NONE ELSE cur]
           w1 == IF cfg.preload /\ ~cfg.release /\ ~Has("C01_F1") THEN WRelease(w0, rcur) ELSE w0 IN
       /\ queue' = w1.q /\ conns' = w1.cn /\ socks' = w1.sk /\ resp' = w1.rs /\ leases' = w1.ls
    /\ clean' = TRUE /\ pc' = "finally"
    /\ UNCHANGED <<cfg, rof, cur, plan, att, ret, err, rel, pend, rcur, nd, inj, outs, hist, ncut>>

(* ---- the except tuple of urlopen, the translation table and retries.increment ---- *)
Caught == {"NewConnectionError", "ConnectTimeoutError", "ReadTimeoutError", "ProtocolError", "OSError",
           "ConnectionError", "BaseSSLError"} \cup (IF Has("M_ExceptDropsHTTPException") THEN {} ELSE {"HTTPException"})
IsRawOS(e) == e \in {"OSError", "ConnectionError"}
Translate(e, proxied, connected) ==
    LET e1 == IF e = "BaseSSLError" THEN "SSLError" ELSE e IN
    IF proxied /\ ~connected /\ e1 # "ProtocolError" THEN "ProxyError"
    ELSE IF IsRawOS(e1) \/ e1 = "HTTPException" THEN "ProtocolError" ELSE e1
Except ==
    /\ pc = "except"
    /\ IF err \notin Caught
       THEN /\ pend' = err /\ UNCHANGED ret       \* propagates as it is (BaseException, or a class the tuple misses)
       ELSE LET \* `conn and conn.proxy and not conn.has_connected_to_proxy`: no wrapping while conn is None
                new == Translate(err, cfg.route = "fwd" /\ cur # NONE, IF cur = NONE THEN TRUE ELSE conns[cur].prox)
                r2 == [ret EXCEPT !.total = DecTotal(@)] IN
            IF ret.total = FalseV THEN pend' = new /\ UNCHANGED ret
            ELSE IF Exhausted(r2) THEN pend' = "MaxRetryError" /\ ret' = r2
            ELSE pend' = "" /\ ret' = r2
    /\ clean' = FALSE /\ pc' = "finally"
    /\ UNCHANGED <<cfg, queue, conns, socks, resp, rof, cur, plan, att, err, rel, rcur, nd, inj, outs, hist, ncut, leases>>

ClassOf(e) == IF e = "Interrupt" THEN "interrupt"
              ELSE IF e \in {"OSError", "ConnectionError", "HTTPException", "BaseSSLError"} THEN "raw" ELSE "urllib3"

(* ---- finally: close + placeholder on unclean exit, _put_conn when releasing ---- *)
Finally ==
    /\ pc = "finally"
    /\ LET w0 == World
           w1 == IF ~clean THEN WClose(w0, cur) ELSE w0
           c1 == IF ~clean THEN NONE ELSE cur
           \* deviation ReleaseOnlyIfConn: `release_this_conn = True` indented under `if conn:` -- a failure after
           \* the checkout but before a connection object exists (cur = NONE) then releases only if release_conn
           rel1 == IF clean THEN rel
                   ELSE IF Has("M_FinallyNoRelease") THEN FALSE
                   ELSE IF Has("ReleaseOnlyIfConn") /\ cur = NONE THEN rel
                   ELSE TRUE
           w2 == IF rel1 THEN WPut(w1, c1) ELSE w1
           fullerr == w2.full /\ cfg.block IN
       /\ queue' = w2.q /\ conns' = w2.cn /\ socks' = w2.sk /\ resp' = w2.rs /\ leases' = w2.ls
       /\ cur' = c1 /\ rel' = rel1
       /\ IF fullerr THEN EndReq("FullPoolError", "raised", "urllib3", 0) /\ UNCHANGED <<att, plan>>
          ELSE IF pend # "" THEN EndReq(pend, "raised", ClassOf(pend), 0) /\ UNCHANGED <<att, plan>>
          ELSE IF c1 = NONE THEN pc' = "get" /\ UNCHANGED <<rof, outs, hist, att, plan>>
          ELSE pc' = "after" /\ UNCHANGED <<rof, outs, hist, att, plan>>
    /\ UNCHANGED <<cfg, ret, err, clean, pend, rcur, nd, inj, ncut>>

(* ---- redirect / retried-status handling after a clean attempt ---- *)
(* Retry.is_retry: status_forcelist, or 503 with a Retry-After header while total is a positive number.       *)
(* The retried response is drained (which hands a streamed response's connection back) BEFORE the back-off    *)
(* sleep; the named deviation SleepBeforeDrain swaps the two, so that a failing sleep leaves urlopen with the   *)
(* undrained response still owning its connection.                                                            *)
After ==
    /\ pc = "after"
    /\ LET st == resp[rcur].status
           ra == resp[rcur].ra
           isredir == st = "302"
           isretry == st = "503" /\ (ret.force \/ (ra # "" /\ ret.total # FalseV /\ ret.total > 0))
           r2 == IF isredir THEN [ret EXCEPT !.total = DecTotal(@), !.redir = IF @ = NoneV THEN @ ELSE @ - 1]
                 ELSE [ret EXCEPT !.total = DecTotal(@)]
           d == DrainResp(World, rcur) IN
       IF ~(isredir \/ isretry) \/ (Exhausted(r2) /\ isredir /\ ~ret.ror)
       THEN \* the response goes to the caller
            /\ resp' = [resp EXCEPT ![rcur].live = NeedsDisposal]
            /\ EndReq(st, "response", "none", rcur)
            /\ UNCHANGED <<queue, conns, socks, ret, inj, leases>>
       ELSE IF ~Exhausted(r2) /\ ra # "" /\ Has("SleepBeforeDrain")
       THEN \* deviation: the sleep comes first and fails; drain_conn() is never reached
            /\ ret' = r2 /\ pc' = "sleep" /\ UNCHANGED <<queue, conns, socks, resp, inj, leases, rof, outs, hist>>
       ELSE \* response.drain_conn(), then raise MaxRetryError, or sleep and recurse
            /\ queue' = d.w.q /\ conns' = d.w.cn /\ socks' = d.w.sk /\ resp' = d.w.rs /\ leases' = d.w.ls
            /\ ret' = r2 /\ UNCHANGED inj
            /\ IF d.w.full /\ cfg.block THEN EndReq("FullPoolError", "raised", "urllib3", 0)
               ELSE IF Exhausted(r2) THEN EndReq("MaxRetryError", "raised", "urllib3", 0)
               ELSE pc' = (IF ra # "" THEN "sleep" ELSE "get") /\ UNCHANGED <<rof, outs, hist>>
    /\ UNCHANGED <<cfg, cur, plan, att, err, clean, rel, pend, rcur, nd, ncut>>

(* ---- retries.sleep(response): honours Retry-After; the environment makes it fail ---- *)
Sleep ==
    /\ pc = "sleep"
    /\ IF resp[rcur].ra = "bad"
       THEN EndReq("InvalidHeader", "raised", "urllib3", 0) /\ UNCHANGED inj       \* parse_retry_after
       ELSE inj' = TRUE /\ EndReq("Interrupt", "raised", "interrupt", 0)           \* BaseException inside time.sleep
    /\ UNCHANGED <<cfg, queue, conns, socks, resp, cur, plan, att, ret, err, clean, rel, pend, rcur, nd, ncut, leases>>

(* ---- the caller disposes of a returned response ---- *)
DisposeResp ==
    /\ pc = "idle"
    /\ \E i \in 1..Len(rof), how \in Disposals :
         /\ rof[i] # 0 /\ resp[rof[i]].live
         /\ LET k == rof[i]
                x == Dispose(World, k, how)
                fullerr == x.w.full /\ cfg.block
                out == IF fullerr /\ x.out # "Interrupt" THEN "FullPoolError" ELSE x.out IN
            /\ queue' = x.w.q /\ conns' = x.w.cn /\ socks' = x.w.sk /\ leases' = x.w.ls
            /\ resp' = [x.w.rs EXCEPT ![k].live = FALSE]
            /\ outs' = Append(outs, [res |-> IF out = "ok" THEN "response" ELSE "raised",
                                     cls |-> IF out = "ok" THEN "none" ELSE ClassOf(out), inj |-> out = "Interrupt"])
            \* dev: names a recorded deviation whose point this step passes through (none is recorded at present)
            /\ hist' = Append(hist, [op |-> "disp", id |-> i, atts |-> <<>>, how |-> how, out |-> out, dials |-> 0,
                                     dev |-> ""])
    /\ UNCHANGED <<cfg, rof, pc, cur, plan, att, ret, err, clean, rel, pend, rcur, nd, inj, ncut>>

(* ---- environment: the server cuts an idle pooled keep-alive connection ---- *)
PooledOpen == SelectSeq(queue, LAMBDA c : c # NONE /\ conns[c].sock # 0)
PeerCut ==
    /\ Cuts /\ pc = "idle" /\ ncut = 0 /\ Len(rof) < MaxReqs
    /\ \E k \in 1..Len(PooledOpen) :
         LET s == conns[PooledOpen[k]].sock IN
         /\ ~socks[s].cut
         /\ socks' = [socks EXCEPT ![s].cut = TRUE]
         /\ hist' = Append(hist, [op |-> "cut", id |-> k, atts |-> <<>>, how |-> "", out |-> "", dials |-> 0, dev |-> ""])
    /\ ncut' = 1
    /\ UNCHANGED <<cfg, queue, conns, resp, rof, pc, cur, plan, att, ret, err, clean, rel, pend, rcur, nd, inj, outs, leases>>

Quiescent == pc \in {"idle", "done"} /\ Live = {}

Finish ==
    /\ pc = "idle" /\ Live = {} /\ Len(rof) = MaxReqs
    /\ pc' = "done"
    /\ UNCHANGED <<cfg, queue, conns, socks, resp, rof, cur, plan, att, ret, err, clean, rel, pend, rcur, nd, inj,
                   outs, hist, ncut, leases>>

Next == StartReq \/ PreFail \/ Sleep \/ GetConn \/ Connect \/ Send \/ Recv \/ Preload \/ Ok \/ Except \/ Finally \/ After
        \/ DisposeResp \/ PeerCut \/ Finish
Spec == Init /\ [][Next]_vars

(* =============================== the property on the Model =============================== *)
OpenSocks == {s \in 1..Len(socks) : socks[s].open}
QSocks    == [i \in 1..Len(queue) |-> IF queue[i] = NONE THEN 0 ELSE conns[queue[i]].sock]

NoDuplicate        == NoDuplicateOn(queue)
SlotsRestored      == Quiescent => SlotsRestoredOn(queue, cfg.n)
NoOrphanSocket     == Quiescent => NoOrphanOn(QSocks, OpenSocks)
BlockBound         == BlockBoundOn(cfg.block, OpenSocks, cfg.n)
SlotsConserved     == SlotsConservedOn(Len(queue), leases, cfg.n, cfg.block)
OnlyUrllib3Errors  == \A i \in 1..Len(outs) : OnlyUrllib3On(outs[i])
InterruptsPropagate == \A i \in 1..Len(outs) : InterruptsOn(outs[i])
\* an interrupt in flight is never replaced: checked while it travels through except/finally
InterruptInFlight  == (pc = "finally" /\ err = "Interrupt") => pend = "Interrupt"
TypeOK == /\ pc \in {"idle", "prefail", "get", "connect", "send", "recv", "preload", "ok", "except", "finally", "after", "sleep", "done"}
          /\ Len(queue) <= cfg.n
          /\ \A i \in 1..Len(queue) : queue[i] \in 0..Len(conns)
=============================================================================
