---------------------------- MODULE HostMatch ----------------------------
(* C08 - certificate name and fingerprint matching accept exactly what the rules allow.        *)
(*                                                                                             *)
(* Two formulations over the same values:                                                      *)
(*   RULES    declarative three-valued reference (RFC 6125 6.4.3 + the property statement):     *)
(*            Strict  (inside it the code MUST accept)                                          *)
(*            Liberal (outside it, or under an absolute rule, the code MUST reject)             *)
(*            in between: Either.                                                              *)
(*   MATCHER  operational transcription of urllib3's _dnsname_match / _ipaddress_match /        *)
(*            match_hostname / connection._match_hostname and of ssl_.assert_fingerprint.       *)
(*            MATCHER is parametrised by a set D of named deviations (D13 "ABORT", D15 "ACECASE")*)
(*            of the code from the design the statement asks for; D = {} is the repaired design, *)
(*            D = KnownDefects the code as it is.                                               *)
(* TLC checks on three small state machines (pairs, lists, pins) that the repaired MATCHER      *)
(* satisfies RULES and that the code-shaped MATCHER leaves RULES exactly on the recorded input  *)
(* classes; it emits the reference sets for replay into the real functions, and HostMatch_Trace *)
(* judges verdicts recorded from the real functions with the very same RULES operators.         *)
(*                                                                                             *)
(* LATITUDE decisions (each justified where the operator is defined): partial wildcards in the  *)
(* left-most label, starred / A-label / trailing-dot reference identities, IP literals with a   *)
(* zone, bracketed literals handed to the raw API (RefKind "other"), SAN lists holding only     *)
(* other types together with a commonName, partial wildcards over an A-label of the HOST.       *)
(*                                                                                             *)
(* A DNS name is a non-empty sequence of labels (what str.split(".") yields); a label is a      *)
(* sequence of one-character symbols; the empty label is <<>>.  "a." is <<a, <<>>>>, the empty  *)
(* string is <<<<>>>>.                                                                          *)
EXTENDS Naturals, Sequences, FiniteSets, TLC

CONSTANTS Labels,         \* label alphabet (set of symbol sequences) for entries and hosts
          MaxLabels,      \* entries have 1..MaxLabels labels
          MaxHostLabels,  \* hosts have 1..MaxHostLabels labels
          KnownDefects,   \* subset of {"ABORT", "ACECASE", "IpComparedAsInteger"}: named deviations kept in MATCHER
          RepEntries, RepHosts, RepCNs,   \* representative typed entries / hosts / CNs (list level)
          MaxSan,         \* SAN lists have 0..MaxSan entries
          FpDepth, FpStride               \* pin perturbation depth, position stride

VARIABLE st
vars == <<st>>

-----------------------------------------------------------------------------
(* Symbols and labels                                                        *)

LowerSym(c) == CASE c = "A" -> "a" [] c = "B" -> "b" [] c = "C" -> "c" [] c = "D" -> "d" [] c = "E" -> "e"
                 [] c = "F" -> "f" [] c = "G" -> "g" [] c = "H" -> "h" [] c = "I" -> "i" [] c = "J" -> "j"
                 [] c = "K" -> "k" [] c = "L" -> "l" [] c = "M" -> "m" [] c = "N" -> "n" [] c = "O" -> "o"
                 [] c = "P" -> "p" [] c = "Q" -> "q" [] c = "R" -> "r" [] c = "S" -> "s" [] c = "T" -> "t"
                 [] c = "U" -> "u" [] c = "V" -> "v" [] c = "W" -> "w" [] c = "X" -> "x" [] c = "Y" -> "y"
                 [] c = "Z" -> "z" [] OTHER -> c
LowerL(l) == [i \in 1..Len(l) |-> LowerSym(l[i])]
LowerN(n) == [i \in 1..Len(n) |-> LowerL(n[i])]
Stars(l) == Cardinality({i \in 1..Len(l) : l[i] = "*"})
StarFree(n) == \A i \in 1..Len(n) : Stars(n[i]) = 0
XN == <<"x", "n", "-", "-">>
HasPrefixXN(l) == Len(l) >= 4 /\ SubSeq(l, 1, 4) = XN            \* str.startswith("xn--") (case-sensitive)
IsALabel(l) == HasPrefixXN(LowerL(l))                            \* RFC 5890 A-label prefix, any case
EmptyName == << <<>> >>

\* glob match of one label: every "*" in p stands for any (possibly empty) dot-free string
RECURSIVE Glob(_, _)
Glob(p, s) == IF p = <<>> THEN s = <<>>
              ELSE IF p[1] = "*" THEN Glob(Tail(p), s) \/ (s # <<>> /\ Glob(p, Tail(s)))
              ELSE s # <<>> /\ LowerSym(p[1]) = LowerSym(s[1]) /\ Glob(Tail(p), Tail(s))

RECURSIVE LabelStr(_)
LabelStr(l) == IF l = <<>> THEN "" ELSE l[1] \o LabelStr(Tail(l))
RECURSIVE NameStr(_)
NameStr(n) == IF Len(n) = 1 THEN LabelStr(n[1]) ELSE LabelStr(n[1]) \o "." \o NameStr(Tail(n))

-----------------------------------------------------------------------------
(* RULES, DNS entry against DNS host                                          *)

EqCI(n, h) == Len(n) = Len(h) /\ \A i \in 1..Len(n) : LowerL(n[i]) = LowerL(h[i])

\* no reading of the entry accepts outside Liberal
Liberal(dn, h) == Len(dn) = Len(h) /\ \A i \in 1..Len(dn) : Glob(dn[i], h[i])

\* exact case-insensitive equality of star-free names, or one whole-label "*" in the left-most
\* position covering exactly one non-empty label that is neither an A-label nor itself starred
Strict(dn, h) ==
    /\ dn # EmptyName
    /\ \/ StarFree(dn) /\ EqCI(dn, h)
       \/ /\ Len(dn) = Len(h) /\ dn[1] = <<"*">> /\ StarFree(Tail(dn)) /\ EqCI(Tail(dn), Tail(h))
          /\ h[1] # <<>> /\ Stars(h[1]) = 0 /\ ~IsALabel(h[1])

\* absolute rules (must reject whatever the bounds say)
TooManyWildcards(dn) == Stars(dn[1]) > 1
WildcardOutsideLeftmost(dn, h) ==          \* a "*" right of the first label acting as a wildcard
    Len(dn) = Len(h) /\ \E i \in 2..Len(dn) : Stars(dn[i]) > 0 /\ LowerL(dn[i]) # LowerL(h[i])
WildcardEmptyLabel(dn, h) == dn[1] = <<"*">> /\ h[1] = <<>>
\* RFC 6125 6.4.3 (3) speaks of the PRESENTED identifier: a wildcard embedded within an A-label of the entry.
\* An A-label is recognised by the ACE prefix "xn--" in any capitalisation (RFC 5890 2.3.1, RFC 3490 5).
\* LATITUDE: a partial wildcard of an ordinary entry label ("*a") covering part of an A-label of the HOST is
\* not named by the RFC or the statement: Either (the code happens to refuse it for a lower-case prefix).
WildcardInALabel(dn, h) ==
    /\ Stars(dn[1]) > 0 /\ dn[1] # <<"*">> /\ IsALabel(dn[1])
    /\ LowerL(dn[1]) # LowerL(h[1])           \* ... and the star acts as a wildcard

DnsRejectClause(dn, h) ==
    IF ~Liberal(dn, h) THEN "OutsideLiberal"
    ELSE IF TooManyWildcards(dn) THEN "TooManyWildcards"
    ELSE IF WildcardOutsideLeftmost(dn, h) THEN "WildcardOutsideLeftmost"
    ELSE IF WildcardEmptyLabel(dn, h) THEN "WildcardEmptyLabel"
    ELSE IF WildcardInALabel(dn, h) THEN "WildcardInALabel"
    ELSE "none"
DnsMustReject(dn, h) == DnsRejectClause(dn, h) # "none"
DnsMustAccept(dn, h) == Strict(dn, h)
DnsClass(dn, h) == IF DnsMustAccept(dn, h) THEN "must" ELSE IF DnsMustReject(dn, h) THEN "mustnot" ELSE "either"

-----------------------------------------------------------------------------
(* MATCHER, _dnsname_match(dn, hostname, max_wildcards=1): "T" / "F" / "ERR"  *)
(* The anchored regex \A p1 \. p2 ... \Z is transcribed label-wise: no        *)
(* fragment pattern can match a dot, so the host must split into as many      *)
(* labels as the entry and each label must match its own fragment.            *)

\* D names the deviations of the code from the design the statement asks for that are kept in MATCHER:
\*   "ACECASE" (D15) the IDN test is str.startswith("xn--"), case-sensitive, so "XN--*" is an ordinary label
\*   "ABORT"   (D13) CertificateError for a multi-wildcard entry leaves the SAN loop (list level)
\*   "IpComparedAsInteger"  NOT a deviation of the code: the plausible simplification int(ip) == int(host_ip) of
\*             the packed comparison; kept as a named action so that TLC shows it leaves RULES (list level)
MaxWildcards == 1
XnTest(l, D) == IF "ACECASE" \in D THEN HasPrefixXN(l) ELSE HasPrefixXN(LowerL(l))
DnsnameMatchD(dn, h, D) ==
    IF dn = EmptyName THEN "F"                                     \* if not dn: return False
    ELSE LET leftmost == dn[1]
             wildcards == Stars(leftmost) IN
         IF wildcards > MaxWildcards THEN "ERR"                    \* raise CertificateError
         ELSE IF wildcards = 0 THEN (IF LowerN(dn) = LowerN(h) THEN "T" ELSE "F")
         ELSE LET first == IF leftmost = <<"*">> THEN h[1] # <<>>                      \* [^.]+
                           ELSE IF XnTest(leftmost, D) \/ XnTest(h[1], D)
                                THEN LowerL(leftmost) = LowerL(h[1])                   \* re.escape(leftmost)
                                ELSE Glob(leftmost, h[1])                              \* "*" -> [^.]*
              IN IF /\ Len(dn) = Len(h) /\ first
                    /\ \A i \in 2..Len(dn) : LowerL(dn[i]) = LowerL(h[i])             \* re.escape(frag), IGNORECASE
                 THEN "T" ELSE "F"
DnsnameMatch(dn, h) == DnsnameMatchD(dn, h, KnownDefects)          \* the code as it is
\* the input class of D15: the repaired matcher refuses, the case-sensitive prefix test alone explains the match
AceCase(dn, h) == DnsnameMatchD(dn, h, {"ACECASE"}) = "T" /\ DnsnameMatchD(dn, h, {}) # "T"

-----------------------------------------------------------------------------
(* Typed entries, hosts, certificates                                         *)
(* entry  [t, n, f, a, sp]: t = "DNS"   n = the dNSName text as labels (it may be the text of an IP address:  *)
(*                                   "10.0.0.1" is <<<<"1","0">>,<<"0">>,<<"0">>,<<"1">>>>)                 *)
(*                       t = "IP"    (f, a) = the address, sp in {"plain","alt","nl"} (spelling of the entry) *)
(*                       t = "OTHER" (email / URI ...: never a match by itself)                             *)
(* host   [k, n, f, a, sp]: n = the text handed to the API as labels, ALWAYS (str.split("."));                 *)
(*                       k = "dns": that text is a name;                                                    *)
(*                       k = "ip":  that text is a literal of the address (f, a) in spelling                *)
(*                                  sp in {"plain","alt","dotted","zoned","brack","brackzoned"}             *)
(* An IP address is a PAIR (f, a): family f in {4, 6} and numeric value id a (equal id <=> equal integer   *)
(* value).  The value set is shared by both families, so (4, a) and (6, a) both occur: 10.0.0.1 and        *)
(* ::a00:1 (= ::10.0.0.1) are the same integer but DIFFERENT addresses (4 octets vs 16 octets, RFC 9110    *)
(* 4.3.5).  Equal address <=> equal family AND equal value.  The harness checks that the text n of an ip   *)
(* host is exactly the literal it passes for (f, a, sp) and that ids and integers agree.                   *)
NoName == <<>>
NoCN == NoName

Bracketed(h) == h.k = "ip" /\ h.sp \in {"brack", "brackzoned"}

\* RULES: what kind of reference identity is the text under the contract of the API it is handed to?
\*   "raw"  = util.ssl_match_hostname.match_hostname: documented to take the bare host; an IP host is a
\*            textual IP address (RFC 4291 / 4007 zone allowed).  The URI brackets of RFC 3986 are not part
\*            of an address, so "[v6]" handed to the raw function is NOT an IP host (and not a hostname
\*            either): kind "other".  LATITUDE: for "other" the statement's IP clauses do not apply; the
\*            text is held only to the DNS reject rules label by label (no reading of an entry accepts
\*            outside Liberal, absolute wildcard rules) and nothing must be accepted.
\*   "wrap" = connection._match_hostname: the function urllib3 itself calls; it owns the bracket
\*            stripping, so every spelling of a literal is an IP host.
RefKind(h, api) == IF h.k = "dns" THEN "dns" ELSE IF Bracketed(h) /\ api = "raw" THEN "other" ELSE "ip"

\* RULES per entry
SameAddress(e, h) == e.f = h.f /\ e.a = h.a          \* "by address value": family AND value
EntryMustAccept(e, h, api) ==
    \/ e.t = "DNS" /\ RefKind(h, api) = "dns" /\ DnsMustAccept(e.n, h.n)
    \/ e.t = "IP" /\ RefKind(h, api) = "ip" /\ SameAddress(e, h)
       /\ h.sp \in {"plain", "alt", "dotted", "brack"}                                              \* zoned: either
EntryRejectClause(e, h, api) ==
    LET k == RefKind(h, api) IN
    IF e.t = "OTHER" THEN "NotAnIdentity"
    ELSE IF e.t = "DNS" /\ k = "ip" THEN "DnsEntryVsIpHost"
    ELSE IF e.t = "IP" /\ k = "dns" THEN "IpEntryVsDnsHost"
    ELSE IF e.t = "IP" /\ e.a # h.a THEN "IpNotByValue"          \* k in {"ip", "other"}
    ELSE IF e.t = "IP" /\ e.f # h.f THEN "IpEntryOtherFamily"    \* same integer, other family: another address
    ELSE IF e.t = "DNS" THEN DnsRejectClause(e.n, h.n)            \* k in {"dns", "other"}
    ELSE "none"                                                   \* IP entry of the same address value
EntryMustReject(e, h, api) == EntryRejectClause(e, h, api) # "none"

\* RULES per certificate [san, cn] with the commonName switch.
\* The commonName may count only when it was enabled and no DNS / IP subjectAltName exists, and it is compared
\* as a DNS name (RFC 6125 6.4.4: a CN-ID has the form of a FQDN and is matched by the rules of 6.4.1-6.4.3
\* against a DNS reference identity), so it never counts for an IP host: that is the statement's "DNS entries
\* against IP hosts" applied to the only other place a DNS comparison is made (RFC 2818 3.1: an IP reference
\* identity is matched by iPAddress subjectAltNames only).  LATITUDE: a SAN list holding only other types
\* (email ...) neither forces the CN in nor out: must-accept via CN needs san = <<>>, must-reject of the CN
\* needs a DNS / IP entry.
SansExist(san) == \E i \in 1..Len(san) : san[i].t \in {"DNS", "IP"}
CnMayCount(c, h, cnOn, api) == cnOn /\ c.cn # NoCN /\ ~SansExist(c.san) /\ RefKind(h, api) # "ip"
ListMustAccept(c, h, cnOn, api) ==
    \/ \E i \in 1..Len(c.san) : EntryMustAccept(c.san[i], h, api)
    \/ cnOn /\ c.cn # NoCN /\ c.san = <<>> /\ RefKind(h, api) = "dns" /\ DnsMustAccept(c.cn, h.n)
ListRejectClause(c, h, cnOn, api) ==
    IF \E i \in 1..Len(c.san) : ~EntryMustReject(c.san[i], h, api) THEN "none"
    ELSE IF CnMayCount(c, h, cnOn, api)
         THEN (IF DnsMustReject(c.cn, h.n) THEN "CommonName" \o DnsRejectClause(c.cn, h.n) ELSE "none")
    ELSE IF c.cn # NoCN /\ SansExist(c.san) THEN "CommonNameWhenSansExist"     \* (every entry must be rejected)
    ELSE IF c.cn # NoCN /\ ~cnOn THEN "CommonNameNotEnabled"
    ELSE IF c.cn # NoCN THEN "CommonNameVsIpHost"
    ELSE IF c.san = <<>> THEN "NoIdentity"
    ELSE EntryRejectClause(c.san[1], h, api)
ListMustReject(c, h, cnOn, api) == ListRejectClause(c, h, cnOn, api) # "none"
ListClass(c, h, cnOn, api) == IF ListMustAccept(c, h, cnOn, api) THEN "must"
                              ELSE IF ListMustReject(c, h, cnOn, api) THEN "mustnot" ELSE "either"

\* the input class of the recorded deviation "ABORT" (D13): a DNS entry with more than one wildcard in its
\* left-most label stands before every entry that must be accepted (CertificateError leaves the loop)
Poisoned(c, h, api) ==
    \E i \in 1..Len(c.san) :
        /\ c.san[i].t = "DNS" /\ TooManyWildcards(c.san[i].n) /\ RefKind(h, api) # "ip"
        /\ \A j \in 1..Len(c.san) : EntryMustAccept(c.san[j], h, api) => j > i

\* MATCHER: match_hostname(cert, hostname, hostname_checks_common_name) behind api.
\* does the code see an IP address?  match_hostname: ipaddress.ip_address after zone stripping;
\* _match_hostname strips the brackets first when the inside is an IP literal
SeenAsIP(h, api) == h.k = "ip" /\ (~Bracketed(h) \/ api = "wrap")
EntryMatchD(e, h, api, D) ==   \* "T" / "F" / "ERR" for one SAN entry inside the loop
    IF e.t = "DNS" THEN (IF SeenAsIP(h, api) THEN "F"                    \* host_ip is None and ...
                         ELSE DnsnameMatchD(e.n, h.n, D))                \* incl. the text "[v6]" handed in raw
    ELSE IF e.t = "IP" THEN (IF /\ SeenAsIP(h, api) /\ e.a = h.a
                                /\ (e.f = h.f \/ "IpComparedAsInteger" \in D)      \* packed: 4 octets never equal 16
                             THEN "T" ELSE "F")
    ELSE "F"
RECURSIVE SanLoopD(_, _, _, _)
SanLoopD(san, h, api, D) ==
    IF san = <<>> THEN "F"
    ELSE LET r == EntryMatchD(san[1], h, api, D) IN
         IF r = "T" THEN "T"
         ELSE IF r = "ERR" /\ "ABORT" \in D THEN "ERR"
         ELSE SanLoopD(Tail(san), h, api, D)
MatcherListD(c, h, cnOn, api, D) ==      \* TRUE = returns, FALSE = CertificateError
    LET r == SanLoopD(c.san, h, api, D) IN
    IF r = "T" THEN TRUE
    ELSE IF r = "ERR" THEN FALSE
    ELSE /\ cnOn /\ ~SeenAsIP(h, api) /\ ~SansExist(c.san) /\ c.cn # NoCN
         /\ DnsnameMatchD(c.cn, h.n, D) = "T"
MatcherList(c, h, cnOn, api) == MatcherListD(c, h, cnOn, api, KnownDefects)       \* the code as it is
ListAceCase(c, h, cnOn, api) == ~MatcherListD(c, h, cnOn, api, {}) /\ MatcherListD(c, h, cnOn, api, {"ACECASE"})

-----------------------------------------------------------------------------
(* Fingerprints.  A pin is a sequence of symbols; Norm is the normalisation  *)
(* the statement prescribes (drop colons, fold case).  Digests are opaque:    *)
(* `dig` maps an algorithm to the symbol sequence of its true hex digest.     *)
(* Abstract pins (stage 1/2) use cells  o O  correct nibble (lower / upper),  *)
(* x X flipped nibble, e E nibble added by extension, ":" colon; concrete     *)
(* pins (stage 4) use hex digits.  The same operators serve both.             *)

Algs == {"md5", "sha1", "sha256"}
LenOf(a) == CASE a = "md5" -> 32 [] a = "sha1" -> 40 [] a = "sha256" -> 64
PinLens == {LenOf(a) : a \in Algs}
AlgOfLen(n) == CHOOSE a \in Algs : LenOf(a) = n
NotColon(c) == c # ":"
Norm(p) == LowerL(SelectSeq(p, NotColon))

\* RULES
FpAccept(p, dig) == LET f == Norm(p) IN Len(f) \in PinLens /\ f = dig[AlgOfLen(Len(f))]
FpRejectClause(p, dig) == LET f == Norm(p) IN
    IF Len(f) \notin PinLens THEN "PinOfOtherLength" ELSE IF f # dig[AlgOfLen(Len(f))] THEN "DigestDiffers" ELSE "none"

\* MATCHER: assert_fingerprint(cert, fingerprint)
FpMatcher(p, dig) ==
    LET f1 == SelectSeq(p, NotColon)            \* fingerprint.replace(":", "")
        f2 == LowerL(f1)                        \* .lower()
        n == Len(f2) IN
    IF n \notin PinLens THEN FALSE              \* digest_length not in HASHFUNC_MAP -> SSLError
    ELSE dig[AlgOfLen(n)] = f2                  \* compare_digest(hashfunc(cert).digest(), unhexlify(f2))

\* abstract digests of a certificate whose pin was derived from algorithm src
AbsDig(src) == [a \in Algs |-> IF a = src THEN [i \in 1..LenOf(a) |-> "o"] ELSE <<"?">>]

FlipCase(c) == CASE c = "o" -> "O" [] c = "O" -> "o" [] c = "x" -> "X" [] c = "X" -> "x"
                 [] c = "e" -> "E" [] c = "E" -> "e" [] OTHER -> c
FlipNibble(c) == CASE c = "o" -> "x" [] c = "O" -> "X" [] OTHER -> c
InsertAt(s, i, c) == SubSeq(s, 1, i) \o <<c>> \o SubSeq(s, i + 1, Len(s))
RECURSIVE ColonPairs(_)
ColonPairs(s) == IF Len(s) <= 2 THEN s ELSE SubSeq(s, 1, 2) \o <<":">> \o ColonPairs(SubSeq(s, 3, Len(s)))
Positions(s) == {i \in 1..Len(s) : i = 1 \/ i = Len(s) \/ i % FpStride = 0}
TruncK == {1, 2, 8, 24, 32}
ExtK == {1, 2, 8, 24, 32}

-----------------------------------------------------------------------------
(* State machine 1 (PairsSpec): the entry is built label by label; in every  *)
(* state the invariants quantify over ALL hosts of the domain.                *)

Hosts == UNION {[1..k -> Labels] : k \in 1..MaxHostLabels}

PairsInit == st = <<>>
PairsNext == Len(st) < MaxLabels /\ \E l \in Labels : st' = Append(st, l)
PairsSpec == PairsInit /\ [][PairsNext]_vars

PairRefWellDefined == st # <<>> => \A h \in Hosts : ~(DnsMustAccept(st, h) /\ DnsMustReject(st, h))
\* the code as it is (KnownDefects); the second one is EXPECTED to fail when "ACECASE" is enabled and the
\* alphabet holds a starred label with a capitalised ACE prefix
PairMatcherAcceptsStrict == st # <<>> => \A h \in Hosts : DnsMustAccept(st, h) => DnsnameMatch(st, h) = "T"
PairMatcherRejectsForbidden == st # <<>> => \A h \in Hosts : DnsMustReject(st, h) => DnsnameMatch(st, h) # "T"
PairErrIffTooMany == st # <<>> => \A h \in Hosts : (DnsnameMatch(st, h) = "ERR") <=> TooManyWildcards(st)
\* the design the statement asks for (no deviation) satisfies RULES ...
PairRepairedWithinRules == st # <<>> => \A h \in Hosts :
    /\ DnsMustAccept(st, h) => DnsnameMatchD(st, h, {}) = "T"
    /\ DnsMustReject(st, h) => DnsnameMatchD(st, h, {}) # "T"
\* ... and the code leaves RULES exactly on the recorded input class
PairDeviatesOnlyAsRecorded == st # <<>> => \A h \in Hosts :
    (DnsMustReject(st, h) /\ DnsnameMatch(st, h) = "T") => AceCase(st, h)

-----------------------------------------------------------------------------
(* State machine 2 (ListsSpec): the SAN list is built entry by entry from the *)
(* representative typed entries; invariants quantify over CN x host x switch x api. *)

ListsInit == st = <<>>
ListsNext == Len(st) < MaxSan /\ \E e \in RepEntries : st' = Append(st, e)
ListsSpec == ListsInit /\ [][ListsNext]_vars

Certs(san) == {[san |-> san, cn |-> c] : c \in RepCNs \cup {NoCN}}
Apis == {"raw", "wrap"}
Quad == RepHosts \X BOOLEAN \X Apis
ListRefWellDefined == \A c \in Certs(st), q \in Quad : ~(ListMustAccept(c, q[1], q[2], q[3]) /\ ListMustReject(c, q[1], q[2], q[3]))
\* the code as it is (KnownDefects): both are EXPECTED to fail when the deviations are enabled
ListRejectsForbidden == \A c \in Certs(st), q \in Quad :
    ListMustReject(c, q[1], q[2], q[3]) => ~MatcherList(c, q[1], q[2], q[3])
ListAcceptsStrict == \A c \in Certs(st), q \in Quad :
    ListMustAccept(c, q[1], q[2], q[3]) => MatcherList(c, q[1], q[2], q[3])
\* the design the statement asks for satisfies RULES ...
ListRepairedWithinRules == \A c \in Certs(st), q \in Quad :
    /\ ListMustReject(c, q[1], q[2], q[3]) => ~MatcherListD(c, q[1], q[2], q[3], {})
    /\ ListMustAccept(c, q[1], q[2], q[3]) => MatcherListD(c, q[1], q[2], q[3], {})
\* ... and the code leaves RULES exactly on the two recorded input classes
ListDeviatesOnlyAsRecorded == \A c \in Certs(st), q \in Quad :
    /\ (ListMustAccept(c, q[1], q[2], q[3]) /\ ~MatcherList(c, q[1], q[2], q[3])) => Poisoned(c, q[1], q[3])
    /\ (ListMustReject(c, q[1], q[2], q[3]) /\ MatcherList(c, q[1], q[2], q[3])) => ListAceCase(c, q[1], q[2], q[3])
\* commonName has no influence when SANs exist or the switch is off, and never for IP hosts
ListCommonNameInert == \A c \in Certs(st), q \in Quad :
    (SansExist(c.san) \/ ~q[2] \/ RefKind(q[1], q[3]) = "ip") =>
        (MatcherList(c, q[1], q[2], q[3]) <=> MatcherList([c EXCEPT !.cn = NoCN], q[1], q[2], q[3]))
\* in the repaired design the first match wins irrespective of the order of the entries
ListOrderIrrelevant == \A c \in Certs(st), q \in Quad :
    Len(st) >= 2 => (MatcherListD(c, q[1], q[2], q[3], {}) <=>
                     MatcherListD([c EXCEPT !.san = Tail(st) \o <<Head(st)>>], q[1], q[2], q[3], {}))

-----------------------------------------------------------------------------
(* State machine 3 (FpSpec): pins obtained from a true digest by perturbation *)

Pin(src, cells, d) == [src |-> src, cells |-> cells, d |-> d]
FpInit == st \in {Pin(a, AbsDig(a)[a], 0) : a \in Algs}
CaseFlip == \E i \in Positions(st.cells) : st' = [st EXCEPT !.cells[i] = FlipCase(@), !.d = @ + 1]
UpperAll == st' = [st EXCEPT !.cells = [i \in 1..Len(@) |-> IF @[i] \in {"o", "x", "e"} THEN FlipCase(@[i]) ELSE @[i]], !.d = @ + 1]
ColonInsert == \E i \in Positions(st.cells) \cup {0} : st' = [st EXCEPT !.cells = InsertAt(@, i, ":"), !.d = @ + 1]
ColonAll == st' = [st EXCEPT !.cells = ColonPairs(SelectSeq(@, NotColon)), !.d = @ + 1]
NibbleFlip == \E i \in Positions(st.cells) : st.cells[i] \in {"o", "O"} /\ st' = [st EXCEPT !.cells[i] = FlipNibble(@), !.d = @ + 1]
Truncate == \E k \in TruncK : k < Len(st.cells) /\ st' = [st EXCEPT !.cells = SubSeq(@, 1, Len(@) - k), !.d = @ + 1]
Extend == \E k \in ExtK : st' = [st EXCEPT !.cells = @ \o [i \in 1..k |-> "e"], !.d = @ + 1]
FpNext == st.d < FpDepth /\ (CaseFlip \/ UpperAll \/ ColonInsert \/ ColonAll \/ NibbleFlip \/ Truncate \/ Extend)
FpSpec == FpInit /\ [][FpNext]_vars
FpView == <<st.src, st.cells>>

FpM(s) == FpMatcher(s.cells, AbsDig(s.src))
FpMatcherIsRules == FpM(st) <=> FpAccept(st.cells, AbsDig(st.src))
FpTrueDigestAccepted == st.d = 0 => FpM(st)
FpOtherLengthRejected == Len(Norm(st.cells)) \notin PinLens => ~FpM(st)
FpWrongNibbleRejected == (\E i \in 1..Len(st.cells) : st.cells[i] \in {"x", "X", "e", "E"}) => ~FpM(st)
FpIntactRightLengthAccepted ==
    ((\A i \in 1..Len(st.cells) : st.cells[i] \in {"o", "O", ":"}) /\ Len(Norm(st.cells)) = LenOf(st.src)) => FpM(st)
FpCaseColonBlind == [][Norm(st'.cells) = Norm(st.cells) => (FpM(st') <=> FpM(st))]_vars

=============================================================================
