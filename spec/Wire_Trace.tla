------------------------------ MODULE Wire_Trace ------------------------------
(* Batch trace validation for C10.  One trace = one call into the real urllib3:                  *)
(*   [req    : the request as given by the caller (symbols, see Wire.tla),                        *)
(*    raised : did the call raise,                                                                *)
(*    wire   : every byte the client wrote (as recorded by the peer), tokenised into symbols,      *)
(*    h2     : for level "h2": the (name, value) pairs held by the connection after putheader]      *)
(* The monitor is total: it prints one VERDICT per trace, computed by Wire!Judge / Wire!H2Judge -     *)
(* the operators the model checker verified - and moves on.                                          *)
EXTENDS Wire, Json, IOUtils, TLCExt

Doc == JsonDeserialize(IOEnv.TRACE_FILE)     \* [host, ua : Seq(Symbol), traces : Seq(trace)]
DocHost == Doc.host
DocUA == Doc.ua
Traces == Doc.traces

VARIABLES tid
TInit == tid = 1

Verdict(t) == IF t.req.level = "h2" THEN H2Judge(t.req.hdrs[1], t.raised, t.h2)
              ELSE Judge(t.req.level, t.req, t.raised, t.wire)
Class(t) == IF t.req.level = "h2" THEN H2Expect(t.req.hdrs[1]) ELSE Expect(t.req.level, t.req)

Why(t) == ReasonTag(IF t.req.level = "h2" THEN H2RefuseReasons(t.req.hdrs[1]) ELSE RefuseReasons(t.req.level, t.req))

\* a two-call trace carries, besides call 1 (req, raised, wire): second = the request of call 2, raised2, wire2 = the bytes
\* written during call 2.  Verdict of call 2 = the per-call clause (Wire!Judge); Which2 = the model whose bytes these are
IsPairTrace(t) == "second" \in DOMAIN t
Hard2(t) == IF IsPairTrace(t) THEN Judge(t.second.level, t.second, t.raised2, t.wire2).hard ELSE "n/a"
Which2(t) == IF ~IsPairTrace(t) THEN "n/a"
             ELSE IF ~t.raised2 /\ t.wire2 = SecondCallWire({}, t.second.level, t.req, t.second) THEN "design"
             ELSE IF ~t.raised2 /\ t.wire2 = SecondCallWire({RRCP, CKRH}, t.second.level, t.req, t.second) THEN "kept-head"
             ELSE "other"

TNext == /\ tid <= Len(Traces)
         /\ LET v == Verdict(Traces[tid]) IN
            \* one plain string per trace (TLC never wraps a string; tuples longer than 80 columns are wrapped)
            PrintT("VERDICT|" \o ToString(tid) \o "|" \o v.hard \o "|" \o (IF v.exact THEN "exact" ELSE "inexact")
                   \o "|" \o Class(Traces[tid]) \o "|" \o Why(Traces[tid]) \o "|" \o Hard2(Traces[tid]) \o "|" \o Which2(Traces[tid]))
         /\ tid' = tid + 1
TSpec == TInit /\ [][TNext]_tid
=============================================================================
