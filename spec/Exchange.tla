------------------------------ MODULE Exchange ------------------------------
(* C03 -- a response only ever contains bytes sent in reply to its own request.                 *)
(*                                                                                              *)
(* Implementation-shaped model of request/response pairing over pooled keep-alive connections   *)
(* (urllib3 HTTPConnectionPool.urlopen + HTTPResponse on top of http.client), one sequential     *)
(* caller.  Two layers over the same variables (DESIGN 1.1):                                     *)
(*                                                                                              *)
(*  Rules   pure operators  OwnHead / OwnBody / CleanAfter / ReuseOK / Urllib3Only (module       *)
(*          ExchangeRules) and the                                                               *)
(*          invariants OnlyOwnBytes, UncleanNeverReused, OnlyUrllib3Errors built from them.      *)
(*          The SAME operators judge recorded traces in Exchange_Trace.tla.                      *)
(*  Model   one action per real step: StartReq, Checkout (probe, discard-if-dropped), Send,      *)
(*          Serve (scripted peer), RecvHead (http.client state machine: a prior unfinished       *)
(*          response => ResponseNotReady), Preload, Return, Fail (ProtocolError -> discard ->    *)
(*          retry / MaxRetryError), ReadBody (read(k)) / ReadAll / StreamStep / Abandon (the     *)
(*          caller stops iterating stream(): GeneratorExit at the yield) / Read1 (read1(big): what *)
(*          the reader holds, else ONE raw read) / Drain / Release / Close / Ignore, Drop (the caller lets go of the response object: IOBase.__del__ ->   *)
(*          close()), ServerStray / ServerSmuggle / ServerEOF (peer activity on the idle         *)
(*          connection before the next checkout), NextReq, Finish.                               *)
(*                                                                                              *)
(* Bytes are abstract *units* tagged with their origin [t, k, r, s, n, i]:                       *)
(*   t  "r" reply to request r | "s" stray garbage | "m" smuggled complete response              *)
(*   k  "head" | "cell" (body unit) | "term" (last-chunk + trailer) | "bhead" (a body unit of    *)
(*      the reply that happens to look like a response head: suspect S4)                         *)
(*   r  request id that caused the peer to write it, s socket, n ordinal of that request on s    *)
(* Per socket the stream is split into kb (in the kernel buffer: visible to the checkout probe)  *)
(* and, per response, rb (already slurped by that response's buffered reader: invisible to the   *)
(* probe and discarded with the reader).  wh is the part of a reply the peer has not written     *)
(* yet (a body tail still in flight); it is written when the next request arrives on s.          *)
EXTENDS ExchangeRules

CONSTANTS MaxSize,      \* pool size (1 | 2)
          Retries,      \* Retry(total=Retries)
          Seg,          \* "slurp": a raw read takes everything the kernel has; "exact": one unit
          NReq,         \* requests in a history
          FullSteps,    \* steps 1..FullSteps choose from the full sets, later ones from the final sets
          Scripts1, Ops1, ScriptsN, OpsN, ScriptsF, OpsF,
          Dev           \* named deviations (subset of Deviations); {} = the code as it is

Deviations == {"NoProbe",            \* _get_conn skips is_connection_dropped / it always says False
               "ProbeEofOnly",       \* is_connected peeks: pending DATA counts as connected, only EOF as dropped
               "ProbeSkipsLeadingCrlf",  \* is_connection_dropped swallows one leading CRLF of the pending bytes and
                                     \* reports the connection alive without looking at what follows
               "NoCloseOnUnclean",   \* _error_catcher does not close the connection on unclean exit
               "NoDiscardOnError",   \* urlopen does not discard the connection after ProtocolError
               "RawNotReady",        \* HTTPException missing from urlopen's except tuple
               "ReleaseKeepsUnread", \* (historical, S4) release_conn pools a connection whose body is unread
               "AbandonedStreamLooksClean",  \* read_chunked: GeneratorExit at the yield closes the http.client
                                     \* response and returns normally instead of an unclean _error_catcher exit
               "Read1AskedIsRead"    \* _raw_read(read1): response closed when the caller ASKED for all that was
                                     \* left (amt >= length_remaining), not only when that much was returned
              }
MaxSock == NReq * (Retries + 1)
Socks == 1..MaxSock
Rids == 1..NReq


(* =========================================================================================== *)
(* MODEL layer                                                                                  *)
(* =========================================================================================== *)
VARIABLES queue, nsock, cli, kb, peof, wh, nrq, prior,      \* pool + sockets
          resp,                                               \* responses
          pc, cur, att, cs, plan, ops,                        \* the caller / urlopen
          arr, probes, outcome, opres, yl, clean,             \* bookkeeping for Rules / emission
          hist
netv == <<queue, nsock, cli, kb, peof, wh, nrq, prior>>
prgv == <<pc, cur, att, cs, plan, ops>>
bkv == <<arr, probes, outcome, opres, yl, clean>>
vars == <<netv, resp, prgv, bkv, hist>>

NoScript == [fr |-> "none", len |-> 0, cut |-> NoCut, ka |-> TRUE, extra |-> "none", after |-> "none",
             late |-> 0, shape |-> "cells", pre |-> "none"]
NoOp == [kind |-> "none", k |-> 0, hold |-> FALSE]
NoResp == [st |-> "none", s |-> 0, conn |-> FALSE, rb |-> <<>>, fr |-> "none", left |-> 0, deliv |-> <<>>,
           tag |-> NoUnit]
NoYield == [set |-> FALSE, first |-> TRUE, prevclean |-> TRUE, kpend |-> FALSE]

Init ==
    /\ queue = [i \in 1..MaxSize |-> 0] /\ nsock = 0
    /\ cli = [s \in Socks |-> "unused"] /\ kb = [s \in Socks |-> <<>>] /\ peof = [s \in Socks |-> FALSE]
    /\ wh = [s \in Socks |-> <<>>] /\ nrq = [s \in Socks |-> 0] /\ prior = [s \in Socks |-> 0]
    /\ resp = [r \in Rids |-> NoResp]
    /\ pc = "start" /\ cur = 0 /\ att = 0 /\ cs = 0
    /\ plan = [r \in Rids |-> NoScript] /\ ops = [r \in Rids |-> NoOp]
    /\ arr = <<>> /\ probes = <<>> /\ outcome = [r \in Rids |-> "none"] /\ opres = [r \in Rids |-> "none"]
    /\ yl = [r \in Rids |-> NoYield] /\ clean = [s \in Socks |-> TRUE]
    /\ hist = <<>>

(* ---- what the scripted peer writes ---- *)
BodyUnits(sc, r, s, n) ==
    IF sc.shape = "http"
    THEN <<U("r", "cell", r, s, n, 0), U("r", "bhead", r, s, n, 0), U("r", "cell", r, s, n, 1), U("r", "cell", r, s, n, 2)>>
    ELSE [j \in 1..sc.len |-> U("r", "cell", r, s, n, j - 1)]
\* unsolicited bytes = PREFIX (nothing | CRLF | CRLF CRLF | SP | lone LF | HTAB) then WHAT (nothing | garbage
\* cells | a partial status line | a complete response); none of it is a reply to anything
Pfx(code, r, s, n) == U("s", "pre", r, s, n, code)
PrefixUnits(pre, r, s, n) ==
    CASE pre = "crlf" -> <<Pfx(1, r, s, n)>> [] pre = "crlfcrlf" -> <<Pfx(1, r, s, n), Pfx(1, r, s, n)>>
      [] pre = "sp" -> <<Pfx(3, r, s, n)>> [] pre = "lf" -> <<Pfx(4, r, s, n)>> [] pre = "htab" -> <<Pfx(5, r, s, n)>>
      [] OTHER -> <<>>
Payload(what, r, s, n) ==
    CASE what = "stray" -> <<U("s", "cell", r, s, n, 0), U("s", "cell", r, s, n, 1)>>
      [] what = "smuggle" -> <<U("m", "head", r, s, n, 0), U("m", "cell", r, s, n, 0), U("m", "cell", r, s, n, 1)>>
      [] what = "partial" -> <<U("s", "partial", r, s, n, 0)>>
      [] OTHER -> <<>>
Unsolicited(what, pre, r, s, n) == IF what = "none" THEN <<>> ELSE PrefixUnits(pre, r, s, n) \o Payload(what, r, s, n)
PeerCloses(sc) == sc.fr \in {"drop", "close"} \/ sc.cut # NoCut \/ ~sc.ka
Framed(sc, r, s, n) ==      \* head + body (+ terminator), before extras
    IF sc.fr = "drop" THEN <<>>
    ELSE <<U("r", "head", r, s, n, 0)>>
         \o (IF sc.fr = "bodyless" THEN <<>>
             ELSE IF sc.cut = NoCut THEN BodyUnits(sc, r, s, n) ELSE SubSeq(BodyUnits(sc, r, s, n), 1, sc.cut))
         \o (IF sc.fr = "chunked" /\ sc.cut = NoCut THEN <<U("r", "term", r, s, n, 0)>> ELSE <<>>)
Late(sc) == IF sc.cut = NoCut THEN sc.late ELSE 0
WrittenNow(sc, r, s, n) ==
    LET f == Framed(sc, r, s, n) IN
    SubSeq(f, 1, Len(f) - Late(sc)) \o (IF PeerCloses(sc) \/ Late(sc) > 0 THEN <<>> ELSE Unsolicited(sc.extra, sc.pre, r, s, n))
WrittenLater(sc, r, s, n) ==
    LET f == Framed(sc, r, s, n) IN SubSeq(f, Len(f) - Late(sc) + 1, Len(f))

(* ---- what the client makes of a head-shaped unit ---- *)
IsHead(u) == u.k \in {"head", "bhead"}
HeadFr(u) == IF u.t = "r" /\ u.k = "head" THEN plan[u.r].fr ELSE "cl"
HeadLeft(u) == IF u.t = "r" /\ u.k = "head" THEN (IF plan[u.r].fr = "bodyless" THEN 0 ELSE plan[u.r].len) ELSE 2
HeadWillClose(u) == u.t = "r" /\ u.k = "head" /\ (plan[u.r].fr = "close" \/ ~plan[u.r].ka)
ChunkShaped(u) == u.t = "r" /\ u.k \in {"cell", "term", "bhead"} /\ plan[u.r].fr = "chunked"

(* ---- buffered reading: reader buffer first, then raw reads from the kernel ---- *)
RECURSIVE Pull(_, _, _, _, _)
Pull(want, rb, k, pe, acc) ==
    IF want = 0 THEN [got |-> acc, rb |-> rb, kb |-> k, stop |-> "ok"]
    ELSE IF rb # <<>> THEN Pull(want - 1, Tail(rb), k, pe, Append(acc, Head(rb)))
    ELSE IF k # <<>> THEN (IF Seg = "slurp" THEN Pull(want, k, <<>>, pe, acc)
                           ELSE Pull(want, <<Head(k)>>, Tail(k), pe, acc))
    ELSE [got |-> acc, rb |-> rb, kb |-> k, stop |-> IF pe THEN "eof" ELSE "block"]

\* http.client _read_chunked(amt) / urllib3 read_chunked: look at the next chunk header first
RECURSIVE PullChunks(_, _, _, _, _)
PullChunks(want, rb, k, pe, acc) ==
    IF want = 0 THEN [got |-> acc, rb |-> rb, kb |-> k, stop |-> "ok"]
    ELSE LET p == Pull(1, rb, k, pe, <<>>) IN
         IF p.stop # "ok" THEN [got |-> acc, rb |-> p.rb, kb |-> p.kb, stop |-> p.stop]
         ELSE LET u == p.got[1] IN
              IF ~ChunkShaped(u) THEN [got |-> acc, rb |-> p.rb, kb |-> p.kb, stop |-> "garbage"]
              ELSE IF u.k = "term" THEN [got |-> acc, rb |-> p.rb, kb |-> p.kb, stop |-> "term"]
              ELSE PullChunks(want - 1, p.rb, p.kb, pe, Append(acc, u))

\* one urllib3 _raw_read(want) / read_chunked step on response record q over kernel k.
\* result: q2 (st, rb, left updated), kb, got, res in {"ok","err"}
ReadStep(q, k, pe, want) ==
    CASE q.st # "open" -> [q |-> q, kb |-> k, got |-> <<>>, res |-> "ok"]
      [] q.fr = "bodyless" -> [q |-> [q EXCEPT !.st = "closed"], kb |-> k, got |-> <<>>, res |-> "ok"]
      [] q.fr = "cl" ->
            LET need == Min(want, q.left)
                p == Pull(need, q.rb, k, pe, <<>>) IN
            IF p.stop = "ok"
            THEN [q |-> [q EXCEPT !.rb = p.rb, !.left = q.left - need,
                                  !.st = IF q.left - need = 0 THEN "closed" ELSE "open"],
                  kb |-> p.kb, got |-> p.got, res |-> "ok"]
            ELSE [q |-> [q EXCEPT !.rb = p.rb, !.st = "closed"], kb |-> p.kb, got |-> <<>>, res |-> "err"]
      [] q.fr = "close" ->
            LET p == Pull(want, q.rb, k, pe, <<>>) IN
            IF p.stop = "ok" THEN [q |-> [q EXCEPT !.rb = p.rb], kb |-> p.kb, got |-> p.got, res |-> "ok"]
            ELSE IF p.stop = "eof" THEN [q |-> [q EXCEPT !.rb = p.rb, !.st = "closed"], kb |-> p.kb, got |-> p.got, res |-> "ok"]
            ELSE [q |-> [q EXCEPT !.rb = p.rb, !.st = "closed"], kb |-> p.kb, got |-> <<>>, res |-> "err"]
      [] q.fr = "chunked" ->
            LET p == PullChunks(want, q.rb, k, pe, <<>>) IN
            IF p.stop = "ok" THEN [q |-> [q EXCEPT !.rb = p.rb], kb |-> p.kb, got |-> p.got, res |-> "ok"]
            ELSE IF p.stop = "term" THEN [q |-> [q EXCEPT !.rb = p.rb, !.st = "closed"], kb |-> p.kb, got |-> p.got, res |-> "ok"]
            ELSE [q |-> [q EXCEPT !.rb = p.rb, !.st = "closed"], kb |-> p.kb, got |-> <<>>, res |-> "err"]

\* one urllib3 read1(big) = _raw_read(big, read1=True): whatever the reader already holds, else ONE raw read
Read1Step(q, k, pe) ==
    CASE q.st # "open" ->
            IF q.st = "closed" /\ q.fr = "cl" /\ q.left > 0                \* closed short of Content-Length
            THEN [q |-> q, kb |-> k, got |-> <<>>, res |-> "err"]           \* -> IncompleteRead
            ELSE [q |-> q, kb |-> k, got |-> <<>>, res |-> "ok"]
      [] q.fr = "bodyless" -> [q |-> [q EXCEPT !.st = "closed"], kb |-> k, got |-> <<>>, res |-> "ok"]
      [] q.fr = "chunked" -> ReadStep(q, k, pe, 1)                           \* _read1_chunked: at most one chunk
      [] OTHER ->
            LET have == q.rb # <<>> \/ k # <<>>
                rb1 == IF q.rb # <<>> THEN q.rb ELSE IF Seg = "slurp" THEN k ELSE <<Head(k)>>
                kb1 == IF q.rb # <<>> THEN k ELSE IF Seg = "slurp" THEN <<>> ELSE Tail(k)
                n == IF q.fr = "cl" THEN Min(q.left, Len(rb1)) ELSE Len(rb1)
                left1 == IF q.fr = "cl" THEN q.left - n ELSE q.left
            IN IF have
               THEN [q |-> [q EXCEPT !.rb = SubSeq(rb1, n + 1, Len(rb1)), !.left = left1,
                                     !.st = IF q.fr = "cl" /\ (left1 = 0 \/ "Read1AskedIsRead" \in Dev)
                                            THEN "closed" ELSE "open"],
                     kb |-> kb1, got |-> SubSeq(rb1, 1, n), res |-> "ok"]
               ELSE IF pe /\ q.fr = "close"
               THEN [q |-> [q EXCEPT !.st = "closed"], kb |-> k, got |-> <<>>, res |-> "ok"]
               ELSE [q |-> [q EXCEPT !.st = "closed"], kb |-> k, got |-> <<>>, res |-> "err"]

(* ---- pool / connection primitives (functions on the net state, composed inside actions) ---- *)
\* conn.close(): the socket goes away, http.client forgets and closes its registered response
CloseIn(st, s) ==
    IF s = 0 THEN st
    ELSE [st EXCEPT !.cli = [@ EXCEPT ![s] = "closed"],
                    !.resp = IF st.prior[s] # 0 THEN [@ EXCEPT ![st.prior[s]].st = "closed"] ELSE @,
                    !.prior = [@ EXCEPT ![s] = 0]]
\* _put_conn(x): x = 0 is None
PutIn(st, x) ==
    IF Len(st.queue) < MaxSize THEN [st EXCEPT !.queue = Append(@, x)]
    ELSE CloseIn(st, x)                                         \* queue.Full -> conn.close()
Cur == [queue |-> queue, cli |-> cli, prior |-> prior, resp |-> resp]
Commit(st) == /\ queue' = st.queue /\ cli' = st.cli /\ prior' = st.prior /\ resp' = st.resp

(* ---- urlopen ---- *)
StepScripts == IF cur + 1 = 1 THEN Scripts1 ELSE IF cur + 1 <= FullSteps THEN ScriptsN ELSE ScriptsF
StepOps == IF cur + 1 = 1 THEN Ops1 ELSE IF cur + 1 <= FullSteps THEN OpsN ELSE OpsF

StartReq ==
    /\ pc = "start" /\ cur < NReq
    /\ \E sc \in StepScripts, op \in StepOps :
          /\ plan' = [plan EXCEPT ![cur + 1] = sc] /\ ops' = [ops EXCEPT ![cur + 1] = op]
    /\ cur' = cur + 1 /\ att' = 0 /\ cs' = 0 /\ pc' = "checkout"
    /\ arr' = <<>> /\ probes' = <<>>
    /\ UNCHANGED <<netv, resp, outcome, opres, yl, clean, hist>>

\* _get_conn: LIFO get (never blocks: block=False), then the dropped-connection probe
Readable(s) == kb[s] # <<>> \/ peof[s]              \* data pending in the kernel buffer, or EOF pending
LeadingCrlf(s) == kb[s] # <<>> /\ Head(kb[s]).k = "pre" /\ Head(kb[s]).i = 1
ProbeDropped(s) == IF "ProbeEofOnly" \in Dev THEN kb[s] = <<>> /\ peof[s]
                   ELSE IF "ProbeSkipsLeadingCrlf" \in Dev /\ LeadingCrlf(s) THEN FALSE
                   ELSE Readable(s)
Checkout ==
    /\ pc = "checkout"
    /\ IF queue = <<>> THEN /\ cs' = 0 /\ UNCHANGED <<queue, cli, prior, resp, probes>>
       ELSE LET item == queue[Len(queue)]
                q2 == [Cur EXCEPT !.queue = SubSeq(queue, 1, Len(queue) - 1)] IN
            IF item = 0 THEN /\ cs' = 0 /\ Commit(q2) /\ UNCHANGED probes
            ELSE IF "NoProbe" \in Dev
                 THEN /\ cs' = (IF cli[item] = "open" THEN item ELSE 0) /\ Commit(q2) /\ UNCHANGED probes
                 ELSE LET dropped == cli[item] # "open" \/ ProbeDropped(item) IN
                      /\ probes' = Append(probes, [s |-> IF cli[item] = "open" THEN item ELSE 0,
                                                   res |-> IF dropped THEN "dropped" ELSE "alive"])
                      /\ IF dropped THEN cs' = 0 /\ Commit(CloseIn(q2, item))
                                    ELSE cs' = item /\ Commit(q2)
    /\ kb' = IF "ProbeSkipsLeadingCrlf" \in Dev /\ "NoProbe" \notin Dev /\ queue # <<>> /\ queue[Len(queue)] # 0
                /\ cli[queue[Len(queue)]] = "open" /\ LeadingCrlf(queue[Len(queue)])
             THEN [kb EXCEPT ![queue[Len(queue)]] = Tail(@)]             \* the CRLF is taken off the wire
             ELSE kb
    /\ pc' = "send"
    /\ UNCHANGED <<nsock, peof, wh, nrq, cur, att, plan, ops, arr, outcome, opres, yl, clean, hist>>

\* conn.request(): connect if needed, putrequest forgets a completed prior response, bytes go out
Send ==
    /\ pc = "send"
    /\ LET s == IF cs = 0 THEN nsock + 1 ELSE cs IN
       /\ cs' = s
       /\ nsock' = IF cs = 0 THEN nsock + 1 ELSE nsock
       /\ cli' = [cli EXCEPT ![s] = "open"]
       /\ prior' = [prior EXCEPT ![s] = IF @ # 0 /\ resp[@].st = "closed" THEN 0 ELSE @]
       /\ pc' = IF peof[s] THEN "recv" ELSE "serve"      \* EPIPE towards a closed peer is swallowed
    /\ UNCHANGED <<queue, kb, peof, wh, nrq, resp, cur, att, plan, ops, bkv, hist>>

\* the scripted peer: flush a withheld tail, then answer per script
Serve ==
    /\ pc = "serve"
    /\ LET s == cs
           n == nrq[s] + 1
           sc == plan[cur] IN
       /\ nrq' = [nrq EXCEPT ![s] = n]
       /\ arr' = Append(arr, [s |-> s, n |-> n, kpend |-> kb[s] # <<>>, prevclean |-> clean[s]])
       /\ clean' = [clean EXCEPT ![s] = FALSE]            \* an exchange is in progress
       /\ kb' = [kb EXCEPT ![s] = @ \o wh[s] \o WrittenNow(sc, cur, s, n)]
       /\ wh' = [wh EXCEPT ![s] = WrittenLater(sc, cur, s, n)]
       /\ peof' = [peof EXCEPT ![s] = PeerCloses(sc)]
    /\ pc' = "recv"
    /\ UNCHANGED <<queue, nsock, cli, prior, resp, cur, att, cs, plan, ops, probes, outcome, opres, yl, hist>>

\* conn.getresponse(): http.client state machine, then a NEW buffered reader parses the head
RecvHead ==
    /\ pc = "recv"
    /\ LET s == cs IN
       IF prior[s] # 0
       THEN /\ pc' = IF "RawNotReady" \in Dev THEN "raw" ELSE "fail"          \* ResponseNotReady
            /\ UNCHANGED <<kb, resp, cli, prior>>
       ELSE LET p == Pull(1, <<>>, kb[s], peof[s], <<>>) IN
            IF p.stop # "ok" \/ ~IsHead(p.got[1])
            THEN /\ pc' = "fail"             \* RemoteDisconnected / timeout / BadStatusLine
                 /\ kb' = [kb EXCEPT ![s] = p.kb] /\ UNCHANGED <<resp, cli, prior>>
            ELSE LET u == p.got[1] IN
                 /\ kb' = [kb EXCEPT ![s] = p.kb]
                 /\ resp' = [resp EXCEPT ![cur] = [st |-> "open", s |-> s, conn |-> FALSE, rb |-> p.rb,
                                                   fr |-> HeadFr(u), left |-> HeadLeft(u), deliv |-> <<>>,
                                                   tag |-> [u EXCEPT !.k = "head"]]]   \* what the client took it for
                 /\ IF HeadWillClose(u) THEN cli' = [cli EXCEPT ![s] = "closed"] /\ UNCHANGED prior
                                        ELSE prior' = [prior EXCEPT ![s] = cur] /\ UNCHANGED cli
                 /\ pc' = IF ops[cur].kind = "preload" THEN "preload" ELSE "return"
    /\ UNCHANGED <<queue, nsock, peof, wh, nrq, cur, att, cs, plan, ops, bkv, hist>>

\* HTTPResponse.__init__(preload_content=True): read() inside getresponse, no _connection yet
Preload ==
    /\ pc = "preload"
    /\ LET s == cs
           x == ReadStep(resp[cur], kb[s], peof[s], ALL) IN
       /\ kb' = [kb EXCEPT ![s] = x.kb]
       /\ resp' = [resp EXCEPT ![cur] = [x.q EXCEPT !.deliv = x.got]]
       /\ pc' = IF x.res = "ok" THEN "return" ELSE "fail"
    /\ UNCHANGED <<queue, nsock, cli, peof, wh, nrq, prior, cur, att, cs, plan, ops, bkv, hist>>

\* clean exit of urlopen: release now (preload) or hand the connection to the response
Return ==
    /\ pc = "return"
    /\ LET s == cs
           y == YieldFacts(arr, resp[cur].tag) IN
       /\ IF ops[cur].kind = "preload" THEN Commit(PutIn(Cur, s))
          ELSE Commit([Cur EXCEPT !.resp = [@ EXCEPT ![cur].conn = TRUE]])
       /\ outcome' = [outcome EXCEPT ![cur] = "response"]
       /\ yl' = [yl EXCEPT ![cur] = [set |-> TRUE, first |-> y.first, prevclean |-> y.prevclean, kpend |-> y.kpend]]
    /\ pc' = "op"
    /\ UNCHANGED <<nsock, kb, peof, wh, nrq, cur, att, cs, plan, ops, arr, probes, opres, clean, hist>>

\* except (HTTPException, OSError, ...) -> ProtocolError; finally: conn.close(), _put_conn(None); retry or MaxRetryError
Fail ==
    /\ pc = "fail"
    /\ LET r0 == [Cur EXCEPT !.resp = [@ EXCEPT ![cur] = [NoResp EXCEPT !.st = "closed"]]]
       IN Commit(IF "NoDiscardOnError" \in Dev THEN PutIn(r0, cs) ELSE PutIn(CloseIn(r0, cs), 0))
    /\ IF att < Retries THEN /\ att' = att + 1 /\ pc' = "checkout" /\ UNCHANGED outcome
                        ELSE /\ outcome' = [outcome EXCEPT ![cur] = "urllib3"] /\ pc' = "next" /\ UNCHANGED att
    /\ cs' = 0
    /\ UNCHANGED <<nsock, kb, peof, wh, nrq, cur, plan, ops, arr, probes, opres, yl, clean, hist>>

\* deviation only: a non-urllib3 exception escapes urlopen
Raw ==
    /\ pc = "raw"
    /\ Commit(PutIn(CloseIn(Cur, cs), 0))
    /\ outcome' = [outcome EXCEPT ![cur] = "raw"] /\ pc' = "next" /\ cs' = 0
    /\ UNCHANGED <<nsock, kb, peof, wh, nrq, cur, att, plan, ops, arr, probes, opres, yl, clean, hist>>

(* ---- the caller's op on the returned response ---- *)
\* exit of _error_catcher after one read step x on response r
AfterRead(r, x) ==
    LET s == resp[r].s
        q1 == [x.q EXCEPT !.deliv = resp[r].deliv \o x.got]
        st0 == [Cur EXCEPT !.resp = [@ EXCEPT ![r] = q1]] IN
    IF x.res = "ok"
    THEN IF q1.st = "closed" /\ q1.conn
         THEN PutIn([st0 EXCEPT !.resp = [@ EXCEPT ![r].conn = FALSE]], s)           \* release_conn()
         ELSE st0
    ELSE IF q1.conn
         THEN PutIn((IF "NoCloseOnUnclean" \in Dev THEN [st0 EXCEPT !.resp = [@ EXCEPT ![r].conn = FALSE]]
                     ELSE CloseIn([st0 EXCEPT !.resp = [@ EXCEPT ![r].conn = FALSE]], s)), s)
         ELSE st0

ReadOp(want, nextpc(_), swallow) ==
    LET r == cur
        s == resp[r].s
        x == ReadStep(resp[r], kb[s], peof[s], want) IN
    /\ kb' = [kb EXCEPT ![s] = x.kb]
    /\ Commit(AfterRead(r, x))
    /\ opres' = [opres EXCEPT ![r] = IF x.res = "ok" \/ swallow THEN "ok" ELSE "urllib3"]
    /\ pc' = nextpc(x)

ToDrop(x) == "drop"
ReadAll == /\ pc = "op" /\ ops[cur].kind = "read" /\ ReadOp(ALL, ToDrop, FALSE)
             /\ UNCHANGED <<nsock, peof, wh, nrq, cur, att, cs, plan, ops, arr, probes, outcome, yl, clean, hist>>
Preloaded == /\ pc = "op" /\ ops[cur].kind = "preload" /\ pc' = "drop"
               /\ opres' = [opres EXCEPT ![cur] = "ok"]
               /\ UNCHANGED <<netv, resp, cur, att, cs, plan, ops, arr, probes, outcome, yl, clean, hist>>
\* drain_conn(): read() with every error swallowed; nothing is delivered
Drain == /\ pc = "op" /\ ops[cur].kind = "drain"
           /\ LET r == cur
                  s == resp[r].s
                  x0 == ReadStep(resp[r], kb[s], peof[s], ALL)
                  x == [x0 EXCEPT !.got = <<>>] IN
              /\ kb' = [kb EXCEPT ![s] = x.kb] /\ Commit(AfterRead(r, x))
              /\ opres' = [opres EXCEPT ![r] = "ok"] /\ pc' = "drop"
           /\ UNCHANGED <<nsock, peof, wh, nrq, cur, att, cs, plan, ops, arr, probes, outcome, yl, clean, hist>>
\* read(k) then release_conn()
ToRelease(x) == IF x.res = "ok" THEN "release" ELSE "drop"
ReadBody == /\ pc = "op" /\ ops[cur].kind = "readk" /\ ReadOp(ops[cur].k, ToRelease, FALSE)
           /\ UNCHANGED <<nsock, peof, wh, nrq, cur, att, cs, plan, ops, arr, probes, outcome, yl, clean, hist>>
\* stream(unit): one read step per iteration until the http.client response is closed; "streamk": the
\* caller takes k pieces and then abandons the generator (break / gen.close() / garbage collection)
ToStream(x) == IF x.res # "ok" THEN "drop"
               ELSE IF x.q.st # "open" THEN (IF ops[cur].kind = "streamk" THEN "release" ELSE "drop")
               ELSE IF ops[cur].kind = "streamk" /\ Len(resp[cur].deliv) + Len(x.got) >= ops[cur].k THEN "abandon"
               ELSE "op"
StreamStep == /\ pc = "op" /\ ops[cur].kind \in {"stream", "streamk"} /\ ReadOp(1, ToStream, FALSE)
              /\ UNCHANGED <<nsock, peof, wh, nrq, cur, att, cs, plan, ops, arr, probes, outcome, yl, clean, hist>>
\* GeneratorExit is thrown at the suspended yield.  read_chunked (chunked framing) is suspended INSIDE
\* _error_catcher: a BaseException is an unclean exit -> the response and the connection are closed.
\* stream() over read(amt) (other framings) is suspended outside any context: nothing happens.
Abandon ==
    /\ pc = "abandon"
    /\ LET r == cur
           s == resp[r].s
           st0 == [Cur EXCEPT !.resp = [@ EXCEPT ![r].st = "closed", ![r].conn = FALSE]] IN
       IF resp[r].fr # "chunked" \/ resp[r].st # "open" THEN UNCHANGED <<queue, cli, prior, resp>>
       ELSE IF ~resp[r].conn THEN Commit(st0)
       ELSE IF "AbandonedStreamLooksClean" \in Dev THEN Commit(PutIn(st0, s))     \* clean exit -> release_conn()
       ELSE Commit(PutIn(CloseIn(st0, s), s))
    /\ pc' = "release"
    /\ UNCHANGED <<nsock, kb, peof, wh, nrq, cur, att, cs, plan, ops, bkv, hist>>
\* read1(big) once then release_conn() / read1(big) in a loop until it returns nothing
ToRead1(x) == IF x.res # "ok" THEN "drop"
              ELSE IF ops[cur].kind = "read1loop" /\ x.got # <<>> THEN "op" ELSE "release"
Read1 ==
    /\ pc = "op" /\ ops[cur].kind \in {"read1", "read1loop"}
    /\ LET r == cur
           s == resp[r].s
           x == Read1Step(resp[r], kb[s], peof[s]) IN
       /\ kb' = [kb EXCEPT ![s] = x.kb]
       /\ Commit(AfterRead(r, x))
       /\ opres' = [opres EXCEPT ![r] = IF x.res = "ok" THEN "ok" ELSE "urllib3"]
       /\ pc' = ToRead1(x)
    /\ UNCHANGED <<nsock, peof, wh, nrq, cur, att, cs, plan, ops, arr, probes, outcome, yl, clean, hist>>
\* release_conn(): a connection whose http.client response is not closed (body not read to the end) is
\* closed before it goes back; otherwise it goes back as it is
Release ==
    /\ \/ pc = "release"
       \/ pc = "op" /\ ops[cur].kind = "release"
    /\ LET r == cur
           s == resp[r].s
           st0 == [Cur EXCEPT !.resp = [@ EXCEPT ![r].conn = FALSE]] IN
       IF resp[r].conn
       THEN IF "ReleaseKeepsUnread" \notin Dev /\ resp[r].st = "open"
            THEN Commit(PutIn(CloseIn(st0, s), s))
            ELSE Commit(PutIn(st0, s))
       ELSE UNCHANGED <<queue, cli, prior, resp>>
    /\ opres' = [opres EXCEPT ![cur] = IF @ = "none" THEN "ok" ELSE @]
    /\ pc' = "drop"
    /\ UNCHANGED <<nsock, kb, peof, wh, nrq, cur, att, cs, plan, ops, arr, probes, outcome, yl, clean, hist>>
\* close(): the reader is closed, the connection is closed and handed back (closed)
Close ==
    /\ pc = "op" /\ ops[cur].kind = "close"
    /\ LET r == cur
           s == resp[r].s
           st0 == [Cur EXCEPT !.resp = [@ EXCEPT ![r].st = "closed", ![r].conn = FALSE]] IN
       IF resp[r].conn THEN Commit(PutIn(CloseIn(st0, s), s)) ELSE Commit(st0)
    /\ opres' = [opres EXCEPT ![cur] = "ok"] /\ pc' = "drop"
    /\ UNCHANGED <<nsock, kb, peof, wh, nrq, cur, att, cs, plan, ops, arr, probes, outcome, yl, clean, hist>>
Ignore ==
    /\ pc = "op" /\ ops[cur].kind = "ignore"
    /\ opres' = [opres EXCEPT ![cur] = "ok"] /\ pc' = "drop"
    /\ UNCHANGED <<netv, resp, cur, att, cs, plan, ops, arr, probes, outcome, yl, clean, hist>>

\* the caller lets go of the response object (unless it keeps a reference): IOBase.__del__ -> close().
\* An http.client response that was still open is closed WITHOUT touching a connection that was
\* already released -- the pooled connection then looks idle to http.client.
Drop ==
    /\ pc = "drop"
    /\ LET r == cur
           s == resp[r].s
           st0 == [Cur EXCEPT !.resp = [@ EXCEPT ![r].st = "closed", ![r].conn = FALSE]] IN
       IF ops[r].hold \/ resp[r].st = "none" THEN UNCHANGED <<queue, cli, prior, resp>>
       ELSE IF resp[r].conn THEN Commit(PutIn(CloseIn(st0, s), s)) ELSE Commit(st0)
    /\ clean' = [clean EXCEPT ![resp[cur].s] = CleanAfter(plan[cur], ops[cur], opres[cur], Seg)
                                               /\ OwnHead(cur, resp[cur].tag)]
    /\ pc' = "after"
    /\ UNCHANGED <<nsock, kb, peof, wh, nrq, cur, att, cs, plan, ops, arr, probes, outcome, opres, yl, hist>>

\* peer activity on the (idle) connection that answered, in a later segment, before the next checkout
PeerTarget == resp[cur].tag.s
ServerStray == /\ pc = "after" /\ plan[cur].after \in {"stray", "smuggle", "partial", "pre"} /\ ~peof[PeerTarget]
               /\ resp[cur].tag.t = "r" /\ resp[cur].tag.k = "head"
               /\ kb' = [kb EXCEPT ![PeerTarget] = @ \o Unsolicited(plan[cur].after, plan[cur].pre, cur, PeerTarget, resp[cur].tag.n)]
               /\ clean' = [clean EXCEPT ![PeerTarget] = FALSE]
               /\ pc' = "next" /\ UNCHANGED <<queue, nsock, cli, peof, wh, nrq, prior, resp, cur, att, cs, plan, ops,
                                              arr, probes, outcome, opres, yl, hist>>
ServerEOF == /\ pc = "after" /\ plan[cur].after = "eof" /\ ~peof[PeerTarget]
             /\ resp[cur].tag.t = "r" /\ resp[cur].tag.k = "head"
             /\ peof' = [peof EXCEPT ![PeerTarget] = TRUE]
             /\ kb' = [kb EXCEPT ![PeerTarget] = @ \o PrefixUnits(plan[cur].pre, cur, PeerTarget, resp[cur].tag.n)]
             /\ clean' = [clean EXCEPT ![PeerTarget] = FALSE]
             /\ pc' = "next" /\ UNCHANGED <<queue, nsock, cli, wh, nrq, prior, resp, cur, att, cs, plan, ops,
                                            arr, probes, outcome, opres, yl, hist>>
NoAfter == /\ pc = "after"
           /\ \/ plan[cur].after = "none" \/ peof[PeerTarget] \/ ~(resp[cur].tag.t = "r" /\ resp[cur].tag.k = "head")
           /\ pc' = "next" /\ UNCHANGED <<netv, resp, cur, att, cs, plan, ops, bkv, hist>>

Obs == [out |-> outcome[cur], att |-> [j \in 1..Len(arr) |-> [s |-> arr[j].s, n |-> arr[j].n, kpend |-> arr[j].kpend]],
        probes |-> probes, tag |-> IF outcome[cur] = "response" THEN resp[cur].tag ELSE NoUnit, res |-> opres[cur], nd |-> Len(resp[cur].deliv),
        dials |-> nsock]
NextReq ==
    /\ pc = "next"
    /\ hist' = Append(hist, [sc |-> plan[cur], op |-> ops[cur], obs |-> Obs])
    /\ pc' = IF cur < NReq THEN "start" ELSE "done"
    /\ UNCHANGED <<netv, resp, cur, att, cs, plan, ops, bkv>>

Finish == pc = "done" /\ pc' = "end" /\ UNCHANGED <<netv, resp, cur, att, cs, plan, ops, bkv, hist>>
Done == pc = "end" /\ UNCHANGED vars

Next == \/ StartReq \/ Checkout \/ Send \/ Serve \/ RecvHead \/ Preload \/ Return \/ Fail \/ Raw
        \/ ReadAll \/ Preloaded \/ Drain \/ ReadBody \/ StreamStep \/ Abandon \/ Read1 \/ Release \/ Close \/ Ignore
        \/ Drop \/ ServerStray \/ ServerEOF \/ NoAfter \/ NextReq \/ Finish \/ Done
Spec == Init /\ [][Next]_vars

(* =========================================================================================== *)
(* Invariants: Model |= Rules                                                                   *)
(* =========================================================================================== *)
TypeOK ==
    /\ Len(queue) <= MaxSize /\ nsock <= MaxSock
    /\ \A i \in 1..Len(queue) : queue[i] \in 0..nsock
    /\ \A r \in Rids : resp[r].st \in {"none", "open", "closed"} /\ outcome[r] \in {"none", "response", "urllib3", "raw"}
    /\ pc \in {"start", "checkout", "send", "serve", "recv", "preload", "return", "fail", "raw", "op", "abandon", "release",
               "drop", "after", "next", "done", "end"}

OnlyOwnBytes ==
    \A r \in Rids : outcome[r] = "response" =>
        /\ OwnHead(r, resp[r].tag)
        /\ OwnBody(r, resp[r].tag, resp[r].deliv, SentFor(plan[r]))

UncleanNeverReused == \A r \in Rids : yl[r].set => ReuseOK(yl[r])

OnlyUrllib3Errors == \A r \in Rids : Urllib3Only(outcome[r]) /\ Urllib3Only(opres[r])

\* extra (not in the statement): an open socket sits in the queue at most once, and never while a
\* response still holds it as its connection
NoDuplicateOpen == \A i, j \in 1..Len(queue) : (i # j /\ queue[i] # 0 /\ cli[queue[i]] = "open") => queue[i] # queue[j]
NotPooledWhileHeld == \A r \in Rids : resp[r].conn => \A i \in 1..Len(queue) : queue[i] # resp[r].s
\* the request is answered on a fresh connection or fails with a urllib3 error -- never hangs half-way
Settles == pc = "end" => \A r \in Rids : outcome[r] \in {"response", "urllib3"}

\* S4 (historical, deviation ReleaseKeepsUnread): every foreign-byte delivery in the class with in-flight tails has this shape:
\* the victim was answered on a reused socket whose previous exchange had a tail in flight and whose
\* response had been released unread/partially read and then dropped by the caller.
S4Shape(r) == \E p \in 1..(r - 1) :
                 /\ plan[p].late > 0 /\ ops[p].kind \in {"readk", "release", "streamk", "read1"} /\ ~ops[p].hold
                 /\ resp[r].s = resp[p].s
OnlyOwnBytesButS4 ==
    \A r \in Rids : outcome[r] = "response" =>
        \/ OwnHead(r, resp[r].tag) /\ OwnBody(r, resp[r].tag, resp[r].deliv, SentFor(plan[r]))
        \/ S4Shape(r)
UncleanNeverReusedButS4 == \A r \in Rids : yl[r].set => (ReuseOK(yl[r]) \/ S4Shape(r))
=============================================================================
