------------------------------- MODULE UrlHistory -------------------------------
(* C15, history class: consecutive requests to different origins through ONE manager, and the      *)
(* fault class "name resolution fails for the dial name".                                           *)
(*                                                                                                  *)
(* MODEL (implementation-shaped): a PoolManager / ProxyManager with manager-level default headers;  *)
(* one action per request.  A request takes its headers from the per-request mapping or, when the   *)
(* caller passes none, from the manager's defaults; ProxyManager._set_proxy_headers adds            *)
(* Host: <netloc> for a forwarded request unless the mapping already has a Host.  HTTPConnection.   *)
(* _new_conn hands (_dns_host, port) to create_connection exactly once.  Two NAMED deviations:      *)
(*   "DefaultHeadersMutated"  _set_proxy_headers fills the mapping it was given IN PLACE - when that *)
(*                            mapping is the manager's (non-empty) default one, the Host of the      *)
(*                            first forwarded URL is stored there and reused by every later request  *)
(*   "RedialStrippedName"     when resolution of a rooted name ("example.com.") fails, _new_conn     *)
(*                            dials the dot-stripped relative name, which a resolver may expand      *)
(*                            through its search list to a different machine                         *)
(*   "KeyStripsTrailingDot"   the pool key drops a trailing dot: "svc.test." and "svc.test" share one pool, built   *)
(*                            from whichever spelling came first, so the other spelling travels over a socket  *)
(*                            dialled to the wrong name (kept alive, or re-dialled with the first spelling)    *)
(* The manager keeps one pool per key; a pool remembers the dial address of its creator and whether it holds  *)
(* an open (kept-alive) connection; the server may close after a reply (environment choice).                  *)
(* RULES: every request of the history is judged by Url!WireClauses on its OWN URL (the same        *)
(* operator the trace monitor uses), and the manager's defaults are unchanged afterwards.            *)
(* Stage 1: with Deviations = {} every invariant holds; with {"DefaultHeadersMutated"} TLC refutes   *)
(* WireHostEveryRequest, with {"RedialStrippedName"} it refutes WireDialHostEveryAttempt.            *)
EXTENDS Url

CONSTANTS Origins,      \* set of URL texts (code points) the caller may request
          MaxReq,       \* length of a history
          Deviations,   \* subset of {"DefaultHeadersMutated", "RedialStrippedName"}
          ProxyText,    \* the proxy's URL (code points)
          PxChoices,    \* subset of {NONE, ProxyText}: manager kinds explored
          PerReqs, Fails, Closes   \* subsets of BOOLEAN: per-request headers / resolution failure / server closes

VARIABLES px,           \* NONE (PoolManager) or ProxyText (ProxyManager)
          defaults0,    \* the manager's default headers as constructed: [nonempty, host]
          defaults,     \* ... as they are now
          hist,         \* observations, one per request (shape of Url!WireClauses' argument)
          pools         \* pool key -> [dial |-> <<host, port>> of its creator, open |-> a kept-alive connection exists]

hvars == <<s, px, defaults0, defaults, hist, pools>>

PxOf(p) == IF p = NONE THEN "none" ELSE "proxy"
\* Url.netloc: host, and the port when it is truthy
NetLoc(R) == WireHost(R.host) \o (IF R.port \in {NOPORT, 0} THEN <<>> ELSE <<COLON>> \o Digits(R.port))
EndsWithDot(h) == h # <<>> /\ h[Len(h)] = DOT

\* the mapping the request's headers come from: a fresh per-request one (no Host) or the defaults
Source(perreq) == IF perreq THEN [nonempty |-> TRUE, host |-> NONE] ELSE defaults
\* Host header actually sent: a Host in the mapping wins (http.client skip_host); otherwise the forwarded
\* request gets the netloc, the direct / tunnelled one what http.client derives from the connection
HostSent(R, W, src) == IF src.host # NONE THEN src.host
                       ELSE IF W.mode = "forward" THEN NetLoc(R) ELSE W.hosthdr
Requests(R, W, src) ==
    (IF W.mode = "tunnel" THEN << [m |-> "CONNECT", t |-> W.connect, hosts |-> <<W.connect>>] >> ELSE <<>>)
    \o << [m |-> "GET", t |-> W.target, hosts |-> <<HostSent(R, W, src)>>] >>

Obs(u, perreq, fail, close, k, dials, carrier, req, snis) ==
    [s |-> u, px |-> px, k |-> k, dials |-> dials, carrier |-> carrier, req |-> req, snis |-> snis, vars |-> <<>>,
     fault |-> fail, u3 |-> TRUE, perreq |-> perreq, closed |-> close]

\* all forwarded requests share the proxy's pool; otherwise (scheme, host, port) - the deviation drops the dot
KeyOf(W) == IF W.mode = "forward" THEN <<"proxy">>
            ELSE <<W.key[1], IF "KeyStripsTrailingDot" \in Deviations THEN StripDots(W.key[2]) ELSE W.key[2], W.key[3]>>

Step(u, perreq, fail0, close, R, W, src, key) ==
    LET exists == key \in DOMAIN pools
        dial == IF exists THEN pools[key].dial ELSE <<W.dialhost, W.dialport>>       \* the pool dials its creator's address
        reuse == exists /\ pools[key].open
        fail == fail0 /\ ~reuse                                                      \* nothing is resolved on reuse
        reqs == IF reuse /\ W.mode = "tunnel" THEN <<Requests(R, W, src)[2]>> ELSE Requests(R, W, src)
        sent == Obs(u, perreq, fail, close, "sent", IF reuse THEN <<>> ELSE <<dial>>, dial, reqs,
                    IF W.sni = NONE \/ reuse THEN <<>> ELSE <<W.sni>>)
        redial == fail /\ "RedialStrippedName" \in Deviations /\ EndsWithDot(dial[1])
    IN
    /\ hist' = Append(hist,
         IF ~fail THEN sent
         ELSE IF redial THEN [sent EXCEPT !.dials = <<dial, <<StripDots(dial[1]), dial[2]>> >>,    \* second attempt succeeds
                                          !.carrier = <<StripDots(dial[1]), dial[2]>>]
              \* the proxy's own name failing to resolve is reported as ProxyError (wrapping the resolution error)
              ELSE Obs(u, perreq, fail, close, IF W.mode = "direct" THEN "NameResolutionError" ELSE "ProxyError",
                       <<dial>>, <<>>, <<>>, <<>>))
    /\ pools' = (key :> [dial |-> dial, open |-> (~fail \/ redial) /\ ~close]) @@ pools
    /\ defaults' = IF "DefaultHeadersMutated" \in Deviations /\ W.mode = "forward" /\ ~perreq
                      /\ defaults.nonempty /\ defaults.host = NONE
                      \* (the mapping is filled before the connection is made: also when resolution then fails)
                   THEN [defaults EXCEPT !.host = NetLoc(R)]
                   ELSE defaults

Request1(u, perreq, fail, close, R, W) == Step(u, perreq, fail, close, R, W, Source(perreq), KeyOf(W))
Request(u, perreq, fail, close) ==
    /\ Len(hist) < MaxReq
    /\ Request1(u, perreq, fail, close, Ref(u), WireOf(Ref(u), PxOf(px), IF px = NONE THEN Ref(<<>>) ELSE Ref(px)))
    /\ UNCHANGED <<s, px, defaults0>>

HInit == /\ s = <<>> /\ px \in PxChoices /\ hist = <<>> /\ pools = <<>>
         /\ defaults0 \in {[nonempty |-> b, host |-> NONE] : b \in BOOLEAN} /\ defaults = defaults0
HNext == \E u \in Origins, perreq \in PerReqs, fail \in Fails, close \in Closes : Request(u, perreq, fail, close)
HSpec == HInit /\ [][HNext]_hvars

-----------------------------------------------------------------------------
(* RULES on the history (earlier requests were judged in the predecessor states)                   *)
Last == hist[Len(hist)]
OriginsDefined == \A u \in Origins : WireDefined(Ref(u))
WireHostEveryRequest == hist # <<>> => "Wire:HostHeader" \notin WireClauses(Last)
WireDialHostEveryAttempt == hist # <<>> => "Wire:DialHost" \notin WireClauses(Last)
EveryRequestConforms == hist # <<>> => WireClauses(Last) = {}
DefaultHeadersUnchanged == defaults = defaults0
\* a resolution failure surfaces as an error and nothing is sent
\* Equivalent consecutive URLs share the kept-alive connection
EquivalentReuse == Len(hist) >= 2 => HistPairSet(hist[Len(hist) - 1], Last) = {}
FaultSurfaces == hist # <<>> /\ Last.fault => Last.k # "sent" /\ Last.req = <<>>
=============================================================================
