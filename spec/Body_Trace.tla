---------------------------- MODULE Body_Trace ----------------------------
(* Batch trace validation for C12 / C13 (code -> spec).                                           *)
(* Every trace is what a caller observed on one REAL urllib3 HTTPResponse: the facts about how    *)
(* the response was built and damaged (known to the harness independently of urllib3), the        *)
(* sequence of API calls with returned length / offset of the returned piece inside the expected  *)
(* bytes (computed by independent stdlib decoding) / exception class, and what the pool did with  *)
(* the connection on the next request.  The monitor is the Rules layer itself (BodyRules.tla:     *)
(* Clause, MonNext, Final -- the operators the model Body.tla is checked against); it is total:   *)
(* every event of every trace is consumed, and one VERDICT line per trace names the first failing *)
(* clause with its event index, the clause failing at the end of the trace (connection reuse) and *)
(* the three-valued class of the response.  Where a cut of a chunked body falls (zone) is decided *)
(* here from the byte layout of the wire, not by the harness.                                     *)
EXTENDS BodyRules, Json, IOUtils, TLC

Traces == JsonDeserialize(IOEnv.TRACE_FILE)

VARIABLES tid, l, m, bad, badl      \* trace index, event index, monitor state, first failing clause and its event
tvars == <<tid, l, m, bad, badl>>

FactsOfTrace(t) ==
    [framing |-> t.facts.framing, strict |-> t.facts.strict, decoding |-> t.facts.decoding, dmg |-> t.facts.dmg,
     zone |-> IF t.facts.dmg = "cut" THEN ZoneOf(t.facts.framing, t.layout, t.cutat) ELSE "none",
     indep |-> t.facts.indep, total |-> t.facts.total, checkbytes |-> t.facts.checkbytes, line |-> t.facts.line]

TInit == tid = 1 /\ l = 1 /\ m = MonInit /\ bad = "ok" /\ badl = 0

\* one line per trace: <<"VERDICT", trace, event index of the first failing clause (0 = none), that clause, the
\* clause failing at the end of the trace (connection / completion), the response class>>
TNext ==
    /\ tid <= Len(Traces)
    /\ LET t == Traces[tid]
           f == FactsOfTrace(t) IN
       IF l > Len(t.events)
       THEN /\ PrintT(<<"VERDICT", tid, badl, bad, IF t.final THEN Final(f, m, t.conn) ELSE "ok",
                        IF MustRaise(f) THEN "must" ELSE IF Intact(f) THEN "intact" ELSE "either">>)
            /\ tid' = tid + 1 /\ l' = 1 /\ m' = MonInit /\ bad' = "ok" /\ badl' = 0
       ELSE LET e == t.events[l]
                c == IF bad = "ok" THEN Clause(f, m, e) ELSE "ok" IN
            /\ l' = l + 1 /\ tid' = tid /\ m' = MonNext(m, e)
            /\ bad' = IF c = "ok" THEN bad ELSE c
            /\ badl' = IF c = "ok" THEN badl ELSE l

TSpec == TInit /\ [][TNext]_tvars
=============================================================================
