---------------------------- MODULE Multipart ----------------------------
(* Reference model of urllib3's multipart/form-data encoder (property C20).                    *)
(*                                                                                             *)
(* Everything is a sequence of SYMBOLS (TLA+ strings).  A symbol stands for a fixed byte        *)
(* string; the harness owns the symbol <-> bytes table (vh/c20.py: SYM).  Three groups:          *)
(*   hostile alphabet  "Q" (double quote) "CR" "LF" "SC" (;) "BS" (backslash) "DA" (-) "a"       *)
(*                     "NA" (a non-ASCII character, two UTF-8 bytes) "PC" (%)                    *)
(*                     + "TXT" (the text .txt, filenames only: drives guess_content_type)        *)
(*                     + "FF" (the byte 0xFF, not UTF-8: bytes values only)                      *)
(*   punctuation       "SP" "EQ" (=) "CO" (:) "0" "2" "A" "D" (the escapes %0A %0D %22) "b" ...  *)
(*   words             "Content-Disposition" "form-data" "name" "filename" "Content-Type"        *)
(*                     "Content-Location" and header values such as "text/plain"                 *)
(* No word can be spelled with hostile symbols, so a symbol sequence determines the bytes and    *)
(* the bytes determine the symbol sequence (longest-match lexing; cross-checked by the harness). *)
(*                                                                                             *)
(* A field is a record                                                                          *)
(*   [form, name, hasfn, fn, ct, loc, kind, data]                                               *)
(* form  "plain" : (name, data)                    -> from_tuples, no filename, no content type  *)
(*       "t2"    : (name, (fn-or-None, data))      -> content type GUESSED from the filename     *)
(*       "t3"    : (name, (fn-or-None, data, ct))  -> explicit content type ("" = none)          *)
(*       "rf"    : RequestField(name, data, filename=fn).make_multipart(content_type=ct,         *)
(*                                                              content_location=loc)            *)
(* kind  "str" | "bytes" (how the value is passed; the encoding does not depend on it).          *)
(*                                                                                             *)
(* Operators:  Escape (WHATWG rule), Encode(fields, boundary), ContentType(boundary), and a      *)
(* strict independent Parse(body, boundary) that never looks at the fields.  Judge compares      *)
(* Parse's answer with what the fields specify and is the single verdict operator used by the    *)
(* stage-1 invariant RoundTrip, and by Multipart_Trace on bodies produced by the real code.      *)
EXTENDS Naturals, Sequences, FiniteSets, TLC

CONSTANTS Boundaries,   \* set of boundaries (non-empty symbol sequences) explored
          MaxFields,    \* longest field list
          FieldPool     \* set of field records the lists are drawn from

VARIABLES b,    \* the boundary in use
          fs    \* the field list built so far

vars == <<b, fs>>

HostileSyms == {"Q", "CR", "LF", "SC", "BS", "DA", "a", "NA", "PC"}
CRLF == <<"CR", "LF">>
Dashes == <<"DA", "DA">>
Forms == {"plain", "t2", "t3", "rf"}
DefaultCT == "application/octet-stream"

-----------------------------------------------------------------------------
(* Generic sequence helpers (index based: TLC copies on Tail)                 *)

At(s, i, t) == /\ i >= 1
               /\ i + Len(t) - 1 <= Len(s)
               /\ \A k \in 1..Len(t) : s[i + k - 1] = t[k]

RECURSIVE FindFrom(_, _, _)     \* first position >= i where t occurs in s, 0 when none
FindFrom(s, i, t) == IF i + Len(t) - 1 > Len(s) THEN 0
                     ELSE IF At(s, i, t) THEN i ELSE FindFrom(s, i + 1, t)

Occurs(t, s) == FindFrom(s, 1, t) # 0

RECURSIVE RunEnd(_, _, _)       \* first position >= i holding a symbol of Stop, Len(s)+1 when none
RunEnd(s, i, Stop) == IF i > Len(s) \/ s[i] \in Stop THEN i ELSE RunEnd(s, i + 1, Stop)

RECURSIVE Flat(_, _)            \* concatenation of ss[i..]
Flat(ss, i) == IF i > Len(ss) THEN <<>> ELSE ss[i] \o Flat(ss, i + 1)

Count(s, c) == Cardinality({i \in 1..Len(s) : s[i] = c})

-----------------------------------------------------------------------------
(* WHATWG escaping of a parameter value: LF, CR and the double quote are      *)
(* percent-encoded, every other symbol is passed through unchanged.           *)

EscSym(c) == CASE c = "LF" -> <<"PC", "0", "A">>
               [] c = "CR" -> <<"PC", "0", "D">>
               [] c = "Q"  -> <<"PC", "2", "2">>
               [] OTHER    -> <<c>>

RECURSIVE EscFrom(_, _)
EscFrom(s, i) == IF i > Len(s) THEN <<>> ELSE EscSym(s[i]) \o EscFrom(s, i + 1)
Escape(s) == EscFrom(s, 1)

RECURSIVE UnescFrom(_, _)
UnescFrom(s, i) ==
    IF i > Len(s) THEN <<>>
    ELSE IF At(s, i, <<"PC", "0", "A">>) THEN <<"LF">> \o UnescFrom(s, i + 3)
    ELSE IF At(s, i, <<"PC", "0", "D">>) THEN <<"CR">> \o UnescFrom(s, i + 3)
    ELSE IF At(s, i, <<"PC", "2", "2">>) THEN <<"Q">> \o UnescFrom(s, i + 3)
    ELSE <<s[i]>> \o UnescFrom(s, i + 1)
Unescape(s) == UnescFrom(s, 1)

-----------------------------------------------------------------------------
(* Encode: exactly what fields.py / filepost.py write                        *)

\* mimetypes.guess_type on our alphabet: an extension exists iff the name ends in ".txt" and
\* something precedes it (a leading-dot name has no extension); a missing/empty filename -> default
Guess(f) == IF f.hasfn /\ Len(f.fn) >= 2 /\ f.fn[Len(f.fn)] = "TXT" THEN "text/plain" ELSE DefaultCT

\* the Content-Type / Content-Location the field specifies ("" = header absent)
EffCT(f) == CASE f.form = "plain" -> ""
              [] f.form = "t2"    -> Guess(f)
              [] OTHER            -> f.ct
EffLoc(f) == IF f.form = "rf" THEN f.loc ELSE ""

\* The layout is parameterised by the escaping function E so that the canary below can ask TLC what
\* happens WITHOUT escaping; the encoder proper is Encode == EncodeW(Escape, ...).
ParamW(E(_), key, v) == <<key, "EQ", "Q">> \o E(v) \o <<"Q">>

\* make_multipart: "form-data" + "; " + 'name="..."' [+ "; " + 'filename="..."']
DispositionW(E(_), f) ==
    <<"Content-Disposition", "CO", "SP", "form-data", "SC", "SP">> \o ParamW(E, "name", f.name)
    \o (IF f.hasfn THEN <<"SC", "SP">> \o ParamW(E, "filename", f.fn) ELSE <<>>)

\* render_headers: Content-Disposition, Content-Type, Content-Location (in this order), blank line
HeadersW(E(_), f) ==
    DispositionW(E, f) \o CRLF
    \o (IF EffCT(f) # "" THEN <<"Content-Type", "CO", "SP", EffCT(f)>> \o CRLF ELSE <<>>)
    \o (IF EffLoc(f) # "" THEN <<"Content-Location", "CO", "SP", EffLoc(f)>> \o CRLF ELSE <<>>)
    \o CRLF

NHeaders(f) == 1 + (IF EffCT(f) # "" THEN 1 ELSE 0) + (IF EffLoc(f) # "" THEN 1 ELSE 0)

\* filepost: "--" B CRLF headers data CRLF per field, then "--" B "--" CRLF
PartW(E(_), f, B) == Dashes \o B \o CRLF \o HeadersW(E, f) \o f.data \o CRLF

EncodeW(E(_), fields, B) ==
    Flat([i \in 1..Len(fields) |-> PartW(E, fields[i], B)], 1) \o Dashes \o B \o Dashes \o CRLF

Disposition(f) == DispositionW(Escape, f)
Headers(f) == HeadersW(Escape, f)
Encode(fields, B) == EncodeW(Escape, fields, B)

ContentType(B) == <<"multipart/form-data", "SC", "SP", "boundary", "EQ">> \o B

-----------------------------------------------------------------------------
(* Strict, independent parser.  Input: body symbols and the boundary only.    *)
(* Grammar accepted (RFC 7578 / 2046 with empty preamble and epilogue):       *)
(*   body  = "--" B ( CRLF part )* "--" CRLF                                   *)
(*   part  = header* CRLF data CRLF "--" B      data = up to the first CRLF "--" B                *)
(*   header= "Content-Disposition:" [SP] "form-data;" [SP] name="v" [";" [SP] filename="v"] CRLF  *)
(*         | "Content-Type:" [SP] value CRLF | "Content-Location:" [SP] value CRLF                *)
(*   v     = every symbol up to the FIRST double quote; CR / LF inside is an error; what follows  *)
(*           the closing quote must be ";" or CRLF, nothing else.  Exactly one Content-Disposition, *)
(*           at most one of the others, any order, no unknown header lines.  Backslash is an      *)
(*           ordinary symbol (WHATWG, not RFC 2616 quoted-pair).                                  *)
(* Result: [ok, why, parts] with parts = <<[name, hasfn, fn, ct, loc, data], ...>>; parameter    *)
(* values are returned as found on the wire (escaped form).                                      *)

Fail(why) == [ok |-> FALSE, why |-> why, parts |-> <<>>]

OptSP(s, i) == IF i <= Len(s) /\ s[i] = "SP" THEN i + 1 ELSE i

ParseParam(s, i, key) ==
    IF ~At(s, i, <<key, "EQ", "Q">>) THEN [ok |-> FALSE, val |-> <<>>, next |-> i]
    ELSE LET j == RunEnd(s, i + 3, {"Q", "CR", "LF"}) IN
         IF j > Len(s) \/ s[j] # "Q" THEN [ok |-> FALSE, val |-> <<>>, next |-> i]
         ELSE [ok |-> TRUE, val |-> SubSeq(s, i + 3, j - 1), next |-> j + 1]

\* i is just behind "Content-Disposition" ":"
ParseDisp(s, i) ==
    LET bad(w) == [ok |-> FALSE, why |-> w, name |-> <<>>, hasfn |-> FALSE, fn |-> <<>>, next |-> i]
        i1 == OptSP(s, i) IN
    IF ~At(s, i1, <<"form-data", "SC">>) THEN bad("disposition-type")
    ELSE LET p == ParseParam(s, OptSP(s, i1 + 2), "name") IN
         IF ~p.ok THEN bad("name-parameter")
         ELSE IF At(s, p.next, CRLF)
              THEN [ok |-> TRUE, why |-> "", name |-> p.val, hasfn |-> FALSE, fn |-> <<>>, next |-> p.next + 2]
         ELSE IF At(s, p.next, <<"SC">>)
              THEN LET q == ParseParam(s, OptSP(s, p.next + 1), "filename") IN
                   IF ~q.ok THEN bad("filename-parameter")
                   ELSE IF At(s, q.next, CRLF)
                        THEN [ok |-> TRUE, why |-> "", name |-> p.val, hasfn |-> TRUE, fn |-> q.val, next |-> q.next + 2]
                   ELSE bad("after-filename-parameter")
         ELSE bad("after-name-parameter")

\* i is just behind "<Header-Name>" ":" of a header with an opaque value
ParseValue(s, i) ==
    LET v0 == OptSP(s, i)
        j == RunEnd(s, v0, {"CR", "LF"}) IN
    IF j = v0 \/ ~At(s, j, CRLF) THEN [ok |-> FALSE, val |-> <<>>, next |-> i]
    ELSE [ok |-> TRUE, val |-> SubSeq(s, v0, j - 1), next |-> j + 2]

NoHdr == [cd |-> FALSE, name |-> <<>>, hasfn |-> FALSE, fn |-> <<>>,
          hasct |-> FALSE, ct |-> <<>>, hasloc |-> FALSE, loc |-> <<>>]

RECURSIVE ParseHeaders(_, _, _)
ParseHeaders(s, i, h) ==
    LET bad(w) == [ok |-> FALSE, why |-> w, h |-> h, next |-> i] IN
    IF At(s, i, CRLF)
    THEN IF h.cd THEN [ok |-> TRUE, why |-> "", h |-> h, next |-> i + 2] ELSE bad("no-content-disposition")
    ELSE IF At(s, i, <<"Content-Disposition", "CO">>)
    THEN IF h.cd THEN bad("duplicate-content-disposition")
         ELSE LET d == ParseDisp(s, i + 2) IN
              IF ~d.ok THEN bad(d.why)
              ELSE ParseHeaders(s, d.next, [h EXCEPT !.cd = TRUE, !.name = d.name, !.hasfn = d.hasfn, !.fn = d.fn])
    ELSE IF At(s, i, <<"Content-Type", "CO">>)
    THEN IF h.hasct THEN bad("duplicate-content-type")
         ELSE LET v == ParseValue(s, i + 2) IN
              IF ~v.ok THEN bad("content-type-value")
              ELSE ParseHeaders(s, v.next, [h EXCEPT !.hasct = TRUE, !.ct = v.val])
    ELSE IF At(s, i, <<"Content-Location", "CO">>)
    THEN IF h.hasloc THEN bad("duplicate-content-location")
         ELSE LET v == ParseValue(s, i + 2) IN
              IF ~v.ok THEN bad("content-location-value")
              ELSE ParseHeaders(s, v.next, [h EXCEPT !.hasloc = TRUE, !.loc = v.val])
    ELSE bad("unknown-header-line")

RECURSIVE AfterDelimiter(_, _, _, _)
RECURSIVE ParsePart(_, _, _, _)

\* k is just behind a delimiter "--" B
AfterDelimiter(s, k, B, acc) ==
    IF At(s, k, CRLF) THEN ParsePart(s, k + 2, B, acc)
    ELSE IF At(s, k, Dashes \o CRLF)
         THEN IF k + 3 = Len(s) THEN [ok |-> TRUE, why |-> "", parts |-> acc] ELSE Fail("epilogue")
    ELSE Fail("after-delimiter")

ParsePart(s, i, B, acc) ==
    LET hd == ParseHeaders(s, i, NoHdr) IN
    IF ~hd.ok THEN Fail(hd.why)
    ELSE LET j == FindFrom(s, hd.next, CRLF \o Dashes \o B) IN
         IF j = 0 THEN Fail("unterminated-part")
         ELSE AfterDelimiter(s, j + 4 + Len(B), B,
                             Append(acc, [name |-> hd.h.name, hasfn |-> hd.h.hasfn, fn |-> hd.h.fn,
                                          ct |-> hd.h.ct, loc |-> hd.h.loc,
                                          data |-> SubSeq(s, hd.next, j - 1)]))

Parse(s, B) == IF ~At(s, 1, Dashes \o B) THEN Fail("no-initial-delimiter")
               ELSE AfterDelimiter(s, 3 + Len(B), B, <<>>)

\* the boundary named by a returned content type (<<>> when the shape is wrong)
NamesABoundary(ct) == At(ct, 1, <<"multipart/form-data", "SC", "SP", "boundary", "EQ">>) /\ Len(ct) > 5
BoundaryOf(ct) == IF NamesABoundary(ct) THEN SubSeq(ct, 6, Len(ct)) ELSE <<>>

-----------------------------------------------------------------------------
(* What the fields specify, and the verdict                                  *)

OneOrNone(x) == IF x = "" THEN <<>> ELSE <<x>>

Expected(fields) == [i \in 1..Len(fields) |->
    [name  |-> Escape(fields[i].name),
     hasfn |-> fields[i].hasfn,
     fn    |-> IF fields[i].hasfn THEN Escape(fields[i].fn) ELSE <<>>,
     ct    |-> OneOrNone(EffCT(fields[i])),
     loc   |-> OneOrNone(EffLoc(fields[i])),
     data  |-> fields[i].data]]

\* the property's precondition: the boundary does not occur in any value
Admissible(fields, B) == \A i \in 1..Len(fields) : ~Occurs(B, fields[i].data)

\* <<position, clause>>: position 0 = whole body, i = part i; clause "ok" or the failing clause
Judge(fields, B, body) ==
    LET p == Parse(body, B)
        e == Expected(fields)
        n == IF Len(p.parts) < Len(e) THEN Len(p.parts) ELSE Len(e)
        badIdx == {i \in 1..n : p.parts[i] # e[i]} IN
    IF ~p.ok THEN <<0, "Parse:" \o p.why>>
    ELSE IF badIdx # {}
    THEN LET i == CHOOSE x \in badIdx : \A y \in badIdx : x <= y IN
         IF p.parts[i].name # e[i].name \/ p.parts[i].hasfn # e[i].hasfn \/ p.parts[i].fn # e[i].fn
            THEN <<i, "Disposition">>
         ELSE IF p.parts[i].ct # e[i].ct \/ p.parts[i].loc # e[i].loc THEN <<i, "PartContentType">>
         ELSE <<i, "Data">>
    ELSE IF Len(p.parts) # Len(e) THEN <<0, "PartCount">>
    ELSE <<0, "ok">>

WellFormedField(f) ==
    /\ f.form \in Forms /\ f.kind \in {"str", "bytes"} /\ f.hasfn \in BOOLEAN
    /\ (~f.hasfn => f.fn = <<>>)
    /\ (f.form = "plain" => ~f.hasfn /\ f.ct = "" /\ f.loc = "")
    /\ (f.form = "t2" => f.ct = "" /\ f.loc = "")
    /\ (f.form = "t3" => f.loc = "")
    /\ (f.kind = "str" => Count(f.data, "FF") = 0)
    /\ Count(f.name, "FF") = 0 /\ Count(f.fn, "FF") = 0

-----------------------------------------------------------------------------
(* The state space: every field list over the pool, every boundary            *)

Init == b \in Boundaries /\ fs = <<>>
Next == /\ Len(fs) < MaxFields
        /\ \E f \in FieldPool : fs' = Append(fs, f)
        /\ UNCHANGED b
Spec == Init /\ [][Next]_vars

TypeOK == /\ b \in Boundaries /\ Len(b) > 0
          /\ Len(fs) <= MaxFields
          /\ \A i \in 1..Len(fs) : WellFormedField(fs[i])

\* The property: the body parses, strictly, into exactly the parts the fields specify
RoundTrip == Admissible(fs, b) => Judge(fs, b, Encode(fs, b)) = <<0, "ok">>

\* ... and the returned content type names the boundary used
ContentTypeNamesBoundary == BoundaryOf(ContentType(b)) = b

\* Escaping: the result has no quote / CR / LF, only those three are rewritten, and on the hostile
\* alphabet (which cannot spell a literal "%22") it is invertible
EscapeSound(x) == /\ Count(Escape(x), "Q") = 0 /\ Count(Escape(x), "CR") = 0 /\ Count(Escape(x), "LF") = 0
                  /\ Len(Escape(x)) = Len(x) + 2 * (Count(x, "Q") + Count(x, "CR") + Count(x, "LF"))
                  /\ ((\A k \in 1..Len(x) : x[k] \in HostileSyms \cup {"TXT"}) => Unescape(Escape(x)) = x)
EscapeIsSound == \A i \in 1..Len(fs) : EscapeSound(fs[i].name) /\ EscapeSound(fs[i].fn)

\* Injection freedom, stated on the encoder's output without using Parse:
\* (1) no field content terminates a parameter: the disposition line has exactly two quotes per parameter
NoParameterTermination == \A i \in 1..Len(fs) :
    Count(Disposition(fs[i]), "Q") = 2 * (IF fs[i].hasfn THEN 2 ELSE 1)
\* (2) no field content adds a header line: the header block has one CR LF per header plus the blank
\*     line and no other CR or LF
NoHeaderInjection == \A i \in 1..Len(fs) :
    LET h == Headers(fs[i])
        crlfs == {k \in 1..(Len(h) - 1) : h[k] = "CR" /\ h[k + 1] = "LF"} IN
    /\ Cardinality(crlfs) = NHeaders(fs[i]) + 1
    /\ Count(h, "CR") = NHeaders(fs[i]) + 1 /\ Count(h, "LF") = NHeaders(fs[i]) + 1
\* (3) no field content opens a part: the body has exactly one delimiter line per field plus the
\*     closing one (a delimiter line = "--" B at the very start or right behind a CR LF)
DelimiterLines(s, B) == {i \in 1..Len(s) : /\ (i = 1 \/ (i >= 3 /\ s[i - 2] = "CR" /\ s[i - 1] = "LF"))
                                           /\ At(s, i, Dashes \o B)}
NoPartOpened == Admissible(fs, b) => Cardinality(DelimiterLines(Encode(fs, b), b)) = Len(fs) + 1

\* Canary (expected to be VIOLATED; the check fails if TLC does not refute it): without escaping the
\* very same layout does not round-trip, i.e. Parse / Judge really detect injected structure.
Identity(x) == x
CanaryUnescapedRoundTrips == Admissible(fs, b) => Judge(fs, b, EncodeW(Identity, fs, b)) = <<0, "ok">>
=============================================================================
