--------------------------- MODULE BodyFraming_Trace ---------------------------
(* Batch trace validation for C11.  One trace = one call into the real urllib3:                   *)
(*   [sc      : the scenario (see BodyFraming.tla),                                                *)
(*    mode    : "sym"  every attempt carries `raw`, the symbols the peer received for it; the spec's  *)
(*                     own parser (Wire!ParseOne via Observe) decides framing and payload               *)
(*              "dig"  every attempt carries the summary made by the peer's framing parser              *)
(*                     (bodies of realistic size: payload mapped back to units by the harness),          *)
(*    atts    : Seq([complete, raw] | summary),  outcome : "resp" | exception class]                     *)
(* Total monitor: one line per trace with the failing clause of Rules (Verdict), the attempt it fails   *)
(* at, the recorded-defect class of that attempt and the deviation set whose model run equals the run.   *)
EXTENDS BodyFraming, Json, IOUtils, TLCExt

Doc == JsonDeserialize(IOEnv.TRACE_FILE)     \* [host, ua : Seq(Symbol), traces : Seq(trace)]
DocHost == Doc.host
DocUA == Doc.ua
Traces == Doc.traces

VARIABLES tid
TInit == tid = 1

Atts(t) == [j \in 1..Len(t.atts) |->
              IF t.mode = "sym" THEN (IF t.atts[j].complete THEN Observe(t.atts[j].raw)
                                      ELSE [Observe(t.atts[j].raw) EXCEPT !.complete = FALSE])
              ELSE t.atts[j]]
\* Which deviation set's model run is the recorded run, and (mode "sym") are the recorded bytes that run's bytes?
\* (each model run is computed at most once: LET definitions are evaluated lazily and cached)
Which(t, atts) ==
    LET raws == [j \in 1..Len(t.atts) |-> t.atts[j].raw]
        p0 == Predict({}, t.sc)
        p3 == Predict({"D3"}, t.sc)
        pc == Predict({CSI}, t.sc)
        Ex(p) == IF t.mode # "sym" THEN "n/a" ELSE IF BytesMatch(p, raws) THEN "exact" ELSE "inexact"
    IN IF Matches(p0, atts, t.outcome) THEN [w |-> "design", e |-> Ex(p0)]
       ELSE IF Matches(p3, atts, t.outcome) THEN [w |-> "D3", e |-> Ex(p3)]
       ELSE IF Matches(pc, atts, t.outcome) THEN [w |-> CSI, e |-> Ex(pc)]
       ELSE [w |-> "neither", e |-> "n/a"]
Class(t, j) == IF j = 0 THEN "-"
               ELSE (IF InClassD3(t.sc, j) THEN "D3" ELSE "") \o (IF InClassCSI(t.sc) THEN CSI ELSE "")

TNext == /\ tid <= Len(Traces)
         /\ LET t == Traces[tid]
                atts == Atts(t)
                v == Verdict(t.sc, atts)
                w == Which(t, atts) IN
            PrintT("VERDICT|" \o ToString(tid) \o "|" \o ToString(v.at) \o "|" \o v.clause \o "|" \o Class(t, v.at)
                   \o "|" \o w.w \o "|" \o w.e)
         /\ tid' = tid + 1
TSpec == TInit /\ [][TNext]_tid
=============================================================================
