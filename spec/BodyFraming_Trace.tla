--------------------------- MODULE BodyFraming_Trace ---------------------------
(* Batch trace validation for C11.  One trace = one call into the real urllib3:                   *)
(*   [sc      : the scenario (see BodyFraming.tla),                                                *)
(*    mode    : "sym"  every attempt carries `raw`, the symbols the peer received for it; the spec's  *)
(*                     own parser (Wire!ParseOne via Observe) decides framing and payload               *)
(*              "dig"  every attempt carries the summary made by the peer's framing parser              *)
(*                     (bodies of realistic size: payload mapped back to units by the harness),          *)
(*    atts    : Seq([complete, raw] | summary),  outcome : "resp" | exception class]                     *)
(* Total monitor: one line per trace with the failing clause of Rules (Verdict), the attempt it fails   *)
(* at, the recorded-defect class of that attempt and the deviation set whose model run equals the run.   *)
EXTENDS BodyFraming, Json, IOUtils, TLCExt

Doc == JsonDeserialize(IOEnv.TRACE_FILE)     \* [host, ua : Seq(Symbol), traces : Seq(trace)]
DocHost == Doc.host
DocUA == Doc.ua
Traces == Doc.traces

VARIABLES tid
TInit == tid = 1

Atts(t) == [j \in 1..Len(t.atts) |->
              IF t.mode = "sym" THEN (IF t.atts[j].complete THEN Observe(t.atts[j].raw)
                                      ELSE [Observe(t.atts[j].raw) EXCEPT !.complete = FALSE])
              ELSE t.atts[j]]
Which(t, atts) == IF SameRun({}, t.sc, atts, t.outcome) THEN "design"
                  ELSE IF SameRun({"D3"}, t.sc, atts, t.outcome) THEN "D3"
                  ELSE IF SameRun({"D4"}, t.sc, atts, t.outcome) THEN "D4"
                  ELSE IF SameRun({"D3", "D4"}, t.sc, atts, t.outcome) THEN "D3+D4"
                  ELSE "neither"
DOf(w) == CASE w = "design" -> {} [] w = "D3" -> {"D3"} [] w = "D4" -> {"D4"} [] w = "D3+D4" -> {"D3", "D4"} [] OTHER -> {}
\* "sym" mode: are the recorded bytes the canonical serialisation of the matching model run?
Exact(t, w) == IF t.mode # "sym" \/ w = "neither" THEN "n/a"
               ELSE IF SameBytes(DOf(w), t.sc, [j \in 1..Len(t.atts) |-> t.atts[j].raw]) THEN "exact" ELSE "inexact"
Class(t, j) == IF j = 0 THEN "-"
               ELSE (IF InClassD3(t.sc, j) THEN "D3" ELSE "") \o (IF InClassD4(t.sc, j) THEN "D4" ELSE "")

TNext == /\ tid <= Len(Traces)
         /\ LET t == Traces[tid]
                atts == Atts(t)
                v == Verdict(t.sc, atts)
                w == Which(t, atts) IN
            PrintT("VERDICT|" \o ToString(tid) \o "|" \o ToString(v.at) \o "|" \o v.clause \o "|" \o Class(t, v.at)
                   \o "|" \o w \o "|" \o Exact(t, w))
         /\ tid' = tid + 1
TSpec == TInit /\ [][TNext]_tid
=============================================================================
