------------------------------ MODULE PoolCache ------------------------------
(* The pool cache of urllib3's PoolManager (property C17, manager clauses).                    *)
(*                                                                                             *)
(* PoolManager.pools is a RecentlyUsedContainer(num_pools) WITHOUT a dispose callback: a pool   *)
(* that is evicted or cleared merely loses the cache's reference.  Whoever still uses it (a      *)
(* response in flight, a response object the caller still holds, a pool handle obtained from      *)
(* connection_from_url, a request that has looked the pool up but not yet sent) keeps it alive;   *)
(* once nothing refers to it the pool's weakref finalizer closes the sockets left in its queue    *)
(* (src/urllib3/connectionpool.py:226-234).                                                      *)
(*                                                                                             *)
(* Model layer - one action per real step of src/urllib3/poolmanager.py:330-354:                 *)
(*   StartReq / StartGoc    pm.request(url, preload_content=...) / pm.connection_from_url(url)    *)
(*   Lock                   with self.pools.lock:                                                *)
(*   Look                   pool = self.pools.get(pool_key)      (a hit refreshes recency)        *)
(*   Create                 pool = self._new_pool(...)                                            *)
(*   Insert                 self.pools[pool_key] = pool          (may evict the LRU pool)          *)
(*   Unlock                 leaving the with-block; connection_from_url returns here             *)
(*   Send                   pool.urlopen: check a connection out (idle one or new), get response  *)
(*   StartHSend             a request made directly on a pool handle the caller kept              *)
(*   Fin / DropR / DropH    caller reads a response to the end (connection goes back to the       *)
(*                          pool's queue, or is discarded when the queue is full) / drops a        *)
(*                          response object / drops a pool handle                                 *)
(*   Clear                  pm.clear()                                                            *)
(*   Gc                     garbage collection: every unreachable pool is finalized                *)
(* The container steps themselves (pop / re-insert / popitem) are LRUConc.tla's business: here a   *)
(* container operation is LRU!GetItem / LRU!SetItem applied atomically under the lock.             *)
(*                                                                                             *)
(* Rules layer - the property: AtMostNumPools, SameKeySamePool (also racing), LRUEvicted,          *)
(* EvictedPoolSocketsClosedWhenUnused, CachedPoolNeverClosed, InFlightResponseFinishes.           *)
(*                                                                                             *)
(* Deviations are NAMED departures from the code, off by default.  Each one makes TLC report one   *)
(* specific rule (stage 1 runs them as a vacuity guard: a rule that no deviation can break would    *)
(* prove nothing) and each corresponds to a mutant of the real code that the harness must catch.   *)
EXTENDS Naturals, Sequences, FiniteSets, TLC

CONSTANTS Origins,      \* pool keys (equal connection parameters <=> equal key; C18 decides that map)
          NumPools,     \* set of num_pools settings
          Threads,      \* thread ids (positive integers)
          MaxOps,       \* operations started per behaviour (bounds every kind of id)
          Modes,        \* subset of {"keep", "read"}: leave the response in flight / preload it
          Deviations,   \* subset of AllDeviations
          EagerGc,      \* TRUE: unreachable pools are finalized before anything else happens (CPython
                        \* reference counting; the granularity at which the harness can observe)
          Emitting      \* TRUE: keep the history of environment choices (scenario emission)

AllDeviations == {"CreateOutsideLock",     \* lookup and insertion in two lock sections        -> SameKeySamePool
                  "CloseOnEvict",          \* dispose callback closes the evicted / cleared pool -> InFlightResponseFinishes
                  "EvictMostRecent",       \* popitem(last=True)                                 -> LRUEvicted
                  "NoRefresh",             \* a cache hit does not refresh recency               -> LRUEvicted
                  "NoEvict",               \* the bound is checked off by one                    -> AtMostNumPools
                  "KeepEvicted",           \* something keeps evicted pools reachable / open      -> EvictedPoolSocketsClosedWhenUnused
                  "CloseWithoutRemoving"}  \* clear() closes the pools but leaves them cached    -> CachedPoolNeverClosed

VARIABLES cache,    \* the manager's LRU map: <<[k |-> key, v |-> pool id], ...>>, least recent first
          np,       \* num_pools
          owner,    \* 0 or the thread owning pools.lock
          th,       \* per thread: pc and locals
          pool,     \* per pool id: [k, st \in {"none","live","gone"}, closed]
          sock,     \* per socket id: [p, role \in {"none","leased","queued","disc"}, open]
          resp,     \* per response id: [p, s, st \in {"none","inflight","done","dropped","failed"}]
          hand,     \* per handle id: pool id the caller holds, or 0
          gen,      \* ghost, per key: how often the key has left the cache
          got,      \* ghost: [k, g, p] of every completed get-or-create
          nops,     \* operations started so far (id allocator)
          hist      \* emission only: the environment's choices with the model's expected observations

vars == <<cache, np, owner, th, pool, sock, resp, hand, gen, got, nops, hist>>
View == <<cache, np, owner, th, pool, sock, resp, hand, gen, got, nops>>

NoLast == [op |-> "init"]
L == INSTANCE LRU WITH Keys <- Origins, Values <- 1..MaxOps, MaxSizes <- NumPools,
                       order <- cache, maxsize <- np, last <- NoLast
NONE == L!NONE
Ids == 1..MaxOps

NoPool == [k |-> NONE, st |-> "none", closed |-> FALSE]
NoSock == [p |-> 0, role |-> "none", open |-> FALSE]
NoResp == [p |-> 0, s |-> 0, st |-> "none"]
IdleTh == [pc |-> "idle", kind |-> NONE, k |-> NONE, p |-> 0, mode |-> NONE, i |-> 0, h |-> 0]

-----------------------------------------------------------------------------
(* Pure helpers, shared by the model's actions, the rules and the trace monitor               *)

CachedPools(c) == {c[i].v : i \in 1..Len(c)}
IsCached(c, p) == p \in CachedPools(c)

\* who still uses pool p (besides the cache)
RespUses(rs, p) == \E r \in Ids : rs[r].p = p /\ rs[r].st \in {"inflight", "done"}
HandUses(hs, p) == \E h \in Ids : hs[h] = p
ThreadUses(ts, p) == \E t \in Threads : ts[t].pc # "idle" /\ ts[t].p = p
Used(rs, hs, ts, p) == RespUses(rs, p) \/ HandUses(hs, p) \/ ThreadUses(ts, p)

\* The pools are created with the default maxsize = 1: the queue of a pool holds at most one
\* connection.  A connection in the queue is normally an open keep-alive socket; it can also be a
\* CLOSED connection object that merely occupies the slot (HTTPResponse.close() / a dropped unread
\* response closes its connection and hands it back, src/urllib3/response.py close()).
Queued(sk, p) == {s \in Ids : sk[s].p = p /\ sk[s].role = "queued"}

\* a connection comes back from a response (_put_conn): kept when the slot is free, closed and
\* discarded when the pool is closed or the slot is taken
ReleaseSock(sk, pl, s) ==
    LET p == sk[s].p IN
    IF pl[p].closed \/ Queued(sk, p) # {}
    THEN [sk EXCEPT ![s].role = "disc", ![s].open = FALSE]
    ELSE [sk EXCEPT ![s].role = "queued"]

\* checkout (_get_conn + the request): the queued connection if there is one - reused when it is
\* open, replaced by a fresh socket (id `fresh`) when it is a closed one - else a fresh socket
Checkout(sk, p, fresh) ==
    LET q == Queued(sk, p) IN
    IF q = {} THEN [s |-> fresh, sock |-> [sk EXCEPT ![fresh] = [p |-> p, role |-> "leased", open |-> TRUE]]]
    ELSE LET x == CHOOSE y \in q : TRUE IN
         IF sk[x].open THEN [s |-> x, sock |-> [sk EXCEPT ![x].role = "leased"]]
         ELSE [s |-> fresh, sock |-> [sk EXCEPT ![x].role = "disc",
                                               ![fresh] = [p |-> p, role |-> "leased", open |-> TRUE]]]

\* pool.close() / the finalizer: the connections waiting in the queue are closed, leased ones are
\* not touched
CloseIdle(sk, ps) == [s \in Ids |-> IF sk[s].p \in ps /\ sk[s].role = "queued"
                                    THEN [sk[s] EXCEPT !.open = FALSE] ELSE sk[s]]

\* pools that garbage collection finalizes now
Garbage(c, pl, rs, hs, ts) == {p \in Ids : pl[p].st = "live" /\ ~IsCached(c, p) /\ ~Used(rs, hs, ts, p)}

\* set of keys that are in c1 but not (with the same pool) in c2
Left(c1, c2) == {k \in Origins : L!Has(c1, k) /\ (~L!Has(c2, k) \/ c2[L!Idx(c2, k)].v # c1[L!Idx(c1, k)].v)}
Bump(g, c1, c2) == [k \in Origins |-> IF k \in Left(c1, c2) THEN g[k] + 1 ELSE g[k]]

OpenSet(sk) == {s \in Ids : sk[s].open}
LiveSet(pl) == {p \in Ids : pl[p].st = "live"}

-----------------------------------------------------------------------------
(* Actions                                                                                    *)

Dev(d) == d \in Deviations
Log(rec) == hist' = IF Emitting THEN Append(hist, rec) ELSE hist
\* one history record: the environment's choice and what the model expects the caller to observe.
\* Evaluated AFTER the action has fixed cache', sock', pool'.
H(op, k, mode, ref, h, p, s, ok) ==
    [op |-> op, k |-> k, mode |-> mode, ref |-> ref, h |-> h, p |-> p, s |-> s, ok |-> ok,
     cached |-> L!KeySet(cache'), n |-> Len(cache'), open |-> OpenSet(sock'), live |-> LiveSet(pool')]

\* with EagerGc the collector runs between two calls of the (sequential) caller, as soon as there
\* is garbage, and nothing else happens before it has run
HasGarbage == Garbage(cache, pool, resp, hand, th) # {}
AllIdle == \A t \in Threads : th[t].pc = "idle"
Go == ~(EagerGc /\ HasGarbage /\ AllIdle)
CanStart(t) == Go /\ th[t].pc = "idle" /\ nops < MaxOps

StartReq(t, k, mode) ==
    /\ CanStart(t)
    /\ nops' = nops + 1
    /\ th' = [th EXCEPT ![t] = [pc |-> "lock", kind |-> "req", k |-> k, p |-> 0, mode |-> mode, i |-> nops + 1, h |-> 0]]
    /\ UNCHANGED <<cache, np, owner, pool, sock, resp, hand, gen, got, hist>>

StartGoc(t, k) ==
    /\ CanStart(t)
    /\ nops' = nops + 1
    /\ th' = [th EXCEPT ![t] = [pc |-> "lock", kind |-> "goc", k |-> k, p |-> 0, mode |-> NONE, i |-> nops + 1, h |-> 0]]
    /\ UNCHANGED <<cache, np, owner, pool, sock, resp, hand, gen, got, hist>>

StartHSend(t, h, mode) ==
    /\ CanStart(t) /\ hand[h] # 0
    /\ nops' = nops + 1
    /\ th' = [th EXCEPT ![t] = [pc |-> "send", kind |-> "hsend", k |-> pool[hand[h]].k, p |-> hand[h],
                                mode |-> mode, i |-> nops + 1, h |-> h]]
    /\ UNCHANGED <<cache, np, owner, pool, sock, resp, hand, gen, got, hist>>

Lock(t) ==
    /\ Go /\ th[t].pc = "lock" /\ owner = 0
    /\ owner' = t
    /\ th' = [th EXCEPT ![t].pc = "look"]
    /\ UNCHANGED <<cache, np, pool, sock, resp, hand, gen, got, nops, hist>>

\* pool = self.pools.get(pool_key); if pool: return pool
Look(t) ==
    /\ Go /\ th[t].pc = "look" /\ owner = t
    /\ LET k == th[t].k IN
       IF L!Has(cache, k)
       THEN /\ cache' = IF Dev("NoRefresh") THEN cache ELSE L!GetItem(cache, k, NONE).order
            /\ th' = [th EXCEPT ![t].pc = "unlock", ![t].p = cache[L!Idx(cache, k)].v]
            /\ UNCHANGED owner
       ELSE /\ cache' = cache
            /\ th' = [th EXCEPT ![t].pc = "create"]
            /\ owner' = IF Dev("CreateOutsideLock") THEN 0 ELSE owner
    /\ UNCHANGED <<np, pool, sock, resp, hand, gen, got, nops, hist>>

\* pool = self._new_pool(scheme, host, port, request_context=request_context)
Create(t) ==
    /\ Go /\ th[t].pc = "create"
    /\ pool' = [pool EXCEPT ![th[t].i] = [k |-> th[t].k, st |-> "live", closed |-> FALSE]]
    /\ th' = [th EXCEPT ![t].pc = "insert", ![t].p = th[t].i]
    /\ UNCHANGED <<cache, np, owner, sock, resp, hand, gen, got, nops, hist>>

\* the container's __setitem__, with the deviations that change which pool goes
SetEffect(c, m, k, p) ==
    IF L!Has(c, k) \/ Len(c) < m THEN L!SetItem(c, m, k, p).order
    ELSE IF Dev("NoEvict") /\ Len(c) = m THEN Append(c, L!Entry(k, p))
    ELSE IF Dev("EvictMostRecent") /\ Len(c) > 0 THEN Append(SubSeq(c, 1, Len(c) - 1), L!Entry(k, p))
    ELSE L!SetItem(c, m, k, p).order

\* self.pools[pool_key] = pool
Insert(t) ==
    /\ Go /\ th[t].pc = "insert"
    /\ IF Dev("CreateOutsideLock") THEN owner = 0 ELSE owner = t
    /\ LET c2 == SetEffect(cache, np, th[t].k, th[t].p)
           out == CachedPools(cache) \ CachedPools(c2) IN
       /\ cache' = c2
       /\ gen' = Bump(gen, cache, c2)
       /\ IF Dev("CloseOnEvict")
          THEN /\ pool' = [p \in Ids |-> IF p \in out THEN [pool[p] EXCEPT !.closed = TRUE] ELSE pool[p]]
               /\ sock' = CloseIdle(sock, out)
          ELSE UNCHANGED <<pool, sock>>
    /\ th' = [th EXCEPT ![t].pc = "unlock"]
    /\ UNCHANGED <<np, owner, resp, hand, got, nops, hist>>

\* leaving `with self.pools.lock:`; connection_from_* returns the pool
Unlock(t) ==
    /\ Go /\ th[t].pc = "unlock"
    /\ IF Dev("CreateOutsideLock") /\ owner # t THEN UNCHANGED owner ELSE (owner = t /\ owner' = 0)
    /\ got' = got \cup {[k |-> th[t].k, g |-> gen[th[t].k], p |-> th[t].p]}
    /\ UNCHANGED <<cache, np, pool, sock, resp, gen, nops>>
    /\ IF th[t].kind = "goc"
       THEN /\ hand' = [hand EXCEPT ![th[t].i] = th[t].p]
            /\ th' = [th EXCEPT ![t] = IdleTh]
            /\ Log(H("goc", th[t].k, NONE, th[t].i, 0, th[t].p, 0, TRUE))
       ELSE /\ th' = [th EXCEPT ![t].pc = "send"]
            /\ UNCHANGED <<hand, hist>>

\* pool.urlopen(...): _get_conn (an idle connection or a new one), the exchange, the response;
\* with preload_content the body is read and the connection released before returning
Send(t) ==
    /\ Go /\ th[t].pc = "send"
    /\ th' = [th EXCEPT ![t] = IdleTh]
    /\ UNCHANGED <<cache, np, owner, pool, hand, gen, got, nops>>
    /\ LET p == th[t].p
           i == th[t].i IN
       IF pool[p].closed
       THEN /\ resp' = [resp EXCEPT ![i] = [p |-> p, s |-> 0, st |-> "failed"]]      \* ClosedPoolError
            /\ UNCHANGED sock
            /\ Log(H(th[t].kind, th[t].k, th[t].mode, i, th[t].h, p, 0, FALSE))
       ELSE LET co == Checkout(sock, p, i)
                s == co.s IN
            /\ IF th[t].mode = "read"
               THEN /\ sock' = ReleaseSock(co.sock, pool, s)
                    /\ resp' = [resp EXCEPT ![i] = [p |-> p, s |-> s, st |-> "done"]]
               ELSE /\ sock' = co.sock
                    /\ resp' = [resp EXCEPT ![i] = [p |-> p, s |-> s, st |-> "inflight"]]
            /\ Log(H(th[t].kind, th[t].k, th[t].mode, i, th[t].h, p, s, TRUE))

\* Reading / dropping is done by some caller thread that is not inside another call.

\* the caller reads an in-flight response to the end: the connection is released
Fin(t, r) ==
    /\ CanStart(t) /\ resp[r].st = "inflight"
    /\ nops' = nops + 1
    /\ resp' = [resp EXCEPT ![r].st = "done"]
    /\ sock' = ReleaseSock(sock, pool, resp[r].s)
    /\ UNCHANGED <<cache, np, owner, th, pool, hand, gen, got>>
    /\ Log(H("fin", NONE, NONE, r, 0, resp[r].p, resp[r].s, sock[resp[r].s].open))

\* the caller drops a response object; an unread one closes its connection and hands it back
DropR(t, r) ==
    /\ CanStart(t) /\ resp[r].st \in {"inflight", "done"}
    /\ nops' = nops + 1
    /\ resp' = [resp EXCEPT ![r].st = "dropped"]
    /\ sock' = IF resp[r].st = "inflight"
               THEN ReleaseSock([sock EXCEPT ![resp[r].s].open = FALSE], pool, resp[r].s) ELSE sock
    /\ UNCHANGED <<cache, np, owner, th, pool, hand, gen, got>>
    /\ Log(H("dropr", NONE, NONE, r, 0, resp[r].p, resp[r].s, TRUE))

DropH(t, h) ==
    /\ CanStart(t) /\ hand[h] # 0
    /\ nops' = nops + 1
    /\ hand' = [hand EXCEPT ![h] = 0]
    /\ UNCHANGED <<cache, np, owner, th, pool, sock, resp, gen, got>>
    /\ Log(H("droph", NONE, NONE, h, h, hand[h], 0, TRUE))

\* pm.clear(): the container's clear() - one lock section
Clear(t) ==
    /\ CanStart(t) /\ owner = 0
    /\ nops' = nops + 1
    /\ cache' = IF Dev("CloseWithoutRemoving") THEN cache ELSE <<>>
    /\ gen' = Bump(gen, cache, cache')
    /\ IF Dev("CloseOnEvict") \/ Dev("CloseWithoutRemoving")
       THEN /\ pool' = [p \in Ids |-> IF IsCached(cache, p) THEN [pool[p] EXCEPT !.closed = TRUE] ELSE pool[p]]
            /\ sock' = CloseIdle(sock, CachedPools(cache))
       ELSE UNCHANGED <<pool, sock>>
    /\ UNCHANGED <<np, owner, th, resp, hand, got>>
    /\ Log(H("clear", NONE, NONE, 0, 0, 0, 0, TRUE))

\* garbage collection: every pool nothing refers to is finalized, its queued sockets closed
GcEffect(c, pl, sk, rs, hs, ts) ==
    LET g == Garbage(c, pl, rs, hs, ts) IN
    [pool |-> [p \in Ids |-> IF p \in g THEN [pl[p] EXCEPT !.st = "gone"] ELSE pl[p]],
     sock |-> IF Dev("KeepEvicted") THEN sk ELSE CloseIdle(sk, g)]

Gc == /\ HasGarbage /\ (EagerGc => AllIdle)
      /\ LET x == GcEffect(cache, pool, sock, resp, hand, th) IN pool' = x.pool /\ sock' = x.sock
      /\ UNCHANGED <<cache, np, owner, th, resp, hand, gen, got, nops>>
      /\ Log(H("gc", NONE, NONE, 0, 0, 0, 0, TRUE))

Init == /\ cache = <<>> /\ np \in NumPools /\ owner = 0
        /\ th = [t \in Threads |-> IdleTh]
        /\ pool = [p \in Ids |-> NoPool] /\ sock = [s \in Ids |-> NoSock] /\ resp = [r \in Ids |-> NoResp]
        /\ hand = [h \in Ids |-> 0]
        /\ gen = [k \in Origins |-> 0] /\ got = {} /\ nops = 0 /\ hist = <<>>

ThreadStep(t) == Lock(t) \/ Look(t) \/ Create(t) \/ Insert(t) \/ Unlock(t) \/ Send(t)
Quiet == \A t \in Threads : th[t].pc = "idle"

Next == \/ \E t \in Threads : \/ \E k \in Origins, m \in Modes : StartReq(t, k, m)
                              \/ \E k \in Origins : StartGoc(t, k)
                              \/ \E h \in Ids, m \in Modes : StartHSend(t, h, m)
                              \/ Clear(t)
                              \/ \E r \in Ids : Fin(t, r) \/ DropR(t, r)
                              \/ \E h \in Ids : DropH(t, h)
                              \/ ThreadStep(t)
        \/ Gc

Spec == Init /\ [][Next]_vars
FairSpec == Spec /\ WF_vars(Gc) /\ \A t \in Threads : WF_vars(ThreadStep(t))

-----------------------------------------------------------------------------
(* Rules: the property                                                                        *)

TypeOK == /\ np \in NumPools /\ owner \in Threads \cup {0} /\ nops \in 0..MaxOps
          /\ \A i \in 1..Len(cache) : cache[i].k \in Origins /\ cache[i].v \in Ids

\* at most num_pools pools, no key twice, no pool twice
AtMostNumPools == /\ Len(cache) <= np
                  /\ \A i, j \in 1..Len(cache) : i # j => cache[i].k # cache[j].k /\ cache[i].v # cache[j].v

\* equal connection parameters => the same pool object, also when racing: two get-or-create
\* results for one key differ only if the key left the cache in between
SameKeySamePool == \A x, y \in got : (x.k = y.k /\ x.g = y.g) => x.p = y.p

\* a key leaves the cache only through clear() or as the least recently used entry of a full
\* cache, and whatever was just looked up or inserted is the most recently used entry
LRUEvicted == [][/\ \A i \in 1..Len(cache) :
                      ~L!Has(cache', cache[i].k) => (cache' = <<>> \/ (i = 1 /\ Len(cache) = np /\ Len(cache') = np))
                 /\ \A t \in Threads : (th[t].pc \in {"look", "insert"} /\ th'[t].pc = "unlock")
                      => (cache' # <<>> /\ cache'[Len(cache')].k = th[t].k)]_vars

\* once nothing uses an evicted / cleared pool and the collector has run, all its sockets are closed
EvictedPoolSocketsClosedWhenUnused ==
    \A p \in Ids : pool[p].st = "gone" => \A s \in Ids : sock[s].p = p => ~sock[s].open
EvictedEventuallyCollected ==
    \A p \in Ids : (pool[p].st = "live" /\ ~IsCached(cache, p) /\ ~Used(resp, hand, th, p))
                      ~> (pool[p].st # "live" \/ Used(resp, hand, th, p))

\* a pool that is still cached is never closed behind the caller's back: it stays usable, and a
\* socket of a cached pool is closed only by an operation on one of that pool's own responses
\* (discarded on release when the queue is full, or its unread response dropped) - never by
\* eviction of another pool, clear(), or the collector
CachedPoolNeverClosed ==
    \A i \in 1..Len(cache) : LET p == cache[i].v IN pool[p].st = "live" /\ ~pool[p].closed
CachedSocketsKept ==
    [][\A s \in Ids : (sock[s].open /\ ~sock'[s].open /\ IsCached(cache', sock[s].p)) => resp' # resp]_vars

\* a request / response in flight is not disturbed by eviction or clear()
InFlightResponseFinishes ==
    \A r \in Ids : /\ resp[r].st # "failed"
                   /\ resp[r].st = "inflight" => (sock[resp[r].s].open /\ sock[resp[r].s].role = "leased")

\* anything still used is alive (the finalizer never runs early)
UsedPoolAlive == \A p \in Ids : (pool[p].st # "none" /\ (IsCached(cache, p) \/ Used(resp, hand, th, p)))
                                   => pool[p].st = "live"
=============================================================================
