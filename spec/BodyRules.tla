----------------------------- MODULE BodyRules -----------------------------
(* C12 / C13 -- the RULES layer: the two properties written over what a caller of a urllib3       *)
(* HTTPResponse can observe, and nothing else.  No variables: every operator is a pure function   *)
(* of (facts about the response, monitor state, one observed event), so the SAME text is used     *)
(*   - by Body.tla      : the implementation-shaped model carries the monitor along and TLC checks *)
(*                        one INVARIANT per clause (stage 1) and emits behaviours (stage 2);       *)
(*   - by Body_Trace.tla: every trace recorded from the real code is judged by Clause / Final      *)
(*                        (stage 4, total monitor naming the failing clause).                      *)
(*                                                                                                 *)
(* An EVENT is one API call as seen by the caller:                                                 *)
(*   op   "read" (amt=None) | "readn" | "read1n" | "read1" (amt=None) | "readinto" | "read0"       *)
(*        | "stream" | "chunked" | "iter" (one next() on the generator) | "data" (preloaded .data) *)
(*   n    the amount (0 when the call has none)                                                    *)
(*   len  number of bytes (model: units) returned                                                  *)
(*   off  offset of the returned piece inside the EXPECTED bytes (decoded payload, or the          *)
(*        transfer-decoded raw body when decode_content=False); -1 when the piece is not a slice   *)
(*        of the expected bytes at all; -2 when len = 0.  The harness computes it by comparing     *)
(*        with an independent stdlib decode, the model from the unit ids it delivers.              *)
(*   err  "" or the class of the exception ("raw:<Class>" for anything outside urllib3's family)   *)
(*   end  the call signalled the NORMAL end of the body: read()/.data returned, a sized read       *)
(*        returned b"", the generator finished                                                     *)
(*                                                                                                 *)
(* FACTS describe the response independently of urllib3 (how it was built / damaged):              *)
(*   framing "cl" | "chunked" | "close";  strict (zstd-like: incompleteness must be an error);     *)
(*   decoding (decode_content=True and a Content-Encoding is present);                             *)
(*   dmg "none" | "cut" | "badsize" | "negsize" | "emptysize" | "junksize" | "corrupt"             *)
(*       | "sizebyte" (one byte of a chunk-size line replaced; `line` says what became of it);     *)
(*   line  verdict of a strict RFC 9112 reading of the damaged chunk-size line (independent of     *)
(*         urllib3 and http.client): "malformed" = not <1*HEXDIG>[;ext]CRLF; "lenient" = only       *)
(*         SP/HTAB around the size or a bare LF terminator (what recipients may tolerate);         *)
(*         "ext" = only the chunk-extension changed (recipients must ignore extensions they do     *)
(*         not know, nobody validates them); "othersize" = well-formed but announcing another      *)
(*         size (the framing contradicts itself further on); "none" otherwise;                     *)
(*   zone  where a cut of a chunked body falls: "body" = at or before the first byte of the        *)
(*         terminating zero-size chunk line, "tail" = inside that line or the trailer;             *)
(*   indep verdict of an INDEPENDENT streaming decoder on the content bytes the framing carries:   *)
(*         "ok" | "incomplete" | "error" | "latererror" (error after a complete first gzip member) *)
(*         | "empty" (no content byte at all);                                                     *)
(*   total length of the expected bytes;  checkbytes (the delivered bytes can be compared).        *)
EXTENDS Integers, Sequences, FiniteSets

SizedOps  == {"readn", "readinto", "read1n"}   \* return at most n
ExactOps  == {"readn", "readinto"}             \* return exactly n unless the body ends
GenOps    == {"stream", "chunked", "iter"}
ChunkDamages == {"badsize", "negsize", "emptysize", "junksize"}
\* the statement names ProtocolError, IncompleteRead, DecodeError; InvalidChunkLength / IncompleteRead are
\* ProtocolError subclasses, and DESIGN 4/C13 accepts the whole urllib3 HTTPError family
AcceptErrors == {"ProtocolError", "IncompleteRead", "InvalidChunkLength", "DecodeError", "ReadTimeoutError", "HTTPError"}

(* ------------------------------------------------------------------------------------------ *)
(* Three-valued classification of a response (C13).  MustRaise: the statement demands an error  *)
(* from every read API.  Intact: nothing is wrong, every C12 clause applies.  Anything else is  *)
(* EITHER (latitude, DESIGN 4/C13): cuts inside the last-chunk line / trailer, close-delimited   *)
(* bodies whose coding cannot tell, truncated gzip/deflate whose framing completed, garbage      *)
(* after a complete first gzip member, corruptions the independent decoder accepts.              *)
MustRaise(f) ==
    \/ f.dmg = "cut" /\ f.framing = "cl"                            \* short of Content-Length
    \/ f.dmg = "cut" /\ f.framing = "chunked" /\ f.zone = "body"    \* inside a chunk / before the terminating chunk
    \/ f.dmg \in ChunkDamages                                       \* malformed chunk-size line
    \/ f.dmg = "sizebyte" /\ f.line = "malformed"                   \* ... found by single-byte corruption
    \/ f.decoding /\ f.indep = "error"                              \* undecodable compressed stream
    \/ f.decoding /\ f.strict /\ f.indep = "incomplete"             \* zstd: incomplete

Intact(f) == f.dmg = "none" /\ (f.indep = "ok" \/ ~f.decoding)
Either(f) == ~MustRaise(f) /\ ~Intact(f)

\* which C13 clause a missing error belongs to
RaiseClause(f) == IF f.dmg = "cut" /\ f.framing # "close" THEN "CutNeverComplete"
                  ELSE IF f.dmg \in ChunkDamages \cup {"sizebyte"} THEN "MalformedChunkRaises"
                  ELSE "UndecodableRaises"

(* Where does a cut after `at` body bytes fall?  layout = sequence of <<kind, start, end>> of    *)
(* the chunked wire body (kinds size/data/crlf/last/trailer, as produced by the generator).      *)
LastStart(layout) == LET I == {i \in 1..Len(layout) : layout[i][1] = "last"} IN
                     IF I = {} THEN -1 ELSE layout[CHOOSE i \in I : TRUE][2]
ZoneOf(framing, layout, at) ==
    IF framing # "chunked" THEN "none"
    ELSE IF at <= LastStart(layout) THEN "body" ELSE "tail"

(* ------------------------------------------------------------------------------------------ *)
(* The monitor.  pos = bytes delivered so far (they were all in order), ended = some call has    *)
(* signalled the normal end, failed = some call has raised.                                      *)
MonInit == [pos |-> 0, ended |-> FALSE, failed |-> FALSE]

MonNext(m, e) ==
    [pos    |-> IF e.err = "" THEN m.pos + e.len ELSE m.pos,
     ended  |-> m.ended \/ (e.err = "" /\ e.end),
     failed |-> m.failed \/ e.err # ""]

\* The clause violated by event e in monitor state m, or "ok".  Total: defined for every event.
Clause(f, m, e) ==
    IF m.failed THEN "ok"                                  \* after the first exception the response is dead
    ELSE IF e.err # "" THEN
         IF Intact(f) THEN (IF m.ended THEN "EmptyAfterEnd" ELSE "IntactNeverRaises")
         ELSE IF e.err \notin AcceptErrors
              THEN (IF MustRaise(f) THEN RaiseClause(f)
                    ELSE IF f.line = "othersize" THEN "ok"      \* a well-formed line announcing another (any) size:
                                                                \* what follows is not this property's business
                    ELSE "OnlyUrllib3Errors")
         ELSE "ok"
    ELSE IF m.ended /\ e.len > 0 THEN "EmptyAfterEnd"      \* reads after the end return b""
    ELSE IF e.len > 0 /\ f.checkbytes /\ e.off # m.pos THEN "InOrderNoLossNoDup"
    ELSE IF e.op \in SizedOps /\ e.len > e.n THEN "ReadNShortOnlyAtEnd"
    ELSE IF e.op \in ExactOps /\ Intact(f) /\ e.len < e.n /\ m.pos + e.len # f.total THEN "ReadNShortOnlyAtEnd"
    ELSE IF e.op = "read0" /\ e.len # 0 THEN "ReadNShortOnlyAtEnd"
    ELSE IF e.op \in GenOps /\ ~e.end /\ e.len = 0 THEN "NoEmptyStreamPiece"
    ELSE IF e.op = "data" /\ Intact(f) /\ (m.pos # 0 \/ e.len # f.total) THEN "PreloadEqual"
    ELSE IF e.end /\ MustRaise(f) THEN RaiseClause(f)      \* a normal end where an error is owed
    ELSE IF e.end /\ Intact(f) /\ m.pos + e.len # f.total THEN "InOrderNoLossNoDup"   \* end signalled, bytes missing
    ELSE "ok"

(* End of a trace that the driver has run to completion (some call ended or raised), followed by *)
(* dropping the response and issuing a second request on the same pool.                          *)
(* c.second = which socket served the second request ("same" | "new" | "none"), c.firstopen =    *)
(* the first socket is still open afterwards (ground truth taken at the peer).                   *)
Final(f, m, c) ==
    IF ~m.failed /\ ~m.ended THEN "NotDriven"              \* harness problem, never a verdict on urllib3
    ELSE IF m.failed /\ ~Intact(f) /\ (c.second = "same" \/ c.firstopen) THEN "ConnNotReused"
    ELSE "ok"

C12Clauses == {"InOrderNoLossNoDup", "ReadNShortOnlyAtEnd", "NoEmptyStreamPiece", "EmptyAfterEnd", "PreloadEqual",
               "IntactNeverRaises"}
C13Clauses == {"CutNeverComplete", "MalformedChunkRaises", "UndecodableRaises", "ConnNotReused", "OnlyUrllib3Errors"}
=============================================================================
