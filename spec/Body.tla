------------------------------- MODULE Body -------------------------------
(* C12 "every way of reading a response yields the same bytes"                                    *)
(* C13 "a cut-off or corrupt response is never presented as complete"                             *)
(*                                                                                                 *)
(* MODEL layer: urllib3.response.HTTPResponse body reading (src/urllib3/response.py) on top of     *)
(* http.client's framing reader, one operator per real function, one action per API call.         *)
(* The property itself is in BodyRules.tla; this model carries the Rules monitor along (variable   *)
(* mon) so that TLC checks `Model |= Rules` clause by clause.                                      *)
(*                                                                                                 *)
(* Abstractions                                                                                    *)
(*  - The decoded payload is the sequence of unit ids 1..L.  The ENCODED stream sc.enc is a        *)
(*    sequence over {"d","t"}: a "d" carries one decoded unit, a "t" closes a gzip member / zstd    *)
(*    frame (checksum / end marker: produces nothing, but the stream is complete only after it).   *)
(*    The codec is an abstract monotone map encoded-prefix -> decoded-prefix: after feeding k      *)
(*    elements the decoder has produced between DCount(k)-Lag and DCount(k) units (environment     *)
(*    choice), and everything once a "t" or the end of the stream has been fed.                    *)
(*  - The WIRE is the framed body as a sequence of elements: "D" data (one encoded element),       *)
(*    and for chunked framing "S" size line, "C" CRLF after the chunk data, "Z" the terminating    *)
(*    zero-size chunk line, "T" the final CRLF.  Damage: Cut(at) truncates the wire; Corrupt       *)
(*    turns an "S" into "X" (non-hex) / "M" (negative) / "Y" (empty) / "P" (the right hex digits    *)
(*    followed by junk), a "Z" into "Q" (0 followed by junk), or a "D" into "B" (a byte the         *)
(*    decoder rejects).                                                                             *)
(*  - Bytes can wait in three places (plus the iterator's line buffer):                            *)
(*      reader   wire[rpos+1 ..]: not yet parsed by a framing reader; rbuf of them already sit in  *)
(*               the buffered socket reader (decides whether read1 needs a recv)                   *)
(*      decoder  DCount(fed) - prod units fed but not yet produced (decoder tail)                  *)
(*      buf      _decoded_buffer: decoded but not yet delivered                                    *)
(*      ihold    __iter__'s pending line fragments                                                 *)
(*    out = delivered prefix.                                                                      *)
(*  - KnownDefects enables NAMED deviations; with {} the model is the design the findings ask    *)
(*    for and every clause holds.  D6, D7, D11, F1, F3 were found at the pinned commit and have    *)
(*    since been repaired in /repo: they remain as must-be-refuted runs (TLC must exhibit the      *)
(*    clause each one breaks, and a tree that still has one of them fails the check).  F2 and F4   *)
(*    are recorded findings: MC_Body!AsIs = {F2, F4} is the model of the code as it is.            *)
(*      D6  read() after a partial read(n) does not prepend the decoded buffer                     *)
(*      D7  zstd: a feed that ends exactly on a frame end leaves a finished decompressobj behind    *)
(*      D11 negative chunk size reaches fp.read(<0): raw ValueError / foreign bytes via read1      *)
(*      F1  read1() (amt=None) at a cut Content-Length body closes quietly (no IncompleteRead)     *)
(*      F2  the decoder is not flushed when EOF is met (a) by read(amt) with an empty decoded       *)
(*          buffer (early return), (b) inside read(amt)'s fill loop (stale flush_decoder), (c) by   *)
(*          stream() finding the file already closed: an incomplete zstd stream then ends normally   *)
(*      F3  MultiDecoder.flush only flushes the first-listed decoder (stacked zstd never checked)   *)
(*      PiecewiseReadHidesCut  (never in the code; a seeded mutant class) _fp_read's piecewise loop  *)
(*          (fp.read(max_chunk_amt) until b"") is also taken by read() when more than                *)
(*          max_chunk_amt bytes of Content-Length are outstanding on a LARGE body: a short body is   *)
(*          then no error for http.client and read() returns the cut body as complete                *)
(*      SizeLinePrefixAccepted  (never in the code; a seeded mutant class) urllib3's own chunk        *)
(*          parser takes the leading hex digits of a size line and ignores what follows ("64X")      *)
(*      F4  DecodeError is raised outside _error_catcher: the connection is not closed (and was     *)
(*          already handed back to the pool when the body had been received completely)             *)
(*  - Latitude built into Next (see ReadsOk / GenOk): the six read calls and, on bodies that are    *)
(*    not chunked, stream() steps interleave freely; read_chunked / stream on chunked bodies and    *)
(*    iteration consume a body on their own.                                                        *)
EXTENDS BodyRules, TLC

CONSTANTS Scenarios,      \* set of [framing, coding, stacked, decode, enc, chunks, large]
          DamageKinds,    \* subset of {"none","cut","badsize","negsize","emptysize","corrupt"}
          Lag,            \* decoder tail bound (units)
          Amts,           \* amounts n for read(n)
          Amts1,          \* amounts for read1(n)
          IntoAmts,       \* buffer sizes for readinto
          GenAmts,        \* amounts for stream(n) / read_chunked(n)
          MaxOps,         \* API calls per behaviour
          AfterEnd,       \* extra calls explored after the normal end was signalled
          ApiModes,       \* subset of {"reads","stream","chunked","iter","preload"}
          KnownDefects

VARIABLES sc,     \* the scenario (environment choice, fixed)
          dmg,    \* [kind, at] the damage (environment choice, fixed)
          wire,   \* the damaged wire body
          facts,  \* BodyRules facts of this response
          s,      \* implementation state (record, see InitS)
          hist,   \* observed events, in order
          mon,    \* Rules monitor state + first failing clause
          phase,  \* "ops" | "disposed" | "done"
          conn    \* what the second request found: [second, firstopen]
vars == <<sc, dmg, wire, facts, s, hist, mon, phase, conn>>

None == -1          \* Python None for amounts / lengths / chunk_left
Neg  == -2          \* a negative chunk size
Big  == 1000        \* 2**16 / 8192: "more than any body here"
Min(a, b) == IF a < b THEN a ELSE b
Max(a, b) == IF a > b THEN a ELSE b
Range(a, n) == [i \in 1..n |-> a + i - 1]
TakeSeq(q, n) == SubSeq(q, 1, Min(n, Len(q)))
DropSeq(q, n) == SubSeq(q, Min(n, Len(q)) + 1, Len(q))
Has(d) == d \in KnownDefects

(* ---------------------------------------------------------------- scenario-derived *)
NEnc == Len(sc.enc)
DCount(k) == Cardinality({i \in 1..k : sc.enc[i] = "d"})
LastT(k) == LET I == {i \in 1..k : sc.enc[i] = "t"} IN IF I = {} THEN 0 ELSE CHOOSE i \in I : \A j \in I : j <= i
Coded == sc.decode /\ sc.coding # "identity"           \* a decoder object exists and is used
Chunked == sc.framing = "chunked"

RECURSIVE ChunkWire(_, _, _)
ChunkWire(ch, i, off) ==
    IF i > Len(ch) THEN << [k |-> "Z", e |-> 0], [k |-> "T", e |-> 0] >>
    ELSE << [k |-> "S", e |-> ch[i]] >> \o [j \in 1..ch[i] |-> [k |-> "D", e |-> off + j]]
         \o << [k |-> "C", e |-> 0] >> \o ChunkWire(ch, i + 1, off + ch[i])
Wire0(c) == IF c.framing = "chunked" THEN ChunkWire(c.chunks, 1, 0)
            ELSE [j \in 1..Len(c.enc) |-> [k |-> "D", e |-> j]]

(* ---------------------------------------------------------------- environment: damage *)
Idx(w, kind) == {i \in 1..Len(w) : w[i].k = kind}
DamagesOf(c) ==
    LET w == Wire0(c) IN
       (IF "none" \in DamageKinds THEN {[kind |-> "none", at |-> 0]} ELSE {})
    \cup (IF "cut" \in DamageKinds THEN {[kind |-> "cut", at |-> a] : a \in 0..(Len(w) - 1)} ELSE {})
    \cup {[kind |-> d, at |-> a] : d \in (DamageKinds \cap (ChunkDamages \ {"junksize"})), a \in Idx(w, "S")}
    \cup (IF "junksize" \in DamageKinds THEN {[kind |-> "junksize", at |-> a] : a \in Idx(w, "S") \cup Idx(w, "Z")} ELSE {})
    \cup (IF "corrupt" \in DamageKinds /\ c.decode /\ c.coding # "identity"
          THEN {[kind |-> "corrupt", at |-> a] : a \in Idx(w, "D")} ELSE {})
Cut(w, at) == SubSeq(w, 1, at)
Corrupt(w, kind, at) == [w EXCEPT ![at].k = CASE kind = "badsize" -> "X" [] kind = "negsize" -> "M"
                                                [] kind = "emptysize" -> "Y"
                                                [] kind = "junksize" -> (IF w[at].k = "Z" THEN "Q" ELSE "P")
                                                [] OTHER -> "B"]
Damaged(c, d) == IF d.kind = "none" THEN Wire0(c)
                 ELSE IF d.kind = "cut" THEN Cut(Wire0(c), d.at)
                 ELSE Corrupt(Wire0(c), d.kind, d.at)

\* what an ideal streaming decoder says about the content elements the damaged wire carries
IndepOf(c, w) ==
    LET data == {i \in 1..Len(w) : w[i].k \in {"D", "B"}}
        p    == Cardinality(data)                              \* content elements carried (a prefix of enc)
        bad  == {w[i].e : i \in {j \in data : w[j].k = "B"}}
    IN IF c.coding = "identity" THEN "ok"
       ELSE IF bad # {} THEN
            LET b == CHOOSE x \in bad : TRUE IN
            IF c.coding = "lenient" /\ \E i \in 1..(b - 1) : c.enc[i] = "t" THEN "latererror" ELSE "error"
       ELSE IF p = 0 THEN "empty"
       ELSE IF c.enc[p] = "t" THEN "ok" ELSE "incomplete"
FactsOf(c, d, w) ==
    [framing |-> c.framing, strict |-> c.coding = "strict", decoding |-> c.decode /\ c.coding # "identity",
     dmg |-> d.kind,
     zone |-> IF d.kind = "cut" /\ c.framing = "chunked" THEN (IF Idx(w, "Z") = {} THEN "body" ELSE "tail") ELSE "none",
     indep |-> IndepOf(c, w),
     total |-> IF c.decode /\ c.coding # "identity" THEN Cardinality({i \in 1..Len(c.enc) : c.enc[i] = "d"}) ELSE Len(c.enc),
     checkbytes |-> d.kind # "corrupt", line |-> "none"]

InitS(c) ==
    [rpos |-> 0, rbuf |-> 0,                        \* reader: parsed position, elements buffered beyond it
     hcl |-> None,                                  \* http.client chunk_left
     hlen |-> IF c.framing = "cl" THEN Len(c.enc) ELSE None,   \* http.client length
     fpc |-> FALSE,                                 \* http.client response closed (fp is None / closed)
     uc |-> None,                                   \* urllib3 chunk_left (read_chunked's own parser)
     lrem |-> IF c.framing = "cl" THEN Len(c.enc) ELSE None,   \* urllib3 length_remaining
     fed |-> 0, prod |-> 0, sealed |-> FALSE, swallow |-> FALSE, hasdec |-> FALSE,   \* decoder
     buf |-> <<>>,                                  \* _decoded_buffer (unit ids)
     ihold |-> <<>>, gen |-> "none", gamt |-> 0, gdone |-> FALSE,   \* generator state
     leased |-> TRUE, sock |-> "open",              \* connection: held by the response? socket open?
     out |-> <<>>]                                  \* delivered unit ids

(* ================================================================ http.client framing readers *)
Res(st, ids, err) == [s |-> st, ids |-> ids, err |-> err]
Adv(st, k) == [st EXCEPT !.rpos = @ + k, !.rbuf = Max(0, @ - k)]
Avail(st) == Len(wire) - st.rpos
Take(st, k) == SubSeq(wire, st.rpos + 1, st.rpos + k)
\* Segment: how many elements one recv may return when `cap` are wanted and `avail` are still to come
Segment(avail, cap) == 1..Min(avail, cap)

\* HTTPResponse.read(amt), not chunked, amt > 0: blocks until amt bytes or EOF; no exception on a short body
HReadPlain(st, amt) ==
    LET want == IF st.hlen = None THEN amt ELSE Min(amt, st.hlen)
        got  == Min(want, Avail(st))
        hl   == IF st.hlen = None THEN None ELSE st.hlen - got
    IN { Res([Adv(st, got) EXCEPT !.hlen = hl, !.fpc = (got = 0 /\ want > 0) \/ hl = 0], Take(st, got), "") }

\* Size class: a scenario with sc.large stands for a body of more than 1 MiB, one unit = 2**18 bytes, so that
\* "length_remaining > max_chunk_amt (2**20)" reads "more than PieceUnits units outstanding".
PieceUnits == 4
\* HTTPResponse.read(), not chunked: _safe_read(length) raises IncompleteRead on a short body
HReadAllPlain(st) ==
    IF Has("PiecewiseReadHidesCut") /\ sc.large /\ st.lrem # None /\ st.lrem > PieceUnits
    THEN \* the piecewise loop asks for max_chunk_amt at a time until b"" comes back: nothing notices a short body
         LET got == Min(st.hlen, Avail(st)) IN
         { Res([Adv(st, got) EXCEPT !.hlen = @ - got, !.fpc = TRUE], Take(st, got), "") }
    ELSE IF st.hlen # None /\ Avail(st) < st.hlen
    THEN { Res([Adv(st, Avail(st)) EXCEPT !.fpc = TRUE], <<>>, "Incomplete") }
    ELSE LET got == IF st.hlen = None THEN Avail(st) ELSE st.hlen IN
         { Res([Adv(st, got) EXCEPT !.hlen = IF @ = None THEN None ELSE 0, !.fpc = TRUE], Take(st, got), "") }

\* HTTPResponse.read1(n), not chunked: buffered bytes first, else ONE recv; does not close at length 0
HRead1Plain(st, n) ==
    LET lim == IF st.hlen = None THEN n ELSE IF n = None \/ n > st.hlen THEN st.hlen ELSE n
        cap == IF lim = None THEN Avail(st) ELSE lim
        ks  == IF cap = 0 \/ Avail(st) = 0 THEN {0}
               ELSE IF st.rbuf > 0 THEN {Min(st.rbuf, cap)}
               ELSE Segment(Avail(st), cap)
    IN UNION { { Res([st EXCEPT !.rpos = @ + k, !.rbuf = r,
                               !.hlen = IF @ = None THEN None ELSE @ - k,
                               !.fpc = @ \/ (k = 0 /\ lim # 0)], Take(st, k), "")
                 : r \in IF st.rbuf > 0 THEN {st.rbuf - k} ELSE {0, Avail(st) - k} }   \* recv may have fetched more
               : k \in ks }

\* HTTPResponse._get_chunk_left: [s, cl, err]; cl = None once the terminating chunk has been read
HGetChunkLeft(st) ==
    IF st.hcl # None /\ st.hcl # 0 THEN [s |-> st, cl |-> st.hcl, err |-> ""]
    ELSE LET needcrlf == st.hcl = 0
             crlfok == ~needcrlf \/ (Avail(st) > 0 /\ wire[st.rpos + 1].k = "C")
             st1 == IF needcrlf /\ crlfok THEN Adv(st, 1) ELSE st
         IN IF ~crlfok THEN [s |-> st, cl |-> None, err |-> "Incomplete"]            \* _safe_read(2) short
            ELSE IF Avail(st1) = 0 THEN [s |-> [st1 EXCEPT !.fpc = TRUE], cl |-> None, err |-> "Incomplete"]   \* b"" -> ValueError
            ELSE LET e == wire[st1.rpos + 1] IN
                 CASE e.k = "S" -> [s |-> [Adv(st1, 1) EXCEPT !.hcl = e.e], cl |-> e.e, err |-> ""]
                   [] e.k = "Z" -> LET st2 == Adv(st1, 1)
                                       st3 == IF Avail(st2) > 0 /\ wire[st2.rpos + 1].k = "T" THEN Adv(st2, 1) ELSE st2
                                   IN [s |-> [st3 EXCEPT !.hcl = None, !.fpc = TRUE], cl |-> None, err |-> ""]
                   [] e.k = "M" -> [s |-> [Adv(st1, 1) EXCEPT !.hcl = Neg], cl |-> Neg, err |-> ""]
                   [] OTHER     -> [s |-> [Adv(st1, 1) EXCEPT !.fpc = TRUE], cl |-> None, err |-> "Incomplete"]

\* int(line, 16) < 0 is not rejected by http.client: fp.read(<0) raises ValueError (D11)
NegErr == IF Has("D11") THEN "ValueError" ELSE "Incomplete"

\* HTTPResponse._read_chunked(amt): amt = None (to the end) or > 0; partial data is dropped on IncompleteRead
RECURSIVE HRC(_, _, _)
HRC(st, amt, acc) ==
    LET g == HGetChunkLeft(st) IN
    IF g.err # "" THEN Res(g.s, <<>>, g.err)
    ELSE IF g.cl = None THEN Res(g.s, acc, "")
    ELSE IF g.cl = Neg THEN Res(g.s, <<>>, NegErr)
    ELSE LET have == Min(g.cl, Avail(g.s)) IN
         IF amt # None /\ amt <= g.cl
         THEN IF have < amt THEN Res(Adv(g.s, have), <<>>, "Incomplete")
              ELSE Res([Adv(g.s, amt) EXCEPT !.hcl = g.cl - amt], acc \o Take(g.s, amt), "")
         ELSE IF have < g.cl THEN Res(Adv(g.s, have), <<>>, "Incomplete")
              ELSE HRC([Adv(g.s, g.cl) EXCEPT !.hcl = 0], IF amt = None THEN None ELSE amt - g.cl, acc \o Take(g.s, g.cl))

\* HTTPResponse._read1_chunked(n): never crosses a chunk; IncompleteRead when nothing arrives
HRead1Chunked(st, n) ==
    LET g == HGetChunkLeft(st) IN
    IF g.err # "" THEN { Res(g.s, <<>>, g.err) }
    ELSE IF g.cl = None THEN { Res(g.s, <<>>, "") }
    ELSE IF g.cl = Neg THEN                                   \* fp.read1(<0) hands out whatever is buffered: foreign bytes
         IF ~Has("D11") \/ Avail(g.s) = 0 THEN { Res(g.s, <<>>, "Incomplete") }
         ELSE { Res(Adv(g.s, 1), << [k |-> "G", e |-> 0] >>, "") }
    ELSE LET cap == IF n = None \/ n > g.cl THEN g.cl ELSE n
             have == Min(g.cl, Avail(g.s))
         IN IF have = 0 THEN { Res(g.s, <<>>, "Incomplete") }
            ELSE UNION { { Res([g.s EXCEPT !.rpos = @ + k, !.rbuf = r, !.hcl = g.cl - k], Take(g.s, k), "")
                           : r \in IF g.s.rbuf > 0 THEN {g.s.rbuf - k} ELSE {0, have - k} }
                         : k \in IF g.s.rbuf > 0 THEN {Min(Min(g.s.rbuf, cap), have)} ELSE Segment(have, cap) }

(* ================================================================ urllib3: _raw_read + _error_catcher *)
ErrMap(e) == CASE e = "Incomplete" -> "ProtocolError"       \* IncompleteRead / HTTPException / OSError
               [] e = "ValueError" -> "raw:ValueError"      \* not in any except clause: escapes as is
               [] OTHER -> e
\* unclean exit of _error_catcher: close the original response and the connection; then (fp closed) release_conn
CloseOnError(st) == [st EXCEPT !.fpc = TRUE, !.sock = "closed", !.leased = FALSE]
\* clean exit: "if self._original_response.isclosed(): self.release_conn()"
ReleaseIfDone(st) == IF st.fpc THEN [st EXCEPT !.leased = FALSE] ELSE st
Acc(st, ids) == [st EXCEPT !.lrem = IF @ = None THEN None ELSE @ - Len(ids)]

\* _raw_read(amt, read1): amt = None or > 0
RawRead(st, amt, r1) ==
    LET R == IF st.fpc THEN { Res(st, <<>>, "") }
             ELSE IF r1 THEN (IF Chunked THEN HRead1Chunked(st, amt) ELSE HRead1Plain(st, amt))
             ELSE IF amt = None THEN (IF Chunked THEN { HRC(st, None, <<>>) } ELSE HReadAllPlain(st))
             ELSE (IF Chunked THEN { HRC(st, amt, <<>>) } ELSE HReadPlain(st, amt))
    IN { IF r.err # "" THEN Res(CloseOnError(r.s), <<>>, ErrMap(r.err))
         ELSE LET empty == r.ids = <<>>
                  short == r.s.lrem # None /\ r.s.lrem # 0
              IN IF amt # None /\ empty
                 THEN IF short THEN Res(CloseOnError(r.s), <<>>, "ProtocolError")     \* IncompleteRead(read, remaining)
                      ELSE Res(ReleaseIfDone([r.s EXCEPT !.fpc = TRUE]), <<>>, "")
                 ELSE IF r1 /\ (empty \/ r.s.lrem = Len(r.ids))
                 THEN IF ~Has("F1") /\ empty /\ short THEN Res(CloseOnError(r.s), <<>>, "ProtocolError")
                      ELSE Res(ReleaseIfDone(Acc([r.s EXCEPT !.fpc = TRUE], r.ids)), r.ids, "")     \* F1: closes quietly
                 ELSE Res(ReleaseIfDone(Acc(r.s, r.ids)), r.ids, "")
         : r \in R }

(* ================================================================ content decoders *)
Ids(piece) == [i \in 1..Len(piece) |-> IF piece[i].k = "G" THEN 0 ELSE piece[i].e]
FirstBad(piece) == LET I == {i \in 1..Len(piece) : piece[i].k \in {"B", "G"}} IN
                   IF I = {} THEN 0 ELSE CHOOSE i \in I : \A j \in I : i <= j
DRes(st, out, err) == [s |-> st, out |-> out, err |-> err]

\* decoder.decompress(piece): set of [s, out, err]
Decompress(st, piece) ==
    IF ~Coded THEN { DRes(st, Ids(piece), "") }                        \* no decoder / decode_content=False
    ELSE IF piece = <<>> THEN { DRes([st EXCEPT !.hasdec = TRUE], <<>>, "") }
    ELSE IF st.swallow THEN { DRes([st EXCEPT !.fed = @ + Len(piece)], <<>>, "") }   \* GzipDecoder SWALLOW_DATA
    ELSE IF Has("D7") /\ sc.coding = "strict" /\ st.sealed
         THEN { DRes(st, <<>>, "DecodeError") }                        \* "cannot use a decompressobj multiple times"
    ELSE IF FirstBad(piece) # 0 THEN
         LET b  == st.fed + FirstBad(piece)                            \* encoded position of the bad element
             lt == LastT(b - 1)
         IN { DRes(st, <<>>, "DecodeError") }
            \cup (IF sc.coding = "lenient" /\ lt > 0                   \* garbage after a complete gzip member: swallowed
                  THEN { DRes([st EXCEPT !.fed = @ + Len(piece), !.prod = DCount(lt), !.swallow = TRUE, !.hasdec = TRUE],
                              Range(st.prod + 1, DCount(lt) - st.prod), "") }
                  ELSE {})
    ELSE LET f2 == st.fed + Len(piece)
             hi == DCount(f2)
             lo == IF f2 = NEnc \/ sc.enc[f2] = "t" THEN hi
                   ELSE Max(Max(st.prod, hi - Lag), DCount(LastT(f2)))
         IN { DRes([st EXCEPT !.fed = f2, !.prod = p, !.sealed = (sc.enc[f2] = "t"), !.hasdec = TRUE],
                   Range(st.prod + 1, p - st.prod), "") : p \in lo..hi }

\* decoder.flush(): on CPython it never yields data; for zstd it is the completeness check
FlushErr(st) == /\ Coded /\ sc.coding = "strict" /\ ~st.swallow
                /\ ~(sc.stacked /\ Has("F3"))                           \* MultiDecoder.flush: first-listed decoder only
                /\ ~(st.fed > 0 /\ sc.enc[st.fed] = "t")
\* _decode(data, decode_content, flush_decoder)
Decode(st, piece, flush) ==
    { IF d.err = "" /\ flush /\ FlushErr(d.s) THEN DRes(d.s, <<>>, "DecodeError") ELSE d : d \in Decompress(st, piece) }
\* DecodeError is raised outside _error_catcher (F4); the repaired design closes the connection like any other error
OnDecodeError(st) == IF Has("F4") THEN st ELSE CloseOnError(st)

(* ================================================================ urllib3: the read APIs *)
OpRet(st, out)  == [s |-> st, out |-> out, err |-> "", stop |-> FALSE]
OpErr(st, e)    == [s |-> st, out |-> <<>>, err |-> e, stop |-> FALSE]
OpStop(st)      == [s |-> st, out |-> <<>>, err |-> "", stop |-> TRUE]
Put(st, ids)    == [st EXCEPT !.buf = @ \o ids]
Get(st, n)      == OpRet([st EXCEPT !.buf = DropSeq(@, n)], TakeSeq(st.buf, n))      \* BytesQueueBuffer.get
GetAll(st)      == OpRet([st EXCEPT !.buf = <<>>], st.buf)

\* end of data with nothing buffered: the code returns b"" before looking at the decoder (F2)
EofNoFlush(st) == IF ~Has("F2") /\ FlushErr(st) /\ st.fed > 0 THEN OpErr(OnDecodeError(st), "DecodeError")
                  ELSE OpRet(st, <<>>)

\* read(amt=None)
ReadAll(st) ==
    UNION { IF r.err # "" THEN { OpErr(r.s, r.err) }
            ELSE IF r.ids = <<>> /\ r.s.buf = <<>> THEN { EofNoFlush(r.s) }
            ELSE { IF d.err # "" THEN OpErr(OnDecodeError(d.s), d.err)
                   ELSE IF Has("D6") THEN OpRet(d.s, d.out)                          \* buffered bytes stay behind
                   ELSE OpRet([d.s EXCEPT !.buf = <<>>], d.s.buf \o d.out)
                   : d \in Decode(r.s, r.ids, TRUE) }
            : r \in RawRead(st, None, FALSE) }

\* read(amt), amt > 0
RECURSIVE ReadNLoop(_, _, _, _)
ReadNLoop(st, n, lastdata, flush) ==                 \* while len(buffer) < amt and data
    IF Len(st.buf) >= n \/ lastdata = <<>> THEN { Get(st, n) }
    ELSE UNION { IF r.err # "" THEN { OpErr(r.s, r.err) }
                 ELSE UNION { IF d.err # "" THEN { OpErr(OnDecodeError(d.s), d.err) }
                              ELSE ReadNLoop(Put(d.s, d.out), n, r.ids, flush)
                              \* F2 (second site): flush_decoder is computed before the loop and never again, so the
                              \* EOF met inside the loop is decoded with flush_decoder=False
                              : d \in Decode(r.s, r.ids, IF Has("F2") THEN flush ELSE r.ids = <<>>) }
                 : r \in RawRead(st, n, FALSE) }
ReadN(st, n) ==
    IF Len(st.buf) >= n THEN { Get(st, n) }
    ELSE UNION { IF r.err # "" THEN { OpErr(r.s, r.err) }
                 ELSE IF r.ids = <<>> /\ r.s.buf = <<>> THEN { EofNoFlush(r.s) }
                 ELSE IF ~sc.decode THEN { OpRet(r.s, Ids(r.ids)) }
                 ELSE UNION { IF d.err # "" THEN { OpErr(OnDecodeError(d.s), d.err) }
                              ELSE ReadNLoop(Put(d.s, d.out), n, r.ids, r.ids = <<>>)
                              : d \in Decode(r.s, r.ids, r.ids = <<>>) }
                 : r \in RawRead(st, n, FALSE) }

\* read1(amt): amt = None or > 0
RECURSIVE Read1Loop(_, _, _)
Read1Loop(st, amt, data) ==
    UNION { IF d.err # "" THEN { OpErr(OnDecodeError(d.s), d.err) }
            ELSE LET st2 == Put(d.s, d.out) IN
                 IF d.out # <<>> \/ data = <<>> THEN { IF amt = None THEN GetAll(st2) ELSE Get(st2, amt) }
                 ELSE UNION { IF r.err # "" THEN { OpErr(r.s, r.err) } ELSE Read1Loop(r.s, amt, r.ids)
                              : r \in RawRead(st2, Big, TRUE) }
            : d \in Decode(st, data, data = <<>>) }
Read1(st, amt) ==
    IF st.hasdec /\ st.buf # <<>> THEN { IF amt = None THEN GetAll(st) ELSE Get(st, amt) }
    ELSE UNION { IF r.err # "" THEN { OpErr(r.s, r.err) }
                 ELSE IF ~sc.decode THEN { OpRet(r.s, Ids(r.ids)) }
                 ELSE Read1Loop(r.s, amt, r.ids)
                 : r \in RawRead(st, amt, TRUE) }

\* read_chunked(amt): urllib3's own chunk parser on fp.fp, everything inside _error_catcher
UpdateChunkLength(st) ==
    IF st.uc # None THEN [s |-> st, err |-> ""]
    ELSE IF Avail(st) = 0 THEN [s |-> st, err |-> "ProtocolError"]              \* "Response ended prematurely"
    ELSE LET e == wire[st.rpos + 1] IN
         \* "P" / "Q": hex digits followed by junk -- int(line, 16) rejects the whole line
         CASE e.k = "S" \/ (e.k = "P" /\ Has("SizeLinePrefixAccepted")) -> [s |-> [Adv(st, 1) EXCEPT !.uc = e.e], err |-> ""]
           [] e.k = "Z" \/ (e.k = "Q" /\ Has("SizeLinePrefixAccepted")) -> [s |-> [Adv(st, 1) EXCEPT !.uc = 0], err |-> ""]
           [] e.k = "M" -> [s |-> [Adv(st, 1) EXCEPT !.uc = Neg], err |-> ""]
           [] OTHER     -> [s |-> Adv(st, 1), err |-> "InvalidChunkLength"]
HandleChunk(st, amt) ==
    IF st.uc = Neg THEN Res(st, <<>>, IF Has("D11") THEN "raw:ValueError" ELSE "InvalidChunkLength")
    ELSE LET want == IF amt = None \/ amt >= st.uc THEN st.uc ELSE amt
             have == Min(want, Avail(st))
         IN IF have < want THEN Res(Adv(st, have), <<>>, "ProtocolError")        \* _safe_read: IncompleteRead
            ELSE IF want < st.uc THEN Res([Adv(st, want) EXCEPT !.uc = @ - want], Take(st, want), "")
            ELSE LET st1 == Adv(st, want) IN                                       \* chunk finished: toss the CRLF
                 IF Avail(st1) > 0 /\ wire[st1.rpos + 1].k = "C"
                 THEN Res([Adv(st1, 1) EXCEPT !.uc = None], Take(st, want), "")
                 ELSE Res(st1, <<>>, "ProtocolError")
RECURSIVE ChunkedLoop(_, _)
ChunkedLoop(st, amt) ==
    LET u == UpdateChunkLength(st) IN
    IF u.err # "" THEN { OpErr(CloseOnError(u.s), u.err) }
    ELSE IF u.s.uc = 0 THEN
         IF sc.decode /\ FlushErr(u.s) THEN { OpErr(CloseOnError(u.s), "DecodeError") }
         ELSE LET st1 == IF Avail(u.s) > 0 /\ wire[u.s.rpos + 1].k = "T" THEN Adv(u.s, 1) ELSE u.s IN
              { OpStop([st1 EXCEPT !.fpc = TRUE, !.leased = FALSE, !.gdone = TRUE]) }
    ELSE LET h == HandleChunk(u.s, amt) IN
         IF h.err # "" THEN { OpErr(CloseOnError(h.s), h.err) }
         ELSE UNION { IF d.err # "" THEN { OpErr(CloseOnError(d.s), d.err) }
                      ELSE IF d.out # <<>> THEN { OpRet(d.s, d.out) }
                      ELSE ChunkedLoop(d.s, amt)
                      : d \in Decode(h.s, h.ids, FALSE) }
ChunkedStep(st, amt) == IF st.gdone \/ st.fpc THEN { OpStop([st EXCEPT !.gdone = TRUE]) } ELSE ChunkedLoop(st, amt)

\* stream(amt): read_chunked for chunked bodies, else a loop around read(amt) that drops empty pieces
RECURSIVE StreamLoop(_, _)
StreamLoop(st, n) ==
    IF st.fpc /\ st.buf = <<>>                      \* "while not is_fp_closed(self._fp) or len(buffer) > 0" is false
    THEN { IF ~Has("F2") /\ FlushErr(st) /\ st.fed > 0 THEN OpErr(OnDecodeError(st), "DecodeError")   \* F2, third site
           ELSE OpStop([st EXCEPT !.gdone = TRUE]) }
    ELSE UNION { IF o.err # "" \/ o.out # <<>> THEN { o } ELSE StreamLoop(o.s, n) : o \in ReadN(st, n) }
StreamStep(st, n) == IF st.gdone THEN { OpStop(st) }
                     ELSE IF Chunked THEN ChunkedStep(st, n) ELSE StreamLoop(st, n)

\* __iter__: line splitting over stream(2**16, decode_content=True); ihold = pulled but not yet yielded
RECURSIVE IterLoop(_)
IterLoop(st) ==
    (IF st.ihold # <<>> THEN { OpRet([st EXCEPT !.ihold = DropSeq(@, k)], TakeSeq(st.ihold, k)) : k \in 1..Len(st.ihold) }
     ELSE {})
    \cup (IF st.gdone THEN (IF st.ihold = <<>> THEN { OpStop(st) } ELSE {})
          ELSE UNION { IF o.err # "" THEN { o }
                       ELSE IF o.stop THEN (IF st.ihold # <<>> THEN { OpRet([o.s EXCEPT !.ihold = <<>>], st.ihold) }
                                            ELSE { OpStop(o.s) })
                       ELSE IterLoop([o.s EXCEPT !.ihold = st.ihold \o o.out])
                       : o \in StreamStep(st, Big) })

(* ================================================================ behaviours *)
Off(ids) == IF ids = <<>> THEN -2
            ELSE IF ids[1] >= 1 /\ \A i \in 1..Len(ids) : ids[i] = ids[1] + i - 1 THEN ids[1] - 1 ELSE -1
EndOf(op, o) == /\ o.err = ""
                /\ CASE op \in {"read", "data"} -> TRUE
                     [] op = "read0" -> FALSE
                     [] op \in GenOps -> o.stop
                     [] OTHER -> o.out = <<>>
Obs(op, n, o) == [op |-> op, n |-> n, len |-> Len(o.out), off |-> Off(o.out), err |-> o.err, end |-> EndOf(op, o)]

MonStep(m, e) == LET c == Clause(facts, [pos |-> m.pos, ended |-> m.ended, failed |-> m.failed], e)
                     x == MonNext(m, e)
                 IN [pos |-> x.pos, ended |-> x.ended, failed |-> x.failed,
                     verdict |-> IF m.verdict = "ok" THEN c ELSE m.verdict,
                     after |-> IF m.ended THEN m.after + 1 ELSE 0]

Init == /\ sc \in Scenarios
        /\ dmg \in DamagesOf(sc)
        /\ wire = Damaged(sc, dmg)
        /\ facts = FactsOf(sc, dmg, wire)
        /\ s = InitS(sc)
        /\ hist = <<>>
        /\ mon = [pos |-> 0, ended |-> FALSE, failed |-> FALSE, verdict |-> "ok", after |-> 0]
        /\ phase = "ops"
        /\ conn = [second |-> "none", firstopen |-> TRUE]

CanOp == /\ phase = "ops" /\ ~mon.failed /\ Len(hist) < MaxOps
         /\ (mon.ended => mon.after < AfterEnd)
         /\ ~(hist # <<>> /\ hist[1].op = "data")
OnlyGens == \A i \in 1..Len(hist) : hist[i].op \in GenOps
NoGens   == \A i \in 1..Len(hist) : hist[i].op \notin GenOps
NoIter   == \A i \in 1..Len(hist) : hist[i].op # "iter"
\* Which interleavings belong to the property (latitude, see DESIGN 4/C12 and the quantifier):
\*  - the six read calls may be mixed freely;
\*  - stream() on a body that is not chunked is "a generator wrapper for read()": its steps may be mixed with them;
\*  - on chunked bodies stream()/read_chunked() run urllib3's own chunk parser on the same socket, and __iter__
\*    legitimately holds a line fragment: these consume a body on their own and are not mixed with other calls.
ReadsOk == "reads" \in ApiModes /\ NoIter /\ (Chunked => NoGens)
GenOk(kind, n) == /\ kind \in ApiModes /\ ((Chunked \/ kind = "iter") => OnlyGens)
                  /\ s.gen \in {"none", kind} /\ (s.gen = kind => s.gamt = n)
                  /\ (kind = "chunked" => Chunked) /\ (kind = "iter" => sc.decode)

Do(op, n, R, g) ==
    \E o \in R :
        LET e == Obs(op, n, o) IN
        /\ s' = [o.s EXCEPT !.out = @ \o o.out, !.gen = IF g THEN op ELSE @, !.gamt = IF g THEN n ELSE @]
        /\ hist' = Append(hist, e)
        /\ mon' = MonStep(mon, e)
        /\ UNCHANGED <<sc, dmg, wire, facts, phase, conn>>

Read      == CanOp /\ ReadsOk /\ Do("read", 0, ReadAll(s), FALSE)
ReadNOp(n)   == CanOp /\ ReadsOk /\ Do("readn", n, ReadN(s, n), FALSE)
Read1N(n) == CanOp /\ ReadsOk /\ Do("read1n", n, Read1(s, n), FALSE)
Read1All  == CanOp /\ ReadsOk /\ Do("read1", 0, Read1(s, None), FALSE)
ReadInto(k) == CanOp /\ ReadsOk /\ Do("readinto", k, ReadN(s, k), FALSE)      \* readinto(b) is read(len(b))
LastOp    == IF hist = <<>> THEN "" ELSE hist[Len(hist)].op
Read0     == CanOp /\ ReadsOk /\ LastOp # "read0" /\ Do("read0", 0, { OpRet(s, <<>>) }, FALSE)
Stream(n)  == CanOp /\ GenOk("stream", n) /\ Do("stream", n, StreamStep(s, n), TRUE)
ChunkedOp(n) == CanOp /\ GenOk("chunked", n) /\ Do("chunked", n, ChunkedStep(s, n), TRUE)
Iter       == CanOp /\ GenOk("iter", 0) /\ Do("iter", 0, IterLoop(s), TRUE)
\* preload_content=True: read() inside the constructor; an exception escapes urlopen, which closes the connection
Preload    == /\ CanOp /\ "preload" \in ApiModes /\ hist = <<>>
              /\ Do("data", 0, { IF o.err # "" THEN [o EXCEPT !.s = CloseOnError(o.s)] ELSE o : o \in ReadAll(s) }, FALSE)

\* the response object is dropped: close() closes the connection it still holds and hands the slot back
Finished == \/ mon.failed \/ (mon.ended /\ mon.after >= AfterEnd) \/ Len(hist) >= MaxOps
            \/ (hist # <<>> /\ hist[1].op = "data")
Dispose == /\ phase = "ops" /\ hist # <<>> /\ Finished
           /\ phase' = "disposed"
           /\ s' = IF s.leased THEN [s EXCEPT !.sock = "closed", !.leased = FALSE, !.fpc = TRUE] ELSE s
           /\ UNCHANGED <<sc, dmg, wire, facts, hist, mon, conn>>
\* the pool's next checkout: the pooled connection is reused iff its socket is open and the peer has not hung up
PeerClosed == sc.framing = "close" \/ dmg.kind = "cut"
NextRequest == /\ phase = "disposed"
               /\ phase' = "done"
               /\ LET reused == s.sock = "open" /\ ~PeerClosed IN
                  conn' = [second |-> IF reused THEN "same" ELSE "new", firstopen |-> reused]
               /\ UNCHANGED <<sc, dmg, wire, facts, s, hist, mon>>

Next == \/ Read \/ Read1All \/ Read0 \/ Iter \/ Preload
        \/ \E n \in Amts : ReadNOp(n)
        \/ \E n \in Amts1 : Read1N(n)
        \/ \E n \in IntoAmts : ReadInto(n)
        \/ \E n \in GenAmts : Stream(n) \/ ChunkedOp(n)
        \/ Dispose \/ NextRequest
Spec == Init /\ [][Next]_vars
\* for the liveness check: the caller keeps calling until a call ends or raises
Fair == WF_vars(Read \/ Read1All \/ Iter \/ Preload
                \/ (\E n \in Amts : ReadNOp(n)) \/ (\E n \in Amts1 : Read1N(n)) \/ (\E n \in IntoAmts : ReadInto(n))
                \/ (\E n \in GenAmts : Stream(n) \/ ChunkedOp(n)))
LiveSpec == Spec /\ Fair

(* ================================================================ what TLC checks *)
TypeOK == /\ s.rpos \in 0..Len(wire) /\ s.rbuf \in 0..Len(wire)
          /\ s.fed \in 0..NEnc /\ s.prod \in 0..DCount(s.fed)
          /\ mon.pos = Len(s.out) /\ phase \in {"ops", "disposed", "done"}

\* one invariant per Rules clause: the monitor never names it
InOrderNoLossNoDup   == mon.verdict # "InOrderNoLossNoDup"
ReadNShortOnlyAtEnd  == mon.verdict # "ReadNShortOnlyAtEnd"
NoEmptyStreamPiece   == mon.verdict # "NoEmptyStreamPiece"
EmptyAfterEnd        == mon.verdict # "EmptyAfterEnd"
PreloadEqual         == mon.verdict # "PreloadEqual"
IntactNeverRaises    == mon.verdict # "IntactNeverRaises"
CutNeverComplete     == mon.verdict # "CutNeverComplete"
MalformedChunkRaises == mon.verdict # "MalformedChunkRaises"
UndecodableRaises    == mon.verdict # "UndecodableRaises"
OnlyUrllib3Errors    == mon.verdict # "OnlyUrllib3Errors"
ConnNotReused        == phase = "done" => Final(facts, mon, conn) # "ConnNotReused"

\* the same properties stated directly on the model state, independently of the monitor
DeliveredIsPrefix == facts.checkbytes /\ dmg.kind # "negsize" => \A i \in 1..Len(s.out) : s.out[i] = i
\* Conservation: while nothing has failed every unit is in exactly one place, in order:
\* delivered, iterator hold, decoded buffer, decoder tail + reader (not yet produced)
Conservation == (~mon.failed /\ Intact(facts) /\ KnownDefects = {}) =>
                    /\ s.out \o s.ihold \o s.buf = Range(1, Len(s.out) + Len(s.ihold) + Len(s.buf))
                    /\ (Coded => Len(s.out) + Len(s.ihold) + Len(s.buf) = s.prod)
\* a normal end is only ever signalled when nothing is left anywhere
EndMeansAllDelivered == (mon.ended /\ Intact(facts) /\ KnownDefects = {}) => Len(s.out) = facts.total
\* C13 as a state predicate: an owed error and a normal end never coexist
NeverCompleteWhenOwed == MustRaise(facts) => ~mon.ended
\* the caller always gets an answer: every behaviour in which the caller keeps calling ends or raises
Terminates == <>(mon.ended \/ mon.failed)
\* ... and when an error is owed it is an error (with NeverCompleteWhenOwed)
OwedErrorArrives == MustRaise(facts) ~> mon.failed
=============================================================================
