---------------------------- MODULE MC_BodyFraming ----------------------------
(* Exhaustive configuration, invariants and scenario emission for BodyFraming (C11).              *)
(*                                                                                              *)
(* An initial state is one scenario (body kind x size x start offset x method x chunked flag x      *)
(* caller framing header x client x attempt history) with the model at the top of urlopen; Next     *)
(* takes one real step (one named action per branch).  Every invariant is evaluated in every state;  *)
(* terminal states are printed with the model's expected observations.                               *)
EXTENDS BodyFraming, Json, IOUtils

Env == JsonDeserialize(IOEnv.BF_ENV)      \* [host, ua : Seq(Symbol), hists : Seq(history)]
EnvHost == Env.host
EnvUA == Env.ua

CONSTANTS MCDefectSets,             \* the deviation sets explored side by side: {} = the design, {"D3"} = the code as recorded,
                                    \* {"ZeroPosTreatedAsUnset"} = a variant TLC must refute (each only where it can matter)
          MCKinds, MCSizes,         \* body kinds, body sizes (units)
          MCMethods,                \* indices into MethodTable
          MCHistSizes, MCHistMethods,   \* sizes / methods used with histories of two attempts
          MCHist3Sizes,             \* sizes used with histories of three attempts
          MCShortSizes,             \* sizes used with short-reading streams
          MCWideSizes, MCWideHistSizes, \* sizes (bytes: multiples of the item size) of wide buffers, alone / with longer histories
          MCShortTextMaxHist,       \* longest history used with the TEXT short-reading streams
          MCBS,                     \* blocksize
          ShardK, ShardS,           \* emission sharding
          EmitOn
\* the attempt histories come from the harness (Env.hists): every one ends in "ok"

VARIABLES sc, st, dv                \* dv: the deviation set of this behaviour (fixed by Init)
vars == <<sc, st, dv>>

MethodTable == << <<"G","E","T">>, <<"P","O","S","T">>, <<"D","E","L","E","T","E">>, <<"P","U","T">>,
                  <<"P","A","T","C","H">>, <<"H","E","A","D">>, <<"O","P","T","I","O","N","S">>, <<"g","e","t">> >>
DataSyms == <<"a","b","c","d","e","f","g","h","i","j","k","l","m","n","o","p">>
Data(kind, n) == [i \in 1..n |-> IF kind \in TextKinds /\ i % 2 = 1 THEN NA ELSE DataSyms[i]]

Hists == {Env.hists[i] : i \in 1..Len(Env.hists)}
ASSUME \A h \in Hists : Len(h) \in 1..3 /\ h[Len(h)] = "ok" /\ \A i \in 1..(Len(h) - 1) : h[i] \in Outcomes \ {"ok"}

AllSizes == MCSizes \cup MCHistSizes \cup MCHist3Sizes \cup MCShortSizes \cup MCWideSizes \cup MCWideHistSizes
SizesFor(r) == IF r.kind = "none" THEN {0}
               ELSE IF r.kind \in ShortReaders THEN MCShortSizes
               ELSE IF r.kind = "widebuffer" THEN (IF Len(r.hist) = 1 THEN MCWideSizes ELSE MCWideHistSizes)
               ELSE IF Len(r.hist) = 1 THEN MCSizes ELSE IF Len(r.hist) = 2 THEN MCHistSizes ELSE MCHist3Sizes
Raw == [kind : MCKinds, n : AllSizes, start : {0, 1}, m : MCMethods, chunked : BOOLEAN,
        caller : {"none", "cl", "te"}, client : {"pool", "mgr"}, hist : Hists]
Admissible(r) ==
    /\ r.n \in SizesFor(r)
    /\ (r.start = 1 => r.kind \in FileLike)
    /\ (r.caller # "none" => r.hist = <<"ok">> /\ r.client = "pool" /\ r.start = 0)
    /\ (r.kind \in {"shorttextfile", "shorttextpipe"} => Len(r.hist) <= MCShortTextMaxHist)
    \* (a caller-supplied Transfer-Encoding with a wide buffer runs into the recorded chunk-size finding as well, but the
    \*  statement does not judge caller-framed requests: left out rather than reported as drift)
    /\ (r.kind = "widebuffer" => r.caller # "te")
    /\ (r.caller = "cl" => ~r.chunked)        \* a caller that asks for chunking AND supplies Content-Length contradicts itself
    /\ (Len(r.hist) = 2 => r.m \in MCHistMethods)
    /\ (Len(r.hist) = 3 => r.m \in MCHistMethods /\ ~r.chunked)
ScOf(r) == [kind |-> r.kind,
            content |-> (IF r.start = 1 THEN <<"X">> ELSE <<>>) \o Data(r.kind, r.n), start |-> r.start,
            method |-> MethodTable[r.m], chunked |-> r.chunked, caller |-> r.caller, bs |-> MCBS,
            client |-> r.client, hist |-> r.hist]
ShardOf(r) == (r.n + r.m + Len(r.hist) + (IF r.chunked THEN 1 ELSE 0) + (IF r.client = "mgr" THEN 3 ELSE 0)
               + r.start + Cardinality({k \in MCKinds : k = r.kind /\ r.kind \in FileLike}) * 5) % ShardK

\* a deviation is explored only where its guard can fire: D3 on one-shot bodies, the zero-position variant on
\* seekable bodies behind a PoolManager (everywhere else the run IS the design run)
Relevant(d, r) == /\ ("D3" \in d => r.kind \in OneShot)
                  /\ (Z0 \in d => r.client = "mgr" /\ r.kind \in HasTell /\ r.caller = "none")
                  /\ (SR \in d => r.kind \in ShortReaders /\ r.caller = "none")
                  /\ (LCI \in d => r.kind = "widebuffer" /\ r.caller = "none")
                  /\ (CSI \in d => r.kind = "widebuffer" /\ r.caller = "none")
Init == \E r \in Raw, d \in MCDefectSets :
            /\ Admissible(r) /\ Relevant(d, r) /\ ShardOf(r) = ShardS
            /\ sc = ScOf(r) /\ st = InitState(sc) /\ dv = d

D == dv
\* one named action per branch of the real code (BodyFraming!ActionName says which one is enabled; every step is recorded in
\* st.trail, which the harness reads back from the emitted terminal states: an action nobody takes is a vacuous model)
Take(name) == st.pc # "done" /\ ActionName(D, sc, st) = name /\ st' = Step(D, sc, st) /\ UNCHANGED <<sc, dv>>
ActManagerRecords == Take("ActManagerRecords")
ActManagerKeeps == Take("ActManagerKeeps")
ActRecordPosition == Take("ActRecordPosition")
ActTellFails == Take("ActTellFails")
ActMarkUnreplayable == Take("ActMarkUnreplayable")
ActNoPosition == Take("ActNoPosition")
ActRewind == Take("ActRewind")
ActRewindSeekFails == Take("ActRewindSeekFails")
ActRewindRefused == Take("ActRewindRefused")
ActRewindNoSeek == Take("ActRewindNoSeek")
ActSend == Take("ActSend")
ActSendBreaks == Take("ActSendBreaks")
ActReturn == Take("ActReturn")
ActRetry == Take("ActRetry")
ActPoolRedirect == Take("ActPoolRedirect")
ActManagerRedirect == Take("ActManagerRedirect")
ActSeeOther == Take("ActSeeOther")
\* ActMarkUnreplayable: design only; ActRewindNoSeek: never enabled (an integer position implies seek)

Next == \/ ActManagerRecords \/ ActManagerKeeps \/ ActRecordPosition \/ ActTellFails \/ ActMarkUnreplayable \/ ActNoPosition
        \/ ActRewind \/ ActRewindSeekFails \/ ActRewindRefused \/ ActRewindNoSeek
        \/ ActSend \/ ActSendBreaks \/ ActReturn \/ ActRetry \/ ActPoolRedirect \/ ActManagerRedirect \/ ActSeeOther
Spec == Init /\ [][Next]_vars /\ WF_vars(Next)

-----------------------------------------------------------------------------
(* Invariants (stage 1)                                                         *)

Positions == {PosNone, PosFailed} \cup {PosAt(n) : n \in 0..Len(sc.content)}
TypeOK == /\ st.pc \in {"menter", "enter", "send", "reply", "done"}
          /\ st.kwPos \in Positions /\ st.mgrPos \in Positions
          /\ st.bodyPos \in Positions
          /\ st.cursor \in 0..Len(sc.content) /\ st.used \in 0..4
          /\ st.outcome \in {"running", "resp", "UnrewindableBodyError", "ValueError"}
          /\ Len(st.atts) + Len(st.left) <= Len(sc.hist) + 1

V == Verdict(sc, st.atts)
\* the property, for the design (D = {}): every clause on every attempt
RulesHold == dv = {} => V.clause = "ok"
\* with the recorded deviations enabled: only BodyIdentical may fail, and only inside the recorded classes
RulesHoldExceptKnown ==
    V.clause # "ok" =>
        \/ "D3" \in D /\ V.clause = "BodyIdentical" /\ InClassD3(sc, V.at)
        \/ Z0 \in D /\ V.clause = "BodyIdentical" /\ InClassZ0(sc, V.at)
        \* a truncated body fails against the body's bytes on the first complete attempt (PayloadEqualsBody when that is attempt 1)
        \/ SR \in D /\ V.clause \in {"PayloadEqualsBody", "BodyIdentical"} /\ InClassSR(sc)
           /\ (V.clause = "BodyIdentical" => ~st.atts[1].complete)
        \* a wide buffer framed by items: the first complete attempt already fails against the body's bytes
        \/ LCI \in D /\ V.clause \in {"PayloadEqualsBody", "BodyIdentical"} /\ InClassLCI(sc)
           /\ (V.clause = "BodyIdentical" => ~st.atts[1].complete)
        \/ CSI \in D /\ V.clause \in {"PayloadEqualsBody", "BodyIdentical"} /\ InClassCSI(sc)
           /\ (V.clause = "BodyIdentical" => ~st.atts[1].complete)
\* the position handed to a redirected request is the one recorded before the FIRST attempt (0 is a position)
ManagerKeepsFirstPosition == D \cap {Z0} = {} =>
    (sc.client = "mgr" /\ st.kwPos # PosNone /\ sc.kind \in (Rewindable \cup {"badseek"}) => st.kwPos = PosAt(sc.start))
\* the framing decision table, clause by clause, on every attempt made so far (caller supplies no framing header)
FramingTable ==
    sc.caller = "none" /\ D \cap {LCI, CSI} = {} => \A j \in 1..Len(st.atts) :
        LET a == st.atts[j] IN
        a.complete =>
        /\ a.ok /\ a.clean
        /\ a.mode = (IF sc.chunked THEN "chunked"
                     ELSE IF ~CarriesBody(sc, j) THEN (IF UpperSeq(MethodAt(sc, j)) \in NoBodyMethods THEN "none" ELSE "cl")
                     ELSE IF sc.kind \in SizedKinds THEN "cl" ELSE "chunked")
        /\ a.nfr = (IF a.mode = "none" THEN 0 ELSE 1)
        /\ (a.mode = "cl" => a.declared = Len(a.payload))
        /\ a.method = MethodAt(sc, j)
\* the call is refused only when the body really cannot be replayed, and never with a raw exception
RefusedOnlyWhenUnreplayable ==
    /\ st.outcome # "ValueError"
    /\ st.outcome = "UnrewindableBodyError" =>
          /\ sc.kind \in (OneShot \cup {"badseek", "badtell"})
          /\ HasResendBefore(sc, Len(st.atts) + 1)
\* the design never sends a one-shot body twice; a replayable body is always sent again
DesignResends == D = {} =>
    /\ (sc.kind \in OneShot => Cardinality({j \in 1..Len(st.atts) : CarriesBody(sc, j)}) <= 1)
    /\ (st.pc = "done" /\ sc.kind \in (Replayable \cup Rewindable \cup {"none"}) => st.outcome = "resp" /\ Len(st.atts) = Len(sc.hist))
\* the pure run operator used by the trace monitor is the state machine
PredictIsTheMachine == st.pc = "done" => Predict(D, sc) = st

Terminates == <>(st.pc = "done")

-----------------------------------------------------------------------------
(* Emission (stage 2): one line per terminal state                               *)
EmitInv == (EmitOn /\ st.pc = "done") =>
    PrintT(<<"SC", ToJson([sc |-> sc, dv |-> IF dv = {} THEN "design" ELSE IF dv = {"D3"} THEN "D3" ELSE IF dv = {Z0} THEN Z0 ELSE IF dv = {SR} THEN SR ELSE IF dv = {LCI} THEN LCI ELSE IF dv = {CSI} THEN CSI ELSE "other", outcome |-> st.outcome, verdict |-> V,
                           trail |-> st.trail, atts |-> [j \in 1..Len(st.atts) |-> Proj(st.atts[j])]])>>)
=============================================================================
