---------------------------- MODULE MC_BodyFraming ----------------------------
(* Exhaustive configuration, invariants and scenario emission for BodyFraming (C11).              *)
(*                                                                                              *)
(* An initial state is one scenario (body kind x size x start offset x method x chunked flag x      *)
(* caller framing header x client x attempt history) with the model at the top of urlopen; Next     *)
(* takes one real step (one named action per branch).  Every invariant is evaluated in every state;  *)
(* terminal states are printed with the model's expected observations.                               *)
EXTENDS BodyFraming, Json, IOUtils

Env == JsonDeserialize(IOEnv.BF_ENV)      \* [host, ua : Seq(Symbol)]
EnvHost == Env.host
EnvUA == Env.ua

CONSTANTS MCDefects,                \* the deviations enabled in this run
          MCKinds, MCSizes,         \* body kinds, body sizes (units)
          MCHistSizes,              \* sizes used with histories of more than one attempt
          MCMethods,                \* indices into MethodTable
          MCMaxRe,                  \* at most this many re-sends (history length <= MCMaxRe + 1)
          MCOutcomes,               \* the outcomes histories are built from (besides the final "ok")
          MCBS,                     \* blocksize
          ShardK, ShardS,           \* emission sharding
          EmitOn

VARIABLES sc, st
vars == <<sc, st>>

MethodTable == << <<"G","E","T">>, <<"P","O","S","T">>, <<"D","E","L","E","T","E">>, <<"P","U","T">>,
                  <<"P","A","T","C","H">>, <<"H","E","A","D">>, <<"O","P","T","I","O","N","S">>, <<"g","e","t">> >>
DataSyms == <<"a","b","c","d","e","f","g","h","i","j","k","l","m","n","o","p">>
Data(kind, n) == [i \in 1..n |-> IF kind \in TextKinds /\ i % 2 = 1 THEN NA ELSE DataSyms[i]]

RECURSIVE HistsOfLen(_)
HistsOfLen(n) == IF n = 0 THEN {<<>>} ELSE {<<o>> \o h : o \in MCOutcomes, h \in HistsOfLen(n - 1)}
Hists == UNION {{h \o <<"ok">> : h \in HistsOfLen(n)} : n \in 0..MCMaxRe}

Raw == [kind : MCKinds, n : MCSizes, start : {0, 1}, m : MCMethods, chunked : BOOLEAN,
        caller : {"none", "cl", "te"}, client : {"pool", "mgr"}, hist : Hists]
Admissible(r) ==
    /\ (r.kind = "none" => r.n = 0)
    /\ (r.start = 1 => r.kind \in FileLike)
    /\ (r.caller # "none" => r.hist = <<"ok">> /\ r.client = "pool" /\ r.start = 0)
    /\ (r.caller = "cl" => ~r.chunked)        \* a caller that asks for chunking AND supplies Content-Length contradicts itself
    /\ (Len(r.hist) > 1 => r.n \in MCHistSizes)
    /\ (Len(r.hist) > 2 => ~r.chunked)
ScOf(r) == [kind |-> r.kind,
            content |-> (IF r.start = 1 THEN <<"X">> ELSE <<>>) \o Data(r.kind, r.n), start |-> r.start,
            method |-> MethodTable[r.m], chunked |-> r.chunked, caller |-> r.caller, bs |-> MCBS,
            client |-> r.client, hist |-> r.hist]
ShardOf(r) == (r.n + r.m + Len(r.hist) + (IF r.chunked THEN 1 ELSE 0) + (IF r.client = "mgr" THEN 3 ELSE 0)
               + r.start + Cardinality({k \in MCKinds : k = r.kind /\ r.kind \in FileLike}) * 5) % ShardK

Init == \E r \in Raw : /\ Admissible(r) /\ ShardOf(r) = ShardS
                       /\ sc = ScOf(r) /\ st = InitState(sc)

D == MCDefects
\* one named action per branch, written out so that TLC's coverage is reported per branch
\* set_file_position: first visit of a urlopen call
ActRecordPosition == st.pc = "enter" /\ EnterCase(D, sc, st) = "RecordPosition" /\ st' = Enter(D, sc, st) /\ UNCHANGED sc
ActTellFails == st.pc = "enter" /\ EnterCase(D, sc, st) = "TellFails" /\ st' = Enter(D, sc, st) /\ UNCHANGED sc
ActMarkUnreplayable == st.pc = "enter" /\ EnterCase(D, sc, st) = "MarkUnreplayable" /\ st' = Enter(D, sc, st) /\ UNCHANGED sc   \* design only
ActNoPosition == st.pc = "enter" /\ EnterCase(D, sc, st) = "NoPosition" /\ st' = Enter(D, sc, st) /\ UNCHANGED sc
\* rewind_body: a position is already known
ActRewind == st.pc = "enter" /\ EnterCase(D, sc, st) = "Rewind" /\ st' = Enter(D, sc, st) /\ UNCHANGED sc
ActRewindSeekFails == st.pc = "enter" /\ EnterCase(D, sc, st) = "RewindSeekFails" /\ st' = Enter(D, sc, st) /\ UNCHANGED sc
ActRewindRefused == st.pc = "enter" /\ EnterCase(D, sc, st) = "RewindRefused" /\ st' = Enter(D, sc, st) /\ UNCHANGED sc
\* never enabled: an integer position implies seek
ActRewindNoSeek == st.pc = "enter" /\ EnterCase(D, sc, st) = "RewindNoSeek" /\ st' = Enter(D, sc, st) /\ UNCHANGED sc
ActSend == st.pc = "send" /\ ~Breaks(sc, st) /\ st' = Send(sc, st) /\ UNCHANGED sc
ActSendBreaks == st.pc = "send" /\ Breaks(sc, st) /\ st' = SendBreaks(sc, st) /\ UNCHANGED sc
ActReturn == st.pc = "reply" /\ Head(st.left) = "ok" /\ st' = Reply(D, sc, st) /\ UNCHANGED sc
ActRetry == st.pc = "reply" /\ Head(st.left) \in {"err", "errsend", "503"} /\ st' = Reply(D, sc, st) /\ UNCHANGED sc
ActPoolRedirect == st.pc = "reply" /\ sc.client = "pool" /\ Head(st.left) \in {"307", "308"} /\ st' = Reply(D, sc, st) /\ UNCHANGED sc
ActManagerRedirect == st.pc = "reply" /\ sc.client = "mgr" /\ Head(st.left) \in {"307", "308"} /\ st' = Reply(D, sc, st) /\ UNCHANGED sc
ActSeeOther == st.pc = "reply" /\ Head(st.left) = "303" /\ st' = Reply(D, sc, st) /\ UNCHANGED sc

Next == \/ ActRecordPosition \/ ActTellFails \/ ActMarkUnreplayable \/ ActNoPosition
        \/ ActRewind \/ ActRewindSeekFails \/ ActRewindRefused \/ ActRewindNoSeek
        \/ ActSend \/ ActSendBreaks \/ ActReturn \/ ActRetry \/ ActPoolRedirect \/ ActManagerRedirect \/ ActSeeOther
Spec == Init /\ [][Next]_vars /\ WF_vars(Next)

-----------------------------------------------------------------------------
(* Invariants (stage 1)                                                         *)

TypeOK == /\ st.pc \in {"enter", "send", "reply", "done"}
          /\ st.bodyPos \in {PosNone, PosFailed} \cup {PosAt(n) : n \in 0..Len(sc.content)}
          /\ st.cursor \in 0..Len(sc.content) /\ st.used \in 0..4
          /\ st.outcome \in {"running", "resp", "UnrewindableBodyError", "ValueError"}
          /\ Len(st.atts) + Len(st.left) <= Len(sc.hist) + 1

V == Verdict(sc, st.atts)
\* the property, for the design (D = {}): every clause on every attempt
RulesHold == V.clause = "ok"
\* with the recorded deviations enabled: only BodyIdentical may fail, and only inside the recorded classes
RulesHoldExceptKnown ==
    V.clause # "ok" => /\ V.clause = "BodyIdentical"
                       /\ \/ "D3" \in D /\ InClassD3(sc, V.at)
                          \/ "D4" \in D /\ InClassD4(sc, V.at)
\* the framing decision table, clause by clause, on every attempt made so far (caller supplies no framing header)
FramingTable ==
    sc.caller = "none" => \A j \in 1..Len(st.atts) :
        LET a == st.atts[j] IN
        a.complete =>
        /\ a.ok /\ a.clean
        /\ a.mode = (IF sc.chunked THEN "chunked"
                     ELSE IF ~CarriesBody(sc, j) THEN (IF UpperSeq(MethodAt(sc, j)) \in NoBodyMethods THEN "none" ELSE "cl")
                     ELSE IF sc.kind \in SizedKinds THEN "cl" ELSE "chunked")
        /\ a.nfr = (IF a.mode = "none" THEN 0 ELSE 1)
        /\ (a.mode = "cl" => a.declared = Len(a.payload))
        /\ a.method = MethodAt(sc, j)
\* the call is refused only when the body really cannot be replayed, and never with a raw exception
RefusedOnlyWhenUnreplayable ==
    /\ st.outcome # "ValueError"
    /\ st.outcome = "UnrewindableBodyError" =>
          /\ sc.kind \in (OneShot \cup {"badseek", "badtell"})
          /\ HasResendBefore(sc, Len(st.atts) + 1)
\* the design never sends a one-shot body twice; a replayable body is always sent again
DesignResends == D = {} =>
    /\ (sc.kind \in OneShot => Cardinality({j \in 1..Len(st.atts) : CarriesBody(sc, j)}) <= 1)
    /\ (st.pc = "done" /\ sc.kind \in (Replayable \cup {"file", "textfile", "none"}) => st.outcome = "resp" /\ Len(st.atts) = Len(sc.hist))
\* the pure run operator used by the trace monitor is the state machine
PredictIsTheMachine == st.pc = "done" => Predict(D, sc) = st

Terminates == <>(st.pc = "done")

-----------------------------------------------------------------------------
(* Emission (stage 2): one line per terminal state                               *)
EmitInv == (EmitOn /\ st.pc = "done") =>
    PrintT(<<"SC", ToJson([sc |-> sc, outcome |-> st.outcome, verdict |-> V,
                           atts |-> [j \in 1..Len(st.atts) |-> Proj(st.atts[j])]])>>)
=============================================================================
