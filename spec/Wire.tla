-------------------------------- MODULE Wire --------------------------------
(* Request serialisation on the wire (properties C10 and C11; BodyFraming.tla builds on it).    *)
(*                                                                                             *)
(* A request is a record over SYMBOLS.  A symbol is a string: the seven named symbols below    *)
(* (CR LF NUL DEL SP HT and NA = one non-ASCII character) or a one-character string for a       *)
(* printable ASCII character.  Wire streams additionally contain raw-byte symbols "xHH".        *)
(*                                                                                             *)
(*   req == [level  : "conn" | "pool" | "mgr" | "h2",     which entry point is used            *)
(*           method : Seq(Symbol),                                                             *)
(*           slash  : BOOLEAN, url : Seq(Symbol),          target input = ("/" if slash) \o url *)
(*           hdrs   : Seq([n : Seq(Symbol), v : Seq(Symbol), skip : BOOLEAN]),                  *)
(*           body   : [kind : "none"|"bytes"|"str"|"iter"|"file"|..., chunks : Seq(Seq(Symbol))], *)
(*           chunked : BOOLEAN]                            the caller's chunked flag           *)
(*                                                                                             *)
(* Structure                                                                                   *)
(*   1  symbols, character classes, small sequence helpers                                      *)
(*   2  normalisation: method, request target (percent-encoding, fragment removal)              *)
(*   3  header lines: caller lines, automatic lines, SKIP_HEADER                               *)
(*   4  framing decision table and body bytes (C10, C11)                                        *)
(*   5  Serialize: the one canonical message                                                    *)
(*   6  Parse: an independent, paranoid request parser for a symbol stream                      *)
(*   7  C10: the three-valued expectation, the judge of one execution, the invariants           *)
(*   8  C10 for HTTP/2 header validity                                                          *)
EXTENDS Naturals, Sequences, FiniteSets, TLC

CONSTANTS HostValue,    \* symbols of the automatic Host value (the harness's host name)
          UAValue       \* symbols of the automatic User-Agent value ("python-urllib3/<version>")

-----------------------------------------------------------------------------
(* 1  Symbols and helpers                                                     *)

CR == "CR"   LF == "LF"   NUL == "NUL"   DEL == "DEL"   SP == "SP"   HT == "HT"   NA == "NA"
Named == {CR, LF, NUL, DEL, SP, HT, NA}

UpperCh == <<"A","B","C","D","E","F","G","H","I","J","K","L","M","N","O","P","Q","R","S","T","U","V","W","X","Y","Z">>
LowerCh == <<"a","b","c","d","e","f","g","h","i","j","k","l","m","n","o","p","q","r","s","t","u","v","w","x","y","z">>
DigitCh == <<"0","1","2","3","4","5","6","7","8","9">>
HexLowCh == <<"0","1","2","3","4","5","6","7","8","9","a","b","c","d","e","f">>
HexUpCh == <<"0","1","2","3","4","5","6","7","8","9","A","B","C","D","E","F">>
Range(f) == {f[i] : i \in DOMAIN f}
Upper == Range(UpperCh)   Lower == Range(LowerCh)   Digit == Range(DigitCh)
HexDigits == Range(HexLowCh) \cup Range(HexUpCh)
Punct == {"!", "\"", "#", "$", "%", "&", "'", "(", ")", "*", "+", ",", "-", ".", "/", ":", ";", "<", "=", ">",
          "?", "@", "[", "\\", "]", "^", "_", "`", "{", "|", "}", "~"}
Printable == Upper \cup Lower \cup Digit \cup Punct          \* 0x21 .. 0x7E
TChar == Upper \cup Lower \cup Digit \cup {"!", "#", "$", "%", "&", "'", "*", "+", "-", ".", "^", "_", "`", "|", "~"}
WS == {SP, HT}
EOL == {CR, LF}

UpMap == [c \in Lower |-> UpperCh[CHOOSE i \in 1..26 : LowerCh[i] = c]]
LoMap == [c \in Upper |-> LowerCh[CHOOSE i \in 1..26 : UpperCh[i] = c]]
ToUpper(c) == IF c \in Lower THEN UpMap[c] ELSE c
ToLower(c) == IF c \in Upper THEN LoMap[c] ELSE c
UpperSeq(s) == [i \in 1..Len(s) |-> ToUpper(s[i])]
LowerSeq(s) == [i \in 1..Len(s) |-> ToLower(s[i])]
DigitVal == [c \in Digit |-> (CHOOSE i \in 1..10 : DigitCh[i] = c) - 1]
HexVal1 == [c \in HexDigits |-> IF c \in Range(HexLowCh) THEN (CHOOSE i \in 1..16 : HexLowCh[i] = c) - 1
                                 ELSE (CHOOSE i \in 1..16 : HexUpCh[i] = c) - 1]

RECURSIVE Flatten(_)
Flatten(ss) == IF ss = <<>> THEN <<>> ELSE ss[1] \o Flatten(Tail(ss))
Has(s, D) == \E i \in 1..Len(s) : s[i] \in D
AllIn(s, D) == \A i \in 1..Len(s) : s[i] \in D
RECURSIVE FirstFrom(_, _, _)       \* least index >= i whose symbol is in D, Len(s)+1 when none
FirstFrom(s, D, i) == IF i > Len(s) THEN Len(s) + 1 ELSE IF s[i] \in D THEN i ELSE FirstFrom(s, D, i + 1)
RECURSIVE SplitOn(_, _)            \* split at EVERY delimiter (empty words are kept)
SplitOn(s, D) == LET j == FirstFrom(s, D, 1) IN
                 IF j > Len(s) THEN <<s>> ELSE <<SubSeq(s, 1, j - 1)>> \o SplitOn(SubSeq(s, j + 1, Len(s)), D)
RECURSIVE DecDigits(_)
DecDigits(n) == IF n < 10 THEN <<DigitCh[n + 1]>> ELSE DecDigits(n \div 10) \o <<DigitCh[(n % 10) + 1]>>
RECURSIVE HexDigitsOf(_)
HexDigitsOf(n) == IF n < 16 THEN <<HexLowCh[n + 1]>> ELSE HexDigitsOf(n \div 16) \o <<HexLowCh[(n % 16) + 1]>>
RECURSIVE DecVal(_)
DecVal(s) == IF s = <<>> THEN 0 ELSE 10 * DecVal(SubSeq(s, 1, Len(s) - 1)) + DigitVal[s[Len(s)]]
RECURSIVE HexVal(_)
HexVal(s) == IF s = <<>> THEN 0 ELSE 16 * HexVal(SubSeq(s, 1, Len(s) - 1)) + HexVal1[s[Len(s)]]
Count(s, x) == Cardinality({i \in 1..Len(s) : s[i] = x})
Restrict(s, S) == LET RECURSIVE R(_)
                      R(t) == IF t = <<>> THEN <<>> ELSE (IF t[1] \in S THEN <<t[1]>> ELSE <<>>) \o R(Tail(t))
                  IN R(s)

\* fixed strings as symbol sequences
HTTP11 == <<"H","T","T","P","/","1",".","1">>
CRLF == <<CR, LF>>
HostDisp == <<"H","o","s","t">>
AEDisp == <<"A","c","c","e","p","t","-","E","n","c","o","d","i","n","g">>
UADisp == <<"U","s","e","r","-","A","g","e","n","t">>
CLDisp == <<"C","o","n","t","e","n","t","-","L","e","n","g","t","h">>
TEDisp == <<"T","r","a","n","s","f","e","r","-","E","n","c","o","d","i","n","g">>
Identity == <<"i","d","e","n","t","i","t","y">>
Chunked == <<"c","h","u","n","k","e","d">>
HostKey == LowerSeq(HostDisp)   AEKey == LowerSeq(AEDisp)   UAKey == LowerSeq(UADisp)
CLKey == LowerSeq(CLDisp)       TEKey == LowerSeq(TEDisp)
Skippable == {HostKey, AEKey, UAKey}                       \* urllib3.util.SKIPPABLE_HEADERS
NoBodyMethods == { <<"G","E","T">>, <<"H","E","A","D">>, <<"D","E","L","E","T","E">>, <<"T","R","A","C","E">>,
                   <<"O","P","T","I","O","N","S">>, <<"C","O","N","N","E","C","T">> }

-----------------------------------------------------------------------------
(* 2  Normalisation of method and target                                      *)

\* PoolManager.request upper-cases the method; the connection and the pool take it verbatim
NormMethod(level, m) == IF level = "mgr" THEN UpperSeq(m) ELSE m

Unreserved == Upper \cup Lower \cup Digit \cup {".", "_", "-", "~"}
SubDelims == {"!", "$", "&", "'", "(", ")", "*", "+", ",", ";", "="}
PathChars == Unreserved \cup SubDelims \cup {":", "@", "/"}
QueryChars == PathChars \cup {"?"}

\* percent-encoding of one symbol that is not allowed in a URL component (NA: its two UTF-8 bytes)
PctOf(c) ==
    CASE c = CR -> <<"%","0","D">>  [] c = LF -> <<"%","0","A">>  [] c = NUL -> <<"%","0","0">>
      [] c = DEL -> <<"%","7","F">> [] c = SP -> <<"%","2","0">>  [] c = HT -> <<"%","0","9">>
      [] c = NA -> <<"%","C","3","%","A","9">>
      [] c = "%" -> <<"%","2","5">> [] c = "#" -> <<"%","2","3">> [] c = "?" -> <<"%","3","F">>
      [] c = "\"" -> <<"%","2","2">> [] c = "<" -> <<"%","3","C">> [] c = ">" -> <<"%","3","E">>
      [] c = "[" -> <<"%","5","B">> [] c = "\\" -> <<"%","5","C">> [] c = "]" -> <<"%","5","D">>
      [] c = "^" -> <<"%","5","E">> [] c = "`" -> <<"%","6","0">> [] c = "{" -> <<"%","7","B">>
      [] c = "|" -> <<"%","7","C">> [] c = "}" -> <<"%","7","D">>

\* start indices of the well-formed escapes %HH, scanned left to right without overlap
RECURSIVE EscScan(_, _)
EscScan(s, i) == IF i + 2 > Len(s) THEN {}
                 ELSE IF s[i] = "%" /\ s[i + 1] \in HexDigits /\ s[i + 2] \in HexDigits
                      THEN {i} \cup EscScan(s, i + 3) ELSE EscScan(s, i + 1)

\* a component keeps its '%' only when every '%' starts a well-formed escape; escapes are upper-cased;
\* every symbol outside `allowed` is percent-encoded
EncodeComponent(s, allowed) ==
    LET esc == EscScan(s, 1)
        up == [i \in 1..Len(s) |-> IF \E e \in esc : i \in {e + 1, e + 2} THEN ToUpper(s[i]) ELSE s[i]]
        keepPct == Cardinality(esc) = Count(s, "%")
    IN Flatten([i \in 1..Len(s) |-> IF (up[i] = "%" /\ keepPct) \/ up[i] \in allowed THEN <<up[i]>> ELSE PctOf(up[i])])

\* RFC 3986 5.2.4 as parse_url applies it to the path of an absolute http(s) URL (PoolManager only;
\* the pool's _encode_target and the bare connection leave dot segments alone).  Done BEFORE the
\* percent-encoding, so "%2e%2e" is not a dot segment.
RECURSIVE DotFold(_, _)
DotFold(segs, out) ==
    IF segs = <<>> THEN out
    ELSE IF segs[1] = <<".">> THEN DotFold(Tail(segs), out)
    ELSE IF segs[1] # <<".", ".">> THEN DotFold(Tail(segs), Append(out, segs[1]))
    ELSE DotFold(Tail(segs), IF out = <<>> THEN out ELSE SubSeq(out, 1, Len(out) - 1))
RECURSIVE JoinWith(_, _)
JoinWith(segs, d) == IF segs = <<>> THEN <<>> ELSE IF Len(segs) = 1 THEN segs[1] ELSE segs[1] \o <<d>> \o JoinWith(Tail(segs), d)
EndsWith(s, t) == Len(s) >= Len(t) /\ SubSeq(s, Len(s) - Len(t) + 1, Len(s)) = t
RemoveDotSegments(p) ==
    LET o1 == DotFold(SplitOn(p, {"/"}), <<>>)
        o2 == IF p # <<>> /\ p[1] = "/" /\ (o1 = <<>> \/ o1[1] # <<>>) THEN << <<>> >> \o o1 ELSE o1
        o3 == IF EndsWith(p, <<"/", ".">>) \/ EndsWith(p, <<"/", ".", ".">>) THEN Append(o2, <<>>) ELSE o2
        r == JoinWith(o3, "/")
    IN IF r = <<>> THEN <<"/">> ELSE r          \* Url.request_uri: an empty path is sent as "/"

\* "/"-rooted target: fragment dropped, path and query encoded separately; `dots`: remove dot segments first
EncodeTarget(full, dots) ==
    LET h == FirstFrom(full, {"#"}, 1)
        nofrag == SubSeq(full, 1, h - 1)
        q == FirstFrom(nofrag, {"?"}, 1)
        path0 == SubSeq(nofrag, 1, q - 1)
        path == IF dots THEN RemoveDotSegments(path0) ELSE path0
    IN EncodeComponent(path, PathChars)
       \o (IF q <= Len(nofrag) THEN <<"?">> \o EncodeComponent(SubSeq(nofrag, q + 1, Len(nofrag)), QueryChars) ELSE <<>>)

GivenTarget(req) == (IF req.slash THEN <<"/">> ELSE <<>>) \o req.url
\* the bare connection takes the target verbatim ("" means "/"); the pool re-encodes it; the manager parses
\* the absolute URL (RFC 3986 normalisation: dot segments removed, then encoded) and the pool re-encodes that
NormTarget(level, req) ==
    IF level = "conn" THEN (IF GivenTarget(req) = <<>> THEN <<"/">> ELSE GivenTarget(req))
    ELSE EncodeTarget(<<"/">> \o req.url, level = "mgr")

-----------------------------------------------------------------------------
(* 3  Header lines                                                            *)

Line(n, v) == n \o <<":", SP>> \o v
\* first ':' splits name from value
NameOf(line) == SubSeq(line, 1, FirstFrom(line, {":"}, 1) - 1)
StripWS(s) == LET RECURSIVE L(_)
                  L(t) == IF t # <<>> /\ t[1] \in WS THEN L(Tail(t)) ELSE t
                  RECURSIVE T(_)
                  T(t) == IF t # <<>> /\ t[Len(t)] \in WS THEN T(SubSeq(t, 1, Len(t) - 1)) ELSE t
              IN T(L(s))
ValueOf(line) == StripWS(SubSeq(line, FirstFrom(line, {":"}, 1) + 1, Len(line)))

\* header values are written as latin-1: the non-ASCII character is one raw byte
Latin1(v) == [i \in 1..Len(v) |-> IF v[i] = NA THEN "xE9" ELSE v[i]]
\* str bodies and HTTP/2 header values are written as UTF-8
Utf8(v) == Flatten([i \in 1..Len(v) |-> IF v[i] = NA THEN <<"xC3", "xA9">> ELSE <<v[i]>>])

Mentions(req, key) == \E i \in 1..Len(req.hdrs) : LowerSeq(req.hdrs[i].n) = key
CallerLines(req) ==
    Flatten([i \in 1..Len(req.hdrs) |-> IF req.hdrs[i].skip THEN <<>> ELSE <<Line(req.hdrs[i].n, Latin1(req.hdrs[i].v))>>])
\* automatic lines appear only when the caller neither supplied nor suppressed them
AutoHost(req) == IF Mentions(req, HostKey) THEN <<>> ELSE <<Line(HostDisp, HostValue)>>
AutoAE(req) == IF Mentions(req, AEKey) THEN <<>> ELSE <<Line(AEDisp, Identity)>>
AutoUA(req) == IF Mentions(req, UAKey) THEN <<>> ELSE <<Line(UADisp, UAValue)>>
\* SKIP_HEADER on any other header name is refused
BadSkip(req) == \E i \in 1..Len(req.hdrs) : req.hdrs[i].skip /\ LowerSeq(req.hdrs[i].n) \notin Skippable

-----------------------------------------------------------------------------
(* 4  Framing and body bytes: the framing decision table (C10 and C11)         *)
(*                                                                                             *)
(* req.body.kind is "none", a kind whose length is known up front (SizedKinds: bytes, str, any     *)
(* buffer object) or a kind that is streamed (file-like objects, iterables); req.body.chunks is      *)
(* what the body yields on THIS attempt; text kinds are encoded as UTF-8 chunk by chunk.             *)
(* req.chunked is the caller's chunked flag; a Content-Length / Transfer-Encoding header among         *)
(* req.hdrs is a caller framing header.  Decision table of HTTPConnection.request:                     *)
(*                                                                                             *)
(*   chunked flag | caller header | body        | method        || delimits the body | automatic header *)
(*   TRUE         | any           | any         | any           || chunked           | TE unless caller TE *)
(*   FALSE        | Content-Len.  | any         | any           || caller's length   | -                *)
(*   FALSE        | Transfer-Enc. | any         | any           || chunked           | -                *)
(*   FALSE        | none          | none        | GET-like      || nothing           | -                *)
(*   FALSE        | none          | none        | other         || Content-Length 0  | Content-Length: 0 *)
(*   FALSE        | none          | sized       | any           || Content-Length n  | Content-Length: n *)
(*   FALSE        | none          | streamed    | any           || chunked           | TE: chunked       *)

\* "buffer" = a buffer object with 1-byte items (bytearray, memoryview of bytes, array('B')); "widebuffer" = one whose items are
\* wider than a byte or that has more than one dimension (array('H'), array('d'), memoryview.cast('H'), a 2-D memoryview):
\* its len() counts ITEMS, the payload is its BYTES and Content-Length is its nbytes
SizedKinds == {"bytes", "str", "buffer", "widebuffer"}
WideItem == 2                       \* bytes per len()-unit of a wide buffer in the model
TextKinds == {"str", "textfile", "strlist", "shorttextfile", "shorttextpipe"}
EncChunk(req, c) == IF req.body.kind \in TextKinds THEN Utf8(c) ELSE c
Payload(req) == Flatten([i \in 1..Len(req.body.chunks) |-> EncChunk(req, req.body.chunks[i])])
\* named deviations of the framing arithmetic (BodyFraming.tla passes them in req.dev; a request without that field has none):
\*   "LengthCountsItems"     Content-Length = len(memoryview(body)) instead of its nbytes
\*   "ChunkSizeCountsItems"  the chunk-size line of a chunked wide buffer says len(chunk) instead of the number of bytes
DevOf(req) == IF "dev" \in DOMAIN req THEN req.dev ELSE {}
DeclaredLength(req) == IF req.body.kind = "widebuffer" /\ "LengthCountsItems" \in DevOf(req)
                       THEN Len(Payload(req)) \div WideItem ELSE Len(Payload(req))
ChunkSizeOf(req, c) == IF req.body.kind = "widebuffer" /\ "ChunkSizeCountsItems" \in DevOf(req) THEN Len(c) \div WideItem ELSE Len(c)
MethodExpectsBody(m) == UpperSeq(m) \notin NoBodyMethods
CallerFraming(req) == IF Mentions(req, CLKey) THEN "cl" ELSE IF Mentions(req, TEKey) THEN "te" ELSE "none"
FramingMode(req) ==
    IF req.chunked THEN "chunked"
    ELSE IF CallerFraming(req) = "cl" THEN "cl"
    ELSE IF CallerFraming(req) = "te" THEN "chunked"
    ELSE IF req.body.kind = "none" THEN (IF MethodExpectsBody(req.method) THEN "cl" ELSE "none")
    ELSE IF req.body.kind \in SizedKinds THEN "cl" ELSE "chunked"
\* the automatic framing header: only where the caller has not supplied that header
FramingLines(req) ==
    IF req.chunked THEN (IF CallerFraming(req) = "te" THEN <<>> ELSE <<Line(TEDisp, Chunked)>>)
    ELSE IF CallerFraming(req) # "none" THEN <<>>
    ELSE CASE FramingMode(req) = "none" -> <<>>
           [] FramingMode(req) = "cl" -> <<Line(CLDisp, DecDigits(DeclaredLength(req)))>>
           [] FramingMode(req) = "chunked" -> <<Line(TEDisp, Chunked)>>
ChunkFrame(req, c) == IF c = <<>> THEN <<>> ELSE HexDigitsOf(ChunkSizeOf(req, c)) \o CRLF \o c \o CRLF      \* empty chunks are skipped
BodyBytes(req) ==
    IF FramingMode(req) = "chunked"
    THEN Flatten([i \in 1..Len(req.body.chunks) |-> ChunkFrame(req, EncChunk(req, req.body.chunks[i]))]) \o <<"0">> \o CRLF \o CRLF
    ELSE Payload(req)

-----------------------------------------------------------------------------
(* 5  Serialize: the one canonical message                                     *)

RequestLine(level, req) == NormMethod(level, req.method) \o <<SP>> \o NormTarget(level, req) \o <<SP>> \o HTTP11
HeadLines(req) == AutoHost(req) \o AutoAE(req) \o FramingLines(req) \o AutoUA(req) \o CallerLines(req)
\* request line, header lines and the blank line: what endheaders() writes
SerializeHead(level, req) ==
    RequestLine(level, req) \o CRLF
    \o Flatten([i \in 1..Len(HeadLines(req)) |-> HeadLines(req)[i] \o CRLF])
    \o CRLF
Serialize(level, req) == SerializeHead(level, req) \o BodyBytes(req)

-----------------------------------------------------------------------------
(* 6  Parse: paranoid request parser                                           *)
(* Line terminators: CRLF, bare LF and bare CR (whatever any server might take for an end of     *)
(* line).  A physical line starting with SP/HT continues the previous header line (obs-fold);    *)
(* the logical line keeps the terminator symbols in place, so it can be compared symbol by        *)
(* symbol with what was requested.  The request line is split at every SP, HT, CR, LF and must     *)
(* have exactly three words, the third being HTTP/1.1.  The body is delimited by the framing       *)
(* header of the message itself; whatever follows is the next message.                             *)

TermLen(s, i) == IF s[i] = CR /\ i < Len(s) /\ s[i + 1] = LF THEN 2 ELSE 1

RECURSIVE PhysLines(_, _, _)   \* physical head lines from index i up to and including the first empty line
PhysLines(s, i, acc) ==
    LET j == FirstFrom(s, EOL, i) IN
    IF j > Len(s) THEN [ok |-> FALSE, lines |-> acc, next |-> Len(s) + 1]
    ELSE LET k == TermLen(s, j) IN
         IF j = i THEN [ok |-> TRUE, lines |-> acc, next |-> j + k]
         ELSE PhysLines(s, j + k, Append(acc, [txt |-> SubSeq(s, i, j - 1), term |-> SubSeq(s, j, j + k - 1)]))

RECURSIVE Unfold(_, _)
Unfold(phys, acc) ==
    IF phys = <<>> THEN acc
    ELSE LET p == phys[1] IN
         IF p.txt[1] \in WS /\ acc # <<>>
         THEN Unfold(Tail(phys), [acc EXCEPT ![Len(acc)] = [txt |-> @.txt \o @.term \o p.txt, term |-> p.term]])
         ELSE Unfold(Tail(phys), Append(acc, p))

RECURSIVE Dechunk(_, _, _)
Dechunk(s, i, acc) ==
    LET j == FirstFrom(s, EOL, i) IN
    IF j > Len(s) \/ j = i \/ TermLen(s, j) # 2 \/ ~AllIn(SubSeq(s, i, j - 1), HexDigits)
    THEN [ok |-> FALSE, payload |-> acc, next |-> i]
    ELSE LET n == HexVal(SubSeq(s, i, j - 1))
             d == j + 2 IN
         IF n = 0 THEN (IF d + 1 <= Len(s) /\ s[d] = CR /\ s[d + 1] = LF
                        THEN [ok |-> TRUE, payload |-> acc, next |-> d + 2]
                        ELSE [ok |-> FALSE, payload |-> acc, next |-> d])
         ELSE IF d + n + 1 > Len(s) \/ s[d + n] # CR \/ s[d + n + 1] # LF
              THEN [ok |-> FALSE, payload |-> acc, next |-> d]
              ELSE Dechunk(s, d + n + 2, acc \o SubSeq(s, d, d + n - 1))

Msg(ok, why, method, target, lines, payload, next) ==
    [ok |-> ok, why |-> why, method |-> method, target |-> target, lines |-> lines, payload |-> payload, next |-> next]
Bad(why, next) == Msg(FALSE, why, <<>>, <<>>, <<>>, <<>>, next)

ParseOne(s, i0) ==
    LET ph == PhysLines(s, i0, <<>>) IN
    IF ~ph.ok THEN Bad("HeadNotTerminated", Len(s) + 1)
    ELSE IF ph.lines = <<>> THEN Bad("NoRequestLine", ph.next)
    ELSE
    LET lg == Unfold(ph.lines, <<>>)
        words == SplitOn(lg[1].txt, WS \cup EOL)
        hl == [i \in 1..(Len(lg) - 1) |-> lg[i + 1].txt]
        te == {i \in 1..Len(hl) : LowerSeq(NameOf(hl[i])) = TEKey}
        cl == {i \in 1..Len(hl) : LowerSeq(NameOf(hl[i])) = CLKey}
    IN
    IF Len(words) # 3 \/ words[3] # HTTP11 THEN Bad("RequestLineNotThreeWords", ph.next)
    ELSE IF \E i \in 1..Len(hl) : ~Has(hl[i], {":"}) \/ NameOf(hl[i]) = <<>> THEN Bad("HeaderLineWithoutName", ph.next)
    ELSE IF Cardinality(te) + Cardinality(cl) > 1 THEN Bad("SeveralFramingHeaders", ph.next)
    ELSE IF te # {}
         THEN LET v == ValueOf(hl[CHOOSE i \in te : TRUE]) IN
              IF LowerSeq(v) # Chunked THEN Bad("UnknownTransferEncoding", ph.next)
              ELSE LET d == Dechunk(s, ph.next, <<>>) IN
                   IF d.ok THEN Msg(TRUE, "", words[1], words[2], hl, d.payload, d.next)
                   ELSE Bad("BadChunkedBody", Len(s) + 1)
    ELSE IF cl # {}
         THEN LET v == ValueOf(hl[CHOOSE i \in cl : TRUE]) IN
              IF v = <<>> \/ ~AllIn(v, Digit) \/ Len(v) > 6 THEN Bad("BadContentLength", ph.next)
              ELSE IF ph.next + DecVal(v) - 1 > Len(s) THEN Bad("BodyShorterThanContentLength", Len(s) + 1)
              ELSE Msg(TRUE, "", words[1], words[2], hl, SubSeq(s, ph.next, ph.next + DecVal(v) - 1), ph.next + DecVal(v))
    ELSE Msg(TRUE, "", words[1], words[2], hl, <<>>, ph.next)

RECURSIVE ParseFrom(_, _)
ParseFrom(s, i) == IF i > Len(s) THEN <<>>
                   ELSE LET m == ParseOne(s, i) IN IF m.ok THEN <<m>> \o ParseFrom(s, m.next) ELSE <<m>>
\* a stream of bytes never contains the abstract non-ASCII character itself
Parse(s) == IF Has(s, {NA}) THEN <<Bad("NotBytes", 1)>> ELSE ParseFrom(s, 1)

-----------------------------------------------------------------------------
(* 7  C10                                                                      *)

\* A terminator (CR, LF or CRLF) inside a value is harmless only when SP/HT follows (obs-fold)
BreaksLine(v) == \E i \in 1..Len(v) :
                    /\ v[i] \in EOL
                    /\ ~(v[i] = CR /\ i < Len(v) /\ v[i + 1] = LF)
                    /\ (i = Len(v) \/ v[i + 1] \notin WS)
BadName(n) == n = <<>> \/ n[1] \in WS \/ Has(n, {":", CR, LF, NA})
BadMethod(m) == Has(m, WS \cup EOL \cup {NA})
BadTarget(level, req) == level = "conn" /\ Has(GivenTarget(req), WS \cup EOL \cup {NA})

\* What MUST be refused before any write: requests that have no faithful one-message serialisation.
\* RefuseReasons names every rule that applies (the harness demands that each rule was exercised at
\* every entry point: a rule nobody triggers is a vacuous rule).
RefuseReasons(level, req) ==
    (IF BadMethod(req.method) THEN {"BadMethod"} ELSE {})
    \cup (IF BadTarget(level, req) THEN {"BadTarget"} ELSE {})
    \cup (IF \E i \in 1..Len(req.hdrs) : ~req.hdrs[i].skip /\ BadName(req.hdrs[i].n) THEN {"BadName"} ELSE {})
    \cup (IF \E i \in 1..Len(req.hdrs) : ~req.hdrs[i].skip /\ BreaksLine(req.hdrs[i].v) THEN {"BreaksLine"} ELSE {})
    \cup (IF BadSkip(req) THEN {"BadSkip"} ELSE {})
MustRefuse(level, req) == RefuseReasons(level, req) # {}
ReasonOrder == <<"BadMethod", "BadTarget", "BadName", "BreaksLine", "BadSkip", "H2BadName", "H2BadValue">>
ReasonTag(S) == LET RECURSIVE J(_)
                    J(i) == IF i > Len(ReasonOrder) THEN ""
                            ELSE (IF ReasonOrder[i] \in S THEN ReasonOrder[i] \o "+" ELSE "") \o J(i + 1)
                IN J(1)
\* DESIGN.md calls the complement Accept: the requests that have a faithful serialisation
Accept(level, req) == ~MustRefuse(level, req)

\* What MUST be sent exactly: every field is plain printable ASCII in the right shape
\* (pool and manager re-parse a target starting with "//" as an authority: left open)
CleanValue(v) == AllIn(v, Printable \cup {SP})
Clean(level, req) ==
    /\ req.method # <<>> /\ AllIn(req.method, TChar)
    /\ AllIn(req.url, Printable)
    /\ (level # "conn" => ~(req.url # <<>> /\ req.url[1] = "/"))
    /\ \A i \in 1..Len(req.hdrs) :
          /\ req.hdrs[i].n # <<>> /\ AllIn(req.hdrs[i].n, TChar)
          /\ (req.hdrs[i].skip \/ CleanValue(req.hdrs[i].v))
    /\ ~BadSkip(req)

Expect(level, req) == IF MustRefuse(level, req) THEN "MustRefuse"
                      ELSE IF Clean(level, req) THEN "MustBeExactlyThis" ELSE "Either"

\* Is the parsed message m precisely the requested one?  Returns the failing clause or "ok".
\* Automatic and framing lines may sit anywhere; caller lines keep their relative order.
SameRequest(level, req, m) ==
    LET want == HeadLines(req)
        caller == CallerLines(req)
    IN
    IF m.method # NormMethod(level, req.method) THEN "MethodChanged"
    ELSE IF m.target # NormTarget(level, req) THEN "TargetChanged"
    ELSE IF Len(m.lines) > Len(want) THEN "HeaderLineAdded"
    ELSE IF Len(m.lines) < Len(want) THEN "HeaderLineMissing"
    ELSE IF \E i \in 1..Len(want) : Count(m.lines, want[i]) # Count(want, want[i]) THEN "HeaderLineChanged"
    ELSE IF \E i \in 1..Len(req.hdrs) : ~req.hdrs[i].skip /\ NameOf(Line(req.hdrs[i].n, <<>>)) # req.hdrs[i].n THEN "HeaderNameChanged"
    ELSE IF Restrict(m.lines, Range(caller)) # caller THEN "HeaderOrderChanged"
    ELSE IF m.payload # Payload(req) THEN "BodyChanged"
    ELSE "ok"

\* The verdict on one execution: `raised` = the call failed, `wire` = every symbol the client wrote.
\* hard = the property clause that fails ("ok" when none); exact = the stream is the canonical one.
\* (JudgeOn takes the parse of `wire` and the canonical serialisation as arguments, so that a caller that already has
\* them - the model checker evaluating several invariants on one state - does not compute them again)
JudgeOn(level, req, raised, wire, ms, canon) ==
    LET e == Expect(level, req)
        hard ==
          IF wire = <<>>
          THEN (IF ~raised THEN "NothingWrittenNoError"
                ELSE IF e = "MustBeExactlyThis" THEN "CleanRequestRefused" ELSE "ok")
          ELSE IF raised THEN "FailedAfterWriting"
          ELSE IF Len(ms) # 1 THEN (IF ms[1].ok THEN "SecondMessage" ELSE ms[1].why)
          ELSE IF ~ms[1].ok THEN ms[1].why
          ELSE IF SameRequest(level, req, ms[1]) # "ok" THEN SameRequest(level, req, ms[1])
          ELSE IF e = "MustRefuse" THEN "UnrepresentableRequestWritten"
          ELSE "ok"
    IN [hard |-> hard, exact |-> (wire = <<>> \/ wire = canon)]
Judge(level, req, raised, wire) == JudgeOn(level, req, raised, wire, Parse(wire), Serialize(level, req))

\* ---- invariants over a request `r` (the model checker quantifies r over the hostile domain)

\* Accept(req) => Parse(Serialize(req)) = <<req'>> : exactly one message, req' = req up to the normalisation
\* (the ...On forms take s = Serialize(r.level, r) and ms = Parse(s) from the caller)
ParseSerializeIdentityOn(r, s, ms) ==
    Accept(r.level, r) =>
        /\ Len(ms) = 1 /\ ms[1].ok
        /\ ms[1].method = NormMethod(r.level, r.method)
        /\ ms[1].target = NormTarget(r.level, r)
        /\ ms[1].lines = HeadLines(r)
        /\ ms[1].payload = Payload(r)
        /\ ms[1].next = Len(s) + 1
ParseSerializeIdentity(r) == LET s == Serialize(r.level, r) IN ParseSerializeIdentityOn(r, s, Parse(s))

\* the syntactic refusal rules are exactly the requests whose verbatim serialisation is NOT the request
RefuseIffUnrepresentableOn(r, s, ms) ==
    LET j == JudgeOn(r.level, r, FALSE, s, ms, s) IN
    /\ MustRefuse(r.level, r) => j.hard # "ok"
    /\ ~MustRefuse(r.level, r) => j.hard = "ok" /\ j.exact
RefuseIffUnrepresentable(r) == LET s == Serialize(r.level, r) IN RefuseIffUnrepresentableOn(r, s, Parse(s))

\* refusing is judged correctly: allowed unless the request is clean
RefusalJudged(r) ==
    Judge(r.level, r, TRUE, <<>>).hard = (IF Clean(r.level, r) /\ ~MustRefuse(r.level, r) THEN "CleanRequestRefused" ELSE "ok")

\* pool and manager never put a raw delimiter, control or non-ASCII symbol into the target
TargetIsSafe(r) == r.level \in {"pool", "mgr"} =>
    /\ AllIn(NormTarget(r.level, r), Printable \ {"#"})
    /\ NormTarget(r.level, r)[1] = "/"

\* automatic lines appear exactly when the caller neither supplied nor suppressed them
AutoOnlyWhenAbsentOn(r, ms) ==
    ~MustRefuse(r.level, r) =>
        LET ls == ms[1].lines
            n(key) == Cardinality({i \in 1..Len(ls) : LowerSeq(NameOf(ls[i])) = key})
            sup(key) == Cardinality({i \in 1..Len(r.hdrs) : LowerSeq(r.hdrs[i].n) = key /\ ~r.hdrs[i].skip})
        IN \A key \in Skippable : n(key) = (IF Mentions(r, key) THEN sup(key) ELSE 1)
AutoOnlyWhenAbsent(r) == AutoOnlyWhenAbsentOn(r, Parse(Serialize(r.level, r)))

\* percent-encoding is idempotent (the manager encodes, then the pool encodes again)
EncodeIdempotent(r) == r.level \in {"pool", "mgr"} =>
    EncodeTarget(NormTarget(r.level, r), FALSE) = NormTarget(r.level, r)

\* all of the above invariants on one request, sharing one Serialize and one Parse: the name of the first clause that fails, or "none"
FirstFailing(r) ==
    LET s == Serialize(r.level, r)
        ms == Parse(s) IN
    IF ~ParseSerializeIdentityOn(r, s, ms) THEN "ParseSerializeIdentity"
    ELSE IF ~RefuseIffUnrepresentableOn(r, s, ms) THEN "RefuseIffUnrepresentable"
    ELSE IF ~RefusalJudged(r) THEN "RefusalJudged"
    ELSE IF ~TargetIsSafe(r) THEN "TargetIsSafe"
    ELSE IF ~AutoOnlyWhenAbsentOn(r, ms) THEN "AutoOnlyWhenAbsent"
    ELSE IF ~EncodeIdempotent(r) THEN "EncodeIdempotent"
    ELSE "none"


-----------------------------------------------------------------------------
(* 8  HTTP/2 header validity (HTTP2Connection.putheader)                       *)

H2NameOK(n) == n # <<>> /\ AllIn(LowerSeq(n), TChar \ Upper)
H2ValueBad(v) == Has(v, {NUL, CR, LF}) \/ (v # <<>> /\ (v[1] \in WS \/ v[Len(v)] \in WS))
H2RefuseReasons(h) == (IF ~H2NameOK(h.n) THEN {"H2BadName"} ELSE {}) \cup (IF H2ValueBad(h.v) THEN {"H2BadValue"} ELSE {})
H2MustRefuse(h) == H2RefuseReasons(h) # {}
H2Expect(h) == IF H2MustRefuse(h) THEN "MustRefuse"
               ELSE IF AllIn(h.v, Printable \cup WS) THEN "MustBeExactlyThis" ELSE "Either"
\* recorded = the (name, value) pairs the connection holds after the call
H2Judge(h, raised, recorded) ==
    LET e == H2Expect(h) IN
    [hard |-> IF raised THEN (IF recorded # <<>> THEN "H2RefusedButRecorded"
                              ELSE IF e = "MustBeExactlyThis" THEN "H2CleanHeaderRefused" ELSE "ok")
              ELSE IF e = "MustRefuse" THEN "H2IllegalHeaderAccepted"
              ELSE IF recorded # << [n |-> LowerSeq(h.n), v |-> Utf8(h.v)] >> THEN "H2HeaderChanged"
              ELSE "ok",
     exact |-> TRUE]
\* whatever could break an HTTP/1.1 header line is also refused by the HTTP/2 rules
H1UnsafeIsH2Refused(h) == (BadName(h.n) \/ BreaksLine(h.v)) => H2MustRefuse(h)
-----------------------------------------------------------------------------
(* 9  Two calls on one client object: a refused request, then an accepted one   *)
(*                                                                                             *)
(* The statement is per call, so it also binds the call that FOLLOWS a refused one on the same      *)
(* pool / PoolManager / connection object.  http.client buffers the request line and every header     *)
(* line it accepted until endheaders(); a call refused in between leaves that head pending in the       *)
(* connection object, and neither close() nor the next putrequest() drops it.  The design: the          *)
(* connection object of a refused call is never used again (the pool discards it), so nothing is          *)
(* pending when the next call starts.  Named deviations (the set D of the kept-head operators):            *)
(*   "RefusedRequestConnectionPooled"  (never in the code; TLC must refute it) HTTPConnectionPool.urlopen   *)
(*        hands the connection of a refused call back to the pool; when it has no open socket the next       *)
(*        request through it flushes the pending head first: ONE request head made of both requests           *)
(*   "ConnObjectKeepsRejectedHead"  (recorded finding) the same for a bare HTTPConnection that the caller       *)
(*        close()s and uses again after a refused request()                                                   *)
(*   When the pooled connection still has a LIVE socket, the next request on it is refused by http.client        *)
(*   (CannotSendRequest): a clean request refused - also a failure of the per-call clause.                       *)

RRCP == "RefusedRequestConnectionPooled"
CKRH == "ConnObjectKeepsRejectedHead"
\* is caller header i refused?  (putheader raises: illegal name / value, SKIP_HEADER on a header that cannot be skipped)
HeaderRefused(req, i) == IF req.hdrs[i].skip THEN LowerSeq(req.hdrs[i].n) \notin Skippable
                         ELSE BadName(req.hdrs[i].n) \/ BreaksLine(req.hdrs[i].v)
FirstRefusedHeader(req) == IF \E i \in 1..Len(req.hdrs) : HeaderRefused(req, i)
                           THEN CHOOSE i \in 1..Len(req.hdrs) : HeaderRefused(req, i) /\ \A j \in 1..(i - 1) : ~HeaderRefused(req, j)
                           ELSE 0
\* the head lines pending in the connection object after the call was refused: nothing when the method or the target is
\* refused (before anything is buffered), else the request line, the automatic lines and the caller lines before the refused one
Residue(level, req) ==
    IF BadMethod(req.method) \/ BadTarget(level, req) \/ FirstRefusedHeader(req) = 0 THEN <<>>
    ELSE LET k == FirstRefusedHeader(req)
             before == [req EXCEPT !.hdrs = SubSeq(req.hdrs, 1, k - 1)]
         IN <<RequestLine(level, req)>> \o AutoHost(req) \o AutoAE(req) \o FramingLines(req) \o AutoUA(req) \o CallerLines(before)
KeepsHead(D, level) == (level = "conn" /\ CKRH \in D) \/ (level \in {"pool", "mgr"} /\ RRCP \in D)
\* the bytes written by the second call: r1 was refused, r2 is sent through the same client object (no open socket)
SecondCallWire(D, level, r1, r2) ==
    (IF KeepsHead(D, level) THEN Flatten([i \in 1..Len(Residue(level, r1)) |-> Residue(level, r1)[i] \o CRLF]) ELSE <<>>)
    \o Serialize(level, r2)

\* invariants over a refused request r1 and the request r2 that follows it
\* the design: the second call is judged "ok" and its bytes are its own canonical serialisation
SecondCallUntouched(r1, r2) == LET j == Judge(r2.level, r2, FALSE, SecondCallWire({}, r2.level, r1, r2)) IN j.hard = "ok" /\ j.exact
\* the refutation: whenever a refused call leaves a head pending, keeping the connection object breaks the per-call clause of call 2
KeptHeadIsCaught(r1, r2) == Residue(r2.level, r1) # <<>> =>
    Judge(r2.level, r2, FALSE, SecondCallWire({RRCP, CKRH}, r2.level, r1, r2)).hard # "ok"
\* a pending head always starts with the refused call's request line
ResidueShape(r1) == LET rs == Residue(r1.level, r1) IN
    rs # <<>> => MustRefuse(r1.level, r1) /\ rs[1] = RequestLine(r1.level, r1) /\ ~BadMethod(r1.method)
=============================================================================
