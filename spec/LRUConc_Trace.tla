---------------------------- MODULE LRUConc_Trace ----------------------------
(* Batch validation of CONCURRENT histories for C17: 2-3 real threads operate on one real        *)
(* RecentlyUsedContainer (or call connection_from_url on one real PoolManager) under the          *)
(* deterministic scheduler; every run is logged as one sequence of events                        *)
(*                                                                                             *)
(*   call  thread t invokes operation number o:  op, k, v                                        *)
(*   acq / rel   t acquired / released the container's lock (outermost level)                    *)
(*   disp  dispose_func(x) was called in thread t; held = the caller owned the lock at that time   *)
(*   ret   the operation returned: res (value as string, "<none>", "<KeyError>", "<keys>"), rk;     *)
(*         err = a request made through the manager failed (manager histories only)               *)
(*   deadlock   the scheduler found every unfinished thread waiting for the lock                  *)
(*                                                                                             *)
(* followed by the main thread's (t = 0) quiescent epilogue: len, keys, one set of a fresh key per  *)
(* slot (which evicts the survivors in recency order) and clear().                               *)
(*                                                                                             *)
(* Two verdicts per history, both computed by TLC from the specification:                        *)
(*                                                                                             *)
(* HARD (Rules, printed as <<"VERDICT", tid, position, clause>>) - black box, uses only call /     *)
(*   ret / disp events:  Linearizable  some total order of the operations that respects real time   *)
(*   (a returned before b was called => a first) reproduces every result with LRU!Apply, searched   *)
(*   by TLC over all candidate orders;  DisposeExactlyOnce  the bag of disposed values is exactly    *)
(*   the bag of values that entered the container (the epilogue empties it);  DisposeOutsideLock;    *)
(*   Bound;  NoDeadlock;  SameKeySamePool for get-or-create histories.                            *)
(*                                                                                             *)
(* SOFT (Model, printed as <<"DRIFT", tid, position, what>>) - white box: the event sequence must    *)
(*   be a behaviour of LRUConc.tla at BigStep granularity (StartOp, Acq, Rel, DispV, Ret with the     *)
(*   lock section as linearization point), and each operation must dispose exactly the values the   *)
(*   reference disposes for it in the linearization found.                                        *)
EXTENDS LRUConc, Json, IOUtils, TLCExt

Traces == JsonDeserialize(IOEnv.TRACE_FILE)

TrKeys == {"a", "b", "c", "d"}
TrValues == {1}
TrMaxSizes == {0}
TrThreads == 0..3
TrAlphabet == {}
TrInitConts == {<<>>}
TrDev == {}

VARIABLES tid, l
tvars == <<cont, ref, maxsize, initc, owner, loc, gres, ins, dset, dup, gen, done, tid, l>>

SeqToSet(s) == {s[i] : i \in 1..Len(s)}

-----------------------------------------------------------------------------
(* HARD verdict: black-box check of one history T                                              *)

Pos(T) == 1..Len(T.ev)
OpIds(T) == {<<T.ev[i].t, T.ev[i].o>> : i \in {j \in Pos(T) : T.ev[j].e = "call"}}
CallAt(T, x) == CHOOSE i \in Pos(T) : T.ev[i].e = "call" /\ T.ev[i].t = x[1] /\ T.ev[i].o = x[2]
HasRet(T, x) == \E i \in Pos(T) : T.ev[i].e = "ret" /\ T.ev[i].t = x[1] /\ T.ev[i].o = x[2]
RetAt(T, x) == CHOOSE i \in Pos(T) : T.ev[i].e = "ret" /\ T.ev[i].t = x[1] /\ T.ev[i].o = x[2]
DispBy(T, x) == LET s == SelectSeq(T.ev, LAMBDA e : e.e = "disp" /\ e.t = x[1] /\ e.o = x[2]) IN
                [i \in 1..Len(s) |-> s[i].x]

\* the operations of the history: call / return positions, the operation, what the caller saw
OpTable(T) == [x \in OpIds(T) |->
                 LET c == T.ev[CallAt(T, x)]
                     r == T.ev[RetAt(T, x)] IN
                 [c |-> CallAt(T, x), r |-> RetAt(T, x), e |-> L!E(c.op, c.k, c.v),
                  res |-> r.res, rk |-> SeqToSet(r.rk), disp |-> DispBy(T, x)]]

\* Is there a linearization of the operations not in `done`, starting from container state o?
\* x may come next only if no other pending operation returned before x was called.
\* full = TRUE additionally attributes the disposed values to the operations.
RECURSIVE Lin(_, _, _, _, _)
Lin(ops, m, done0, o, full) ==
    LET pend == (DOMAIN ops) \ done0 IN
    IF pend = {} THEN TRUE
    ELSE \E x \in pend :
           /\ \A y \in pend : ops[y].r >= ops[x].c
           /\ LET r == L!Apply(o, m, ops[x].e) IN
              /\ r.res = ops[x].res
              /\ (ops[x].e.op = "keys" => r.rk = ops[x].rk)
              /\ (full => L!SameBag(r.disp, ops[x].disp))
              /\ Lin(ops, m, done0 \cup {x}, r.order, full)

AllDisposed(T) == LET s == SelectSeq(T.ev, LAMBDA e : e.e = "disp") IN [i \in 1..Len(s) |-> s[i].x]
AllEntered(T) == LET s == SelectSeq(T.ev, LAMBDA e : e.e = "call" /\ e.op = "set") IN
                 [i \in 1..Len(T.init) |-> T.init[i].v] \o [i \in 1..Len(s) |-> s[i].v]
LenResults(m) == {ToString(j) : j \in 0..m}

HardClause(T) ==
    IF \E i \in Pos(T) : T.ev[i].e = "deadlock" THEN "NoDeadlock"
    ELSE IF \E x \in OpIds(T) : ~HasRet(T, x) THEN "NoDeadlock"
    ELSE IF \E i \in Pos(T) : T.ev[i].e = "ret" /\ T.ev[i].err THEN "InFlightResponseFinishes"
    ELSE IF \E i \in Pos(T) : T.ev[i].e = "disp" /\ T.ev[i].held THEN "DisposeOutsideLock"
    ELSE LET ops == OpTable(T) IN
         IF \E x \in DOMAIN ops : \/ (ops[x].e.op = "len" /\ ops[x].res \notin LenResults(T.m))
                                  \/ (ops[x].e.op = "keys" /\ Cardinality(ops[x].rk) > T.m) THEN "Bound"
         ELSE IF T.hasd /\ T.closed /\ ~L!SameBag(AllDisposed(T), AllEntered(T)) THEN "DisposeExactlyOnce"
         ELSE IF ~T.hasd /\ AllDisposed(T) # <<>> THEN "DisposeExactlyOnce"
         ELSE IF ~Lin(ops, T.m, {}, T.init, FALSE)
              THEN (IF \E x, y \in DOMAIN ops : /\ ops[x].e.op = "goc" /\ ops[y].e.op = "goc"
                                                /\ ops[x].e.k = ops[y].e.k /\ ops[x].res # ops[y].res
                    THEN "SameKeySamePool" ELSE "Linearizable")
         ELSE "ok"

SoftClause(T) == IF T.hasd /\ ~Lin(OpTable(T), T.m, {}, T.init, TRUE) THEN "DisposeAttribution" ELSE "ok"

-----------------------------------------------------------------------------
(* SOFT verdict: the event sequence as a behaviour of LRUConc (BigStep)                         *)

Blank == /\ owner = 0
         /\ loc = [t \in Threads |-> Idle]
         /\ gres = [t \in Threads |-> NullRes]
         /\ dset = {} /\ dup = FALSE
         /\ gen = [k \in Keys |-> 0]
         /\ done = [t \in Threads |-> <<>>]

TInit == /\ tid = 1 /\ l = 1 /\ Blank
         /\ LET T == Traces[1] IN
            /\ cont = T.init /\ ref = T.init /\ initc = T.init /\ maxsize = T.m
            /\ ins = {T.init[i].v : i \in 1..Len(T.init)}

Load(i) == /\ owner' = 0
           /\ loc' = [t \in Threads |-> Idle]
           /\ gres' = [t \in Threads |-> NullRes]
           /\ dset' = {} /\ dup' = FALSE
           /\ gen' = [k \in Keys |-> 0]
           /\ done' = [t \in Threads |-> <<>>]
           /\ IF i <= Len(Traces)
              THEN LET T == Traces[i] IN
                   /\ cont' = T.init /\ ref' = T.init /\ initc' = T.init /\ maxsize' = T.m
                   /\ ins' = {T.init[j].v : j \in 1..Len(T.init)}
              ELSE cont' = <<>> /\ ref' = <<>> /\ initc' = <<>> /\ maxsize' = 0 /\ ins' = {}

Adv == l' = l + 1 /\ tid' = tid
\* the model cannot follow: say so, stop replaying this history (the hard verdict is still given)
Drift(what) == /\ PrintT(<<"DRIFT", tid, l, what>>)
               /\ l' = Len(Traces[tid].ev) + 1 /\ tid' = tid
               /\ UNCHANGED vars

TNext ==
    /\ tid <= Len(Traces)
    /\ LET T == Traces[tid] IN
       IF l > Len(T.ev)
       THEN /\ PrintT(<<"VERDICT", tid, l, HardClause(T)>>)
            /\ (HardClause(T) = "ok" /\ SoftClause(T) # "ok" => PrintT(<<"DRIFT", tid, l, SoftClause(T)>>))
            /\ tid' = tid + 1 /\ l' = 1 /\ Load(tid + 1)
       ELSE LET e == T.ev[l]
                t == e.t IN
            CASE e.e = "call" -> IF CanStart(t) THEN StartOp(t, e.op, e.k, e.v) /\ Adv ELSE Drift("call")
              [] e.e = "acq"  -> IF CanAcq(t) THEN Acq(t) /\ Adv ELSE Drift("acq")
              [] e.e = "rel"  -> IF CanRel(t) THEN Rel(t) /\ Adv ELSE Drift("rel")
              [] e.e = "disp" -> IF CanDisp(t, e.x) THEN DispV(t, e.x) /\ Adv ELSE Drift("disp")
              [] e.e = "ret"  -> IF CanRet(t) /\ loc[t].res = e.res /\ loc[t].rk = SeqToSet(e.rk)
                                 THEN Ret(t) /\ Adv ELSE Drift("ret")
              [] OTHER -> Drift("event")

TSpec == TInit /\ [][TNext]_tvars
=============================================================================
