---------------------------- MODULE RedirectMeta ----------------------------
(* Growth module of Redirect (serves C05): the OBSERVABLE METADATA of a redirect chain, which no   *)
(* listed clause names but which callers rely on:                                                 *)
(*   response.retries (counters + history of RequestHistory entries), response.url,               *)
(*   MaxRetryError.url / .pool / .reason, HostChangedError.url / .pool / .retries,                *)
(*   and the caller's own Retry objects after the call.                                           *)
(*                                                                                               *)
(* MODEL  = Redirect's Model composed with two history variables (mhist: what Retry.increment      *)
(* appends per followed redirect; lastreq: the url string the redirect-handling layer requested)   *)
(* and a state function MetaExp giving the metadata the caller receives.  Two behaviours of the    *)
(* code are modelled as NAMED deviations (on in the as-is runs):                                   *)
(*   "HistMethodAfterRewrite"  the entry of the hop answered by a 303 carries the rewritten method *)
(*                             (GET) instead of the method that was sent (increment runs after the *)
(*                             rewrite);                                                           *)
(*   "UrlIsRawLocation"        response.url is the last history entry's redirect_location exactly  *)
(*                             as received, so after a relative Location it is not a URL at all.   *)
(* RULES  = MetaClause: HistoryMatchesWire, FinalUrlIsLastRequested, CountersConsumedExactly,      *)
(* CallerPolicyUntouched, ErrorNamesLastHop, judged against the observed wire log with the spec's  *)
(* own Origin / RemDots.  A failure inside the input class of a named deviation is tagged          *)
(* (clause@class).  The same operator judges traces of the real code (RedirectMeta_Trace).         *)
EXTENDS Redirect

VARIABLES mhist, lastreq
mvars == <<vars, mhist, lastreq>>
MetaView == <<View, mhist, lastreq>>

-----------------------------------------------------------------------------
(* URL strings as the caller sees them: [form, scheme, host, port, path] (form: abs / schemerel /  *)
(* pathabs / rel / none), i.e. exactly the shape of a Location as it was received.                 *)
Loc(f, s, h, p, path) == [form |-> f, scheme |-> s, host |-> h, port |-> p, path |-> path]
NoLoc == Loc("none", "", "", 0, <<>>)
LocOfHop(h) == Loc(h.form, IF h.form = "abs" THEN h.scheme ELSE "", IF h.form \in {"abs", "schemerel"} THEN h.host ELSE "",
                   IF h.form \in {"abs", "schemerel"} THEN h.port ELSE 0, h.ref)
LocOfUrl(u) == Loc("abs", u.scheme, u.host, u.port, u.path)
LocOfPath(p) == Loc("pathabs", "", "", 0, p)
NoPool == <<"", "", 0>>

\* does the string L name the resource that request u (observed on the wire) asked for?
UrlNames(L, u) ==
    CASE L.form = "abs"       -> Origin(L) = Origin(u) /\ RemDots(L.path, <<>>) = u.path
      [] L.form = "schemerel" -> TRUE        \* bare pool only: re-requested verbatim as a path (outside the statements)
      [] L.form = "pathabs"   -> RemDots(L.path, <<>>) = u.path
      [] OTHER                -> FALSE       \* a relative reference is not the URL that was fetched

-----------------------------------------------------------------------------
(* RULES.  M = the metadata the caller received:                                                  *)
(*   url, hasretries, total, redirect, connect, read, status, other, hist (entries [method, url,   *)
(*   error, status, loc]), eurl, epool, reason, callers (seq of [before, after] counter records)   *)
PolTotal(c) == CASE Pol(c).kind = "none" -> 3 [] Pol(c).kind = "false" -> F [] OTHER -> Pol(c).total
RECURSIVE DecN(_, _)
DecN(x, k) == IF k = 0 \/ x = N THEN x ELSE DecN(IF x = F THEN -1 ELSE x - 1, k - 1)
\* counters the redirect chain never touches: the meta driver gives Retry objects connect=5 read=6 status=7 other=8
Untouched(c) == IF Pol(c).kind = "retry" THEN <<5, 6, 7, 8>> ELSE <<N, N, N, N>>

MetaClause(c, hops, w, out, M) ==
    LET n == Len(w)
        k == IF out.kind = "HostChangedError" THEN n ELSE n - 1      \* successful increments
        entryOK(i, strict) ==
            /\ M.hist[i].status = hops[i].code /\ ~M.hist[i].error
            /\ M.hist[i].loc = LocOfHop(hops[i])                      \* as received, un-joined
            /\ UrlNames(M.hist[i].url, w[i].url)
            /\ (M.hist[i].method = w[i].method \/ (~strict /\ hops[i].code = 303 /\ M.hist[i].method = "GET"))
        histOK(strict) == Len(M.hist) = k /\ \A i \in 1..k : entryOK(i, strict)
    IN
    IF M.hasretries /\ ~histOK(TRUE)
    THEN (IF histOK(FALSE) THEN "HistoryMatchesWire@method-after-303" ELSE "HistoryMatchesWire")
    ELSE IF out.kind = "resp" /\ ~M.hasretries THEN "HistoryMatchesWire"
    ELSE IF out.kind = "resp" /\ ~UrlNames(M.url, w[n].url)
         THEN (IF M.url.form = "rel" THEN "FinalUrlIsLastRequested@relative-location" ELSE "FinalUrlIsLastRequested")
    ELSE IF M.hasretries /\ ~(/\ M.total = DecN(PolTotal(c), k)
                              /\ (Pol(c).kind = "retry" /\ ~Disabled(c) => M.redirect = DecN(Pol(c).redirect, k))
                              /\ <<M.connect, M.read, M.status, M.other>> = Untouched(c))
         THEN "CountersConsumedExactly"
    ELSE IF \E i \in 1..Len(M.callers) : M.callers[i].before # M.callers[i].after THEN "CallerPolicyUntouched"
    ELSE IF out.kind = "MaxRetryError"
            /\ ~(/\ UrlNames(M.eurl, w[n].url) /\ M.reason = "too many redirects"
                 /\ (c.client = "pm" => M.epool = Origin(w[n].url))
                 /\ (c.client = "pool" => M.epool = Origin(c.start)))
         THEN "ErrorNamesLastHop"
    ELSE IF out.kind = "HostChangedError" /\ ~(M.eurl = LocOfHop(hops[n]) /\ M.epool = Origin(c.start))
         THEN "ErrorNamesLastHop"
    ELSE "ok"

-----------------------------------------------------------------------------
(* MODEL: Redirect's Next composed with the history variables.                                    *)

\* the url string the layer that handles redirects passes to urlopen for the current request
\* (urljoin returns a reference that carries its own authority verbatim, dot segments included; they disappear only
\* from the request target)
ReqLoc == IF cfg.client # "pool"
          THEN LocOfUrl(IF resp.form \in {"abs", "schemerel"} THEN [cur EXCEPT !.path = resp.ref] ELSE cur)
          ELSE CASE curform = "abs"       -> LocOfUrl([cur EXCEPT !.host = LowerHost(@)])     \* to_str(parse_url(url).url)
                 [] curform = "schemerel" -> Loc("schemerel", "", cur.host, cur.port, cur.path)
                 [] OTHER                 -> LocOfPath(cur.path)
EntryMethod == IF "HistMethodAfterRewrite" \in Deviations THEN method ELSE wire[Len(wire)].msg.method

MetaInit == Init /\ mhist = <<>> /\ lastreq = NoLoc
MetaNext ==
    /\ Next
    /\ lastreq' = IF pc = "attempt" /\ pc' = "await" THEN ReqLoc ELSE lastreq
    /\ mhist' = IF pc = "incr" /\ pc' = "attempt"          \* Follow: Retry.increment succeeded, history grows by one entry
                THEN Append(mhist, [method |-> EntryMethod, url |-> lastreq, error |-> FALSE, status |-> resp.code,
                                    loc |-> LocOfHop(resp)])
                ELSE mhist
MetaSpec == MetaInit /\ [][MetaNext]_mvars

\* the Retry attached to the response: a manager's first call reaches the pool with redirect=False, so the pool
\* derives its own object (from_int(retries, redirect=False, default=pool.retries)); later calls pass the manager's
RespRetry == IF Managed(cfg) /\ mhist = <<>> THEN FromInt(cfg.reqpol, FALSE, cfg.clipol) ELSE eff
\* response.url: history[-1].redirect_location if there is history, else the request url of the pool call
FinalLoc == IF mhist # <<>> /\ "UrlIsRawLocation" \in Deviations THEN mhist[Len(mhist)].loc
            ELSE IF cfg.client = "pm" /\ mhist = <<>> THEN LocOfPath(lastreq.path)         \* u.request_uri
            ELSE lastreq
MetaExp ==
    LET none == [url |-> NoLoc, hasretries |-> FALSE, total |-> N, redirect |-> N, hist |-> <<>>, eurl |-> NoLoc,
                 epool |-> NoPool, reason |-> ""] IN
    CASE outcome.kind = "resp" ->
           [none EXCEPT !.url = FinalLoc, !.hasretries = TRUE, !.total = RespRetry.total, !.redirect = RespRetry.redirect,
                        !.hist = mhist]
      [] outcome.kind = "MaxRetryError" ->
           [none EXCEPT !.eurl = lastreq, !.reason = "too many redirects",
                        !.epool = CASE cfg.client = "pm" -> Origin(lastreq) [] cfg.client = "proxy" -> Origin(cfg.proxy)
                                    [] OTHER -> Origin(cfg.start)]
      [] outcome.kind = "HostChangedError" ->
           [none EXCEPT !.eurl = LocOfHop(resp), !.epool = Origin(cfg.start), !.hasretries = TRUE, !.total = eff.total,
                        !.redirect = eff.redirect, !.hist = mhist]
      [] OTHER -> none

\* the Model's own metadata judged by the Rules (the Model's requests are its wire log)
ModelWire == [i \in 1..Len(wire) |-> wire[i].msg]
ModelMeta == [url |-> MetaExp.url, hasretries |-> MetaExp.hasretries, total |-> MetaExp.total, redirect |-> MetaExp.redirect,
              connect |-> Untouched(cfg)[1], read |-> Untouched(cfg)[2], status |-> Untouched(cfg)[3], other |-> Untouched(cfg)[4],
              hist |-> MetaExp.hist, eurl |-> MetaExp.eurl, epool |-> MetaExp.epool, reason |-> MetaExp.reason, callers |-> <<>>]
MetaBad == IF pc = "done" THEN MetaClause(cfg, hist, ModelWire, outcome, ModelMeta) ELSE "ok"

\* stage 1
MetaRulesHold       == MetaBad = "ok"                                    \* the design (no deviation)
MetaOnlyNamedQuirks == MetaBad \in {"ok", "HistoryMatchesWire@method-after-303", "FinalUrlIsLastRequested@relative-location"}
NoQuirkMethod       == MetaBad # "HistoryMatchesWire@method-after-303"   \* must be violated as-is (reachability gate)
NoQuirkUrl          == MetaBad # "FinalUrlIsLastRequested@relative-location"
HistoryLength       == Len(mhist) <= Len(hist) /\ (pc = "done" /\ outcome.kind = "resp" => Len(mhist) = Len(wire) - 1)
HistoryOnlyGrows    == [][Len(mhist') >= Len(mhist) /\ SubSeq(mhist', 1, Len(mhist)) = mhist]_mvars
=============================================================================
