------------------------------- MODULE Timeout -------------------------------
(* C19 - socket waits never exceed the configured timeouts.                                    *)
(*                                                                                             *)
(* All times are integer milliseconds on a virtual clock.  A timeout *source* is what the      *)
(* caller writes: nothing ("omit"), a Timeout(total, connect, read) object ("obj") or a bare   *)
(* number / None ("num", value in field c).  Field values are either a number of ms or one of  *)
(* the codes below (UNSET = argument omitted -> the _DEFAULT_TIMEOUT sentinel, NONE = None =   *)
(* wait forever, BOOLV = a boolean, STRV = a non-number).                                      *)
(*                                                                                             *)
(* Two layers over the same records:                                                           *)
(*   RULES  - the property as written in the statement (min / max formulas, override,          *)
(*            rejection, no waiting on a zero budget), as clause predicates over one request   *)
(*            record "what reached the socket layer".  The same predicates are the stage-1      *)
(*            invariants of the model below AND the trace monitor of Timeout_Trace.tla.         *)
(*   MODEL  - the steps urllib3 takes (util/timeout.py, connectionpool._make_request,          *)
(*            connection.request/getresponse), one action per step, over a virtual clock, with  *)
(*            the environment (connect duration, connect outcome, server behaviour) chosen      *)
(*            nondeterministically.  Its history variable is what TLC emits as scenarios.       *)
EXTENDS Integers, Sequences, FiniteSets, TLC

CONSTANTS Configs,     \* set of [ps, D, sch, rs]: pool-level source, system default timeout
                       \*   (socket.getdefaulttimeout: NONE or ms), scheme, request-level sources
          Durations,   \* connect durations (ms) the environment may choose
          Gap,         \* idle time between two requests (ms)
          Dev          \* named deviations of the MODEL (always {} except in sensitivity runs, where
                       \*   stage 1 must REJECT the deviating model): "noclone" (requests share the pool's
                       \*   Timeout object), "maxconnect" (max for min), "ignoreelapsed" (read timeout does
                       \*   not subtract the connect time), "nozerocheck" (zero budget still waits),
                       \*   "negativeread" (no clamp at 0), "mergepool" (request timeout merged with the
                       \*   pool's instead of replacing it), "noreapply" (getresponse keeps the socket's
                       \*   connect-stage timeout)

\* ---- value codes (anything > -900000 is a number of milliseconds) ----
UNSET      == -900001
NONE       == -900002
BOOLV      == -900003
STRV       == -900004
SENTINEL   == -900005   \* observation only: the _DEFAULT_TIMEOUT object itself reached the socket layer
FRACTION   == -900006   \* observation only: a value that is not a whole number of ms
NODIAL     == -900010   \* observation only: no connection attempt was made
NOSEND     == -900011   \* observation only: the request was never written
NOTSTARTED == -900012   \* model only: Timeout._start_connect is None
NOD        == -900013   \* no connect duration was consumed
NOWAIT     == -900014   \* observation only: the response wait never began
INF        == 2000000000

IsNum(v)    == v > -900000
ValidVal(v) == v \in {UNSET, NONE} \/ (IsNum(v) /\ v > 0)
Min2(a, b)  == IF a <= b THEN a ELSE b
Max2(a, b)  == IF a >= b THEN a ELSE b
Range(s)    == {s[i] : i \in 1..Len(s)}

-----------------------------------------------------------------------------
(* RULES: the property statement                                             *)

\* "Invalid values (zero or negative, booleans, non-numbers) are rejected when the Timeout is built"
SrcValid(s) == CASE s.kind = "omit" -> TRUE
                 [] s.kind = "obj"  -> ValidVal(s.t) /\ ValidVal(s.c) /\ ValidVal(s.r)
                 [] s.kind = "num"  -> ValidVal(s.c)

\* the (total, connect, read) a valid source denotes; an omitted total is None, a bare number sets
\* connect and read, an omitted pool timeout leaves connect and read to the system default
Norm(s) == CASE s.kind = "omit" -> [t |-> NONE, c |-> UNSET, r |-> UNSET]
             [] s.kind = "obj"  -> [t |-> IF s.t = UNSET THEN NONE ELSE s.t, c |-> s.c, r |-> s.r]
             [] s.kind = "num"  -> [t |-> NONE, c |-> s.c, r |-> s.c]

\* "a request-level timeout fully overrides the pool's"
EffCfg(ps, rs) == IF rs.kind = "omit" THEN Norm(ps) ELSE Norm(rs)

\* only numbers bound a wait; UNSET and None do not
Bound(v) == IF IsNum(v) THEN v ELSE INF

\* "the timeout applied to the connect phase is min(connect, total)"; when neither bounds the wait
\* it is unbounded (None) or, when connect was left unset, the system default D
RuleConnect(cfg, D) ==
    LET m == Min2(Bound(cfg.c), Bound(cfg.t)) IN
    IF m < INF THEN m ELSE IF cfg.c = UNSET THEN D ELSE NONE

\* "the one applied to the response wait is min(read, total minus the time already spent
\* connecting) - never negative"
RuleRead(cfg, elapsed, D) ==
    LET m == Min2(Bound(cfg.r), IF IsNum(cfg.t) THEN cfg.t - elapsed ELSE INF) IN
    IF m < INF THEN Max2(0, m) ELSE IF cfg.r = UNSET THEN D ELSE NONE

\* ---- one request record x (what the socket layer saw, on the virtual clock) ----
\*   src     the request-level source          t0     clock when the request began
\*   dial    timeout given to the connection attempt (NODIAL when the connection was reused)
\*   pre     every settimeout before the request bytes were written (connect / send stage)
\*   tSend   clock when the request was written (NOSEND), sent  the server saw the request
\*   rds     every settimeout after the request was written (response-wait stage)
\*   rwait   the timeout in force on the socket when the response wait began (NOWAIT: it never began)
\*   waitC / waitR   time spent waiting in connect / in the response wait
\*   d, cmode ("ok" | "timeout" | "none"), smode ("keep" | "close" | "silent" | "none"): environment
\*   outcome class, tEnd clock when the call returned / raised
ConnVals(x) == (IF x.dial = NODIAL THEN {} ELSE {x.dial}) \cup Range(x.pre)
ReadVals(x) == Range(x.rds) \cup (IF x.rwait = NOWAIT THEN {} ELSE {x.rwait})
Elapsed(x)  == x.tSend - x.t0

CInvalidRejected(ps, D, x) ==
    ~SrcValid(x.src) => /\ x.outcome = "ValueError" /\ x.dial = NODIAL /\ x.pre = <<>> /\ x.rds = <<>>
                        /\ ~x.sent /\ x.rwait = NOWAIT /\ x.tEnd = x.t0
CValidAccepted(ps, D, x) == SrcValid(x.src) => x.outcome # "ValueError"

\* never negative, never zero (zero would make the socket non-blocking), never a non-number
CSocketValueLegal(ps, D, x) ==
    SrcValid(x.src) => \A v \in ConnVals(x) \cup ReadVals(x) : v = NONE \/ (IsNum(v) /\ v > 0)

\* never looser than configured
CNeverLooser(ps, D, x) ==
    SrcValid(x.src) =>
      LET cfg == EffCfg(ps, x.src) IN
      /\ IsNum(cfg.c) => \A v \in ConnVals(x) : IsNum(v) /\ v <= cfg.c
      /\ IsNum(cfg.t) => \A v \in ConnVals(x) \cup ReadVals(x) : IsNum(v) /\ v <= cfg.t
      /\ IsNum(cfg.r) => \A v \in ReadVals(x) : IsNum(v) /\ v <= cfg.r
      /\ (IsNum(cfg.t) /\ x.tSend # NOSEND) => \A v \in ReadVals(x) : v <= Max2(0, cfg.t - Elapsed(x))

\* the values are those of the request's own timeout when it gave one (whatever the pool says)
CRequestOverridesPool(ps, D, x) ==
    (SrcValid(x.src) /\ x.src.kind # "omit") =>
      /\ \A v \in ConnVals(x) : v = RuleConnect(Norm(x.src), D)
      /\ x.sent => \A v \in ReadVals(x) : v = RuleRead(Norm(x.src), Elapsed(x), D)

CConnectIsMin(ps, D, x) ==
    (SrcValid(x.src) /\ x.dial # NODIAL) => x.dial = RuleConnect(EffCfg(ps, x.src), D)

\* until the request has been written the socket (fresh or reused) carries the connect-phase timeout
CSendStageUsesConnect(ps, D, x) ==
    SrcValid(x.src) => \A v \in Range(x.pre) : v = RuleConnect(EffCfg(ps, x.src), D)

CReadIsMinRemaining(ps, D, x) ==
    (SrcValid(x.src) /\ x.sent) =>
      LET rr == RuleRead(EffCfg(ps, x.src), Elapsed(x), D) IN
      IF rr = 0 THEN x.rds = <<>> /\ x.rwait = NOWAIT ELSE x.rwait = rr /\ \A v \in ReadVals(x) : v = rr

\* "a remaining read budget of zero raises ReadTimeoutError without waiting"
CZeroRaisesWithoutWaiting(ps, D, x) ==
    (SrcValid(x.src) /\ x.sent /\ RuleRead(EffCfg(ps, x.src), Elapsed(x), D) = 0) =>
      /\ x.outcome = "ReadTimeoutError" /\ x.rds = <<>> /\ x.rwait = NOWAIT /\ x.waitR = 0 /\ x.tEnd = x.tSend

\* the socket waits themselves: a connect that times out waited no longer than the connect timeout,
\* a response wait no longer than the read timeout, and there is no other waiting
CWaitsWithinTimeouts(ps, D, x) ==
    SrcValid(x.src) =>
      LET cfg == EffCfg(ps, x.src) IN
      /\ x.cmode = "timeout" => x.waitC <= Bound(RuleConnect(cfg, D))
      /\ x.waitR > 0 => x.sent /\ x.waitR <= Bound(RuleRead(cfg, Elapsed(x), D))
      /\ x.tEnd - x.t0 = x.waitC + x.waitR

ExpectedOutcome(ps, D, x) ==
    IF x.cmode = "timeout" THEN "ConnectTimeoutError"
    ELSE IF x.sent /\ RuleRead(EffCfg(ps, x.src), Elapsed(x), D) = 0 THEN "ReadTimeoutError"
    ELSE IF x.smode = "silent" THEN     \* None = wait forever: legal, the harness gives up on it
         IF RuleRead(EffCfg(ps, x.src), Elapsed(x), D) = NONE THEN "WaitsForever" ELSE "ReadTimeoutError"
    ELSE IF x.smode \in {"keep", "close"} THEN "OK"
    ELSE "<no legal outcome>"
COutcome(ps, D, x) == SrcValid(x.src) => x.outcome = ExpectedOutcome(ps, D, x)

\* The first failing clause of request i of a whole run  tr = [cfg, ctor, reqs]  ("ok" if none).
\* This single operator is the stage-1 invariant AllClausesHold and the verdict of the trace monitor.
ReadMatchesClockOf(ps, D, x, y) ==   \* x's read values computed against request y's clock
    x.sent /\ x.rwait # NOWAIT /\ \A v \in ReadVals(x) : v = RuleRead(EffCfg(ps, x.src), x.tSend - y.t0, D)
ReqClause(tr, i) ==
    LET ps == tr.cfg.ps  D == tr.cfg.D  x == tr.reqs[i] IN
    IF ~CInvalidRejected(ps, D, x) THEN "InvalidRejected"
    ELSE IF ~CValidAccepted(ps, D, x) THEN "ValidAccepted"
    ELSE IF x.outcome = "TimeoutStateError" THEN "ClocksIndependent"
    ELSE IF ~CSocketValueLegal(ps, D, x) THEN "NeverNegativeOrZeroOnSocket"
    ELSE IF ~CRequestOverridesPool(ps, D, x) /\ SrcValid(ps)
            /\ (\A v \in ConnVals(x) : v = RuleConnect(Norm(ps), D))
            /\ (x.sent => \A v \in ReadVals(x) : v = RuleRead(Norm(ps), Elapsed(x), D))
         THEN "RequestOverridesPool"
    ELSE IF ~CConnectIsMin(ps, D, x) THEN
            IF ~CNeverLooser(ps, D, x) THEN "ConnectNeverLooser" ELSE "ConnectIsMin"
    ELSE IF ~CSendStageUsesConnect(ps, D, x) THEN
            IF ~CNeverLooser(ps, D, x) THEN "SendStageNeverLooser" ELSE "SendStageUsesConnect"
    ELSE IF ~CZeroRaisesWithoutWaiting(ps, D, x) THEN "ZeroRaisesWithoutWaiting"
    ELSE IF ~CReadIsMinRemaining(ps, D, x) THEN
            IF \E j \in 1..(i - 1) : SrcValid(x.src) /\ ReadMatchesClockOf(ps, D, x, tr.reqs[j])
            THEN "ClocksIndependent"
            ELSE IF ~CNeverLooser(ps, D, x) THEN "ReadNeverLooser" ELSE "ReadIsMinRemaining"
    ELSE IF ~CRequestOverridesPool(ps, D, x) THEN "RequestOverridesPool"
    ELSE IF ~CNeverLooser(ps, D, x) THEN "NeverLooser"
    ELSE IF ~CWaitsWithinTimeouts(ps, D, x) THEN "WaitsWithinTimeouts"
    ELSE IF ~COutcome(ps, D, x) THEN "Outcome"
    ELSE "ok"

CtorClause(tr) ==
    IF SrcValid(tr.cfg.ps) /\ tr.ctor # "ok" THEN "ValidAccepted"
    ELSE IF ~SrcValid(tr.cfg.ps) /\ (tr.ctor # "ValueError" \/ tr.reqs # <<>>) THEN "InvalidRejected"
    ELSE "ok"

\* <<position, clause>>: position 0 is the pool construction, i the i-th request
TraceVerdict(tr) ==
    IF CtorClause(tr) # "ok" THEN <<0, CtorClause(tr)>>
    ELSE IF \E i \in 1..Len(tr.reqs) : ReqClause(tr, i) # "ok"
         THEN LET i == CHOOSE i \in 1..Len(tr.reqs) :
                          ReqClause(tr, i) # "ok" /\ \A j \in 1..(i - 1) : ReqClause(tr, j) = "ok"
              IN <<i, ReqClause(tr, i)>>
         ELSE <<Len(tr.reqs) + 1, "ok">>

\* What a recorded run exercises, decided by the RULES and the environment (never by what the code
\* did with it): <<invalid source, zero read budget, read reduced by elapsed time, connect timed out,
\* connection reused, request-level timeout>> as 0/1.  Used to reject vacuous validation.
TraceCovers(tr) ==
    LET ps == tr.cfg.ps  D == tr.cfg.D  R == tr.reqs
        Some(P(_)) == IF \E i \in 1..Len(R) : P(R[i]) THEN 1 ELSE 0
        Inv(x)  == ~SrcValid(x.src)
        RR(x)   == RuleRead(EffCfg(ps, x.src), Elapsed(x), D)
        Zero(x) == SrcValid(x.src) /\ x.sent /\ RR(x) = 0
        Red(x)  == SrcValid(x.src) /\ x.sent /\ RR(x) # RuleRead(EffCfg(ps, x.src), 0, D)
        CTo(x)  == x.cmode = "timeout"
        Reu(x)  == x.sent /\ x.dial = NODIAL
        Lvl(x)  == SrcValid(x.src) /\ x.src.kind # "omit"
    IN <<IF ~SrcValid(ps) THEN 1 ELSE Some(Inv), Some(Zero), Some(Red), Some(CTo), Some(Reu), Some(Lvl)>>

-----------------------------------------------------------------------------
(* MODEL: what urllib3 does, step by step                                     *)

\* a Timeout object: util/timeout.py
NewTimeout(cfg) == [t |-> cfg.t, c |-> cfg.c, r |-> cfg.r, start |-> NOTSTARTED]
Clone(o)        == [o EXCEPT !.start = NOTSTARTED]                    \* Timeout.clone()
ConnectTimeout(o) ==                                                  \* Timeout.connect_timeout
    IF o.t = NONE THEN o.c
    ELSE IF o.c \in {NONE, UNSET} THEN o.t
    ELSE IF "maxconnect" \in Dev THEN Max2(o.c, o.t) ELSE Min2(o.c, o.t)
Resolve(v, D) == IF v = UNSET THEN D ELSE v                           \* Timeout.resolve_default_timeout
ConnectDuration(o, now) == IF "ignoreelapsed" \in Dev THEN 0 ELSE now - o.start
Clamp(v) == IF "negativeread" \in Dev THEN v ELSE Max2(0, v)
ReadTimeout(o, now, D) ==                                             \* Timeout.read_timeout
    IF o.t # NONE /\ o.r \notin {NONE, UNSET}
    THEN IF o.start = NOTSTARTED THEN o.r ELSE Clamp(Min2(o.t - ConnectDuration(o, now), o.r))
    ELSE IF o.t # NONE THEN Clamp(o.t - ConnectDuration(o, now))
    ELSE Resolve(o.r, D)
\* deviation "mergepool": fields the request's Timeout leaves unset are taken from the pool's
Merge(n, p) == [t |-> IF n.t = NONE THEN p.t ELSE n.t, c |-> IF n.c = UNSET THEN p.c ELSE n.c,
                r |-> IF n.r = UNSET THEN p.r ELSE n.r]

VARIABLES cfg,          \* the configuration of this run (element of Configs)
          pc, k,        \* control state, index of the current request
          ctor,         \* outcome of building the pool ("", "ok", "ValueError")
          poolT,        \* the pool's Timeout object (shared by all requests)
          reqT,         \* the current request's Timeout object
          connOpen,     \* an idle keep-alive connection is available
          connTimeout,  \* conn.timeout, applied to the socket by the next connect/request/getresponse
          sockT,        \* the timeout in force on the connection's socket (survives keep-alive reuse)
          clock,
          cur,          \* record of the current request (see RULES)
          hist          \* completed request records
vars == <<cfg, pc, k, ctor, poolT, reqT, connOpen, connTimeout, sockT, clock, cur, hist>>

Blank(src, now) == [src |-> src, t0 |-> now, dial |-> NODIAL, pre |-> <<>>, tSend |-> NOSEND, sent |-> FALSE,
                    rds |-> <<>>, rwait |-> NOWAIT, waitC |-> 0, waitR |-> 0, tEnd |-> now, outcome |-> "", d |-> NOD,
                    cmode |-> "none", smode |-> "none"]
NoTimeout == NewTimeout([t |-> NONE, c |-> NONE, r |-> NONE])

Init == /\ cfg \in Configs
        /\ pc = "ctor" /\ k = 1 /\ ctor = ""
        /\ poolT = NoTimeout /\ reqT = NoTimeout
        /\ connOpen = FALSE /\ connTimeout = NONE /\ sockT = NONE /\ clock = 0
        /\ cur = Blank([kind |-> "omit", t |-> UNSET, c |-> UNSET, r |-> UNSET], 0)
        /\ hist = <<>>

\* HTTPConnectionPool(timeout=...): Timeout(...) / Timeout.from_float validate every field
ConstructPool ==
    /\ pc = "ctor"
    /\ IF SrcValid(cfg.ps)
       THEN /\ poolT' = NewTimeout(Norm(cfg.ps)) /\ ctor' = "ok" /\ pc' = "idle"
       ELSE /\ ctor' = "ValueError" /\ pc' = "done" /\ UNCHANGED poolT
    /\ UNCHANGED <<cfg, k, reqT, connOpen, connTimeout, sockT, clock, cur, hist>>

Begin ==
    /\ pc = "idle" /\ k <= Len(cfg.rs)
    /\ cur' = Blank(cfg.rs[k], clock)
    /\ pc' = "gettimeout"
    /\ UNCHANGED <<cfg, k, ctor, poolT, reqT, connOpen, connTimeout, sockT, clock, hist>>

Fail(outcome) == /\ cur' = [cur EXCEPT !.outcome = outcome] /\ pc' = "finish"

\* the caller builds Timeout(...) for the request, or urlopen -> _get_timeout: clone / from_float
GetTimeout ==
    /\ pc = "gettimeout"
    /\ IF ~SrcValid(cur.src)
       THEN Fail("ValueError") /\ UNCHANGED reqT
       ELSE /\ reqT' = IF cur.src.kind = "omit"
                       THEN (IF "noclone" \in Dev THEN poolT ELSE Clone(poolT))
                       ELSE IF "mergepool" \in Dev THEN Clone(NewTimeout(Merge(Norm(cur.src), poolT)))
                       ELSE Clone(NewTimeout(Norm(cur.src)))
            /\ pc' = "startconnect" /\ UNCHANGED cur
    /\ UNCHANGED <<cfg, k, ctor, poolT, connOpen, connTimeout, sockT, clock, hist>>

\* timeout_obj.start_connect()
StartConnect ==
    /\ pc = "startconnect"
    /\ IF reqT.start # NOTSTARTED
       THEN Fail("TimeoutStateError") /\ UNCHANGED <<reqT, poolT>>
       ELSE /\ reqT' = [reqT EXCEPT !.start = clock]
            /\ poolT' = IF "noclone" \in Dev /\ cur.src.kind = "omit" THEN [poolT EXCEPT !.start = clock] ELSE poolT
            /\ pc' = "setconn" /\ UNCHANGED cur
    /\ UNCHANGED <<cfg, k, ctor, connOpen, connTimeout, sockT, clock, hist>>

\* conn.timeout = Timeout.resolve_default_timeout(timeout_obj.connect_timeout)
SetConnTimeout ==
    /\ pc = "setconn"
    /\ connTimeout' = Resolve(ConnectTimeout(reqT), cfg.D)
    /\ pc' = "validate"
    /\ UNCHANGED <<cfg, k, ctor, poolT, reqT, connOpen, sockT, clock, cur, hist>>

\* HTTPConnection._new_conn -> create_connection((host, port), self.timeout): the environment decides
\* how long the attempt takes (it may overrun: name resolution is not bounded by the timeout) or
\* lets it time out after exactly the timeout it was given
Dial(nextpc) ==
    \E d \in Durations :
      \/ /\ clock' = clock + d /\ connOpen' = TRUE /\ pc' = nextpc /\ sockT' = connTimeout
         /\ cur' = [cur EXCEPT !.dial = connTimeout, !.pre = Append(@, connTimeout), !.d = d,
                               !.cmode = "ok", !.waitC = d]
      \/ /\ IsNum(connTimeout) /\ d > connTimeout
         /\ clock' = clock + connTimeout /\ connOpen' = FALSE /\ pc' = "finish" /\ UNCHANGED sockT
         /\ cur' = [cur EXCEPT !.dial = connTimeout, !.d = d, !.cmode = "timeout", !.waitC = connTimeout,
                               !.outcome = "ConnectTimeoutError"]

\* HTTPSConnectionPool._validate_conn connects early; plain http connects inside request()
Validate ==
    /\ pc = "validate"
    /\ IF cfg.sch = "https" /\ ~connOpen
       THEN Dial("request")
       ELSE pc' = "request" /\ UNCHANGED <<connOpen, sockT, clock, cur>>
    /\ UNCHANGED <<cfg, k, ctor, poolT, reqT, connTimeout, hist>>

\* HTTPConnection.request: "if self.sock is not None: self.sock.settimeout(self.timeout)", else connect
Request ==
    /\ pc = "request"
    /\ IF connOpen
       THEN /\ cur' = [cur EXCEPT !.pre = Append(@, connTimeout)] /\ pc' = "send"
            /\ sockT' = connTimeout /\ UNCHANGED <<connOpen, clock>>
       ELSE Dial("send")
    /\ UNCHANGED <<cfg, k, ctor, poolT, reqT, connTimeout, hist>>

Send ==
    /\ pc = "send"
    /\ cur' = [cur EXCEPT !.tSend = clock, !.sent = TRUE]
    /\ pc' = "readtimeout"
    /\ UNCHANGED <<cfg, k, ctor, poolT, reqT, connOpen, connTimeout, sockT, clock, hist>>

\* read_timeout = timeout_obj.read_timeout; "if read_timeout == 0: raise ReadTimeoutError"
ComputeRead ==
    /\ pc = "readtimeout"
    /\ LET rt == ReadTimeout(reqT, clock, cfg.D) IN
       IF rt = 0 /\ "nozerocheck" \notin Dev
       THEN /\ Fail("ReadTimeoutError") /\ connOpen' = FALSE /\ UNCHANGED connTimeout
       ELSE /\ connTimeout' = rt /\ pc' = "getresponse" /\ UNCHANGED <<cur, connOpen>>
    /\ UNCHANGED <<cfg, k, ctor, poolT, reqT, sockT, clock, hist>>

\* HTTPConnection.getresponse: self.sock.settimeout(self.timeout), then wait for the server
GetResponse ==
    /\ pc = "getresponse"
    /\ LET reapply == "noreapply" \notin Dev
           inforce == IF reapply THEN connTimeout ELSE sockT
           rds2    == IF reapply THEN Append(cur.rds, connTimeout) ELSE cur.rds IN
       /\ sockT' = inforce
       /\ \/ \E sm \in {"keep", "close"} :
               /\ cur' = [cur EXCEPT !.rds = rds2, !.rwait = inforce, !.smode = sm, !.outcome = "OK"]
               /\ connOpen' = (sm = "keep") /\ UNCHANGED clock
          \/ /\ IsNum(inforce) /\ inforce >= 0
             /\ cur' = [cur EXCEPT !.rds = rds2, !.rwait = inforce, !.smode = "silent", !.waitR = inforce,
                                   !.outcome = "ReadTimeoutError"]
             /\ connOpen' = FALSE /\ clock' = clock + inforce
          \/ /\ inforce = NONE              \* a silent server and no timeout: the caller waits forever
             /\ cur' = [cur EXCEPT !.rds = rds2, !.rwait = inforce, !.smode = "silent", !.outcome = "WaitsForever"]
             /\ connOpen' = FALSE /\ UNCHANGED clock
    /\ pc' = "finish"
    /\ UNCHANGED <<cfg, k, ctor, poolT, reqT, connTimeout, hist>>

Finish ==
    /\ pc = "finish"
    /\ hist' = Append(hist, [cur EXCEPT !.tEnd = clock])
    /\ clock' = clock + Gap
    /\ k' = k + 1
    /\ pc' = IF k + 1 > Len(cfg.rs) THEN "done" ELSE "idle"
    /\ UNCHANGED <<cfg, ctor, poolT, reqT, connOpen, connTimeout, sockT, cur>>

Next == ConstructPool \/ Begin \/ GetTimeout \/ StartConnect \/ SetConnTimeout \/ Validate \/ Request
        \/ Send \/ ComputeRead \/ GetResponse \/ Finish
Spec == Init /\ [][Next]_vars

-----------------------------------------------------------------------------
(* Stage 1: the MODEL satisfies the RULES                                    *)

Run == [cfg |-> cfg, ctor |-> ctor, reqs |-> hist]
\* hist only grows in Finish (pc' \in {"idle", "done"}): evaluating the completed records there is enough
Settled == pc \in {"idle", "done"}
Done(P(_, _, _)) == Settled => \A i \in 1..Len(hist) : P(cfg.ps, cfg.D, hist[i])

TypeOK == /\ pc \in {"ctor", "idle", "gettimeout", "startconnect", "setconn", "validate", "request", "send",
                     "readtimeout", "getresponse", "finish", "done"}
          /\ k \in 1..(Len(cfg.rs) + 1) /\ Len(hist) = k - 1
          /\ clock >= 0 /\ connOpen \in BOOLEAN
InvalidRejected          == Done(CInvalidRejected) /\ (ctor = "ValueError" <=> (pc # "ctor" /\ ~SrcValid(cfg.ps)))
                            /\ (ctor = "ValueError" => hist = <<>>)
ValidAccepted            == Done(CValidAccepted)
NeverNegativeOrZero      == Done(CSocketValueLegal)
NeverLooser              == Done(CNeverLooser)
ConnectIsMin             == Done(CConnectIsMin)
ReadIsMinRemaining       == Done(CReadIsMinRemaining)
ZeroRaisesWithoutWaiting == Done(CZeroRaisesWithoutWaiting)
WaitsWithinTimeouts      == Done(CWaitsWithinTimeouts)
RequestOverridesPool     == Done(CRequestOverridesPool)
OutcomeAsSpecified       == Done(COutcome)
\* "one request's clock never influences another's": the shared pool Timeout is never started, a
\* request's Timeout only ever carries that request's own start time, and no request fails on a
\* clock that somebody else started
ClocksIndependent ==
    /\ poolT.start = NOTSTARTED
    /\ pc \in {"setconn", "validate", "request", "send", "readtimeout", "getresponse"} => reqT.start = cur.t0
    /\ \A i \in 1..Len(hist) : hist[i].outcome # "TimeoutStateError"
\* the value about to be applied is the rule's value at every step, not only in completed records
LiveValuesMatchRules ==
    /\ pc \in {"validate", "request", "send"} => connTimeout = RuleConnect(EffCfg(cfg.ps, cur.src), cfg.D)
    /\ pc = "getresponse" => connTimeout = RuleRead(EffCfg(cfg.ps, cur.src), clock - cur.t0, cfg.D)
    /\ pc = "send" => sockT = connTimeout      \* the socket carries what conn.timeout says while sending
\* the operator the trace monitor uses gives "ok" on every completed behaviour of the model
AllClausesHold == Settled => \A i \in 1..Len(hist) : ReqClause(Run, i) = "ok"
ModelRunAccepted == pc = "done" => TraceVerdict(Run)[2] = "ok"
=============================================================================
