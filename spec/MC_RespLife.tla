---------------------------- MODULE MC_RespLife ----------------------------
(* Model-checking / emission wrapper for RespLife.

   Sequential part (Eager = TRUE): one caller, every sequence of at most MaxOps calls followed by the final drop.
     SeqCheckSpec + VIEW SeqView  exhaustive check of the Rules (history hidden: a few thousand states)
     SeqSpec + EmitSeq          no VIEW: one state per path; at every finished history TLC prints
                                <<"SEQ", ToJson([fr, sv, mode, hist])>>, hist = per completed call the call, its
                                result and the expected observation at the call boundary
   Two-thread part (Eager = FALSE): reader thread "a", disposer thread "b", the server as third party.
     ConcCheckSpec + VIEW ConcView exhaustive check of every interleaving (safety + liveness under weak fairness)
     ConcSpec + EmitSched       complete schedules <<"SCHED", ToJson([...])>> for replay on the real threads   *)
EXTENDS RespLife, Json, TLCExt

VARIABLE hist

NoFixes == {}
AllFixes == {"shutdown", "chunkresume", "atomicrelease", "closeunder", "releaseunread"}

\* ---- sequential
Snap(o, t) == [op |-> o.op[t], res |-> o.res[t], errk |-> o.errk[t], own |-> o.own, hfp |-> o.hfp, sock |-> o.sock,
               slots |-> o.slots, pooled |-> o.pooled, csock |-> o.csock, puts |-> o.puts, deliv |-> o.deliv, shutset |-> o.shutset]

SeqScenario(x) == TRUE
SeqInit == /\ \E x \in Scenarios : SeqScenario(x) /\ InitWith(x, <<>>, <<>>)
           /\ hist = <<>>
SeqNext == \/ /\ \E o \in StepOps : ThreadStep("a", o)
              /\ hist' = IF th'["a"].nops > th["a"].nops THEN Append(hist, Snap(ObsOf(sh', th'), "a")) ELSE hist
           \/ AllDone /\ UNCHANGED <<vars, hist>>
SeqSpec == SeqInit /\ [][SeqNext]_<<vars, hist>>
\* exhaustive check: no history
SeqCheckNext == \/ (\E o \in StepOps : ThreadStep("a", o)) /\ UNCHANGED hist
                \/ AllDone /\ UNCHANGED <<vars, hist>>
SeqCheckSpec == SeqInit /\ [][SeqCheckNext]_<<vars, hist>>
\* everything except the counters that only grow with the length of the history
SeqView == <<[sh EXCEPT !.io = "none"], [t \in Threads |-> [th[t] EXCEPT !.nops = 0]]>>
EmitSeq == AllDone => PrintT(<<"SEQ", ToJson([fr |-> sh.fr, sv |-> sh.sv, mode |-> sh.mode, hist |-> hist,
                                               fin |-> Snap(Obs, "a")])>>)

\* ---- two threads
ProgsA == {<<"read">>, <<"readn", "readn", "readn">>}
DOps == {"shutdown", "close", "release", "drain"}
ProgsB == {<<x>> : x \in DOps} \cup {<<x, y>> : x \in DOps, y \in DOps}
ProgsB1 == {<<x>> : x \in DOps}
ConcScenario(x) == TRUE
ConcInit == /\ \E x \in Scenarios, pa \in ProgsA, pb \in ProgsB : ConcScenario(x) /\ InitWith(x, pa, pb)
            /\ hist = <<>>
ConcNext == \/ \E t \in Threads : ThreadStep(t, IF th[t].pc = "Idle" THEN Head(th[t].prog) ELSE "none") /\ hist' = Append(hist, t)
            \/ Feed /\ hist' = Append(hist, "e")
            \/ (AllDone \/ Stuck) /\ UNCHANGED <<vars, hist>>
ThreadAct(t) == ThreadStep(t, IF th[t].pc = "Idle" THEN Head(th[t].prog) ELSE "none") /\ hist' = Append(hist, t)
ConcSpec == ConcInit /\ [][ConcNext]_<<vars, hist>> /\ \A t \in Threads : WF_<<vars, hist>>(ThreadAct(t))
ConcCheckAct(t) == ThreadStep(t, IF th[t].pc = "Idle" THEN Head(th[t].prog) ELSE "none") /\ UNCHANGED hist
ConcCheckNext == \/ \E t \in Threads : ConcCheckAct(t)
                 \/ Feed /\ UNCHANGED hist
                 \/ (AllDone \/ Stuck) /\ UNCHANGED <<vars, hist>>
ConcCheckSpec == ConcInit /\ [][ConcCheckNext]_<<vars, hist>> /\ \A t \in Threads : WF_<<vars, hist>>(ConcCheckAct(t))
ConcView == <<[sh EXCEPT !.io = "none"], th>>
Terminal == AllDone \/ Stuck
EmitSched == Terminal => PrintT(<<"SCHED", ToJson([fr |-> sh.fr, sv |-> sh.sv, pa |-> th["a"].prog0, pb |-> th["b"].prog0,
                                                   steps |-> hist, stuck |-> Stuck, fin |-> Obs])>>)
=============================================================================
