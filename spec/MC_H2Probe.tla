---------------------------- MODULE MC_H2Probe ----------------------------
(* Model-checking / emission wrapper for H2Probe: small constants, and a history variable
   (hidden by VIEW in the exhaustive runs) used to emit complete schedules for replay on the
   real code:  <<"SCHED", ToJson([plan, keyof, steps, final])>>  at every terminal state.      *)
EXTENDS H2Probe, Json, TLCExt

VARIABLE hist      \* sequence of thread names: who took each step

MCThreads3 == {"t1", "t2", "t3"}
MCThreads2 == {"t1", "t2"}
MCKeys1 == {"k1"}
MCKeys2 == {"k1", "k2"}
HInit == Init /\ hist = <<>>
HNext == \/ \E t \in Threads : Step(t) /\ hist' = Append(hist, t)
         \/ (Finished \/ Stuck) /\ UNCHANGED <<vars, hist>>
HSpec == HInit /\ [][HNext]_<<vars, hist>> /\ \A t \in Threads : WF_<<vars, hist>>(Step(t) /\ hist' = Append(hist, t))
View == vars

Terminal == Finished \/ Stuck
\* emitted once per distinct complete schedule (no VIEW in emission runs: hist distinguishes paths)
EmitSchedules ==
    Terminal =>
      PrintT(<<"SCHED", ToJson([keyof |-> KeyOf, plan |-> Plan, steps |-> hist, stuck |-> Stuck,
                                got |-> got, val |-> val, kown |-> kown, pcs |-> pc])>>)
\* scenario restriction used to shard / shrink runs: threads t1,t2 always share k1
SameOriginPair == KeyOf["t1"] = "k1" /\ KeyOf["t2"] = "k1"
=============================================================================
