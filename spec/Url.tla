------------------------------- MODULE Url -------------------------------
(* Properties C14 and C15 of urllib3's URL handling.                                            *)
(*                                                                                              *)
(* C14: urllib3.util.url.parse_url is total, canonical, and agrees with RFC 3986 on what the    *)
(* host is.  C15: what a PoolManager puts on the wire is exactly what the URL says.             *)
(*                                                                                              *)
(* Strings are sequences of Unicode code points (integers), so the same operators judge the     *)
(* exhaustive 12/13-symbol alphabet, the URL shapes of C15 and arbitrary unicode inputs.        *)
(*                                                                                              *)
(*   RULES  (the properties):                                                                   *)
(*     Ref(s)            the independent RFC 3986 reading of s: scheme, authority (ends at the   *)
(*                       first '/', '?', '#' or backslash), userinfo (before the LAST '@'),      *)
(*                       host, port (after the last ':' outside brackets), path, query, fragment *)
(*                       (RefAuthority(s) = its (userinfo, host, port) projection)               *)
(*     IsNormalForm(u)   lower-case scheme/host, port range, no dot segments, only RFC 3986      *)
(*                       characters with upper-case escapes                                     *)
(*     Verdict(e)        C14: total monitor of one observed parse (+ re-parse of its string      *)
(*                       form): names the first failing clause or "ok"                           *)
(*     WireClauses(o)    C15: total monitor of one observed request (dial address, Host header,  *)
(*                       TLS server name, request target, variants): the SET of failing clauses  *)
(*   MODEL  (what urllib3 does, on the part of the domain where that is fixed):                  *)
(*     ModelParse(s)     the Url the model predicts / "lpe" / "unknown"                          *)
(*     WireOf(R, px, P)  the canonical wire image of the URL read as R (proxy mode px)           *)
(*   Stage 1 (TLC, every string over Alphabet up to MaxLen): the reference is well defined       *)
(*   (Recompose, delimiters, first/last characterisations), the encoder is sound, dot removal    *)
(*   is RFC 3986 5.2.4, and Model |= Rules  (Verdict(ModelEvent(s)) = "ok").  Stage 1 for C15    *)
(*   is in MC_Url.tla (URL shapes): the four derivations agree, variants share key and image.    *)
EXTENDS Integers, Sequences, FiniteSets, TLC

CONSTANTS Alphabet,   \* set of code points the enumeration appends
          MaxLen,     \* maximal length of an enumerated string (including the seed)
          Seeds,      \* set of initial strings of this shard
          Grow        \* BOOLEAN: extend the seeds up to MaxLen (FALSE: seeds only)

VARIABLE s

-----------------------------------------------------------------------------
(* Characters                                                                 *)
SLASH == 47   QM == 63   HASH == 35   BSL == 92   AT == 64   COLON == 58
LBR == 91     RBR == 93  PCT == 37    DOT == 46   PLUS == 43 MINUS == 45
NONE == <<1114112>>          \* "component absent" (no code point has this value)
NOPORT == -1
PORTSAT == 1000000000         \* port values saturate here (TLC integers are 32 bit)

IsUpper(c) == c >= 65 /\ c <= 90
IsAlpha(c) == IsUpper(c) \/ (c >= 97 /\ c <= 122)
IsDigit(c) == c >= 48 /\ c <= 57
IsHex(c) == IsDigit(c) \/ (c >= 65 /\ c <= 70) \/ (c >= 97 /\ c <= 102)
IsUpperHex(c) == IsDigit(c) \/ (c >= 65 /\ c <= 70)
HexVal(c) == IF IsDigit(c) THEN c - 48 ELSE IF c >= 97 THEN c - 87 ELSE c - 55
HexDigit(v) == IF v < 10 THEN 48 + v ELSE 55 + v
LowerC(c) == IF IsUpper(c) THEN c + 32 ELSE c
UpperC(c) == IF c >= 97 /\ c <= 122 THEN c - 32 ELSE c
Lower(t) == IF t = <<>> THEN <<>> ELSE [i \in 1..Len(t) |-> LowerC(t[i])]

\* RFC 3986 section 2.3 / 2.2 / 3.2.1 / 3.3 / 3.4
Unreserved(c) == IsAlpha(c) \/ IsDigit(c) \/ c \in {45, 46, 95, 126}
SubDelim(c) == c \in {33, 36, 38, 39, 40, 41, 42, 43, 44, 59, 61}
UserinfoChar(c) == Unreserved(c) \/ SubDelim(c) \/ c = COLON
PathChar(c) == UserinfoChar(c) \/ c = AT \/ c = SLASH
QueryChar(c) == PathChar(c) \/ c = QM
Allowed(kind, c) == CASE kind = "userinfo" -> UserinfoChar(c)
                      [] kind = "path" -> PathChar(c)
                      [] OTHER -> QueryChar(c)          \* query and fragment
IsSchemeChar(c) == IsAlpha(c) \/ IsDigit(c) \/ c \in {PLUS, MINUS, DOT}

HTTP == <<104, 116, 116, 112>>
HTTPS == <<104, 116, 116, 112, 115>>

-----------------------------------------------------------------------------
(* Sequences                                                                  *)
RECURSIVE FirstIn(_, _, _, _)      \* first index in a..b whose character is in S, else b + 1
FirstIn(t, a, b, S) == IF a > b THEN b + 1 ELSE IF t[a] \in S THEN a ELSE FirstIn(t, a + 1, b, S)
RECURSIVE LastIn(_, _, _, _)       \* last index in a..b whose character is in S, else a - 1
LastIn(t, a, b, S) == IF b < a THEN a - 1 ELSE IF t[b] \in S THEN b ELSE LastIn(t, a, b - 1, S)
HasAny(t, S) == \E i \in 1..Len(t) : t[i] \in S
StartsWith(t, p) == Len(t) >= Len(p) /\ SubSeq(t, 1, Len(p)) = p

-----------------------------------------------------------------------------
(* The independent RFC 3986 reading                                            *)

\* Documented convention of parse_url ("google.com:80" is host + port): a string that neither
\* starts with '/' nor with  ALPHA *( ALPHA / DIGIT / "+" / "-" ) ":"  is read as if prefixed "//".
RECURSIVE ConvRun(_, _)
ConvRun(t, i) == IF i > Len(t) \/ ~(IsAlpha(t[i]) \/ IsDigit(t[i]) \/ t[i] \in {PLUS, MINUS}) THEN i
                 ELSE ConvRun(t, i + 1)
LooksAbsolute(t) == Len(t) >= 1 /\ (t[1] = SLASH \/
                       (IsAlpha(t[1]) /\ ConvRun(t, 2) <= Len(t) /\ t[ConvRun(t, 2)] = COLON))
Prefixed(t) == IF LooksAbsolute(t) THEN t ELSE <<SLASH, SLASH>> \o t

\* RFC 3986 3.1: scheme = ALPHA *( ALPHA / DIGIT / "+" / "-" / "." ), terminated by ':'
RECURSIVE SchemeRun(_, _)
SchemeRun(t, i) == IF i > Len(t) \/ ~IsSchemeChar(t[i]) THEN i ELSE SchemeRun(t, i + 1)
HasScheme(t) == Len(t) >= 1 /\ IsAlpha(t[1]) /\ SchemeRun(t, 2) <= Len(t) /\ t[SchemeRun(t, 2)] = COLON

AuthEnd == {SLASH, QM, HASH, BSL}

RECURSIVE PortVal(_, _, _, _)
PortVal(t, i, b, acc) == IF i > b THEN acc
                         ELSE PortVal(t, i + 1, b, IF acc >= 100000000 THEN PORTSAT ELSE acc * 10 + (t[i] - 48))

\* TLC re-evaluates LET definitions at every use but caches operator arguments, so the reading
\* is staged through operators whose parameters carry the positions already determined.

\* host / port reading of the text t[h1..a2] that follows the last '@'
HostPort3(t, h1, a2, br, rb, hend, colon) ==
  [ h1 |-> h1, hend |-> hend, colon |-> colon, d1 |-> hend + 2,
    bad |-> \/ br /\ rb > a2
            \/ br /\ rb < a2 /\ t[rb + 1] # COLON
            \/ br /\ \E i \in (h1 + 1)..(rb - 1) : t[i] = LBR
            \/ ~br /\ \E i \in h1..hend : t[i] \in {COLON, LBR, RBR}
            \/ colon /\ \E i \in (hend + 2)..a2 : ~IsDigit(t[i]) ]
HostPort2(t, h1, a2, br, rb, lc) ==
  HostPort3(t, h1, a2, br, rb,
            IF br THEN rb ELSE IF lc >= h1 THEN lc - 1 ELSE a2,      \* last index of the host
            IF br THEN rb < a2 ELSE lc >= h1)                        \* a port separator follows the host
HostPort(t, h1, a2) ==
  HostPort2(t, h1, a2, h1 <= a2 /\ t[h1] = LBR,                      \* IP-literal
            FirstIn(t, h1, a2, {RBR}), LastIn(t, h1, a2, {COLON}))   \* first ']', LAST ':'

Ref5(t, n, sc, ha, a1, a2, p2, hq, q2, at, hp) ==
  [ t |-> t,
    kind |-> IF ~ha THEN "none" ELSE IF hp.bad THEN "bad" ELSE "auth",
    scheme |-> IF sc = 0 THEN NONE ELSE SubSeq(t, 1, sc - 1),
    authority |-> IF ha THEN SubSeq(t, a1, a2) ELSE <<>>,
    userinfo |-> IF ha /\ at >= a1 THEN SubSeq(t, a1, at - 1) ELSE NONE,
    host |-> IF ha /\ ~hp.bad THEN SubSeq(t, hp.h1, hp.hend) ELSE <<>>,
    colon |-> ha /\ ~hp.bad /\ hp.colon,
    digits |-> IF ha /\ ~hp.bad /\ hp.colon THEN SubSeq(t, hp.d1, a2) ELSE <<>>,
    port |-> IF ha /\ ~hp.bad /\ hp.colon /\ hp.d1 <= a2 THEN PortVal(t, hp.d1, a2, 0) ELSE NOPORT,
    path |-> SubSeq(t, a2 + 1, p2),
    query |-> IF hq THEN SubSeq(t, p2 + 2, q2) ELSE NONE,
    fragment |-> IF q2 + 1 <= n THEN SubSeq(t, q2 + 2, n) ELSE NONE,      \* t[q2 + 1] = '#'
    a2 |-> IF ha THEN a2 ELSE 0,                                          \* last index (in t) of the authority
    \* positions (in t) of userinfo and host, for compact emission
    pos |-> <<IF ha /\ at >= a1 THEN a1 ELSE 0, IF ha /\ at >= a1 THEN at - 1 ELSE 0,
              IF ha /\ ~hp.bad THEN hp.h1 ELSE 0, IF ha /\ ~hp.bad THEN hp.hend ELSE 0>> ]
\* userinfo is what precedes the LAST '@' of the authority (at = a1 - 1: no userinfo)
Ref4(t, n, sc, ha, a1, a2, p2, hq, q2, at) == Ref5(t, n, sc, ha, a1, a2, p2, hq, q2, at, HostPort(t, at + 1, a2))
Ref3(t, n, sc, ha, a1, a2, p2, hq) ==
  Ref4(t, n, sc, ha, a1, a2, p2, hq,
       IF hq THEN FirstIn(t, p2 + 2, n, {HASH}) - 1 ELSE p2,             \* query ends before the first '#'
       LastIn(t, a1, a2, {AT}))
\* the path ends before the first '?' or '#'
Ref2(t, n, sc, ha, a1, a2, p2) == Ref3(t, n, sc, ha, a1, a2, p2, p2 + 1 <= n /\ t[p2 + 1] = QM)
\* the authority t[a1..a2] ends before the FIRST '/', '?', '#' or backslash
Ref1(t, n, sc, ha, a1, a2) == Ref2(t, n, sc, ha, a1, a2, FirstIn(t, a2 + 1, n, {QM, HASH}) - 1)
Ref0(t, n, sc, ha) == Ref1(t, n, sc, ha, IF ha THEN sc + 3 ELSE sc + 1,
                           IF ha THEN FirstIn(t, sc + 3, n, AuthEnd) - 1 ELSE sc)
\* sc: index of the ':' that ends the scheme (0: no scheme); the authority is present iff "//" follows
RefS(t, n, sc) == Ref0(t, n, sc, sc + 2 <= n /\ t[sc + 1] = SLASH /\ t[sc + 2] = SLASH)
RefT(t) == RefS(t, Len(t), IF HasScheme(t) THEN SchemeRun(t, 2) ELSE 0)
Ref(str) == RefT(Prefixed(str))
\* the part of the reading the agreement clause is about: what a conforming parser sees as
\* (userinfo, host, port) - "bad" when the authority admits no conforming reading
RefAuthority(str) == [kind |-> Ref(str).kind, userinfo |-> Ref(str).userinfo, host |-> Ref(str).host, port |-> Ref(str).port]

IsHttp(R) == R.scheme # NONE /\ Lower(R.scheme) \in {HTTP, HTTPS}
Bracketed(h) == h # <<>> /\ h[1] = LBR
NonAscii(t) == \E i \in 1..Len(t) : t[i] >= 128

-----------------------------------------------------------------------------
(* Percent-encoding (on UTF-8 bytes)                                           *)
U8(c) == IF c < 128 THEN <<c>>
         ELSE IF c < 2048 THEN <<192 + (c \div 64), 128 + (c % 64)>>
         ELSE IF c < 65536 THEN <<224 + (c \div 4096), 128 + ((c \div 64) % 64), 128 + (c % 64)>>
         ELSE <<240 + (c \div 262144), 128 + ((c \div 4096) % 64), 128 + ((c \div 64) % 64), 128 + (c % 64)>>
RECURSIVE UTF8From(_, _)
UTF8From(t, i) == IF i > Len(t) THEN <<>> ELSE U8(t[i]) \o UTF8From(t, i + 1)
UTF8(t) == UTF8From(t, 1)

IsEsc(b, i) == b[i] = PCT /\ i + 2 <= Len(b) /\ IsHex(b[i + 1]) /\ IsHex(b[i + 2])
AllPctValid(b) == \A i \in 1..Len(b) : b[i] = PCT => IsEsc(b, i)     \* every '%' starts an escape

RECURSIVE DecFrom(_, _)      \* decode the valid escapes once; anything else is literal
DecFrom(b, i) == IF i > Len(b) THEN <<>>
                 ELSE IF IsEsc(b, i) THEN <<HexVal(b[i + 1]) * 16 + HexVal(b[i + 2])>> \o DecFrom(b, i + 3)
                 ELSE <<b[i]>> \o DecFrom(b, i + 1)
PctDecode(b) == DecFrom(b, 1)

RECURSIVE UpFrom(_, _)       \* upper-case the hex digits of the valid escapes
UpFrom(b, i) == IF i > Len(b) THEN <<>>
                ELSE IF IsEsc(b, i) THEN <<PCT, UpperC(b[i + 1]), UpperC(b[i + 2])>> \o UpFrom(b, i + 3)
                ELSE <<b[i]>> \o UpFrom(b, i + 1)
UpperEsc(b) == UpFrom(b, 1)

RECURSIVE EncFrom(_, _, _, _)   \* keep: valid escapes survive (upper-cased); ~keep: every '%' is encoded
EncFrom(b, i, kind, keep) ==
  IF i > Len(b) THEN <<>>
  ELSE IF keep /\ IsEsc(b, i) THEN <<PCT, UpperC(b[i + 1]), UpperC(b[i + 2])>> \o EncFrom(b, i + 3, kind, keep)
  ELSE IF b[i] < 128 /\ Allowed(kind, b[i]) THEN <<b[i]>> \o EncFrom(b, i + 1, kind, keep)
  ELSE <<PCT, HexDigit(b[i] \div 16), HexDigit(b[i] % 16)>> \o EncFrom(b, i + 1, kind, keep)
EncPrecise(c, kind) == EncFrom(UTF8(c), 1, kind, TRUE)
EncWholesale(c, kind) == EncFrom(UpperEsc(UTF8(c)), 1, kind, FALSE)
\* what urllib3 documents: a component with a stray '%' is re-encoded wholesale
ModelEnc(c, kind) == IF AllPctValid(UTF8(c)) THEN EncPrecise(c, kind) ELSE EncWholesale(c, kind)

RECURSIVE OnlyFrom(_, _, _)     \* only allowed characters and upper-case escapes
OnlyFrom(g, i, kind) ==
  IF i > Len(g) THEN TRUE
  ELSE IF g[i] = PCT THEN i + 2 <= Len(g) /\ IsUpperHex(g[i + 1]) /\ IsUpperHex(g[i + 2]) /\ OnlyFrom(g, i + 3, kind)
  ELSE g[i] < 128 /\ Allowed(kind, g[i]) /\ OnlyFrom(g, i + 1, kind)
OnlyAllowed(g, kind) == OnlyFrom(g, 1, kind)

\* got is the same component as ref, up to percent-encoding.  Latitude: when ref contains a stray
\* '%' the implementation may also have re-encoded the whole component (valid escapes included).
SameBytes(bg, br) == \/ bg = PctDecode(br)
                     \/ ~AllPctValid(br) /\ bg = UpperEsc(br)
SameModEnc(got, ref) == SameBytes(PctDecode(UTF8(got)), UTF8(ref))

\* first failing clause of a chain (operator arguments are evaluated at most once, and lazily)
Then(c, rest) == IF c # "ok" THEN c ELSE rest

-----------------------------------------------------------------------------
(* Dot-segment removal: the fold urllib3 uses (ModelRemoveDots) and RFC 3986 5.2.4 literally     *)
(* (RFCRemoveDots).  Both are needed by the Rules only as *references for the text of the path*  *)
(* when judging double-encoding; "dot segments removed" itself is NoDotSegments.                 *)
SegStart(p, i) == i = 1 \/ p[i - 1] = SLASH
SegEnd(p, j) == j = Len(p) \/ p[j + 1] = SLASH
NoDotSegments(p) == \A i \in 1..Len(p) :
    (SegStart(p, i) /\ p[i] = DOT) => /\ ~SegEnd(p, i)
                                      /\ ~(i + 1 <= Len(p) /\ p[i + 1] = DOT /\ SegEnd(p, i + 1))
RECURSIVE SplitFrom(_, _)
SplitAt(p, i, j) == IF j > Len(p) THEN <<SubSeq(p, i, Len(p))>> ELSE <<SubSeq(p, i, j - 1)>> \o SplitFrom(p, j + 1)
SplitFrom(p, i) == SplitAt(p, i, FirstIn(p, i, Len(p), {SLASH}))
RECURSIVE RDFold(_, _, _)
RDFold(segs, i, out) ==
  IF i > Len(segs) THEN out
  ELSE IF segs[i] = <<DOT>> THEN RDFold(segs, i + 1, out)
  ELSE IF segs[i] # <<DOT, DOT>> THEN RDFold(segs, i + 1, Append(out, segs[i]))
  ELSE RDFold(segs, i + 1, IF out = <<>> THEN out ELSE SubSeq(out, 1, Len(out) - 1))
RECURSIVE JoinFrom(_, _)
JoinFrom(segs, i) == IF i > Len(segs) THEN <<>> ELSE IF i = Len(segs) THEN segs[i]
                     ELSE segs[i] \o <<SLASH>> \o JoinFrom(segs, i + 1)
EndsWith(p, q) == Len(p) >= Len(q) /\ SubSeq(p, Len(p) - Len(q) + 1, Len(p)) = q
RD3(p, o2) == JoinFrom(IF EndsWith(p, <<SLASH, DOT>>) \/ EndsWith(p, <<SLASH, DOT, DOT>>) THEN Append(o2, <<>>) ELSE o2, 1)
RD2(p, o1) == RD3(p, IF p # <<>> /\ p[1] = SLASH /\ (o1 = <<>> \/ o1[1] # <<>>) THEN <<<<>>>> \o o1 ELSE o1)
ModelRemoveDots(p) == RD2(p, RDFold(SplitFrom(p, 1), 1, <<>>))

\* RFC 3986 5.2.4 remove_dot_segments, transcribed literally (input buffer / output buffer); stage 1
\* checks that the implementation-shaped fold above computes the same on every absolute path
DropLastSeg(out) == SubSeq(out, 1, LastIn(out, 1, Len(out), {SLASH}) - 1)
Drop(t, k) == SubSeq(t, k + 1, Len(t))
RECURSIVE RFCDots(_, _)
RFCMove(in, out, e) == RFCDots(Drop(in, e), out \o SubSeq(in, 1, e))      \* e: end of the first segment
RFCDots(in, out) ==
    IF in = <<>> THEN out
    ELSE IF StartsWith(in, <<DOT, DOT, SLASH>>) THEN RFCDots(Drop(in, 3), out)
    ELSE IF StartsWith(in, <<DOT, SLASH>>) THEN RFCDots(Drop(in, 2), out)
    ELSE IF StartsWith(in, <<SLASH, DOT, SLASH>>) THEN RFCDots(Drop(in, 2), out)
    ELSE IF in = <<SLASH, DOT>> THEN RFCDots(<<SLASH>>, out)
    ELSE IF StartsWith(in, <<SLASH, DOT, DOT, SLASH>>) THEN RFCDots(Drop(in, 3), DropLastSeg(out))
    ELSE IF in = <<SLASH, DOT, DOT>> THEN RFCDots(<<SLASH>>, DropLastSeg(out))
    ELSE IF in \in {<<DOT>>, <<DOT, DOT>>} THEN RFCDots(<<>>, out)
    ELSE RFCMove(in, out, FirstIn(in, 2, Len(in), {SLASH}) - 1)
RFCRemoveDots(p) == RFCDots(p, <<>>)

-----------------------------------------------------------------------------
(* Normal form                                                                 *)
Opt(x) == IF x = NONE THEN <<>> ELSE x           \* absent and empty are the same text

\* upper-case letters are allowed only in the zone id of an IP-literal (RFC 6874: opaque, case-sensitive)
NoUpperBefore(h, z) == \A i \in 1..Len(h) : i < z => ~IsUpper(h[i])
HostLowerCase(h) == NoUpperBefore(h, IF Bracketed(h) THEN FirstIn(h, 1, Len(h), {PCT}) ELSE Len(h) + 1)

\* u = [scheme, auth, host, path, query, fragment: sequences or NONE, port: integer or NOPORT]
NormalFormClause(u) ==
    IF u.scheme \notin {HTTP, HTTPS} THEN "NF:Scheme"
    ELSE IF ~HostLowerCase(Opt(u.host)) THEN "NF:HostLowerCase"
    ELSE IF ~(u.port = NOPORT \/ (u.port >= 0 /\ u.port <= 65535)) THEN "NF:PortRange"
    ELSE IF ~NoDotSegments(Opt(u.path)) THEN "NF:DotSegments"
    ELSE IF ~OnlyAllowed(Opt(u.auth), "userinfo") THEN "NF:UserinfoChars"
    ELSE IF ~OnlyAllowed(Opt(u.path), "path") THEN "NF:PathChars"
    ELSE IF ~OnlyAllowed(Opt(u.query), "query") THEN "NF:QueryChars"
    ELSE IF ~OnlyAllowed(Opt(u.fragment), "fragment") THEN "NF:FragmentChars"
    ELSE "ok"
IsNormalForm(u) == NormalFormClause(u) = "ok"

\* "no double-encoding of valid escapes": decoding the result once gives what decoding the input once
\* gives.  Demanded for components in which every '%' starts a valid escape (latitude); for the path
\* the input text is the path after dot removal (urllib3's fold or RFC 3986 5.2.4 - stage 1 shows where
\* the two differ), and only when Url() adds no leading '/'.
NoDoubleBytes(got, br) == AllPctValid(br) => PctDecode(UTF8(got)) = PctDecode(br)
NoDoubleEnc(got, ref) == NoDoubleBytes(got, UTF8(ref))
PathNoDouble(got, p) == NoDoubleEnc(got, ModelRemoveDots(p)) \/ NoDoubleEnc(got, RFCRemoveDots(p))
DoubleEncClause(u, R) ==
    IF ~NoDoubleEnc(Opt(u.auth), Opt(R.userinfo)) THEN "NF:DoubleEncoding:userinfo"
    ELSE IF (R.path = <<>> \/ R.path[1] = SLASH) /\ ~PathNoDouble(Opt(u.path), R.path)
         THEN "NF:DoubleEncoding:path"
    ELSE IF ~NoDoubleEnc(Opt(u.query), Opt(R.query)) THEN "NF:DoubleEncoding:query"
    ELSE IF ~NoDoubleEnc(Opt(u.fragment), Opt(R.fragment)) THEN "NF:DoubleEncoding:fragment"
    ELSE "ok"

-----------------------------------------------------------------------------
(* Agreement with the reference on host, port, userinfo                        *)
HostDelims == {SLASH, QM, HASH, BSL, AT}
\* IP-literal with a zone id: the address part (up to the first '%', at index p) must agree; the zone
\* id is opaque but cannot contain a delimiter
ZoneHostAgrees(ref, got, p) ==
    /\ Len(got) >= p + 2 /\ Lower(SubSeq(got, 1, p)) = Lower(SubSeq(ref, 1, p))
    /\ got[Len(got)] = RBR
    /\ \A i \in (p + 1)..(Len(got) - 1) : got[i] \notin HostDelims \cup {COLON, LBR, RBR}
HostAgrees(ref, got) ==
  IF NonAscii(ref) THEN ~HasAny(got, HostDelims \cup {COLON, LBR, RBR})            \* IDNA is opaque
  ELSE IF Bracketed(ref) /\ HasAny(ref, {PCT}) THEN ZoneHostAgrees(ref, got, FirstIn(ref, 1, Len(ref), {PCT}))
  ELSE Lower(got) = Lower(ref)                  \* case-insensitive here; exact lower case is a NF clause

AgreementClause(u, R) ==
    IF R.kind = "bad" THEN "Agreement:NoConformingReading"
    ELSE IF ~HostAgrees(R.host, Opt(u.host)) THEN "Agreement:Host"
    ELSE IF u.port # R.port THEN "Agreement:Port"
    ELSE IF ~SameModEnc(Opt(u.auth), Opt(R.userinfo)) THEN "Agreement:Userinfo"
    ELSE "ok"

-----------------------------------------------------------------------------
(* The monitor.  e = [s, k, u, k2, u2]: k in {"url", "lpe", <other exception name>}              *)
VerdictUrl(e, R) ==
  Then(AgreementClause(e.u, R),
       IF ~IsHttp(R) THEN "ok"
       ELSE Then(IF e.u.scheme # Lower(R.scheme) THEN "NF:Scheme" ELSE "ok",
            Then(NormalFormClause(e.u),
            Then(DoubleEncClause(e.u, R),
                 \* latitude: an http(s) URI with an empty host is invalid (RFC 9110 4.2.1) and is
                 \* refused by every pool constructor; the re-parse clause is not demanded for it
                 IF Opt(e.u.host) = <<>> THEN "ok"
                 ELSE IF e.k2 # "url" \/ e.u2 # e.u THEN "Idempotence"
                 ELSE "ok"))))
\* k = "did-not-return": the call (or the re-parse of its result) exceeded the harness's CPU-time budget
\* and was killed - "for every string, parse_url either returns a Url or raises LocationParseError"
Verdict(e) ==
  IF e.k = "lpe" THEN "ok"
  ELSE IF e.k = "did-not-return" THEN "Totality:DidNotReturn"
  ELSE IF e.k # "url" THEN "Total:OnlyUrlOrLocationParseError"
  ELSE VerdictUrl(e, Ref(e.s))

-----------------------------------------------------------------------------
(* MODEL: what parse_url does where the reading fixes it                        *)
SimpleHost(h) == \A i \in 1..Len(h) : Unreserved(h[i])

ModelCmp(x, kind, norm) == IF x = NONE THEN NONE ELSE IF norm /\ x # <<>> THEN ModelEnc(x, kind) ELSE x
ModelPath(p0, R) == IF p0 = <<>> THEN (IF R.query # NONE \/ R.fragment # NONE THEN <<>> ELSE NONE)
                    ELSE IF p0[1] # SLASH THEN <<SLASH>> \o p0 ELSE p0
ModelParse2(str, R, norm, hasA) ==
  IF str = <<>> THEN [k |-> "url", u |-> [scheme |-> NONE, auth |-> NONE, host |-> NONE, port |-> NOPORT,
                                         path |-> NONE, query |-> NONE, fragment |-> NONE]]
  ELSE IF R.kind = "bad" \/ R.port > 65535 THEN [k |-> "lpe"]
  ELSE IF R.kind = "auth" /\ ~SimpleHost(R.host) THEN [k |-> "unknown"]
  ELSE [k |-> "url",
        u |-> [scheme |-> IF R.scheme = NONE THEN NONE ELSE Lower(R.scheme),
               auth |-> IF ~hasA \/ Opt(R.userinfo) = <<>> THEN NONE
                        ELSE IF norm THEN ModelEnc(R.userinfo, "userinfo") ELSE R.userinfo,
               host |-> IF ~hasA THEN NONE ELSE IF norm THEN Lower(R.host) ELSE R.host,
               port |-> IF hasA THEN R.port ELSE NOPORT,
               path |-> ModelPath(IF norm /\ R.path # <<>> THEN ModelEnc(ModelRemoveDots(R.path), "path") ELSE R.path, R),
               query |-> ModelCmp(R.query, "query", norm), fragment |-> ModelCmp(R.fragment, "fragment", norm)]]
ModelParse1(str, R) == ModelParse2(str, R, R.scheme = NONE \/ IsHttp(R), R.kind = "auth" /\ R.authority # <<>>)
ModelParse(str) == ModelParse1(str, Ref(str))

RECURSIVE Digits(_)
Digits(v) == IF v < 10 THEN <<48 + v>> ELSE Digits(v \div 10) \o <<48 + (v % 10)>>
UrlText(u) == (IF u.scheme = NONE THEN <<>> ELSE u.scheme \o <<COLON, SLASH, SLASH>>)
         \o (IF u.auth = NONE THEN <<>> ELSE u.auth \o <<AT>>)
         \o Opt(u.host)
         \o (IF u.port = NOPORT THEN <<>> ELSE <<COLON>> \o Digits(u.port))
         \o Opt(u.path)
         \o (IF u.query = NONE THEN <<>> ELSE <<QM>> \o u.query)
         \o (IF u.fragment = NONE THEN <<>> ELSE <<HASH>> \o u.fragment)

\* the observation the model predicts for input str (defined when the model predicts a Url)
ModelEvent2(str, m, m2) == [s |-> str, k |-> "url", u |-> m.u, k2 |-> m2.k, u2 |-> IF m2.k = "url" THEN m2.u ELSE m.u]
ModelEvent1(str, m) == IF m.k # "url" THEN [s |-> str, k |-> "lpe"] ELSE ModelEvent2(str, m, ModelParse(UrlText(m.u)))
ModelEvent(str) == ModelEvent1(str, ModelParse(str))

-----------------------------------------------------------------------------
(* Property C15: what goes on the wire is exactly what the URL says.                           *)
(*                                                                                              *)
(* Everything here is derived from the independent reading R = Ref(str) of the caller's URL -   *)
(* never from urllib3's own parse.  Four derivations leave the URL along four code paths:       *)
(*   dial address   (pool key -> pool.host -> conn._dns_host -> create_connection)             *)
(*   Host header    (http.client putrequest / ProxyManager._set_proxy_headers)                  *)
(*   TLS server name (HTTPSConnection.connect -> _ssl_wrap_socket_and_match_hostname)           *)
(*   request target (Url.request_uri / Url.url for a forwarding proxy)                          *)
(* WireOf(R, px, P) is the canonical expectation; WireClauses is the total monitor (RULES) of   *)
(* observed request, with the latitude of DESIGN 4/C15 (zone id / trailing dot present or       *)
(* stripped in the Host header; explicit port 0).                                               *)
(* px: "none" | "proxy";  an http proxy forwards http URLs (absolute-form) and tunnels https    *)
(* URLs (CONNECT host:port, then TLS to the origin inside the tunnel).                          *)

DefaultPort(sc) == IF sc = HTTPS THEN 443 ELSE 80
Mode(sc, px) == IF px = "none" THEN "direct" ELSE IF sc = HTTPS THEN "tunnel" ELSE "forward"

\* IDNA is an opaque table (lower-cased U-label -> A-label); unknown non-ASCII labels are opaque
IdnaTable == { << <<98, 252, 99, 104, 101, 114>>,                                   \* buecher with u-umlaut
                  <<120, 110, 45, 45, 98, 99, 104, 101, 114, 45, 107, 118, 97>> >>,  \* xn--bcher-kva
               << <<20363, 12360>>, <<120, 110, 45, 45, 114, 56, 106, 122, 52, 53, 103>> >> }   \* xn--r8jz45g
IdnaLabel(l) == IF ~NonAscii(l) THEN Lower(l)
                ELSE IF \E p \in IdnaTable : p[1] = Lower(l) THEN (CHOOSE p \in IdnaTable : p[1] = Lower(l))[2]
                ELSE NONE
RECURSIVE LabelsFrom(_, _)
LabelsAt(h, i, j) == IF j > Len(h) THEN <<SubSeq(h, i, Len(h))>> ELSE <<SubSeq(h, i, j - 1)>> \o LabelsFrom(h, j + 1)
LabelsFrom(h, i) == LabelsAt(h, i, FirstIn(h, i, Len(h), {DOT}))
RECURSIVE JoinDots(_, _)
JoinDots(ls, i) == IF i > Len(ls) THEN <<>> ELSE IF i = Len(ls) THEN ls[i] ELSE ls[i] \o <<DOT>> \o JoinDots(ls, i + 1)
IdnaHost2(ls) == IF \E i \in 1..Len(ls) : ls[i] = NONE THEN NONE ELSE JoinDots(ls, 1)
IdnaHost(h) == IF ~NonAscii(h) THEN Lower(h)
               ELSE IdnaHost2([i \in 1..Len(LabelsFrom(h, 1)) |-> IdnaLabel(LabelsFrom(h, 1)[i])])

\* IP-literal with a zone: "[addr%25zone]" (RFC 6874) or "[addr%zone]"  ->  "[addr%zone]", address lower-cased
NormZone2(h, z, rest) == Lower(SubSeq(h, 1, z - 1)) \o <<PCT>>
                         \o (IF Len(rest) > 3 /\ rest[1] = 50 /\ rest[2] = 53 THEN SubSeq(rest, 3, Len(rest)) ELSE rest)
NormZone(h, z) == NormZone2(h, z, SubSeq(h, z + 1, Len(h)))
\* the host as every derivation must understand it (NONE: opaque IDNA)
WireHost(h) == IF Bracketed(h) THEN (IF HasAny(h, {PCT}) THEN NormZone(h, FirstIn(h, 1, Len(h), {PCT})) ELSE Lower(h))
               ELSE IdnaHost(h)
Unbracket(h) == IF Bracketed(h) /\ h[Len(h)] = RBR THEN SubSeq(h, 2, Len(h) - 1) ELSE h
\* without the zone id (bracketed or not)
StripZone(h) == IF ~HasAny(h, {PCT}) \/ ~HasAny(h, {COLON}) THEN h
                ELSE SubSeq(h, 1, FirstIn(h, 1, Len(h), {PCT}) - 1) \o (IF h[Len(h)] = RBR THEN <<RBR>> ELSE <<>>)
RECURSIVE StripDots(_)
StripDots(h) == IF h # <<>> /\ h[Len(h)] = DOT THEN StripDots(SubSeq(h, 1, Len(h) - 1)) ELSE h
\* "that host without brackets, zone id or trailing dot"
BareHost(h) == StripDots(StripZone(Unbracket(h)))
\* latitude: the zone id / the trailing dot may be present or stripped where the host is *named*
\* (and the zone id, opaque and local to the client, is compared case-insensitively there)
HostForms(h) == {Lower(h), Lower(StripZone(h)), Lower(StripDots(h))}
NamesHost(v, h) == Lower(v) \in HostForms(h)

PortSuffix(sc, dp) == IF dp = DefaultPort(sc) THEN <<>> ELSE <<COLON>> \o Digits(dp)
\* normalized path and query of the request target
RawPath(R) == IF R.path # <<>> /\ R.path[1] # SLASH THEN <<SLASH>> \o R.path ELSE R.path   \* "http://h\x"
WirePath2(p) == IF p = <<>> THEN <<SLASH>> ELSE p
WirePath(R) == WirePath2(IF R.path = <<>> THEN <<>> ELSE ModelEnc(ModelRemoveDots(RawPath(R)), "path"))
WireQuery(R) == IF R.query = NONE THEN <<>> ELSE <<QM>> \o (IF R.query = <<>> THEN <<>> ELSE ModelEnc(R.query, "query"))
EffPort(R, sc) == IF R.port \in {NOPORT, 0} THEN DefaultPort(sc) ELSE R.port

\* is the URL one whose wire image the property fixes?  (http/https, non-empty host, IDNA known)
WireDefined(R) == IsHttp(R) /\ R.kind = "auth" /\ R.host # <<>> /\ R.port <= 65535 /\ WireHost(R.host) # NONE

Wire3(R, px, P, sc, h, dp, md) ==
  [ mode     |-> md,
    dialhost |-> IF md = "direct" THEN Unbracket(h) ELSE Unbracket(WireHost(P.host)),
    dialport |-> IF md = "direct" THEN dp ELSE EffPort(P, Lower(P.scheme)),
    hosthdr  |-> StripDots(StripZone(h)) \o PortSuffix(sc, dp),
    sni      |-> IF sc = HTTPS THEN BareHost(h) ELSE NONE,
    connect  |-> IF md = "tunnel" THEN h \o <<COLON>> \o Digits(dp) ELSE NONE,
    target   |-> IF md = "forward" THEN sc \o <<COLON, SLASH, SLASH>> \o h \o PortSuffix(sc, dp) \o WirePath(R) \o WireQuery(R)
                 ELSE WirePath(R) \o WireQuery(R),
    key      |-> <<sc, h, dp>> ]
Wire2(R, px, P, sc) == Wire3(R, px, P, sc, WireHost(R.host), EffPort(R, sc), Mode(sc, px))
\* P: the reading of the proxy's URL (ignored when px = "none")
WireOf(R, px, P) == Wire2(R, px, P, Lower(R.scheme))

\* "URLs that differ only in scheme/host letter case or an explicit default port"
Equivalent(A, B) ==
    /\ WireDefined(A) /\ WireDefined(B)
    /\ Lower(A.scheme) = Lower(B.scheme) /\ WireHost(A.host) = WireHost(B.host)
    /\ EffPort(A, Lower(A.scheme)) = EffPort(B, Lower(B.scheme))
    /\ (A.port = 0) = (B.port = 0)                       \* explicit port 0 is Either: not an "explicit default port"
    /\ A.userinfo = B.userinfo /\ A.path = B.path /\ A.query = B.query /\ A.fragment = B.fragment

\* ---- the monitor.  o = one observed request:
\*   [s, px (proxy URL or NONE), k ("sent" | exception class), dials (<<host, port>> of EVERY call of
\*    create_connection), fault (name resolution was made to fail, see FaultSet), u3 (the exception is a
\*    urllib3 HTTPError), req (requests in wire order: [m, t, hosts]), snis (server_hostname of every TLS
\*    wrap), vars (variants: [s, k, samepool, samebytes])]
\* a value v "names host h and port dp": read with the SAME independent authority reading
NamesHostPort3(v, h, sc, dp, p0, hp) ==
    /\ ~hp.bad /\ NamesHost(SubSeq(v, hp.h1, hp.hend), h)
    /\ p0 \/ IF hp.colon THEN hp.d1 <= Len(v) /\ PortVal(v, hp.d1, Len(v), 0) = dp ELSE dp = DefaultPort(sc)
NamesHostPort(v, h, sc, dp, p0) == v # <<>> /\ ~HasAny(v, {AT}) /\ NamesHostPort3(v, h, sc, dp, p0, HostPort(v, 1, Len(v)))

\* origin-form target: path up to the first '?', then the query
PathOK(got, R) == IF AllPctValid(UTF8(R.path)) THEN got = WirePath(R)
                  ELSE OnlyAllowed(got, "path") /\ NoDotSegments(got) /\ got # <<>> /\ got[1] = SLASH
QueryOK(hasq, got, R) == IF R.query = NONE THEN ~hasq
                         ELSE hasq /\ IF AllPctValid(UTF8(R.query)) THEN <<QM>> \o got = WireQuery(R)
                                      ELSE OnlyAllowed(got, "query") /\ SameModEnc(got, R.query)
\* F(c, name): clause c must hold; the monitor returns the SET of failing clauses (total: one broken
\* clause - or one recorded finding - never hides another)
F(c, name) == IF c THEN {} ELSE {name}
OriginSet2(t, R, q) ==
    F(PathOK(SubSeq(t, 1, q - 1), R), "Wire:Target:Path")
    \cup F(QueryOK(q <= Len(t), SubSeq(t, q + 1, Len(t)), R), "Wire:Target:Query")
OriginSet(t, R) ==
    F(~HasAny(t, {HASH}), "Wire:Target:Fragment")
    \cup F(~HasAny(t, {AT}) \/ R.userinfo = NONE \/ HasAny(R.path \o Opt(R.query), {AT}), "Wire:Target:Userinfo")
    \cup (IF t = <<>> \/ t[1] # SLASH THEN {"Wire:Target:Form"}
          ELSE OriginSet2(t, R, FirstIn(t, 1, Len(t), {QM, HASH})))
\* absolute-form target (forwarding proxy): read with Ref; an empty path may stay empty (Either)
AbsoluteSet(T, R, sc, h, dp) ==
    F(T.fragment = NONE, "Wire:Target:Fragment")
    \cup F(T.userinfo = NONE, "Wire:Target:Userinfo")
    \cup (IF T.scheme # sc \/ T.kind # "auth" THEN {"Wire:Target:Form"}
          ELSE F(NamesHost(T.host, h), "Wire:Target:Host")
               \cup F(R.port = 0 \/ (IF T.port = NOPORT THEN dp = DefaultPort(sc) ELSE T.port = dp), "Wire:Target:Port")
               \cup F(PathOK(T.path, R) \/ (T.path = <<>> /\ R.path = <<>>), "Wire:Target:Path")
               \cup F(QueryOK(T.query # NONE, Opt(T.query), R), "Wire:Target:Query"))

\* a variant that spells the port differently is a "default port" variant, otherwise a "case" variant
VarKind(R, V) == IF V.colon # R.colon \/ V.digits # R.digits THEN "DefaultPort" ELSE "Case"
VariantSet(v, R, V) ==
    IF ~Equivalent(R, V) THEN {}
    ELSE IF v.k # "sent" THEN {"Wire:Equivalent:Rejected:" \o VarKind(R, V)}
    ELSE F(v.samepool, "Wire:Equivalent:SamePool:" \o VarKind(R, V))
         \cup F(v.samebytes, "Wire:Equivalent:ByteIdentical:" \o VarKind(R, V))
VariantsSet(o, R) == UNION {VariantSet(o.vars[i], R, Ref(o.vars[i].s)) : i \in 1..Len(o.vars)}

\* q: the request that carries the caller's method (the last one; a tunnel has a CONNECT before it).
\* o.carrier: the address that was dialled for the connection which CARRIED the request (from the network's
\* dial log and the peer's per-connection request log).  Within a history a request may travel over a
\* kept-alive connection (o.dials = <<>>): it must still be one that was dialled to THIS URL's own host.
Carrier(o) == IF o.carrier # <<>> THEN o.carrier ELSE o.dials[1]
WireSentSet(o, R, W, sc, h, dp, q) ==
    IF Len(o.dials) > 1 \/ (o.dials = <<>> /\ o.carrier = <<>>) THEN {"Wire:OneConnection"}
    ELSE IF Len(o.req) # (IF W.mode = "tunnel" /\ o.dials # <<>> THEN 2 ELSE 1) THEN {"Wire:OneRequest"}
    ELSE F(Carrier(o)[1] = W.dialhost /\ \A i \in 1..Len(o.dials) : o.dials[i][1] = W.dialhost, "Wire:DialHost")
         \cup F((W.mode = "direct" /\ R.port = 0)
                \/ (Carrier(o)[2] = W.dialport /\ \A i \in 1..Len(o.dials) : o.dials[i][2] = W.dialport), "Wire:DialPort")
         \cup F(Len(o.req) = 1 \/ (/\ o.req[1].m = "CONNECT" /\ HasAny(o.req[1].t, {COLON})
                                   /\ NamesHostPort(o.req[1].t, h, sc, dp, R.port = 0)), "Wire:ConnectTarget")
         \cup (IF Len(q.hosts) # 1 THEN {"Wire:HostHeaderCount"}
               ELSE F(NamesHostPort(q.hosts[1], h, sc, dp, R.port = 0), "Wire:HostHeader"))
         \cup F(o.snis = (IF sc = HTTPS /\ o.dials # <<>> THEN <<W.sni>> ELSE <<>>), "Wire:SNI")
         \cup (IF W.mode = "forward" THEN AbsoluteSet(Ref(q.t), R, sc, h, dp) ELSE OriginSet(q.t, R))
         \cup VariantsSet(o, R)
\* fault class "name resolution fails for the dial name" (o.fault: the harness made create_connection raise
\* socket.gaierror for the first name dialled, and only for that name): EVERY address handed to
\* create_connection must be the URL's host exactly as DialHost says - never a respelling of it that a
\* resolver could expand differently -, nothing is sent, and the caller gets a urllib3 error (o.u3)
FaultSet(o, R, W) ==
    F(o.dials # <<>>, "Wire:Fault:NoDial")
    \cup F(\A i \in 1..Len(o.dials) : o.dials[i][1] = W.dialhost, "Wire:DialHost")
    \cup F(\A i \in 1..Len(o.dials) : (W.mode = "direct" /\ R.port = 0) \/ o.dials[i][2] = W.dialport, "Wire:DialPort")
    \cup F(o.k # "sent" /\ o.u3, "Wire:Fault:Outcome")
    \cup F(o.req = <<>>, "Wire:Fault:RequestSent")
WireClauses2(o, R, P) ==
    IF o.k = "did-not-return" THEN {"Wire:DidNotReturn"}     \* the request never came back (CPU-time watchdog)
    ELSE IF o.fault /\ WireDefined(R) THEN FaultSet(o, R, WireOf(R, IF o.px = NONE THEN "none" ELSE "proxy", P))
    ELSE IF o.k # "sent" THEN F(o.dials = <<>>, "Wire:RejectedButDialled")
    ELSE IF ~WireDefined(R) THEN {"-"}                 \* outside the property's quantifier: not judged
    ELSE IF o.req = <<>> THEN {"Wire:OneRequest"}
    ELSE WireSentSet(o, R, WireOf(R, IF o.px = NONE THEN "none" ELSE "proxy", P), Lower(R.scheme), WireHost(R.host),
                     EffPort(R, Lower(R.scheme)), o.req[Len(o.req)])
WireClauses(o) == WireClauses2(o, Ref(o.s), IF o.px = NONE THEN Ref(<<>>) ELSE Ref(o.px))

\* history class: consecutive requests through ONE manager.  h = [steps (observations as above, vars = <<>>),
\* hdr0 / hdr1 (the manager's default headers before / after, as <<name, value>> pairs)]: every request is
\* judged on its OWN URL, and serving requests must not change the manager's defaults
\* consecutive requests for Equivalent URLs (letter case / explicit default port only), the first one left its
\* connection open: they reach the same pool, so the second travels over that connection (no new dial)
HistPairSet(a, b) == IF a.k = "sent" /\ b.k = "sent" /\ ~a.closed /\ ~b.fault /\ Equivalent(Ref(a.s), Ref(b.s))
                     THEN F(b.dials = <<>>, "Wire:Equivalent:SamePool:History") ELSE {}
HistClauses(h) == UNION {WireClauses(h.steps[i]) : i \in 1..Len(h.steps)}
                  \cup UNION {HistPairSet(h.steps[i], h.steps[i + 1]) : i \in 1..(Len(h.steps) - 1)}
                  \cup F(h.hdr1 = h.hdr0, "Wire:DefaultHeadersMutated")

\* facts about the reading (for reports and for matching recorded findings on the input class)
HostKind(h) == IF Bracketed(h) THEN (IF HasAny(h, {PCT}) THEN "ipv6zone" ELSE "ipv6")
               ELSE IF NonAscii(h) THEN "idn"
               ELSE IF h # <<>> /\ \A i \in 1..Len(h) : IsDigit(h[i]) \/ h[i] = DOT THEN "ipv4" ELSE "name"
PortKind(R, sc) == IF R.port = NOPORT THEN "absent" ELSE IF R.port = 0 THEN "zero"
                   ELSE IF R.port = DefaultPort(sc) THEN "default" ELSE "other"
WireFacts2(R, sc, px) == [mode |-> Mode(sc, px), hostkind |-> HostKind(R.host), dot |-> R.host # <<>> /\ R.host[Len(R.host)] = DOT,
                          port |-> PortKind(R, sc), userinfo |-> R.userinfo # NONE, fragment |-> R.fragment # NONE,
                          query |-> R.query # NONE, emptypath |-> R.path = <<>>,
                          zoneesc |-> Bracketed(R.host) /\ Cardinality({i \in 1..Len(R.host) : R.host[i] = PCT}) > 1,
                          stray |-> ~AllPctValid(UTF8(R.path)) \/ ~AllPctValid(UTF8(Opt(R.query)))]
WireFacts(R, px) == IF ~IsHttp(R) THEN [mode |-> "undefined"] ELSE WireFacts2(R, Lower(R.scheme), px)

\* the observation WireOf itself describes (Model |= Rules for C15: the monitor accepts it)
WireObs(str, pxs, W) ==
    [s |-> str, px |-> pxs, k |-> "sent", dials |-> << <<W.dialhost, W.dialport>> >>,
     req |-> (IF W.mode = "tunnel" THEN << [m |-> "CONNECT", t |-> W.connect, hosts |-> <<W.connect>>] >> ELSE <<>>)
             \o << [m |-> "GET", t |-> W.target, hosts |-> <<W.hosthdr>>] >>,
     snis |-> IF W.sni = NONE THEN <<>> ELSE <<W.sni>>, vars |-> <<>>, fault |-> FALSE, u3 |-> TRUE, carrier |-> <<W.dialhost, W.dialport>>]

-----------------------------------------------------------------------------
(* Enumeration of the input domain and the stage-1 invariants                   *)
Init == s \in Seeds
Next == Grow /\ Len(s) < MaxLen /\ \E c \in Alphabet : s' = Append(s, c)
Spec == Init /\ [][Next]_s

\* putting the components back together gives the (prefixed) string and the authority
RecomposeOf(str, R) ==
  /\ (IF R.scheme = NONE THEN <<>> ELSE R.scheme \o <<COLON>>)
       \o (IF R.kind = "none" THEN <<>> ELSE <<SLASH, SLASH>> \o R.authority)
       \o R.path \o (IF R.query = NONE THEN <<>> ELSE <<QM>> \o R.query)
       \o (IF R.fragment = NONE THEN <<>> ELSE <<HASH>> \o R.fragment) = R.t
  /\ R.kind = "auth" =>
       (IF R.userinfo = NONE THEN <<>> ELSE R.userinfo \o <<AT>>) \o R.host
          \o (IF R.colon THEN <<COLON>> \o R.digits ELSE <<>>) = R.authority
  /\ R.t \in {str, <<SLASH, SLASH>> \o str}
Recompose == RecomposeOf(s, Ref(s))

\* the authority ends at the FIRST '/', '?', '#' or backslash; the path holds no '?'/'#', the query no '#'
AuthorityEndsOf(R) ==
  /\ ~HasAny(R.authority, AuthEnd)
  /\ R.kind # "none" /\ R.path # <<>> => R.path[1] \in {SLASH, BSL}
  /\ ~HasAny(R.path, {QM, HASH})
  /\ ~HasAny(Opt(R.query), {HASH})
  /\ R.scheme # NONE => R.scheme # <<>> /\ IsAlpha(R.scheme[1]) /\ \A i \in 1..Len(R.scheme) : IsSchemeChar(R.scheme[i])
AuthorityEndsAtFirstDelimiter == AuthorityEndsOf(Ref(s))

\* the host follows the LAST '@', contains no delimiter, and the port (after the last ':' outside
\* brackets) is all digits
HostCleanOf(R) ==
  R.kind = "auth" =>
    /\ ~HasAny(R.host, HostDelims)
    /\ ~Bracketed(R.host) => ~HasAny(R.host, {COLON, LBR, RBR})
    /\ Bracketed(R.host) => /\ R.host[Len(R.host)] = RBR
                            /\ \A i \in 2..(Len(R.host) - 1) : R.host[i] \notin {LBR, RBR}
    /\ \A i \in 1..Len(R.digits) : IsDigit(R.digits[i])
    /\ (R.port = NOPORT) = (R.digits = <<>>)
    /\ R.port # NOPORT => R.port >= 0 /\ R.port <= PORTSAT
HostNeverContainsDelimiter == HostCleanOf(Ref(s))

\* reading the string itself as one component: the encoder produces only allowed characters and
\* upper-case escapes, is idempotent, and never double-encodes a valid escape
EncoderSoundOf(str, kind, ep, em) ==
    /\ OnlyAllowed(ep, kind) /\ OnlyAllowed(em, kind)
    /\ EncPrecise(ep, kind) = ep /\ ModelEnc(em, kind) = em
    /\ NoDoubleEnc(ep, str) /\ NoDoubleEnc(em, str)
    /\ SameModEnc(ep, str) /\ SameModEnc(em, str) /\ SameModEnc(str, str)
    /\ OnlyAllowed(str, kind) => em = str
EncoderSound == \A kind \in {"userinfo", "path", "query"} :
                    EncoderSoundOf(s, kind, EncPrecise(s, kind), ModelEnc(s, kind))

\* the fold used by the model (and by urllib3) is RFC 3986 5.2.4 on absolute paths, and leaves no dot segment
\* (soft extra, not demanded by C14: where '..' climbs above the root urllib3's fold also swallows the root's
\* own empty segment - "/..//x" gives "/x" where RFC 3986 gives "//x", "/../" gives "" where it gives "/" -
\* the result is then the RFC's minus one leading '/'; everywhere else the two coincide)
DotRemovalOf(p, m, r) == /\ m = r \/ <<SLASH>> \o m = r
                         /\ NoDotSegments(m)
                         /\ (m # <<>> /\ m[1] = SLASH) => ModelRemoveDots(m) = m
                         /\ ~HasAny(p, {DOT}) => m = p
DotRemovalMatchesRFC == (s # <<>> /\ s[1] = SLASH) => DotRemovalOf(s, ModelRemoveDots(s), RFCRemoveDots(s))

\* Model |= Rules: the observation predicted by the model passes the monitor
ModelSatisfiesRules == Verdict(ModelEvent(s)) = "ok"
ModelNormalFormOf(m, R) == (m.k = "url" /\ IsHttp(R)) => IsNormalForm(m.u)
ModelNormalForm == ModelNormalFormOf(ModelParse(s), Ref(s))
=============================================================================
