-------------------------------- MODULE Proxy --------------------------------
(* C09 - proxied traffic follows the documented routing and never leaks outside it.          *)
(*                                                                                            *)
(* Two layers over one vocabulary (the event log that the recording proxy party of            *)
(* vh/proxynet.py writes: dial / tls / msg / reply / redir / pclose / start / end):           *)
(*                                                                                            *)
(*   RULES  the property, as predicates Off_<Clause>(c, log, i) "position i offends" (and the  *)
(*          sets Bad_<Clause>(c, log) of offending positions).  They only look at what the    *)
(*          two parties (Proxy, Origin) saw and at the outcome handed to the caller.  The     *)
(*          same operators are the INVARIANTs of the model below and the verdict of the       *)
(*          trace monitor (Proxy_Trace.tla) on logs recorded from the real code.              *)
(*   MODEL  what urllib3 does, one action per real step of ProxyManager.urlopen /             *)
(*          connection_from_host, HTTPConnectionPool.urlopen (_get_conn, _prepare_proxy on    *)
(*          closed connections only, proxy-header merge only when not tunnelling),            *)
(*          HTTPSConnection.connect (TLS to proxy, CONNECT, TLS(-in-TLS) to origin), with     *)
(*          the environment choosing the CONNECT reply, and whether the peer closes the       *)
(*          connection after a response, or answers 3xx with a Location on the OTHER scheme   *)
(*          of the same destination (PoolManager.urlopen then re-enters ProxyManager.urlopen  *)
(*          with the SAME header carrier kw["headers"]).  Named deviations (constant Bug) re-create, at       *)
(*          design level, the mistakes the clauses are meant to catch.                        *)
EXTENDS Naturals, Sequences, FiniteSets, TLC

CONSTANTS ProxySchemes,   \* subset of {"http","https"}
          DestSchemes,    \* subset of {"http","https"}
          Fwds,           \* subset of BOOLEAN: use_forwarding_for_https
          HostKinds,      \* subset of {"name","ipv4","ipv6"}: how the URL spells the destination host
          PortKinds,      \* subset of {"default","explicit"}
          PCerts,         \* certificate shown by a TLS proxy: "ok" | "untrusted" | "wrongname"
          OCerts,         \* certificate shown by the origin inside the tunnel: "ok" | "untrusted" | "wrongname" | "proxyname"
          PHdrSets,       \* set of sets of proxy-header kinds, drawn from {"pauth","ptag"}
          RHdrSets,       \* set of sets of request-header kinds, drawn from {"rauth","rtag"}
          RetrySet,       \* subset of 0..1: 0 = retries=False, n = Retry(total=n)
          MaxReq,         \* 1..3 requests per scenario
          MaxBad,         \* at most this many non-200 CONNECT replies per scenario
          Replies,        \* subset of {"200","403","407","502","garbage"}
          MaxRedir,       \* 0..2: redirects (to the other scheme of the same destination) per request
          RedirCodes,     \* subset of {"301","302","303","307","308"}
          Bug             \* "none" or the name of a design-level deviation (see TunnelRequiredCode etc.)

-----------------------------------------------------------------------------
(* Vocabulary: names and the strings that must appear on the wire                              *)

ProxyHost == "proxy.test"
ProxyAddr == "proxy.test:3128"
UrlHost(hk) == CASE hk = "name" -> "origin.test" [] hk = "ipv4" -> "10.0.0.7" [] hk = "ipv6" -> "[fd00::7]"
DefaultPort(ds) == IF ds = "https" THEN "443" ELSE "80"
ExplicitPort(ds) == IF ds = "https" THEN "8443" ELSE "8080"
\* d = scheme of the current hop (a redirect flips it), h = number of redirects already followed
Flip(d) == IF d = "https" THEN "http" ELSE "https"
PortOf(c, d) == IF c.port = "default" THEN DefaultPort(d) ELSE ExplicitPort(d)
NetLoc(c, d) == UrlHost(c.hk) \o (IF c.port = "default" THEN "" ELSE ":" \o ExplicitPort(d))
Path(k, h) == "/r" \o ToString(k) \o (CASE h = 0 -> "" [] h = 1 -> "x" [] OTHER -> "xx")
Url(c, d, k, h) == d \o "://" \o NetLoc(c, d) \o Path(k, h)
Authority(c, d) == UrlHost(c.hk) \o ":" \o PortOf(c, d)  \* exactly the URL's host:port, IPv6 bracketed
SniOf(c) == IF c.hk = "name" THEN UrlHost(c.hk) ELSE ""  \* IP literals are never sent as SNI
ProxyKinds == {"pauth", "ptag"}
BadReplies == {"403", "407", "502"}

\* The documented routing, as far as the PROPERTY fixes it (three-valued: the rest is "either").
MustTunnel(c, d) == d = "https" /\ ~c.fwd
MustForward(c, d) == d = "http"
\* ... and as the CODE decides it (util/proxy.py connection_requires_http_tunnel).
TunnelRequiredCode(c, d) ==
    IF d = "http" THEN FALSE
    ELSE IF c.ps = "https" /\ (c.fwd \/ Bug = "no_tunnel_https_proxy") THEN FALSE
    ELSE TRUE

Blank == [ev |-> "", cid |-> 0, k |-> 0, party |-> "", form |-> "", method |-> "", target |-> "", hdr |-> {},
          host |-> "", outer |-> "none", inner |-> "none", sni |-> "", layer |-> "", cert |-> "", done |-> FALSE,
          code |-> "", kind |-> "", status |-> 0, by |-> "", exc |-> <<>>]

-----------------------------------------------------------------------------
(* Per-connection tunnel state, folded from the log (ground truth recorded by the party)       *)
(* fresh -> tcp -> [tlsproxy] -> connectsent -> tunnel -> tlsintunnel ; refused ; closed       *)

ConnStep(s, e) ==
    CASE e.ev = "dial" -> "tcp"
      [] e.ev = "tls" /\ e.layer = "outer" -> IF e.done THEN "tlsproxy" ELSE "closed"
      [] e.ev = "tls" /\ e.layer = "inner" -> IF e.done /\ s = "tunnel" THEN "tlsintunnel" ELSE "closed"
      [] e.ev = "msg" /\ e.party = "proxy" /\ e.form = "CONNECT" -> "connectsent"
      [] e.ev = "reply" -> IF e.code = "200" /\ s = "connectsent" THEN "tunnel" ELSE "refused"
      [] e.ev = "pclose" -> "closed"
      [] e.ev = "msg" /\ e.form \in {"tlshello", "partial"} -> "closed"     \* the party hangs up on these
      [] OTHER -> s

\* cs[i][cid] = state of connection cid after the first i events
CSeq(log) ==
    LET cs[i \in 0..Len(log)] ==
          IF i = 0 THEN [x \in 0..Len(log) |-> "fresh"]
          ELSE [cs[i - 1] EXCEPT ![log[i].cid] = ConnStep(@, log[i])]
    IN cs

\* Which hop of its request an event belongs to: the party logs a "redir" event whenever it answers
\* 3xx, and every redirect goes to the other scheme of the same destination.
HopAt(log, i) == Cardinality({j \in 1..(i - 1) : log[j].ev = "redir" /\ log[j].k = log[i].k})
DsAt(c, log, i) == IF HopAt(log, i) % 2 = 0 THEN c.ds ELSE Flip(c.ds)

IsMsg(e) == e.ev = "msg"
IsRequestMsg(e) == e.ev = "msg" /\ e.form # "CONNECT"
Idx(log) == 1..Len(log)

-----------------------------------------------------------------------------
(* RULES.  Each clause is a predicate Off_<Clause>(c, log, i): position i of the log breaks it. *)
(* Every predicate only looks at log[1..i], so a clause holds on a log iff it holds on every    *)
(* prefix (safety); Bad_<Clause> is the set of offending positions.                             *)

\* An HTTPS destination is reached only through a CONNECT tunnel unless forwarding was opted
\* into: the proxy party sees nothing but CONNECT, the origin party only hears from tunnels, and
\* TCP only ever goes to the proxy.
Off_HttpsOnlyViaTunnelUnlessOptedIn(c, log, i) ==
    \/ log[i].ev = "dial" /\ log[i].target # ProxyAddr
    \/ /\ IsMsg(log[i]) /\ MustTunnel(c, DsAt(c, log, i))
       /\ \/ log[i].party = "proxy" /\ log[i].form # "CONNECT"
          \/ log[i].party = "origin" /\ CSeq(log)[i - 1][log[i].cid] \notin {"tunnel", "tlsintunnel"}

\* CONNECT names exactly the URL's host:port, IPv6 literal bracketed, default port spelled out.
Off_ConnectTargetExact(c, log, i) ==
    IsMsg(log[i]) /\ log[i].form = "CONNECT" /\ log[i].target # Authority(c, DsAt(c, log, i))

\* Whatever reaches the origin travelled over TLS that was verified against the destination's
\* name: the certificate the party showed on that layer was a good one for the destination and
\* the name asked for (SNI) was the destination's.
Off_OriginNameVerifiedInsideTunnel(c, log, i) ==
    IsMsg(log[i]) /\ log[i].party = "origin" /\ (log[i].inner # "ok" \/ log[i].sni # SniOf(c))

\* origin-form inside the tunnel, absolute-form (the exact URL) to the proxy, no CONNECT for an
\* http:// destination.
Off_FormByRoute(c, log, i) ==
    IsMsg(log[i]) /\
        \/ log[i].party = "origin" /\ (log[i].form # "origin" \/ log[i].target # Path(log[i].k, HopAt(log, i)))
        \/ log[i].party = "proxy" /\ log[i].form # "CONNECT"
              /\ (log[i].form # "absolute" \/ log[i].target # Url(c, DsAt(c, log, i), log[i].k, HopAt(log, i)))
        \/ log[i].form = "CONNECT" /\ MustForward(c, DsAt(c, log, i))

\* Proxy headers (Proxy-Authorization, ...) never appear inside a tunnel - on any hop of a request.
Off_ProxyHeadersOnlyToProxy(c, log, i) ==
    IsMsg(log[i]) /\ log[i].party = "origin" /\ log[i].hdr \cap ProxyKinds # {}

\* After a refusal (non-200 reply), a failed handshake or a close nothing more is written on that
\* connection, and nothing at all is written to a TLS proxy that failed its verification.
Off_NoRequestAfterRefusal(c, log, i) ==
    IsMsg(log[i]) /\
        \/ CSeq(log)[i - 1][log[i].cid] \in {"refused", "closed", "fresh"}
        \/ c.ps = "https" /\ log[i].outer # "ok"
        \/ log[i].form \in {"afterrefusal", "partial"}

\* The caller's outcome: a response only if that request was delivered to the party that answered;
\* after a refusal / failed proxy verification an error whose class is ProxyError or SSLError
\* (possibly as the reason of MaxRetryError).  For a garbage reply or a bad origin certificate the
\* property only demands "an error" (latitude).
LastFail(log, j) ==
    LET S == {i \in 1..(j - 1) : log[i].k = log[j].k /\
                  \/ log[i].ev = "reply" /\ log[i].code # "200"
                  \/ log[i].ev = "tls" /\ ~log[i].done} IN
    IF S = {} THEN 0 ELSE CHOOSE i \in S : \A x \in S : x <= i
CoreExc(exc) == IF exc = <<>> THEN "" ELSE IF exc[1] = "MaxRetryError" /\ Len(exc) > 1 THEN exc[2] ELSE exc[1]
Off_RefusalRaises(c, log, j) ==
    log[j].ev = "end" /\
        \/ /\ log[j].kind = "response"
           /\ ~\E i \in 1..(j - 1) : IsRequestMsg(log[i]) /\ log[i].k = log[j].k /\ log[i].party = log[j].by
                                      /\ log[i].form \in {"origin", "absolute"}
        \/ /\ log[j].kind = "error" /\ LastFail(log, j) # 0
           /\ LET f == log[LastFail(log, j)] IN
              /\ (f.ev = "reply" /\ f.code \in BadReplies) \/ (f.ev = "tls" /\ f.layer = "outer")
              /\ CoreExc(log[j].exc) \notin {"ProxyError", "SSLError"}
        \/ log[j].kind \notin {"response", "error"}

\* A tunnelled connection that was closed is re-tunnelled before it carries another request:
\* every origin message travels on a connection that, since its own dial, got CONNECT 200 and the
\* inner handshake; and when nothing in the environment stands in the way (all replies 200, good
\* certificates) the request is really carried, i.e. the caller gets the 200 response.
\* (a bad certificate shows up as a failed handshake event, so "no failure event" covers it)
Healthy(c, log, j) == LastFail(log, j) = 0
Off_Retunnelled(c, log, i) ==
    \/ IsMsg(log[i]) /\ log[i].party = "origin" /\ DsAt(c, log, i) = "https"
          /\ CSeq(log)[i - 1][log[i].cid] # "tlsintunnel"
    \/ log[i].ev = "end" /\ Healthy(c, log, i) /\ ~(log[i].kind = "response" /\ log[i].status = 200)

Bad_HttpsOnlyViaTunnelUnlessOptedIn(c, log) == {i \in Idx(log) : Off_HttpsOnlyViaTunnelUnlessOptedIn(c, log, i)}
Bad_ConnectTargetExact(c, log)              == {i \in Idx(log) : Off_ConnectTargetExact(c, log, i)}
Bad_OriginNameVerifiedInsideTunnel(c, log)  == {i \in Idx(log) : Off_OriginNameVerifiedInsideTunnel(c, log, i)}
Bad_FormByRoute(c, log)                     == {i \in Idx(log) : Off_FormByRoute(c, log, i)}
Bad_ProxyHeadersOnlyToProxy(c, log)         == {i \in Idx(log) : Off_ProxyHeadersOnlyToProxy(c, log, i)}
Bad_NoRequestAfterRefusal(c, log)           == {i \in Idx(log) : Off_NoRequestAfterRefusal(c, log, i)}
Bad_RefusalRaises(c, log)                   == {i \in Idx(log) : Off_RefusalRaises(c, log, i)}
Bad_Retunnelled(c, log)                     == {i \in Idx(log) : Off_Retunnelled(c, log, i)}

ClauseNames == <<"NoRequestAfterRefusal", "HttpsOnlyViaTunnelUnlessOptedIn", "ConnectTargetExact",
                 "OriginNameVerifiedInsideTunnel", "FormByRoute", "ProxyHeadersOnlyToProxy", "RefusalRaises",
                 "Retunnelled">>
BadSets(c, log) == <<Bad_NoRequestAfterRefusal(c, log), Bad_HttpsOnlyViaTunnelUnlessOptedIn(c, log),
                     Bad_ConnectTargetExact(c, log), Bad_OriginNameVerifiedInsideTunnel(c, log),
                     Bad_FormByRoute(c, log), Bad_ProxyHeadersOnlyToProxy(c, log),
                     Bad_RefusalRaises(c, log), Bad_Retunnelled(c, log)>>

Min(S) == CHOOSE x \in S : \A y \in S : x <= y
\* Total verdict: <<position, clause>> of the earliest offence (ties: the order above), or <<0,"ok">>.
Verdict(c, log) ==
    LET B == BadSets(c, log)
        F == {n \in 1..Len(B) : B[n] # {}} IN
    IF F = {} THEN <<0, "ok">>
    ELSE LET p == Min(UNION {B[n] : n \in F})
             n == Min({m \in F : p \in B[m]}) IN <<p, ClauseNames[n]>>

-----------------------------------------------------------------------------
(* MODEL                                                                                       *)

VARIABLES cfg,      \* the configuration (chosen once)
          nreq,     \* number of requests of this scenario
          log,      \* what the parties and the caller recorded
          pc, k,    \* control state of the one client thread, current request ordinal
          att,      \* what is left of Retry.total for the current request (errors and redirects both use it)
          hop,      \* redirects already followed for the current request
          curds,    \* scheme of the URL of the current hop
          carrier,  \* header kinds in kw["headers"], the dict PoolManager.urlopen hands from hop to hop
          slot,     \* per pool ("dest" for https:// URLs, "proxy" for http:// URLs) the one pooled connection
          conn,     \* the connection checked out for the current attempt
          mode,     \* "tunnel" | "direct": what connect() is about to do
          hdrs, target, err, nextcid, nconn, bad,
          script    \* environment choices so far: [replies, closes, redirs]
vars == <<cfg, nreq, log, pc, k, att, hop, curds, carrier, slot, conn, mode, hdrs, target, err, nextcid, nconn, bad,
          script>>

NoConn == [cid |-> 0, st |-> "none", tun |-> FALSE, dropped |-> FALSE]
Pools == {"proxy", "dest"}
PoolOf(d) == IF d = "https" THEN "dest" ELSE "proxy"        \* ProxyManager.connection_from_host

CanTunnel(c, d) == d = "https" /\ ~(c.ps = "https" /\ c.fwd)
Configs ==
    {c \in [ps : ProxySchemes, ds : DestSchemes, fwd : Fwds, hk : HostKinds, port : PortKinds, pcert : PCerts,
            ocert : OCerts, ph : PHdrSets, rh : RHdrSets, retries : RetrySet] :
        /\ (c.ps = "http" => c.pcert = "ok")                   \* a plain proxy shows no certificate
        /\ (~(CanTunnel(c, c.ds) \/ (MaxRedir > 0 /\ c.retries > 0 /\ CanTunnel(c, Flip(c.ds))))
               => c.ocert = "ok")}                             \* no tunnel possible: origin cert unused

Init == /\ cfg \in Configs /\ nreq \in 1..MaxReq
        /\ log = <<>> /\ pc = "idle" /\ k = 0 /\ att = 0 /\ hop = 0 /\ curds = cfg.ds /\ carrier = {}
        /\ slot = [p \in Pools |-> NoConn] /\ conn = NoConn /\ mode = "direct"
        /\ hdrs = {} /\ target = "" /\ err = <<>> /\ nextcid = 1 /\ nconn = [p \in Pools |-> 0] /\ bad = 0
        /\ script = [replies |-> <<>>, closes |-> {}, redirs |-> <<>>]

Ev(r) == Append(log, r)
Closed(c) == c.st \in {"fresh", "closed"}          \* HTTPConnection.is_closed: sock is None
Tun == TunnelRequiredCode(cfg, curds)
Pool == PoolOf(curds)

\* caller: pm.request("GET", url, headers=rh)  (redirects enabled)
StartRequest ==
    /\ pc = "idle" /\ k < nreq
    /\ k' = k + 1 /\ att' = cfg.retries /\ hop' = 0 /\ curds' = cfg.ds /\ carrier' = cfg.rh /\ pc' = "mgr"
    /\ log' = Ev([Blank EXCEPT !.ev = "start", !.k = k + 1])
    /\ UNCHANGED <<cfg, nreq, slot, conn, mode, hdrs, target, err, nextcid, nconn, bad, script>>

\* ProxyManager.urlopen + PoolManager.urlopen: when not tunnelling kw["headers"] becomes a fresh dict
\* {Accept, Host, **headers}; the pool is the destination's for https:// and the proxy's for http://;
\* absolute-form iff not tunnelling.
MgrUrlopen ==
    /\ pc = "mgr"
    /\ carrier' = IF ~Tun \/ Bug = "setproxyhdr_https" THEN carrier \cup {"accept"} ELSE carrier
    /\ hdrs' = carrier'
    /\ target' = IF ~Tun /\ Bug # "origin_form_to_proxy" THEN Url(cfg, curds, k, hop) ELSE Path(k, hop)
    /\ pc' = "pool"
    /\ UNCHANGED <<cfg, nreq, log, k, att, hop, curds, slot, conn, mode, err, nextcid, nconn, bad, script>>

\* HTTPConnectionPool.urlopen: merge proxy headers only when not tunnelling - into a COPY, so the
\* caller's carrier is untouched (deviation carrier_mutated: the carrier itself is updated)
PoolUrlopen ==
    /\ pc = "pool"
    /\ LET merge == ~Tun \/ Bug = "merge_always" IN
       /\ hdrs' = IF merge THEN hdrs \cup cfg.ph ELSE hdrs
       /\ carrier' = IF merge /\ Bug = "carrier_mutated" THEN carrier \cup cfg.ph ELSE carrier
    /\ pc' = "getconn"
    /\ UNCHANGED <<cfg, nreq, log, k, att, hop, curds, slot, conn, mode, target, err, nextcid, nconn, bad, script>>

\* _get_conn: pooled connection (closed first if the peer dropped it) or a new connection object
GetConn ==
    /\ pc = "getconn"
    /\ IF slot[Pool].st = "none"
       THEN conn' = [NoConn EXCEPT !.st = "fresh"] /\ nconn' = [nconn EXCEPT ![Pool] = @ + 1]
       ELSE conn' = (IF slot[Pool].dropped THEN [slot[Pool] EXCEPT !.st = "closed", !.dropped = FALSE] ELSE slot[Pool])
            /\ nconn' = nconn
    /\ slot' = [slot EXCEPT ![Pool] = NoConn] /\ pc' = "prepare"
    /\ UNCHANGED <<cfg, nreq, log, k, att, hop, curds, carrier, mode, hdrs, target, err, nextcid, bad, script>>

\* "if proxy and http_tunnel_required and conn.is_closed: _prepare_proxy(conn)" (set_tunnel + connect);
\* otherwise _validate_conn connects a closed connection the way it was configured before.
Prepare ==
    /\ pc = "prepare"
    /\ LET doPrep == /\ Tun /\ Closed(conn)
                     /\ (Bug = "prepare_first_only" => nconn[Pool] = 1) IN
       IF doPrep THEN conn' = [conn EXCEPT !.tun = TRUE] /\ mode' = "tunnel" /\ pc' = "dial"
       ELSE IF Closed(conn) THEN conn' = conn /\ mode' = (IF conn.tun THEN "tunnel" ELSE "direct") /\ pc' = "dial"
       ELSE conn' = conn /\ mode' = mode /\ pc' = "send"
    /\ UNCHANGED <<cfg, nreq, log, k, att, hop, curds, carrier, slot, hdrs, target, err, nextcid, nconn, bad, script>>

\* _new_conn: TCP always goes to the proxy
Dial ==
    /\ pc = "dial"
    /\ conn' = [conn EXCEPT !.cid = nextcid, !.st = "tcp"] /\ nextcid' = nextcid + 1
    /\ log' = Ev([Blank EXCEPT !.ev = "dial", !.cid = nextcid, !.k = k, !.target = ProxyAddr])
    /\ pc' = IF cfg.ps = "https" THEN "tlsproxy"
             ELSE IF mode = "tunnel" THEN "connect"
             ELSE IF curds = "https" THEN "tlsdirect" ELSE "send"
    /\ UNCHANGED <<cfg, nreq, k, att, hop, curds, carrier, slot, mode, hdrs, target, err, nconn, bad, script>>

\* TLS to the proxy (_connect_tls_proxy when tunnelling, plain HTTPSConnection.connect when forwarding),
\* verified against the proxy's own name
TlsToProxy ==
    /\ pc = "tlsproxy"
    /\ log' = Ev([Blank EXCEPT !.ev = "tls", !.cid = conn.cid, !.k = k, !.layer = "outer", !.sni = ProxyHost,
                               !.cert = cfg.pcert, !.done = (cfg.pcert = "ok")])
    /\ IF cfg.pcert = "ok"
       THEN conn' = [conn EXCEPT !.st = "tlsproxy"] /\ err' = err
            /\ pc' = IF mode = "tunnel" THEN "connect" ELSE "send"
       ELSE conn' = [conn EXCEPT !.st = "closed"] /\ pc' = "error"
            /\ err' = <<"ProxyError", "SSLError", "SSLCertVerificationError">>
    /\ UNCHANGED <<cfg, nreq, k, att, hop, curds, carrier, slot, mode, hdrs, target, nextcid, nconn, bad, script>>

\* only reachable through a deviation: TLS started straight at a plain-HTTP proxy
TlsDirectAtPlainProxy ==
    /\ pc = "tlsdirect"
    /\ log' = Ev([Blank EXCEPT !.ev = "msg", !.cid = conn.cid, !.k = k, !.party = "proxy", !.form = "tlshello"])
    /\ conn' = [conn EXCEPT !.st = "closed"] /\ err' = <<"ProxyError", "SSLError", "SSLError">> /\ pc' = "error"
    /\ UNCHANGED <<cfg, nreq, k, att, hop, curds, carrier, slot, mode, hdrs, target, nextcid, nconn, bad, script>>

\* http.client _tunnel(): CONNECT <_tunnel_host>:<port> with the proxy headers (+ Host)
TunnelHostCode == IF Bug = "strip_brackets" /\ cfg.hk = "ipv6" THEN "fd00::7" ELSE UrlHost(cfg.hk)
SendConnect ==
    /\ pc = "connect"
    /\ LET t == TunnelHostCode \o ":" \o PortOf(cfg, curds) IN
       log' = Ev([Blank EXCEPT !.ev = "msg", !.cid = conn.cid, !.k = k, !.party = "proxy", !.form = "CONNECT",
                               !.method = "CONNECT", !.target = t, !.host = t, !.hdr = cfg.ph,
                               !.outer = (IF cfg.ps = "https" THEN cfg.pcert ELSE "none")])
    /\ conn' = [conn EXCEPT !.st = "connectsent"] /\ pc' = "creply"
    /\ UNCHANGED <<cfg, nreq, k, att, hop, curds, carrier, slot, mode, hdrs, target, err, nextcid, nconn, bad, script>>

\* environment: the proxy's answer to this CONNECT
ConnectReply(r) ==
    /\ pc = "creply"
    /\ r # "200" => bad < MaxBad
    /\ bad' = IF r = "200" THEN bad ELSE bad + 1
    /\ script' = [script EXCEPT !.replies = Append(@, r)]
    /\ IF r = "200" THEN
          /\ log' = Ev([Blank EXCEPT !.ev = "reply", !.cid = conn.cid, !.k = k, !.code = r])
          /\ conn' = [conn EXCEPT !.st = "tunnel"] /\ pc' = "tlsorigin" /\ err' = err
       ELSE IF Bug = "ignore_refusal" THEN
          /\ log' = log \o << [Blank EXCEPT !.ev = "reply", !.cid = conn.cid, !.k = k, !.code = r],
                              [Blank EXCEPT !.ev = "msg", !.cid = conn.cid, !.k = k, !.party = "proxy",
                                            !.form = "afterrefusal",
                                            !.outer = (IF cfg.ps = "https" THEN cfg.pcert ELSE "none")] >>
          /\ conn' = [conn EXCEPT !.st = "closed"] /\ pc' = "error" /\ err' = <<"SSLError", "SSLEOFError">>
       ELSE
          /\ log' = Ev([Blank EXCEPT !.ev = "reply", !.cid = conn.cid, !.k = k, !.code = r])
          /\ conn' = [conn EXCEPT !.st = "closed"] /\ pc' = "error"
          /\ err' = IF r = "garbage" THEN <<"ProtocolError", "BadStatusLine">> ELSE <<"ProxyError", "OSError">>
    /\ UNCHANGED <<cfg, nreq, k, att, hop, curds, carrier, slot, mode, hdrs, target, nextcid, nconn>>

\* TLS (TLS-in-TLS behind a TLS proxy) to the origin, server_hostname = the tunnel host
TlsToOrigin ==
    /\ pc = "tlsorigin"
    /\ LET sni == IF Bug = "proxy_sni" THEN ProxyHost ELSE SniOf(cfg)
           ok == IF Bug = "proxy_sni" THEN cfg.ocert = "proxyname" ELSE cfg.ocert = "ok" IN
       /\ log' = Ev([Blank EXCEPT !.ev = "tls", !.cid = conn.cid, !.k = k, !.layer = "inner", !.sni = sni,
                                  !.cert = cfg.ocert, !.done = ok])
       /\ IF ok THEN conn' = [conn EXCEPT !.st = "tlsintunnel"] /\ pc' = "send" /\ err' = err
          ELSE conn' = [conn EXCEPT !.st = "closed"] /\ pc' = "error"
               /\ err' = <<"SSLError", "SSLCertVerificationError">>
    /\ UNCHANGED <<cfg, nreq, k, att, hop, curds, carrier, slot, mode, hdrs, target, nextcid, nconn, bad, script>>

FormOf(t) == IF t = Path(k, hop) THEN "origin" ELSE "absolute"
\* conn.request(): the bytes go to whoever is at the other end of this connection.  The Host header is
\* not part of the property; the model leaves it open ("*") where it is known to be odd: IPv6 inside a
\* tunnel, and after a redirect (the carrier may still hold the previous hop's Host).
SendRequest ==
    /\ pc = "send"
    /\ LET inTunnel == conn.st = "tlsintunnel"
           h == IF hop > 0 THEN "*"
                ELSE IF inTunnel THEN (IF cfg.hk = "ipv6" THEN "*" ELSE NetLoc(cfg, curds))
                ELSE IF FormOf(target) = "absolute" THEN NetLoc(cfg, curds) ELSE "*" IN
       log' = Ev([Blank EXCEPT !.ev = "msg", !.cid = conn.cid, !.k = k,
                               !.party = (IF inTunnel THEN "origin" ELSE "proxy"),
                               !.form = FormOf(target), !.method = "GET", !.target = target, !.hdr = hdrs, !.host = h,
                               !.outer = (IF cfg.ps = "https" THEN cfg.pcert ELSE "none"),
                               !.inner = (IF inTunnel THEN cfg.ocert ELSE "none"),
                               !.sni = (IF inTunnel THEN (IF Bug = "proxy_sni" THEN ProxyHost ELSE SniOf(cfg)) ELSE "")])
    /\ pc' = "resp"
    /\ UNCHANGED <<cfg, nreq, k, att, hop, curds, carrier, slot, conn, mode, hdrs, target, err, nextcid, nconn, bad,
                   script>>

\* the party answers every request: 200, or (environment) a redirect to the other scheme of the same
\* destination; environment: it may close the connection right afterwards
Response(close, rd) ==
    /\ pc = "resp"
    /\ rd # "none" => att >= 1 /\ hop < MaxRedir          \* only redirects the Retry budget lets the client follow
    /\ close => (k < nreq \/ rd # "none")                 \* closing after the very last exchange changes nothing
    /\ LET by == IF conn.st = "tlsintunnel" THEN "origin" ELSE "proxy"
           loc == Url(cfg, Flip(curds), k, hop + 1)
           answer == IF rd = "none"
                     THEN [Blank EXCEPT !.ev = "end", !.k = k, !.kind = "response", !.status = 200, !.by = by]
                     ELSE [Blank EXCEPT !.ev = "redir", !.cid = conn.cid, !.k = k, !.code = rd, !.target = loc]
           closeev == [Blank EXCEPT !.ev = "pclose", !.cid = conn.cid, !.k = k] IN
       /\ log' = IF ~close THEN Ev(answer)
                 ELSE IF rd = "none" THEN log \o <<closeev, answer>> ELSE log \o <<answer, closeev>>
       /\ script' = [script EXCEPT !.closes = IF close THEN @ \cup {Path(k, hop)} ELSE @,
                                   !.redirs = IF rd = "none" THEN @
                                              ELSE Append(@, [path |-> Path(k, hop), code |-> rd, loc |-> loc])]
    /\ slot' = [slot EXCEPT ![Pool] = [conn EXCEPT !.dropped = close]] /\ conn' = NoConn
    /\ pc' = IF rd = "none" THEN "idle" ELSE "mredirect"
    /\ UNCHANGED <<cfg, nreq, k, att, hop, curds, carrier, mode, hdrs, target, err, nextcid, nconn, bad>>

\* PoolManager.urlopen following the redirect: Retry.increment, strip Authorization / Proxy-Authorization
\* (the Location is on another scheme, hence another origin) from the carrier, then self.urlopen(...)
\* again with the SAME carrier kw["headers"]
ManagerRedirect ==
    /\ pc = "mredirect"
    /\ att' = att - 1 /\ hop' = hop + 1 /\ curds' = Flip(curds)
    /\ carrier' = carrier \ {"rauth", "pauth"}
    /\ pc' = "mgr"
    /\ UNCHANGED <<cfg, nreq, log, k, slot, conn, mode, hdrs, target, err, nextcid, nconn, bad, script>>

\* urlopen's except/finally: the connection is discarded; retry (urlopen recursion) or raise
OnError ==
    /\ pc = "error"
    /\ conn' = NoConn /\ slot' = [slot EXCEPT ![Pool] = NoConn]
    /\ IF att > 0
       THEN att' = att - 1 /\ pc' = "getconn" /\ log' = log
       ELSE /\ att' = att /\ pc' = "idle"
            /\ log' = Ev([Blank EXCEPT !.ev = "end", !.k = k, !.kind = "error",
                                       !.exc = (IF cfg.retries > 0 THEN <<"MaxRetryError">> ELSE <<>>) \o err])
    /\ UNCHANGED <<cfg, nreq, k, hop, curds, carrier, mode, hdrs, target, err, nextcid, nconn, bad, script>>

Done == pc = "idle" /\ k = nreq

Next == \/ StartRequest \/ MgrUrlopen \/ PoolUrlopen \/ GetConn \/ Prepare \/ Dial \/ TlsToProxy
        \/ TlsDirectAtPlainProxy \/ SendConnect \/ (\E r \in Replies : ConnectReply(r)) \/ TlsToOrigin
        \/ SendRequest \/ (\E b \in BOOLEAN, rd \in {"none"} \cup RedirCodes : Response(b, rd))
        \/ ManagerRedirect \/ OnError

Spec == Init /\ [][Next]_vars

-----------------------------------------------------------------------------
(* What TLC checks on the model (stage 1)                                                      *)

TypeOK == /\ pc \in {"idle", "mgr", "pool", "getconn", "prepare", "dial", "tlsproxy", "tlsdirect", "connect",
                     "creply", "tlsorigin", "send", "resp", "mredirect", "error"}
          /\ k \in 0..nreq /\ att \in 0..1 /\ bad \in 0..MaxBad /\ hop \in 0..MaxRedir
          /\ curds \in {"http", "https"} /\ carrier \subseteq {"rauth", "rtag", "accept", "pauth", "ptag"}
          /\ conn.st \in {"none", "fresh", "tcp", "tlsproxy", "connectsent", "tunnel", "tlsintunnel", "closed"}

\* The log only grows, by at most two events per step, and every Off_ predicate at position i only
\* reads log[1..i]: checking the last two positions in every reachable state checks every position.
Tail2(l) == {i \in Idx(l) : i >= Len(l) - 1}
HttpsOnlyViaTunnelUnlessOptedIn == \A i \in Tail2(log) : ~Off_HttpsOnlyViaTunnelUnlessOptedIn(cfg, log, i)
ConnectTargetExact              == \A i \in Tail2(log) : ~Off_ConnectTargetExact(cfg, log, i)
OriginNameVerifiedInsideTunnel  == \A i \in Tail2(log) : ~Off_OriginNameVerifiedInsideTunnel(cfg, log, i)
FormByRoute                     == \A i \in Tail2(log) : ~Off_FormByRoute(cfg, log, i)
ProxyHeadersOnlyToProxy         == \A i \in Tail2(log) : ~Off_ProxyHeadersOnlyToProxy(cfg, log, i)
NoRequestAfterRefusal           == \A i \in Tail2(log) : ~Off_NoRequestAfterRefusal(cfg, log, i)
RefusalRaises                   == \A i \in Tail2(log) : ~Off_RefusalRaises(cfg, log, i)
Retunnelled                     == \A i \in Tail2(log) : ~Off_Retunnelled(cfg, log, i)
\* ... and at the end of every behaviour the whole-log verdict (what the trace monitor computes) is "ok"
WholeLogVerdictOk == Done => Verdict(cfg, log) = <<0, "ok">>

\* the model's own idea of the connection state agrees with the state folded from the log
StateAgrees == conn.cid # 0 /\ conn.st \notin {"none", "fresh"} =>
                  LET s == CSeq(log)[Len(log)][conn.cid] IN
                  IF conn.st = "closed" THEN s \in {"closed", "refused"} ELSE s = conn.st

\* the code's routing table agrees with the property's wherever the property fixes the route
RouteTableAgrees == \A d \in {"http", "https"} : /\ MustTunnel(cfg, d) => TunnelRequiredCode(cfg, d)
                                                 /\ MustForward(cfg, d) => ~TunnelRequiredCode(cfg, d)

\* extras beyond the statement (soft on real traces): request headers never ride on a CONNECT,
\* and a request is delivered at most once per attempt of its budget
Bad_RequestHeadersOnConnect(c, l) ==
    {i \in Idx(l) : IsMsg(l[i]) /\ l[i].form = "CONNECT" /\ l[i].hdr \cap {"rauth", "rtag"} # {}}
Bad_DeliveredBeyondBudget(c, l) ==
    {i \in Idx(l) : IsRequestMsg(l[i]) /\
        Cardinality({j \in 1..i : IsRequestMsg(l[j]) /\ l[j].k = l[i].k}) > c.retries + 1}
RequestHeadersNotOnConnect == Bad_RequestHeadersOnConnect(cfg, log) = {}
DeliveredWithinBudget == Bad_DeliveredBeyondBudget(cfg, log) = {}
SoftVerdict(c, l) == IF Bad_RequestHeadersOnConnect(c, l) # {} THEN "RequestHeadersNotOnConnect"
                     ELSE IF Bad_DeliveredBeyondBudget(c, l) # {} THEN "DeliveredWithinBudget" ELSE "ok"

\* every finished scenario ends every request with exactly one outcome
OutcomePerRequest == Done => \A kk \in 1..nreq : Cardinality({i \in Idx(log) : log[i].ev = "end" /\ log[i].k = kk}) = 1
=============================================================================
