------------------------------- MODULE LRUConc -------------------------------
(* Concurrent model of urllib3's RecentlyUsedContainer (property C17): several threads call    *)
(* get / set / delete / clear / len / keys on one container.  Every method is modelled as the   *)
(* sequence of steps the code takes:                                                           *)
(*                                                                                             *)
(*   Start   the caller invokes the method                                                     *)
(*   Acq     `with self.lock:` is entered (only when no other thread owns the lock)            *)
(*   Step*   the statements inside the lock, one at a time, written in the shape of the code   *)
(*           (get: pop, then re-insert;  set: pop+insert, or insert and then popitem(last=False)*)
(*           when over maxsize;  delete: pop;  clear: copy the values, then wipe)               *)
(*   Rel     the lock is released                                                              *)
(*   Disp*   dispose_func(value), one call per evicted / replaced / deleted / cleared value,    *)
(*           AFTER the release, as separate steps                                              *)
(*   Ret     the method returns (or raises KeyError)                                           *)
(*                                                                                             *)
(* The operation "goc" is PoolManager.connection_from_pool_key: one (re-entrant) lock section   *)
(* around `pools.get(key)` and, on a miss, `pools[key] = new pool`.                             *)
(*                                                                                             *)
(* A ghost copy `ref` of the sequential reference (LRU.tla) takes the whole effect of the       *)
(* operation atomically at the linearization point (Acq).  TLC checks, over all interleavings,  *)
(* that the step-wise code is linearizable w.r.t. LRU!Apply (the concrete container equals the  *)
(* reference whenever the lock is free, every result equals the reference's result), that       *)
(* dispose never runs with the lock held, that every value leaving the container is disposed    *)
(* exactly once, that nothing is lost, and that nobody deadlocks.                              *)
(*                                                                                             *)
(* With BigStep = TRUE the statements inside the lock are folded into Acq (RunCrit); that is    *)
(* the granularity at which real executions are observed (lock events, dispose calls, call /    *)
(* return), used for emission of outcome sets and for trace validation (LRUConc_Trace).         *)
EXTENDS Naturals, Sequences, FiniteSets, TLC

CONSTANTS Keys, Values, MaxSizes,   \* as in LRU
          Threads,                  \* set of thread ids (positive integers)
          OpsPerThread,             \* each thread performs this many operations
          Alphabet,                 \* set of [op, k] records a thread may invoke
          InitConts,                \* set of initial container contents (sequences of entries)
          HasDispose,               \* TRUE: a dispose_func is installed
          BigStep,                  \* TRUE: Acq performs the whole critical section
          Deviations                \* named departures from the code (off = {}): see Unguarded

VARIABLES cont,      \* the concrete container (the code's OrderedDict), entries in recency order
          ref,       \* ghost: the sequential reference state (LRU.tla)
          maxsize,
          initc,     \* the initial content (constant along a behaviour; part of emitted outcomes)
          owner,     \* 0 or the thread owning the lock
          loc,       \* per thread: program counter and locals of the method being executed
          gres,      \* ghost, per thread: the reference's result record for the current operation
          ins,       \* ghost: values that entered the container (initial ones and linearized sets)
          dset,      \* ghost: values passed to dispose_func so far
          dup,       \* ghost: some value was disposed twice
          gen,       \* ghost, per key: how many times the key has left the container
          done       \* per thread: completed operations with their results

vars == <<cont, ref, maxsize, initc, owner, loc, gres, ins, dset, dup, gen, done>>

NoLast == [op |-> "init"]
L == INSTANCE LRU WITH order <- ref, last <- NoLast

NONE == L!NONE
KEYERROR == L!KEYERROR
NullEntry == L!Entry(NONE, 0)
NullRes == L!R(<<>>, NONE, {}, <<>>)

\* Deviation "ClearWithoutLock": clear() is not guarded by the lock; it rebinds the mapping in one
\* atomic statement instead of wiping it under the lock.  Its ghost linearization point is that
\* statement (the most favourable choice), and still a whole clear() can land between the pop and
\* the re-insert of a getter: the popped value is never disposed and survives a clear() that has
\* returned.  Stage 1 requires TLC to refute the deviation with Linearizable and with ExactlyOnce.
Unguarded(op) == op = "clear" /\ "ClearWithoutLock" \in Deviations

CritPcs == {"g1", "g2", "s1", "s2", "s3", "s4", "d1", "l1", "k1", "c1", "c2"}
Idle == [pc |-> "idle", op |-> NONE, k |-> NONE, v |-> 0, item |-> NullEntry, ev |-> <<>>, res |-> NONE, rk |-> {}, g |-> 0]

FirstPc(op) == CASE op \in {"get", "getd", "has", "goc"} -> "g1" [] op = "set" -> "s1" [] op = "del" -> "d1"
                 [] op = "len" -> "l1" [] op = "keys" -> "k1" [] op = "clear" -> "c1"

\* the value stored by the i-th operation of thread t (unique, so that "exactly once" is exact)
Val(t, i) == 10 * t + i

-----------------------------------------------------------------------------
(* One statement inside the lock, as a pure function of the container and the thread's locals. *)
(* Mirrors src/urllib3/_collections.py:93-153 statement by statement.                          *)
Created(l) == IF l.op = "goc" THEN ToString(l.v) ELSE l.res     \* get-or-create returns the new value
Micro(c, m, l) ==
    LET i == L!Idx(c, l.k) IN
    CASE l.pc = "g1" ->      \* item = self._container.pop(key)            (KeyError leaves the with-block)
           IF i = 0 THEN (IF l.op = "goc" THEN [cont |-> c, l |-> [l EXCEPT !.pc = "s1"]]   \* pool = None: create and set
                          ELSE [cont |-> c, l |-> [l EXCEPT !.pc = "rel", !.res = CASE l.op = "get" -> KEYERROR [] l.op = "has" -> "False" [] OTHER -> NONE]])
           ELSE [cont |-> L!RemoveIdx(c, i), l |-> [l EXCEPT !.pc = "g2", !.item = c[i]]]
      [] l.pc = "g2" ->      \* self._container[key] = item ; return item
           [cont |-> Append(c, l.item), l |-> [l EXCEPT !.pc = "rel", !.res = IF l.op = "has" THEN "True" ELSE ToString(l.item.v)]]
      [] l.pc = "s1" ->      \* try: evicted_item = key, self._container.pop(key)
           IF i # 0 THEN [cont |-> L!RemoveIdx(c, i), l |-> [l EXCEPT !.pc = "s2", !.ev = <<c[i].v>>]]
           ELSE [cont |-> c, l |-> [l EXCEPT !.pc = "s3"]]
      [] l.pc = "s2" ->      \* self._container[key] = value               (key existed)
           [cont |-> Append(c, L!Entry(l.k, l.v)), l |-> [l EXCEPT !.pc = "rel", !.res = Created(l)]]
      [] l.pc = "s3" ->      \* except KeyError: self._container[key] = value ; if len > maxsize
           LET c2 == Append(c, L!Entry(l.k, l.v)) IN
           [cont |-> c2, l |-> [l EXCEPT !.pc = IF Len(c2) > m THEN "s4" ELSE "rel", !.res = Created(l)]]
      [] l.pc = "s4" ->      \* evicted_item = self._container.popitem(last=False)
           [cont |-> Tail(c), l |-> [l EXCEPT !.pc = "rel", !.ev = <<Head(c).v>>]]
      [] l.pc = "d1" ->      \* value = self._container.pop(key)
           IF i = 0 THEN [cont |-> c, l |-> [l EXCEPT !.pc = "rel", !.res = KEYERROR]]
           ELSE [cont |-> L!RemoveIdx(c, i), l |-> [l EXCEPT !.pc = "rel", !.ev = <<c[i].v>>]]
      [] l.pc = "l1" ->      \* return len(self._container)
           [cont |-> c, l |-> [l EXCEPT !.pc = "rel", !.res = ToString(Len(c))]]
      [] l.pc = "k1" ->      \* return set(self._container.keys())
           [cont |-> c, l |-> [l EXCEPT !.pc = "rel", !.res = "<keys>", !.rk = L!KeySet(c)]]
      [] l.pc = "c1" ->      \* values = list(self._container.values())
           IF Unguarded(l.op)   \* deviation: detached, self._container = self._container, OrderedDict()
           THEN [cont |-> <<>>, l |-> [l EXCEPT !.pc = "rel", !.ev = L!ValSeq(c)]]
           ELSE [cont |-> c, l |-> [l EXCEPT !.pc = "c2", !.ev = L!ValSeq(c)]]
      [] l.pc = "c2" ->      \* self._container.clear()
           [cont |-> <<>>, l |-> [l EXCEPT !.pc = "rel"]]

RECURSIVE RunCrit(_, _, _)
RunCrit(c, m, l) == IF l.pc = "rel" THEN [cont |-> c, l |-> l]
                    ELSE LET x == Micro(c, m, l) IN RunCrit(x.cont, m, x.l)

OpOf(l) == L!E(l.op, l.k, l.v)

-----------------------------------------------------------------------------
(* Guards (also used by the trace monitor to name the failing clause) and actions              *)

CanStart(t) == loc[t].pc = "idle"
CanAcq(t) == loc[t].pc = "acq" /\ owner = 0
CanRel(t) == loc[t].pc = "rel" /\ (owner = t \/ Unguarded(loc[t].op))
CanDisp(t, x) == loc[t].pc = "disp" /\ \E i \in 1..Len(loc[t].ev) : loc[t].ev[i] = x
CanRet(t) == loc[t].pc = "ret"

StartOp(t, op, k, v) ==
    /\ CanStart(t)
    /\ loc' = [loc EXCEPT ![t] = [Idle EXCEPT !.pc = "acq", !.op = op, !.k = k, !.v = v]]
    /\ UNCHANGED <<cont, ref, maxsize, initc, owner, gres, ins, dset, dup, gen, done>>

\* entering the lock with locals l0 (pc = "acq"): the ghost reference takes the whole effect here
GenAfter(r) == [k \in Keys |-> IF L!Has(ref, k) /\ (~L!Has(r.order, k) \/ r.order[L!Idx(r.order, k)].v # ref[L!Idx(ref, k)].v)
                                THEN gen[k] + 1 ELSE gen[k]]
AcqBody(t, l0) ==
    LET r == IF Unguarded(l0.op) THEN [gres[t] EXCEPT !.order = ref]       \* not yet: see Step
             ELSE L!Apply(ref, maxsize, OpOf(l0))            \* linearization point (ghost)
        gen2 == GenAfter(r)
        l1 == [l0 EXCEPT !.g = IF l0.k \in Keys THEN gen2[l0.k] ELSE 0] IN
    /\ IF Unguarded(l0.op) THEN UNCHANGED owner ELSE (owner = 0 /\ owner' = t)
    /\ ref' = r.order
    /\ gres' = [gres EXCEPT ![t] = r]
    /\ gen' = gen2
    /\ ins' = IF l0.op = "set" \/ (l0.op = "goc" /\ ~L!Has(ref, l0.k)) THEN ins \cup {l0.v} ELSE ins
    /\ IF BigStep
       THEN LET x == RunCrit(cont, maxsize, [l1 EXCEPT !.pc = FirstPc(l1.op)]) IN
            cont' = x.cont /\ loc' = [loc EXCEPT ![t] = x.l]
       ELSE cont' = cont /\ loc' = [loc EXCEPT ![t] = [l1 EXCEPT !.pc = FirstPc(l1.op)]]
    /\ UNCHANGED <<maxsize, initc, dset, dup, done>>

Acq(t) == CanAcq(t) /\ AcqBody(t, loc[t])

Step(t) ==
    /\ loc[t].pc \in CritPcs /\ (owner = t \/ Unguarded(loc[t].op))
    /\ LET x == Micro(cont, maxsize, loc[t]) IN cont' = x.cont /\ loc' = [loc EXCEPT ![t] = x.l]
    /\ IF Unguarded(loc[t].op)        \* the unguarded clear takes its ghost effect at its one statement
       THEN LET r == L!Apply(ref, maxsize, OpOf(loc[t])) IN
            ref' = r.order /\ gres' = [gres EXCEPT ![t] = r] /\ gen' = GenAfter(r)
       ELSE UNCHANGED <<ref, gres, gen>>
    /\ UNCHANGED <<maxsize, initc, owner, ins, dset, dup, done>>

Rel(t) ==
    /\ CanRel(t)
    /\ owner' = IF Unguarded(loc[t].op) THEN owner ELSE 0
    /\ loc' = [loc EXCEPT ![t].pc = IF HasDispose /\ loc[t].ev # <<>> THEN "disp" ELSE "ret",
                          ![t].ev = IF HasDispose THEN @ ELSE <<>>]
    /\ UNCHANGED <<cont, ref, maxsize, initc, gres, ins, dset, dup, gen, done>>

RemoveFirst(s, x) == LET i == CHOOSE j \in 1..Len(s) : s[j] = x /\ \A h \in 1..(j - 1) : s[h] # x IN L!RemoveIdx(s, i)

DispV(t, x) ==
    /\ CanDisp(t, x)
    /\ dset' = dset \cup {x}
    /\ dup' = (dup \/ x \in dset)
    /\ LET rest == RemoveFirst(loc[t].ev, x) IN
       loc' = [loc EXCEPT ![t].ev = rest, ![t].pc = IF rest = <<>> THEN "ret" ELSE "disp"]
    /\ UNCHANGED <<cont, ref, maxsize, initc, owner, gres, ins, gen, done>>

Ret(t) ==
    /\ CanRet(t)
    /\ done' = [done EXCEPT ![t] = Append(@, [op |-> loc[t].op, k |-> loc[t].k, v |-> loc[t].v,
                                             res |-> loc[t].res, rk |-> loc[t].rk, g |-> loc[t].g])]
    /\ loc' = [loc EXCEPT ![t] = Idle]
    /\ UNCHANGED <<cont, ref, maxsize, initc, owner, gres, ins, dset, dup, gen>>

AllDone == \A t \in Threads : loc[t].pc = "idle" /\ Len(done[t]) = OpsPerThread

\* In the exhaustive model the invocation is merged with the acquisition: an invocation touches
\* nothing shared, so no interleaving of shared steps is lost (the trace monitor keeps them apart).
Start(t) == /\ CanStart(t) /\ Len(done[t]) < OpsPerThread
            /\ \E a \in Alphabet :
                 AcqBody(t, [Idle EXCEPT !.pc = "acq", !.op = a.op, !.k = a.k,
                                         !.v = IF a.op \in {"set", "goc"} THEN Val(t, Len(done[t]) + 1) ELSE 0])
Disp(t) == loc[t].pc = "disp" /\ DispV(t, Head(loc[t].ev))      \* the code disposes in list order
Finished == AllDone /\ UNCHANGED vars

Init == /\ initc \in InitConts
        /\ cont = initc /\ ref = initc
        /\ maxsize \in {m \in MaxSizes : Len(initc) <= m}
        /\ owner = 0
        /\ loc = [t \in Threads |-> Idle]
        /\ gres = [t \in Threads |-> NullRes]
        /\ ins = {initc[i].v : i \in 1..Len(initc)}
        /\ dset = {} /\ dup = FALSE
        /\ gen = [k \in Keys |-> 0]
        /\ done = [t \in Threads |-> <<>>]

\* (StartOp / Acq as separate steps are used by the trace monitor only, see LRUConc_Trace)
Next == \/ \E t \in Threads : Start(t) \/ Step(t) \/ Rel(t) \/ Disp(t) \/ Ret(t)
        \/ Finished
Spec == Init /\ [][Next]_vars
FairSpec == Spec /\ WF_vars(\E t \in Threads : Start(t) \/ Step(t) \/ Rel(t) \/ Disp(t) \/ Ret(t))

-----------------------------------------------------------------------------
(* Properties checked by TLC over all interleavings (stage 1)                                  *)

InLock(t) == loc[t].pc \in CritPcs \cup {"rel"}

\* the statements between acquire and release run only while the thread owns the lock,
\* and at most one thread is in there
MutualExclusion == /\ \A t \in Threads : InLock(t) => owner = t
                   /\ owner # 0 => InLock(owner)
                   /\ \A t, u \in Threads : (InLock(t) /\ InLock(u)) => t = u

\* every change of the container is made by the lock owner (effect inside the lock section)
EffectInsideLock == [][cont' # cont => (owner' # 0 /\ loc'[owner'].pc \in CritPcs \cup {"rel"}
                                         /\ (owner = 0 \/ owner = owner'))]_vars

\* linearizability w.r.t. LRU!Apply with the lock section as linearization point:
\* whenever the lock is free the code's container equals the reference, and when a thread
\* leaves its lock section its result and its to-be-disposed values are the reference's
Linearizable == /\ owner = 0 => cont = ref
                /\ \A t \in Threads : loc[t].pc = "rel" =>
                       /\ cont = ref
                       /\ loc[t].res = gres[t].res /\ loc[t].rk = gres[t].rk
                       /\ L!SameBag(loc[t].ev, gres[t].disp)
                /\ \A t \in Threads : loc[t].pc \in {"disp", "ret"} =>
                       loc[t].res = gres[t].res /\ loc[t].rk = gres[t].rk

\* bounded and duplicate-free whenever another thread could look
Bounded == owner = 0 => L!WellFormed(cont, maxsize)

\* the dispose callback never runs while the calling thread holds the lock
DisposeOutsideLock == \A t \in Threads : loc[t].pc = "disp" => owner # t

\* exactly-once disposal: every value that ever entered the container is in exactly one place:
\* still in the container, waiting for its dispose call in exactly one thread, or disposed once
PendSeq(t) == IF InLock(t) THEN (IF HasDispose THEN gres[t].disp ELSE <<>>)
              ELSE IF loc[t].pc = "disp" THEN loc[t].ev ELSE <<>>
PendSet(t) == {PendSeq(t)[i] : i \in 1..Len(PendSeq(t))}
InCont == {ref[i].v : i \in 1..Len(ref)}
Pending == UNION {PendSet(t) : t \in Threads}
ExactlyOnce == /\ ~dup
               /\ \A t \in Threads : Cardinality(PendSet(t)) = Len(PendSeq(t))
               /\ \A t, u \in Threads : t # u => PendSet(t) \cap PendSet(u) = {}
               /\ InCont \cap Pending = {} /\ InCont \cap dset = {} /\ Pending \cap dset = {}
               /\ HasDispose => InCont \cup Pending \cup dset = ins

\* at quiescence nothing is lost: the container is the reference and every value that left it
\* has been disposed
NoLostUpdate == AllDone => /\ cont = ref /\ owner = 0
                           /\ HasDispose => dset = ins \ InCont

\* same key => same pool, also when racing: two get-or-create operations on the same key return
\* the same value unless that key left the cache between their linearization points (gen counts
\* how often each key has left the cache; every operation remembers gen[k] at its own point)
GocRecs == UNION {{[k |-> done[t][i].k, g |-> done[t][i].g, res |-> done[t][i].res] :
                     i \in {j \in 1..Len(done[t]) : done[t][j].op = "goc"}} : t \in Threads}
           \cup {[k |-> loc[t].k, g |-> loc[t].g, res |-> loc[t].res] :
                     t \in {u \in Threads : loc[u].op = "goc" /\ loc[u].pc \in {"rel", "disp", "ret"}}}
SamePool == /\ \A x, y \in GocRecs : (x.k = y.k /\ x.g = y.g) => x.res = y.res
            /\ \A t \in Threads : (loc[t].op = "goc" /\ loc[t].pc = "rel") =>
                   L!Has(cont, loc[t].k) \/ maxsize = 0

Termination == <>AllDone
=============================================================================
