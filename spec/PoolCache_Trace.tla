--------------------------- MODULE PoolCache_Trace ---------------------------
(* Batch trace validation for C17 (manager clauses): every trace is a history recorded from a   *)
(* REAL urllib3.PoolManager driven over the in-memory network by one thread.                    *)
(*                                                                                             *)
(* trace = [np |-> num_pools, ev |-> <<event, ...>>];  an event has the shape of the history      *)
(* records that PoolCache.tla emits (operator H), with OBSERVED values:                          *)
(*   op      "req" pm.request(url of key k, preload_content = (mode = "read")) -> response ref    *)
(*           "goc" pm.connection_from_url(url of key k) -> handle ref                             *)
(*           "hsend" a request made directly on the kept handle h -> response ref                 *)
(*           "fin" read response ref to the end   "dropr" / "droph" drop response / handle ref     *)
(*           "clear" pm.clear()    "gc" gc.collect() followed by an observation                    *)
(*   p, s    identity of the pool object returned / used and of the socket the request went over  *)
(*   ok      the call returned normally with the complete, correct body                           *)
(*   cached, n   keys and len() of pm.pools afterwards                                            *)
(*   open    (gc only) sockets whose PEER has not seen EOF - ground truth, not urllib3's opinion    *)
(*   live    (gc only) pools whose object is still alive (weak references held by the harness)     *)
(*                                                                                             *)
(* The monitor is total.  Its abstract state is PoolCache's own variables, updated from the        *)
(* logged fields with PoolCache's helper operators (ReleaseSock, GcEffect, Bump, ...); the verdict  *)
(* comes from PoolCache's Rules evaluated on that state (StateClause) and from the per-event        *)
(* clauses (EvClause).  It prints <<"VERDICT", tid, position, clause>> per trace ("ok" or the        *)
(* failing clause) and <<"DRIFT", tid, position, what>> where the observation satisfies the rules    *)
(* but differs from what the Model layer predicts.                                               *)
EXTENDS PoolCache, Json, IOUtils, TLCExt

Traces == JsonDeserialize(IOEnv.TRACE_FILE)

TrOrigins == {"a", "b", "c", "d"}
TrNumPools == 0..4
TrThreads == {1}
TrModes == {"keep", "read"}
TrDev == {}

VARIABLES tid, l,
          dirty     \* pools that served / released / lost a response since the last observation
tvars == <<cache, np, owner, th, pool, sock, resp, hand, gen, got, nops, hist, tid, l, dirty>>

SeqToSet(s) == {s[i] : i \in 1..Len(s)}

Fresh == /\ cache = <<>> /\ owner = 0
         /\ th = [t \in Threads |-> IdleTh]
         /\ pool = [p \in Ids |-> NoPool] /\ sock = [s \in Ids |-> NoSock] /\ resp = [r \in Ids |-> NoResp]
         /\ hand = [h \in Ids |-> 0]
         /\ gen = [k \in Origins |-> 0] /\ got = {} /\ nops = 0 /\ hist = <<>>

TInit == Fresh /\ tid = 1 /\ l = 1 /\ dirty = {} /\ np = IF Len(Traces) > 0 THEN Traces[1].np ELSE 0

NextTrace == /\ tid' = tid + 1 /\ l' = 1 /\ dirty' = {}
             /\ np' = IF tid + 1 <= Len(Traces) THEN Traces[tid + 1].np ELSE 0
             /\ cache' = <<>> /\ owner' = 0
             /\ th' = [t \in Threads |-> IdleTh]
             /\ pool' = [p \in Ids |-> NoPool] /\ sock' = [s \in Ids |-> NoSock] /\ resp' = [r \in Ids |-> NoResp]
             /\ hand' = [h \in Ids |-> 0]
             /\ gen' = [k \in Origins |-> 0] /\ got' = {} /\ nops' = 0 /\ hist' = <<>>

\* PoolCache's Rules on the monitor's state
StateClause ==
    IF ~AtMostNumPools THEN "AtMostNumPools"
    ELSE IF ~SameKeySamePool THEN "SameKeySamePool"
    ELSE IF ~InFlightResponseFinishes THEN "InFlightResponseFinishes"
    ELSE IF ~CachedPoolNeverClosed THEN "CachedPoolNeverClosed"
    ELSE IF ~EvictedPoolSocketsClosedWhenUnused THEN "EvictedPoolSocketsClosedWhenUnused"
    ELSE "ok"

GocRef(e) == L!Apply(cache, np, L!E("goc", e.k, e.p))
IsGoc(e) == e.op \in {"goc", "req"}
IsSend(e) == e.op \in {"req", "hsend"}

\* clauses that need the event together with the state before it
EvClause(e) ==
    IF IsGoc(e) THEN
        LET r == GocRef(e) IN
        IF L!Has(cache, e.k) /\ cache[L!Idx(cache, e.k)].v # e.p THEN "SameKeySamePool"
        ELSE IF ~L!Has(cache, e.k) /\ pool[e.p].st # "none" THEN "SameKeySamePool"
        ELSE IF e.n > np THEN "AtMostNumPools"
        ELSE IF SeqToSet(e.cached) # L!KeySet(r.order) \/ e.n # Len(r.order) THEN "LRUEvicted"
        ELSE IF e.op = "req" /\ ~e.ok THEN "InFlightResponseFinishes"
        ELSE "ok"
    ELSE IF e.op = "hsend" THEN (IF ~e.ok /\ IsCached(cache, e.p) THEN "CachedPoolNeverClosed" ELSE "ok")
    ELSE IF e.op = "fin" THEN (IF ~e.ok THEN "InFlightResponseFinishes" ELSE "ok")
    ELSE IF e.op = "clear" THEN (IF e.n # 0 \/ e.cached # <<>> THEN "ClearEmptiesCache" ELSE "ok")
    ELSE IF e.op = "gc" THEN
        LET seen == SeqToSet(e.open)
            gone == Garbage(cache, pool, resp, hand, th) IN
        IF \E r \in Ids : resp[r].st = "inflight" /\ resp[r].s \notin seen THEN "InFlightResponseFinishes"
        ELSE IF \E s \in Ids : /\ sock[s].role # "none" /\ sock[s].open /\ s \notin seen
                                /\ IsCached(cache, sock[s].p) /\ sock[s].p \notin dirty THEN "CachedPoolNeverClosed"
        ELSE IF \E s \in Ids : sock[s].role # "none" /\ sock[s].p \in gone /\ s \in seen
             THEN "EvictedPoolSocketsClosedWhenUnused"
        ELSE "ok"
    ELSE "ok"

\* the state after the event, from the logged fields
CacheAfter(e) == IF IsGoc(e) THEN GocRef(e).order ELSE IF e.op = "clear" THEN <<>> ELSE cache
PoolAfterGoc(e) == IF IsGoc(e) /\ pool[e.p].st = "none"
                   THEN [pool EXCEPT ![e.p] = [k |-> e.k, st |-> "live", closed |-> FALSE]] ELSE pool
\* the socket the request went over is a logged fact; what happens to the queue follows the model
SockAfterSend(e, pl) ==
    IF ~e.ok THEN sock
    ELSE LET co == Checkout(sock, e.p, e.s)
             sk1 == [co.sock EXCEPT ![e.s] = [p |-> e.p, role |-> "leased", open |-> TRUE]] IN
         IF e.mode = "read" THEN ReleaseSock(sk1, pl, e.s) ELSE sk1
RespAfterSend(e) ==
    [resp EXCEPT ![e.ref] = [p |-> e.p, s |-> IF e.ok THEN e.s ELSE 0,
                             st |-> IF ~e.ok THEN "failed" ELSE IF e.mode = "read" THEN "done" ELSE "inflight"]]

Soft(e) ==
    IF e.op = "gc" THEN
        LET x == GcEffect(cache, pool, sock, resp, hand, th) IN
        IF OpenSet(x.sock) # SeqToSet(e.open) THEN "OpenSockets"
        ELSE IF LiveSet(x.pool) # SeqToSet(e.live) THEN "LivePools" ELSE "ok"
    ELSE IF e.op = "hsend" /\ ~e.ok THEN "HandleRequestOnEvictedPool"
    ELSE IF IsSend(e) /\ e.ok /\ Checkout(sock, e.p, e.s).s # e.s THEN "SocketChoice"
    ELSE "ok"

Step(e) ==
    LET c2 == CacheAfter(e)
        pl2 == PoolAfterGoc(e)
        g2 == Bump(gen, cache, c2) IN
    /\ cache' = c2
    /\ gen' = g2
    /\ got' = IF IsGoc(e) THEN got \cup {[k |-> e.k, g |-> g2[e.k], p |-> e.p]} ELSE got
    /\ hand' = IF e.op = "goc" THEN [hand EXCEPT ![e.ref] = e.p]
               ELSE IF e.op = "droph" THEN [hand EXCEPT ![e.ref] = 0] ELSE hand
    /\ resp' = IF IsSend(e) THEN RespAfterSend(e)
               ELSE IF e.op = "fin" THEN [resp EXCEPT ![e.ref].st = "done"]
               ELSE IF e.op = "dropr" THEN [resp EXCEPT ![e.ref].st = "dropped"] ELSE resp
    /\ IF e.op = "gc"
       THEN /\ pool' = GcEffect(cache, pool, sock, resp, hand, th).pool
            /\ sock' = [s \in Ids |-> IF sock[s].role = "none" THEN sock[s]
                                      ELSE [sock[s] EXCEPT !.open = (s \in SeqToSet(e.open))]]
       ELSE /\ pool' = pl2
            /\ sock' = IF IsSend(e) THEN SockAfterSend(e, pl2)
                       ELSE IF e.op = "fin" /\ resp[e.ref].st = "inflight" THEN ReleaseSock(sock, pool, resp[e.ref].s)
                       ELSE IF e.op = "dropr" /\ resp[e.ref].st = "inflight"
                            THEN ReleaseSock([sock EXCEPT ![resp[e.ref].s].open = FALSE], pool, resp[e.ref].s)
                       ELSE sock
    /\ dirty' = IF e.op = "gc" THEN {}
                ELSE IF IsSend(e) THEN dirty \cup {e.p}
                ELSE IF e.op \in {"fin", "dropr"} THEN dirty \cup {resp[e.ref].p}
                ELSE dirty
    /\ UNCHANGED <<np, owner, th, nops, hist>>

TNext ==
    /\ tid <= Len(Traces)
    /\ LET T == Traces[tid]
           sc == StateClause IN
       IF sc # "ok" THEN PrintT(<<"VERDICT", tid, l - 1, sc>>) /\ NextTrace
       ELSE IF l > Len(T.ev) THEN PrintT(<<"VERDICT", tid, l, "ok">>) /\ NextTrace
       ELSE LET e == T.ev[l]
                c == EvClause(e) IN
            IF c # "ok" THEN PrintT(<<"VERDICT", tid, l, c>>) /\ NextTrace
            ELSE /\ (Soft(e) # "ok" => PrintT(<<"DRIFT", tid, l, Soft(e)>>))
                 /\ Step(e) /\ l' = l + 1 /\ tid' = tid

TSpec == TInit /\ [][TNext]_tvars
=============================================================================
