---------------------------- MODULE ExchangeRules ----------------------------
(* C03 -- the RULES layer: the property itself as pure operators over observable facts         *)
(* (tagged units delivered, what the peer wrote, the server script, the caller's op, ground     *)
(* truth about the connection when the answered request arrived).  No variables: the module is   *)
(* EXTENDed by the implementation-shaped Model (Exchange.tla: invariants OnlyOwnBytes,           *)
(* UncleanNeverReused, OnlyUrllib3Errors are these operators applied to the Model's state) and   *)
(* by the trace monitor (Exchange_Trace.tla: the same operators applied to recorded events).     *)
EXTENDS Naturals, Sequences, FiniteSets, TLC

NoCut == 9
ALL == 99
Min(a, b) == IF a < b THEN a ELSE b
U(t, k, r, s, n, i) == [t |-> t, k |-> k, r |-> r, s |-> s, n |-> n, i |-> i]
NoUnit == U("none", "none", 0, 0, 0, 0)

(* =========================================================================================== *)
(* RULES                                                                                        *)
(* =========================================================================================== *)

\* the head delivered for request rid is the head of a reply the peer wrote for rid
OwnHead(rid, tag) == tag.t = "r" /\ tag.k = "head" /\ tag.r = rid

\* the delivered body is a prefix of exactly the body cells the peer wrote for that reply
OwnBody(rid, tag, deliv, sentn) ==
    /\ Len(deliv) <= sentn
    /\ \A j \in 1..Len(deliv) : deliv[j] = U("r", "cell", rid, tag.s, tag.n, j - 1)

\* body units a script makes the peer write for one reply
BodyLen(sc) == sc.len
SentFor(sc) == IF sc.fr \in {"drop", "bodyless"} THEN 0
               ELSE IF sc.cut # NoCut THEN sc.cut
               ELSE IF sc.shape = "http" THEN sc.len - 1 ELSE sc.len

\* does the caller's op pull the whole framed body (incl. the chunked terminator) off the response?
ConsumesAll(sc, op) ==
    \/ op.kind \in {"preload", "read", "stream", "drain", "read1loop"}
    \/ sc.fr = "bodyless"
    \/ op.kind = "readk" /\ sc.fr = "cl" /\ op.k >= sc.len
    \/ op.kind = "readk" /\ sc.fr = "chunked" /\ op.k > sc.len

\* Monitor bookkeeping, from the SCRIPT and the CALLER OP only (never from urllib3 state):
\* TRUE  = the exchange ended cleanly: self-delimited framing, keep-alive, complete, no error, and
\*         every byte the peer wrote (or will write) for it is off the wire.  (Bytes that the client
\*         pulled into the previous response's reader and threw away are off the wire: the stream is
\*         in sync -- latitude, see c03.py.)  A clean connection MAY be reused or not (either).
\* FALSE = must never yield a later response.
CleanAfter(sc, op, res, seg) ==
    /\ res = "ok"
    /\ sc.fr \in {"cl", "chunked", "bodyless"}
    /\ sc.ka /\ sc.cut = NoCut /\ sc.late = 0
    /\ op.kind \notin {"close", "ignore"}
    /\ (seg = "slurp" \/ (ConsumesAll(sc, op) /\ sc.extra = "none"))

\* y = [first, prevclean, kpend]: facts about the connection at the moment the request that was
\* answered arrived at the peer (first request on that socket / bookkeeping / bytes written earlier
\* by the peer that the client had not taken out of the kernel: ground truth of the harness)
ReuseOK(y) == y.first \/ (y.prevclean /\ ~y.kpend)

\* att = the arrivals of this request's attempts at the peers, in order: [s, n, kpend, prevclean];
\* tag = the head that was delivered.  Which arrival was answered, and what was the connection like?
\* A head that answers no arrival of this request comes from a connection that must not have yielded.
YieldFacts(att, tag) ==
    IF \E j \in 1..Len(att) : att[j].s = tag.s /\ att[j].n = tag.n
    THEN LET j == CHOOSE j \in 1..Len(att) : att[j].s = tag.s /\ att[j].n = tag.n IN
         [first |-> att[j].n = 1, prevclean |-> att[j].prevclean, kpend |-> att[j].kpend]
    ELSE [first |-> FALSE, prevclean |-> FALSE, kpend |-> TRUE]

Urllib3Only(o) == o \in {"none", "ok", "response", "urllib3"}

=============================================================================
