------------------------------ MODULE Proxy_Trace ------------------------------
(* Batch trace validation for C09.  Every trace is what the recording proxy party and the      *)
(* driver wrote down while the real urllib3 served one scenario: the configuration and the     *)
(* event log (dial / tls / msg / reply / redir / pclose / start / end).  The monitor is total: it      *)
(* evaluates every Rules clause of Proxy.tla on the whole log and prints, per trace, the        *)
(* earliest offending position and the name of the clause (or "ok"), plus the verdict of the    *)
(* soft extras, and moves on.                                                                   *)
EXTENDS Proxy, Json, IOUtils

Traces == JsonDeserialize(IOEnv.TRACE_FILE)

ToSet(s) == {s[i] : i \in DOMAIN s}
NormEv(e) == [e EXCEPT !.hdr = ToSet(e.hdr)]
NormLog(t) == [i \in 1..Len(t.events) |-> NormEv(t.events[i])]
NormCfg(c) == [c EXCEPT !.ph = ToSet(c.ph), !.rh = ToSet(c.rh)]

PH_Trace == {{}}

VARIABLE tid
tvars == <<vars, tid>>

TInit == /\ tid = 1
         /\ cfg = "-" /\ nreq = 0 /\ log = <<>> /\ pc = "trace" /\ k = 0 /\ att = 0 /\ hop = 0 /\ curds = "-"
         /\ carrier = {} /\ slot = "-" /\ conn = NoConn /\ mode = "-" /\ hdrs = {} /\ target = "" /\ err = <<>>
         /\ nextcid = 1 /\ nconn = "-" /\ bad = 0 /\ script = "-"

TNext == /\ tid <= Len(Traces)
         /\ LET c == NormCfg(Traces[tid].cfg)
                l == NormLog(Traces[tid])
                v == Verdict(c, l) IN
            /\ PrintT(<<"VERDICT", tid, v[1], v[2]>>)
            /\ PrintT(<<"SOFT", tid, SoftVerdict(c, l)>>)
         /\ tid' = tid + 1
         /\ UNCHANGED vars

TSpec == TInit /\ [][TNext]_tvars
=============================================================================
