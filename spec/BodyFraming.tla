----------------------------- MODULE BodyFraming -----------------------------
(* Request bodies are framed exactly and re-sent identically (property C11).                     *)
(*                                                                                              *)
(* Two layers over the request serialisation of Wire.tla (section 4 = the framing decision         *)
(* table, Serialize, and the paranoid parser Parse):                                              *)
(*                                                                                              *)
(*   MODEL   the re-send state machine of HTTPConnectionPool.urlopen / PoolManager.urlopen, one    *)
(*           operator per real step: Enter (set_file_position / rewind_body at the top of           *)
(*           urlopen), Send (body_to_chunks + HTTPConnection.request: what the body yields NOW,     *)
(*           serialised by Wire!Serialize and read back by Wire!ParseOne, i.e. the peer),           *)
(*           SendBreaks (the same, but the connection fails at the first body write), Reply (the    *)
(*           scripted outcome: ok, connection error, 503, 307/308, 303; retry and                   *)
(*           pool-level redirect keep the pool's body_pos; PoolManager.urlopen (ManagerEnter) records   *)
(*           the position once before its first attempt and hands it to the pool of every redirected    *)
(*           request - as an integer, where 0 is a legitimate value).                                   *)
(*           Named deviations, enabled by membership in the parameter D:                            *)
(*             "D3"  (recorded finding) a body that cannot be replayed (one-shot iterator, file-like    *)
(*                   object without tell()) gets no position marker, so a re-send silently sends what     *)
(*                   is left                                                                            *)
(*             "ZeroPosTreatedAsUnset"  (never in the code; TLC must refute it) the manager tests the      *)
(*                   truth value of the position instead of `is None`: a body that starts at offset 0       *)
(*                   is re-recorded at the redirected call (now at end of file), and the SECOND redirect     *)
(*                   in a row re-sends it empty                                                            *)
(*             "ChunkSizeCountsItems"  (recorded finding) with chunked framing the chunk-size line of a buffer      *)
(*                   object whose items are wider than a byte (or that has several dimensions) says len(chunk),    *)
(*                   i.e. ITEMS, while all its bytes follow: the chunked body is malformed                          *)
(*             "LengthCountsItems"  (never in the code; TLC must refute it) Content-Length of such a buffer is       *)
(*                   len() instead of nbytes: the framed payload is a prefix, the other bytes trail on the connection *)
(*             "ShortReadIsEOF"  (never in the code; TLC must refute it) chunk_readable stops after a block       *)
(*                   shorter than the blocksize instead of reading until read() returns an empty block: the         *)
(*                   framing stays valid, the body of a short-reading stream is silently truncated - and every        *)
(*                   re-send is truncated the same way, so only PayloadEqualsBody (against the body's bytes) shows it  *)
(*           With D = {} the model is the design (a marker _FAILEDTELL for unreplayable bodies).          *)
(*           (D4 - body_pos not carried across the manager-level redirect - was repaired in /repo by      *)
(*           b489f4f and its deviation action has been deleted from this model.)                          *)
(*   RULES   the property, over what the peer observed (one summary per attempt) and the outcome:        *)
(*           ExactlyOneFraming, PayloadEqualsBody, UnframedWhenBodyless, BodyIdentical (or the call      *)
(*           fails with UnrewindableBodyError).  Verdict(sc, atts) is total and names the clause.        *)
(*                                                                                              *)
(* The same operators serve the model checker (MC_BodyFraming: invariants over every state, scenario *)
(* emission) and the trace monitor (BodyFraming_Trace: Verdict on attempts recorded from the real      *)
(* code, Predict = the model run for the same scenario).                                              *)
EXTENDS Wire

\* Every MODEL operator takes D, the set of deviations that are enabled: the model checker fixes it per run,
\* the trace monitor asks which D describes a recorded run.
Z0 == "ZeroPosTreatedAsUnset"
SR == "ShortReadIsEOF"
LCI == "LengthCountsItems"
CSI == "ChunkSizeCountsItems"
Defects == {"D3", CSI, Z0, SR, LCI}

-----------------------------------------------------------------------------
(* Body kinds                                                                   *)

Kinds == {"none", "bytes", "str", "buffer", "file", "textfile", "notell", "badseek", "badtell",
          "list", "strlist", "gen", "widebuffer", "shortfile", "shorttextfile", "shortpipe", "shorttextpipe"}
\* file-like bodies (hasattr(body, "read")) come in two read disciplines:
\*   reads in full blocks   read(n) returns n units until the data runs out (BytesIO, regular files)
\*   may return short blocks  read(n) returns a NON-EMPTY block shorter than n while more data follows (raw pipes, unbuffered
\*                          streams, throttling / progress wrappers); only an EMPTY block means end of data
\* ShortReaders: "shortfile" / "shorttextfile" can tell and seek (a re-send must be identical), "shortpipe" / "shorttextpipe"
\* cannot (one-shot: the D3 class for re-sends); each read returns at most ShortRead(sc) units
ShortReaders == {"shortfile", "shorttextfile", "shortpipe", "shorttextpipe"}
FileLike == {"file", "textfile", "notell", "badseek", "badtell"} \cup ShortReaders
HasTell == {"file", "textfile", "badseek", "badtell", "shortfile", "shorttextfile"}
HasSeek == HasTell
OneShot == {"notell", "gen", "shortpipe", "shorttextpipe"}      \* reading consumes it and nothing can bring it back
Rewindable == {"file", "textfile", "shortfile", "shorttextfile"}  \* tell and seek work
Replayable == {"bytes", "str", "buffer", "widebuffer", "list", "strlist"}

\* scenario:  [kind, content : Seq(Symbol), start : Nat,     the underlying data; the body is content[start+1..]
\*             method : Seq(Symbol), chunked : BOOLEAN, caller : "none"|"cl"|"te",
\*             bs : Nat,                                        blocksize of the connection (file-like bodies are read bs units at a time)
\*             client : "pool"|"mgr", hist : Seq(outcome)]     outcome in Outcomes, the last one is "ok"
\*   "err"     the connection breaks after the whole request was written (no response)
\*   "errsend" the connection breaks while the body is being written: the second write of the attempt fails
\*             (the head is out, the body is partly consumed); without a second write it degenerates to "err"
Outcomes == {"ok", "err", "errsend", "503", "307", "308", "303"}
Resend == {"err", "errsend", "503", "307", "308"}       \* the request is sent again with its body
GETm == <<"G","E","T">>

BodyData(sc) == SubSeq(sc.content, sc.start + 1, Len(sc.content))
Enc(kind, s) == IF kind \in TextKinds THEN Utf8(s) ELSE s
\* the body's bytes (str as UTF-8): what every attempt that carries the body must deliver
Want(sc) == IF sc.kind = "none" THEN <<>> ELSE Enc(sc.kind, BodyData(sc))

\* re-iterable bodies are lists with empty chunks at the start and in the middle
ListChunks(d) == LET h == Len(d) \div 2 IN << <<>>, SubSeq(d, 1, h), <<>>, SubSeq(d, h + 1, Len(d)) >>
ShortRead(sc) == IF sc.bs > 1 THEN sc.bs - 1 ELSE 1       \* what one read of a short-reading stream returns at most
RECURSIVE Blocks(_, _)
Blocks(s, n) == IF s = <<>> THEN <<>> ELSE IF Len(s) <= n THEN <<s>> ELSE <<SubSeq(s, 1, n)>> \o Blocks(SubSeq(s, n + 1, Len(s)), n)

\* does attempt number j still carry the body?  (a 303 answered to an earlier attempt drops it)
CarriesBody(sc, j) == sc.kind # "none" /\ \A i \in 1..(j - 1) : i <= Len(sc.hist) => sc.hist[i] # "303"
MethodAt(sc, j) == IF \E i \in 1..(j - 1) : i <= Len(sc.hist) /\ sc.hist[i] = "303" THEN GETm ELSE sc.method

-----------------------------------------------------------------------------
(* What the peer observed of one attempt                                        *)
(*   [complete, ok, why, method, nfr, mode, declared, payload, clean]                               *)
(*   nfr = number of framing header lines (Content-Length + Transfer-Encoding), mode = the framing    *)
(*   that delimits the body, declared = the Content-Length value (0 when absent), clean = the          *)
(*   message ends exactly where the bytes of the attempt end                                          *)

FramingCount(lines) == Cardinality({i \in 1..Len(lines) : LowerSeq(NameOf(lines[i])) \in {CLKey, TEKey}})
HeaderNamed(lines, key) == {i \in 1..Len(lines) : LowerSeq(NameOf(lines[i])) = key}
\* head of a raw attempt even when ParseOne rejects the message (several framing headers ...)
HeadLinesOf(s) == LET ph == PhysLines(s, 1, <<>>) IN
                  IF ~ph.ok \/ ph.lines = <<>> THEN <<>>
                  ELSE LET lg == Unfold(ph.lines, <<>>) IN [i \in 1..(Len(lg) - 1) |-> lg[i + 1].txt]

\* summary of the raw symbols of one attempt, by the spec's own parser
Observe(s) ==
    LET m == ParseOne(s, 1)
        hl == HeadLinesOf(s)
        cl == HeaderNamed(hl, CLKey)
        te == HeaderNamed(hl, TEKey)
        clv == IF cl = {} THEN <<>> ELSE ValueOf(hl[CHOOSE i \in cl : TRUE])
    IN [complete |-> TRUE, ok |-> m.ok, why |-> m.why, method |-> m.method,
        nfr |-> FramingCount(hl),
        mode |-> IF te # {} /\ cl # {} THEN "both" ELSE IF te # {} THEN "chunked" ELSE IF cl # {} THEN "cl" ELSE "none",
        declared |-> IF clv # <<>> /\ AllIn(clv, Digit) /\ Len(clv) <= 6 THEN DecVal(clv) ELSE 0,
        payload |-> m.payload,
        clean |-> m.ok /\ m.next = Len(s) + 1]

-----------------------------------------------------------------------------
(* RULES: the property                                                          *)

\* one attempt; "ok" or the name of the failing clause
AttemptVerdict(sc, a, j) ==
    IF ~a.complete THEN "ok"                               \* the attempt died while sending: nothing to frame
    ELSE IF sc.caller # "none" THEN "ok"                   \* the caller took over the framing: not covered by the statement
    ELSE IF CarriesBody(sc, j) THEN
         IF a.nfr # 1 \/ a.mode \notin {"cl", "chunked"} THEN "ExactlyOneFraming"
         ELSE IF ~a.ok \/ ~a.clean \/ a.payload # Want(sc) THEN (IF j = 1 THEN "PayloadEqualsBody" ELSE "BodyIdentical")
         ELSE "ok"
    ELSE \* body-less (None, or dropped by a 303)
         IF a.nfr > 1 THEN "ExactlyOneFraming"
         ELSE IF ~a.ok \/ ~a.clean \/ a.payload # <<>> THEN "UnframedWhenBodyless"
         ELSE IF sc.chunked THEN "ok"                      \* chunking was requested: one framing header at most
         ELSE IF UpperSeq(MethodAt(sc, j)) \in NoBodyMethods THEN (IF a.nfr = 0 THEN "ok" ELSE "UnframedWhenBodyless")
         ELSE IF a.mode = "cl" /\ a.declared = 0 THEN "ok" ELSE "UnframedWhenBodyless"

\* the whole call: first failing attempt.  An UnrewindableBodyError outcome needs no further attempt.
RECURSIVE VerdictFrom(_, _, _)
VerdictFrom(sc, atts, j) ==
    IF j > Len(atts) THEN [at |-> 0, clause |-> "ok"]
    ELSE LET v == AttemptVerdict(sc, atts[j], j) IN
         IF v # "ok" THEN [at |-> j, clause |-> v] ELSE VerdictFrom(sc, atts, j + 1)
Verdict(sc, atts) == VerdictFrom(sc, atts, 1)

-----------------------------------------------------------------------------
(* MODEL: the re-send state machine, one operator per real step                 *)
(*   st = [pc, method, target, hasBody, cursor, used, bodyPos, kwPos, mgrPos, left, atts, wires, outcome] *)
(*   bodyPos = body_pos inside HTTPConnectionPool.urlopen; kwPos = kw["body_pos"] handed to the current     *)
(*   PoolManager.urlopen call; mgrPos = the local body_pos of that call                                     *)
(*   atts = what the peer observed per attempt, wires = the symbols written per attempt,                *)
(*   trail = the names of the actions taken so far (read back by the harness: an action nobody takes is vacuous) *)
(*   pc in {"menter", "enter", "send", "reply", "done"}; bodyPos = PosNone | PosFailed (_FAILEDTELL) | PosAt(n)  *)

PosNone == [k |-> "None", v |-> 0]
PosFailed == [k |-> "FAILEDTELL", v |-> 0]
PosAt(n) == [k |-> "int", v |-> n]

ReqOf(D, sc, st, chunks) ==
    [level |-> "pool", method |-> st.method, slash |-> TRUE, url |-> st.target,
     hdrs |-> CASE sc.caller = "none" -> <<>>
                [] sc.caller = "cl" -> << [n |-> CLDisp, v |-> DecDigits(Len(Want(sc))), skip |-> FALSE] >>
                [] sc.caller = "te" -> << [n |-> TEDisp, v |-> Chunked, skip |-> FALSE] >>,
     body |-> [kind |-> IF st.hasBody THEN sc.kind ELSE "none", chunks |-> chunks],
     chunked |-> sc.chunked, dev |-> D \cap {LCI, CSI}]

InitState(sc) == [pc |-> IF sc.client = "mgr" THEN "menter" ELSE "enter", kwPos |-> PosNone, mgrPos |-> PosNone, method |-> sc.method, target |-> <<"a">>, hasBody |-> sc.kind # "none",
                  cursor |-> sc.start, used |-> 0, bodyPos |-> PosNone, left |-> sc.hist,
                  atts |-> <<>>, wires |-> <<>>, trail |-> <<>>, outcome |-> "running"]

Fail(st, what) == [st EXCEPT !.pc = "done", !.outcome = what]

\* set_file_position(body, None): record only
RecordOnly(D, k, cursor) ==
    IF k \in HasTell THEN (IF k = "badtell" THEN PosFailed ELSE PosAt(cursor))
    ELSE IF k \in OneShot /\ "D3" \notin D THEN PosFailed
    ELSE PosNone
\* top of PoolManager.urlopen: keep the position handed down in kw, or record it (first call); the pool gets kw as is
ManagerUnset(D, st) == st.kwPos = PosNone \/ (Z0 \in D /\ st.kwPos = PosAt(0))
ManagerEnter(D, sc, st) ==
    LET k == IF st.hasBody THEN sc.kind ELSE "none" IN
    [st EXCEPT !.pc = "enter", !.bodyPos = st.kwPos,
               !.mgrPos = IF ManagerUnset(D, st) THEN RecordOnly(D, k, st.cursor) ELSE st.kwPos]

\* set_file_position(body, body_pos) at the top of every HTTPConnectionPool.urlopen call
Enter(D, sc, st) ==
    LET k == IF st.hasBody THEN sc.kind ELSE "none" IN
    IF st.bodyPos # PosNone
    THEN \* rewind_body
         IF k \in HasSeek /\ st.bodyPos # PosFailed
         THEN IF k = "badseek" THEN Fail(st, "UnrewindableBodyError")
              ELSE [st EXCEPT !.pc = "send", !.cursor = st.bodyPos.v]
         ELSE IF st.bodyPos = PosFailed THEN Fail(st, "UnrewindableBodyError")
         ELSE Fail(st, "ValueError")                        \* an integer position for a body that cannot seek
    ELSE IF k \in HasTell
         THEN [st EXCEPT !.pc = "send", !.bodyPos = IF k = "badtell" THEN PosFailed ELSE PosAt(st.cursor)]
    ELSE IF k \in OneShot /\ "D3" \notin D
         THEN [st EXCEPT !.pc = "send", !.bodyPos = PosFailed]       \* the design: mark what cannot be replayed
    ELSE [st EXCEPT !.pc = "send"]                                     \* D3: no marker; nothing to rewind

\* which branch of set_file_position / rewind_body is taken (the model checker has one named action per branch)
EnterCase(D, sc, st) ==
    LET k == IF st.hasBody THEN sc.kind ELSE "none" IN
    IF st.bodyPos # PosNone
    THEN (IF k \in HasSeek /\ st.bodyPos # PosFailed THEN (IF k = "badseek" THEN "RewindSeekFails" ELSE "Rewind")
          ELSE IF st.bodyPos = PosFailed THEN "RewindRefused" ELSE "RewindNoSeek")
    ELSE IF k \in HasTell THEN (IF k = "badtell" THEN "TellFails" ELSE "RecordPosition")
    ELSE IF k \in OneShot /\ "D3" \notin D THEN "MarkUnreplayable"
    ELSE "NoPosition"

\* chunk_readable: read(blocksize) until an EMPTY block comes back; a short-reading stream hands out ShortRead units at a time.
\* (deviation ShortReadIsEOF: stop after the first block that is shorter than the blocksize)
UntilShort(blocks, bs) == IF \E i \in 1..Len(blocks) : Len(blocks[i]) < bs
                          THEN SubSeq(blocks, 1, CHOOSE i \in 1..Len(blocks) : Len(blocks[i]) < bs /\ \A j \in 1..(i - 1) : Len(blocks[j]) >= bs)
                          ELSE blocks
ReadBlocks(D, sc, cursor) ==
    LET all == Blocks(SubSeq(sc.content, cursor + 1, Len(sc.content)), IF sc.kind \in ShortReaders THEN ShortRead(sc) ELSE sc.bs)
    IN IF SR \in D THEN UntilShort(all, sc.bs) ELSE all

\* what the body yields when it is iterated now (st.used = chunks already taken from a one-shot iterator)
Yield(D, sc, st) ==
    LET k == IF st.hasBody THEN sc.kind ELSE "none" IN
    CASE k = "none" -> <<>>
      [] k \in {"bytes", "str", "buffer", "widebuffer"} -> <<BodyData(sc)>>
      [] k \in FileLike -> ReadBlocks(D, sc, st.cursor)
      [] k \in {"list", "strlist"} -> ListChunks(BodyData(sc))
      [] k = "gen" -> SubSeq(ListChunks(BodyData(sc)), st.used + 1, 4)

NowReq(D, sc, st) == ReqOf(D, sc, st, Yield(D, sc, st))
WireOf(D, sc, st) == Serialize("pool", NowReq(D, sc, st))
HeadOf(D, sc, st) == SerializeHead("pool", NowReq(D, sc, st))

\* the first body write of the attempt: the first non-empty chunk (empty ones are skipped without a write),
\* else the terminating chunk when the framing is chunked, else there is none
FirstNonEmpty(chunks) == IF \E i \in 1..Len(chunks) : chunks[i] # <<>> THEN CHOOSE i \in 1..Len(chunks) : chunks[i] # <<>> /\ \A j \in 1..(i - 1) : chunks[j] = <<>> ELSE 0
HasBodyWrite(D, sc, st) == FirstNonEmpty(Yield(D, sc, st)) > 0 \/ FramingMode(NowReq(D, sc, st)) = "chunked"
Breaks(D, sc, st) == st.left # <<>> /\ Head(st.left) = "errsend" /\ HasBodyWrite(D, sc, st)

\* body_to_chunks + HTTPConnection.request, then the peer reads the message
Send(D, sc, st) ==
    LET k == IF st.hasBody THEN sc.kind ELSE "none"
        w == WireOf(D, sc, st) IN
    [st EXCEPT !.pc = "reply",
               !.atts = Append(st.atts, Observe(w)),
               !.wires = Append(st.wires, w),
               !.cursor = IF k \in FileLike THEN st.cursor + Len(Flatten(ReadBlocks(D, sc, st.cursor))) ELSE st.cursor,
               !.used = IF k = "gen" THEN 4 ELSE st.used]

\* the same, but the write of the first body chunk fails: the peer has the head only, and the body has been
\* consumed up to and including the chunk that could not be written
SendBreaks(D, sc, st) ==
    LET k == IF st.hasBody THEN sc.kind ELSE "none"
        chunks == Yield(D, sc, st)
        i == FirstNonEmpty(chunks)
        w == HeadOf(D, sc, st) IN
    [st EXCEPT !.pc = "reply",
               !.atts = Append(st.atts, [Observe(w) EXCEPT !.complete = FALSE]),
               !.wires = Append(st.wires, w),
               !.cursor = IF k \in FileLike THEN (IF i = 0 THEN Len(sc.content) ELSE st.cursor + Len(chunks[i])) ELSE st.cursor,
               !.used = IF k = "gen" THEN (IF i = 0 THEN 4 ELSE st.used + i) ELSE st.used]

\* the scripted outcome of this attempt and what urlopen / PoolManager.urlopen do with it
Reply(D, sc, st) ==
    LET o == Head(st.left)
        rest == Tail(st.left) IN
    CASE o = "ok" -> [st EXCEPT !.pc = "done", !.outcome = "resp", !.left = rest]
      [] o \in {"err", "errsend", "503"} -> [st EXCEPT !.pc = "enter", !.left = rest]        \* recursion with body_pos
      [] o \in {"307", "308"} ->
           IF sc.client = "mgr"          \* manager-level redirect: a new PoolManager.urlopen with kw["body_pos"] = its body_pos
           THEN [st EXCEPT !.pc = "menter", !.left = rest, !.target = <<"a","g","a","i","n">>, !.kwPos = st.mgrPos]
           ELSE [st EXCEPT !.pc = "enter", !.left = rest, !.target = <<"a","g","a","i","n">>]      \* recursion with body_pos
      [] o = "303" -> [st EXCEPT !.pc = IF sc.client = "mgr" THEN "menter" ELSE "enter", !.left = rest,
                                 !.target = <<"a","g","a","i","n">>,
                                 !.method = GETm, !.hasBody = FALSE, !.bodyPos = PosNone, !.kwPos = PosNone]

\* the name of the action that is enabled in st (exactly one while pc # "done"): one per branch of the real code
ActionName(D, sc, st) ==
    CASE st.pc = "menter" -> (IF ManagerUnset(D, st) THEN "ActManagerRecords" ELSE "ActManagerKeeps")
      [] st.pc = "enter" -> "Act" \o EnterCase(D, sc, st)
      [] st.pc = "send" -> (IF Breaks(D, sc, st) THEN "ActSendBreaks" ELSE "ActSend")
      [] st.pc = "reply" -> (LET o == Head(st.left) IN
                             CASE o = "ok" -> "ActReturn" [] o \in {"err", "errsend", "503"} -> "ActRetry"
                               [] o \in {"307", "308"} -> (IF sc.client = "mgr" THEN "ActManagerRedirect" ELSE "ActPoolRedirect")
                               [] o = "303" -> "ActSeeOther")
      [] st.pc = "done" -> "none"
Step(D, sc, st) ==
    LET nx == CASE st.pc = "menter" -> ManagerEnter(D, sc, st)
                [] st.pc = "enter" -> Enter(D, sc, st)
                [] st.pc = "send" -> (IF Breaks(D, sc, st) THEN SendBreaks(D, sc, st) ELSE Send(D, sc, st))
                [] st.pc = "reply" -> Reply(D, sc, st) [] st.pc = "done" -> st
    IN IF st.pc = "done" THEN st ELSE [nx EXCEPT !.trail = Append(st.trail, ActionName(D, sc, st))]

\* the complete model run of a scenario (trace validation compares a recorded run with it)
RECURSIVE RunFrom(_, _, _)
RunFrom(D, sc, st) == IF st.pc = "done" THEN st ELSE RunFrom(D, sc, Step(D, sc, st))
Predict(D, sc) == RunFrom(D, sc, InitState(sc))

\* projection of an attempt that model and recorded run are compared on
Proj(a) == [complete |-> a.complete, method |-> a.method, mode |-> a.mode, payload |-> a.payload]
\* p = a finished model state: is the recorded run (attempt summaries, outcome) that run?
Matches(p, atts, outcome) ==
    /\ p.outcome = outcome
    /\ Len(p.atts) = Len(atts)
    /\ \A j \in 1..Len(atts) : Proj(p.atts[j]) = Proj(atts[j])
SameRun(D, sc, atts, outcome) == Matches(Predict(D, sc), atts, outcome)
\* stronger, soft: the bytes of every attempt are the model's canonical serialisation (header order, chunk boundaries)
BytesMatch(p, raws) == Len(p.wires) = Len(raws) /\ \A j \in 1..Len(raws) : p.wires[j] = raws[j]
SameBytes(D, sc, raws) == BytesMatch(Predict(D, sc), raws)

-----------------------------------------------------------------------------
(* Signature of the recorded defects: the classes in which the deviations may break BodyIdentical  *)

HasResendBefore(sc, j) == \E i \in 1..(j - 1) : i <= Len(sc.hist) /\ sc.hist[i] \in Resend
ManagerRedirectBefore(sc, j) == sc.client = "mgr" /\ \E i \in 1..(j - 1) : i <= Len(sc.hist) /\ sc.hist[i] \in {"307", "308"}
InClassD3(sc, j) == sc.kind \in OneShot /\ HasResendBefore(sc, j)
\* the only place where "position 0 counts as unset" can bite: a seekable body at offset 0, PoolManager, and at least
\* two manager-level redirects before the attempt
\* the only place where "a short block means end of data" can bite: a short-reading stream with more data after its first block
InClassSR(sc) == sc.kind \in ShortReaders /\ Len(BodyData(sc)) > ShortRead(sc)
\* the wide-buffer classes: Content-Length framing (nothing asked for chunking) / chunked framing, of a non-empty wide buffer
InClassLCI(sc) == sc.kind = "widebuffer" /\ BodyData(sc) # <<>> /\ ~sc.chunked /\ sc.caller = "none"
InClassCSI(sc) == sc.kind = "widebuffer" /\ BodyData(sc) # <<>> /\ sc.chunked /\ sc.caller = "none"
InClassZ0(sc, j) == /\ sc.client = "mgr" /\ sc.kind \in HasTell /\ sc.start = 0
                    /\ Cardinality({i \in 1..(j - 1) : i <= Len(sc.hist) /\ sc.hist[i] \in {"307", "308"}}) >= 2
=============================================================================
