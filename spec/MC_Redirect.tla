---------------------------- MODULE MC_Redirect ----------------------------
(* Constants, scenario families and scenario emission for Redirect (C05, C06).                    *)
(*   Family "free"    : stage 1 -- every chain of <= MaxHops answers over the hop alphabet, for   *)
(*                      every configuration of FreeCfgs (VIEW collapses histories).                *)
(*   Family "planned" : budget scenarios  (planned chains x policy values x placements x clients)  *)
(*                      header scenarios  (planned chains x spellings x carriers x remove sets),   *)
(*                      each sampled 1 in SampleKB / SampleKH by a seeded hash                     *)
(*   Family "sim"     : free mode over the full configuration space, for tlc -simulate.           *)
(* A scenario is printed when the Model terminates, with the Model's expected observations.       *)
EXTENDS Redirect, Json

CONSTANTS Family, ShardK, ShardS, SampleKB, SampleKH, CfgKH, Seed, LmaxB, LmaxH, Codes, Alpha, ClientFilter

-----------------------------------------------------------------------------
\* sites: <<scheme, host as written, port as written (0 = none)>>
SA    == <<"http", "a.test", 0>>
SAc   == <<"http", "A.TEST", 0>>           \* same origin, other letter case
SAp   == <<"http", "a.test", 80>>          \* same origin, explicit default port
SB    == <<"http", "b.test", 0>>           \* other host
SBc   == <<"http", "B.Test", 80>>
SA2   == <<"http", "a.test", 8080>>        \* other port
SAs   == <<"https", "a.test", 0>>          \* other scheme (and port)
SAsp  == <<"https", "A.TEST", 443>>
SA443 == <<"http", "a.test", 443>>         \* differs from SAs in the scheme only
SP    == <<"http", "proxy.test", 3128>>    \* the forwarding proxy's own origin
SPc   == <<"http", "Proxy.Test", 3128>>

U(site, path) == [scheme |-> site[1], host |-> site[2], port |-> site[3], path |-> path]
H(code, form, site, ref) == [code |-> code, form |-> form, scheme |-> site[1], host |-> site[2], port |-> site[3], ref |-> ref]

\* policies
R(t, r, raise, rm, sp, ct) == [kind |-> "retry", total |-> t, redirect |-> r, raise |-> raise, remove |-> rm, rmsp |-> sp, rmct |-> ct]
Rd(t, r, raise) == R(t, r, raise, DefaultRemove, "default", "default")
I(n) == [kind |-> "int", total |-> n, redirect |-> N, raise |-> TRUE, remove |-> DefaultRemove, rmsp |-> "default",
         rmct |-> "default"]
FalsePol == [kind |-> "false", total |-> F, redirect |-> N, raise |-> TRUE, remove |-> DefaultRemove, rmsp |-> "default",
             rmct |-> "default"]

BPols == << NonePol, FalsePol, I(0), I(1), I(2),
            Rd(10, F, TRUE), Rd(10, 0, TRUE), Rd(10, 1, TRUE), Rd(10, 2, TRUE),
            Rd(10, F, FALSE), Rd(10, 0, FALSE), Rd(10, 1, FALSE), Rd(10, 2, FALSE),
            Rd(F, N, TRUE), Rd(0, N, TRUE), Rd(1, N, TRUE), Rd(2, N, TRUE),
            Rd(0, N, FALSE), Rd(1, N, FALSE), Rd(2, N, FALSE),
            Rd(1, 2, TRUE), Rd(2, 1, FALSE), Rd(N, 2, TRUE), Rd(10, N, TRUE) >>
\* policies for the header scenarios: enough budget; how the remove set is supplied = container type x spelling
\* of the names in it (index of the custom ones: 2 + 4 * (container - 1) + spelling)
RmSps == <<"canon", "lower", "upper", "mixed">>
RmCts == <<"list", "tuple", "set", "frozenset">>
HPols == << NonePol, Rd(10, N, TRUE) >>
         \o [i \in 1..16 |-> R(10, N, TRUE, {"xcustom", "auth"}, RmSps[1 + ((i - 1) % 4)], RmCts[1 + ((i - 1) \div 4)])]
         \o [i \in 1..4 |-> R(10, 6, TRUE, DefaultRemove \cup {"xcustom"}, RmSps[i], "defaultplus")]   \* Retry.DEFAULT_... | {extra}
         \o << R(10, N, TRUE, {}, "canon", "list"), R(6, N, FALSE, DefaultRemove, "upper", "tuple"),
               R(10, N, TRUE, {"xcustom"}, "mixed", "frozenset") >>
HPolsSmall == {1, 3, 15, 21, 23}      \* none, list/canon, frozenset/canon, DEFAULT|{extra}/upper, empty list

Placed(p, pl) == CASE pl = 1 -> <<p, NonePol>>                       \* request level
                   [] pl = 2 -> <<NonePol, p>>                       \* pool / manager constructor
                   [] pl = 3 -> <<p, IF p.kind \in {"false"} \/ p.total = 0 \/ p.redirect \in {F, 0} THEN I(2) ELSE FalsePol>>
                   [] pl = 4 -> <<NonePol, p>>                       \* constructor, and the request passes retries=None explicitly

\* headers
E(k, sp, vs) == [kind |-> k, sp |-> sp, vals |-> vs]
Sps == <<"canon", "lower", "upper", "mixed">>
\* who carries the entries `hs`: 1,2 the request (dict / HTTPHeaderDict), 3,4 the manager- or pool-level defaults,
\* 5,6 the request, while the defaults hold other headers of their own (credentials included)
DH == << E("auth", "canon", <<"d3fault">>), E("xother", "lower", <<"9">>), E("cookie", "upper", <<"dc=0">>) >>
Car(ca, hs) == CASE ca = 1 -> [carrier |-> "dict",  hdrs |-> hs,   dcarrier |-> "none",  dhdrs |-> <<>>]
                 [] ca = 2 -> [carrier |-> "hdict", hdrs |-> hs,   dcarrier |-> "none",  dhdrs |-> <<>>]
                 [] ca = 3 -> [carrier |-> "none",  hdrs |-> <<>>, dcarrier |-> "dict",  dhdrs |-> hs]
                 [] ca = 4 -> [carrier |-> "none",  hdrs |-> <<>>, dcarrier |-> "hdict", dhdrs |-> hs]
                 [] ca = 5 -> [carrier |-> "dict",  hdrs |-> hs,   dcarrier |-> "hdict", dhdrs |-> DH]
                 [] ca = 6 -> [carrier |-> "hdict", hdrs |-> hs,   dcarrier |-> "dict",  dhdrs |-> DH]
OtherSp(sp) == IF sp = "upper" THEN "lower" ELSE "upper"
HVariant(v, sp) ==
    CASE v = 1 -> << E("auth", sp, <<"s3cret">>), E("cookie", sp, <<"c=1">>), E("pauth", sp, <<"pp">>),
                     E("xcustom", sp, <<"cu">>), E("xother", sp, <<"1">>), E("ctype", sp, <<"text/plain">>) >>
      [] v = 2 -> << E("cookie", sp, <<"c=1", "d=2">>), E("auth", sp, <<"s3cret">>), E("xother", sp, <<"1", "2">>) >>
      [] v = 3 -> << E("auth", sp, <<"s3cret">>), E("cookie", OtherSp(sp), <<"c=1">>), E("xother", "canon", <<"1">>) >>
      [] v = 4 -> << E("auth", sp, <<"s3cret">>), E("xother", "canon", <<"1">>), E("auth", OtherSp(sp), <<"t0ken">>),
                     E("xcustom", sp, <<"cu">>) >>
      \* mappings that hold nothing but removable headers: the strip loop leaves them empty
      [] v = 5 -> << E("auth", sp, <<"s3cret">>), E("cookie", OtherSp(sp), <<"c=1">>) >>
      [] v = 6 -> << E("cookie", sp, <<"c=1">>) >>
      [] v = 7 -> << E("xcustom", sp, <<"cu">>), E("auth", sp, <<"s3cret">>) >>
NVariants == 7
VariantOK(v, ca) == v # 2 \/ ca \in {2, 4, 6}        \* a repeated field needs an HTTPHeaderDict
H0 == << E("auth", "canon", <<"s3cret">>), E("xother", "canon", <<"1">>), E("ctype", "canon", <<"text/plain">>) >>

Clients == <<"pm", "proxy", "pool">>
MB == << <<"GET", "none">>, <<"POST", "bytes">>, <<"POST", "file">> >>
Start == U(SA, <<"d", "p0">>)

Cfg(id, cl, pp, reqnone, flag, mb, ca, hs, st) ==
    [id |-> id, client |-> cl, reqpol |-> pp[1], clipol |-> pp[2], reqnone |-> reqnone, flag |-> flag, method |-> mb[1],
     body |-> mb[2], carrier |-> Car(ca, hs).carrier, hdrs |-> Car(ca, hs).hdrs, dcarrier |-> Car(ca, hs).dcarrier,
     dhdrs |-> Car(ca, hs).dhdrs, start |-> st, proxy |-> U(SP, <<>>)]

InShard(id) == id % ShardK = ShardS

BudgetCfgs ==
    { Cfg((((c * 32 + p) * 5 + pl) * 2 + f) * 3 + m, Clients[c], Placed(BPols[p], pl), pl = 4, f = 1, MB[m], 1, H0, Start)
        : c \in 1..3, p \in 1..Len(BPols), pl \in 1..4, f \in 0..1, m \in 1..2 }

HId(t) == 100000 + (((((t[1] * 32 + t[2]) * 5 + t[3]) * 5 + t[4]) * 7 + t[5]) * 8 + t[6]) * 3 + t[7]
\* (shard and client filters are applied to the index tuples, before the records are built)
HeaderCfgsOf(pols, sps, cas, vs) ==
    { Cfg(HId(t), Clients[t[1]], Placed(HPols[t[2]], t[3]), t[3] = 4, TRUE, MB[t[7]], t[5], HVariant(t[6], Sps[t[4]]), Start)
        : t \in { t \in (1..3) \X pols \X {1, 2, 4} \X sps \X cas \X vs \X (1..2) :
                     VariantOK(t[6], t[5]) /\ InShard(HId(t)) /\ (HId(t) * 11 + Seed) % CfgKH = 0 /\ (ClientFilter = "all" \/ Clients[t[1]] = ClientFilter) } }
HeaderCfgs == HeaderCfgsOf(1..Len(HPols), 1..4, 1..6, 1..NVariants)
\* the Model ignores spelling and the container type: one spelling, HTTPHeaderDict carriers with and without defaults
HeaderCfgsSmall == IF Alpha = "full" THEN HeaderCfgsOf(1..Len(HPols), {1}, {2, 4, 6}, 1..NVariants)
                   ELSE HeaderCfgsOf(HPolsSmall, {1}, {2, 6}, {1, 2, 5, 7})

\* other start URLs (letter case, explicit port, https) and the 303 + file body regression (D5)
ExtraCfgs ==
    { Cfg(900000 + ((c * 4 + s) * 4 + m) * 4 + p, Clients[c], Placed(<<NonePol, I(2), Rd(10, 1, FALSE), FalsePol>>[p], 1), FALSE, TRUE, MB[m], 1, H0,
          <<U(SAc, <<"d", "p0">>), U(SAp, <<"d", "p0">>), U(SA443, <<"p0">>), U(SAs, <<"d", "p0">>)>>[s])
        : c \in 1..3, s \in 1..4, m \in 1..3, p \in 1..4 }
ExtraOK(x) == /\ (x.start.scheme = "https" => x.client = "pm")

MCCfgSet ==
    LET all == CASE Family = "free"    -> {x \in BudgetCfgs : Alpha = "full" \/ x.method = "POST"} \cup HeaderCfgsSmall \cup {x \in ExtraCfgs : ExtraOK(x)}
                 \* growth module RedirectMeta: the metadata depends on policy, placement, client, method only
                 [] Family = "metafree" -> {x \in BudgetCfgs : x.method = "POST" /\ (x.reqpol.kind = "none" \/ x.clipol.kind = "none")}
                 [] Family = "metaplanned" -> BudgetCfgs \cup {x \in ExtraCfgs : ExtraOK(x)}
                 [] Family = "planned" -> BudgetCfgs \cup HeaderCfgs \cup {x \in ExtraCfgs : ExtraOK(x)}
                 [] Family = "sim"     -> BudgetCfgs \cup HeaderCfgs \cup {x \in ExtraCfgs : ExtraOK(x)}
    IN {x \in all : InShard(x.id) /\ (ClientFilter = "all" \/ x.client = ClientFilter)}

-----------------------------------------------------------------------------
\* planned chains
P(i) == <<"p1", "p2", "p3", "p4", "p5", "p6">>[i]
Cyc(seq, i) == seq[1 + ((i - 1) % Len(seq))]
CodeAt(sel, i) == IF sel = 1 THEN <<307, 303, 302, 308, 301, 303>>[i]
                  ELSE IF sel = 2 THEN <<302, 307, 308, 303, 307, 301>>[i] ELSE sel
HopAt(pat, code, i) ==
    CASE pat = "pathabs"    -> H(code, "pathabs", SA, <<"d", P(i)>>)
      [] pat = "sameabs"    -> H(code, "abs", Cyc(<<SAc, SAp, SA>>, i), <<"d", P(i)>>)
      [] pat = "rel"        -> H(code, "rel", SA, IF i % 2 = 1 THEN <<P(i)>> ELSE <<"..", "e", P(i)>>)
      [] pat = "dots"       -> H(code, "pathabs", SA, <<"x", "..", ".", "d", P(i)>>)
      [] pat = "cross"      -> H(code, "abs", Cyc(<<SB, SA2, SA>>, i), <<"d", P(i)>>)
      [] pat = "aba"        -> H(code, "abs", Cyc(<<SBc, SA>>, i), <<"d", P(i)>>)
      [] pat = "schemerel"  -> H(code, "schemerel", Cyc(<<SB, SA2, SAc>>, i), <<"d", P(i)>>)
      [] pat = "crossrel"   -> IF i = 1 THEN H(code, "abs", SB, <<"d", P(i)>>)
                               ELSE IF i % 2 = 0 THEN H(code, "rel", SA, <<P(i)>>) ELSE H(code, "pathabs", SA, <<P(i)>>)
      [] pat = "samecross"  -> IF i = 1 THEN H(code, "pathabs", SA, <<"d", P(i)>>)
                               ELSE IF i = 2 THEN H(code, "abs", SB, <<"d", P(i)>>) ELSE H(code, "rel", SA, <<P(i)>>)
      [] pat = "port"       -> IF i = 1 THEN H(code, "rel", SA, <<P(i)>>) ELSE H(code, "abs", Cyc(<<SA2, SAp>>, i), <<"d", P(i)>>)
      [] pat = "https"      -> H(code, "abs", Cyc(<<SAs, SA, SAsp>>, i), <<"d", P(i)>>)
      [] pat = "schemeonly" -> IF i = 1 THEN H(code, "abs", SA443, <<P(i)>>)
                               ELSE IF i = 2 THEN H(code, "abs", SAsp, <<P(i)>>) ELSE H(code, "pathabs", SA, <<P(i)>>)
      [] pat = "alias"      -> H(code, "abs", Cyc(<<SAp, SAc>>, i), <<"d", P(i)>>)
      [] pat = "pxorigin"   -> H(code, "abs", Cyc(<<SP, SB, SPc>>, i), <<"d", P(i)>>)
      [] pat = "bpx"        -> IF i = 1 THEN H(code, "abs", SB, <<P(i)>>)
                               ELSE IF i = 2 THEN H(code, "abs", SPc, <<P(i)>>) ELSE H(code, "pathabs", SA, <<P(i)>>)
      [] pat = "samepx"     -> IF i = 1 THEN H(code, "pathabs", SA, <<P(i)>>)
                               ELSE IF i = 2 THEN H(code, "schemerel", SP, <<P(i)>>) ELSE H(code, "abs", SA, <<P(i)>>)
Chain(pat, sel, len) == [i \in 1..len |-> HopAt(pat, CodeAt(sel, i), i)]

BudgetPats == <<"pathabs", "sameabs", "cross", "schemerel", "rel", "dots">>
HeaderPats == <<"pathabs", "sameabs", "cross", "schemerel", "alias", "samecross", "aba", "port",
                "rel", "dots", "crossrel", "https", "schemeonly", "pxorigin", "bpx", "samepx">>
PatOK(c, k, pats) ==
    LET pat == pats[k] IN
    CASE c.client = "pool"  -> pat \in {"pathabs", "sameabs", "cross", "schemerel", "alias", "samecross", "aba", "port"}
      [] c.client = "pm"    -> ~(pat \in {"pxorigin", "bpx", "samepx"}) /\ (c.start.scheme = "https" => pat \in {"pathabs", "rel", "https", "cross"})
      [] c.client = "proxy" -> ~(pat \in {"https", "schemeonly"})
Sels == Codes \cup {1, 2}
IsHeaderCfg(c) == c.id >= 100000 /\ c.id < 900000
Pick(id, k, sel, len, samplek) == (id * 7 + k * 13 + sel * 5 + len * 3 + Seed) % samplek = 0
\* a file body is only combined with chains whose first answer is a 303 (later hops are body-less; D3/D4 are C11's)
FileOK(c, sel) == c.body = "file" => sel = 303

MCPlanSet(c) ==
    LET pats == IF IsHeaderCfg(c) THEN HeaderPats ELSE BudgetPats
        lmax == IF IsHeaderCfg(c) THEN LmaxH ELSE LmaxB
        samplek == IF IsHeaderCfg(c) THEN SampleKH ELSE SampleKB IN
    { Chain(pats[k], sel, len) : <<k, sel, len>> \in
        { x \in (1..Len(pats)) \X Sels \X (1..lmax) : PatOK(c, x[1], pats) /\ FileOK(c, x[2]) /\ Pick(c.id, x[1], x[2], x[3], samplek) } }

-----------------------------------------------------------------------------
\* free mode: every answer the environment may give next (Alpha = "small" | "full")
Refs == IF Alpha = "full" THEN {<<"d", "q">>, <<"x", "..", "q">>} ELSE {<<"d", "q">>}
AbsSites(c) == CASE c.client = "pm"    -> IF Alpha = "full" THEN {SA, SAc, SAp, SB, SA2, SAs, SAsp, SA443} ELSE {SAc, SB, SA2, SAs}
                 [] c.client = "proxy" -> IF Alpha = "full" THEN {SA, SAc, SAp, SB, SA2, SP, SPc} ELSE {SAp, SB, SP, SPc}
                 [] c.client = "pool"  -> IF Alpha = "full" THEN {SA, SAc, SAp, SB, SA2} ELSE {SAc, SB, SA2}
RelSites(c) == CASE c.client = "pm"    -> IF Alpha = "full" THEN {SAc, SB, SA2} ELSE {SB}
                 [] c.client = "proxy" -> IF Alpha = "full" THEN {SAc, SB, SP} ELSE {SP}
                 [] c.client = "pool"  -> {SB}
MCHopAlphabet(c, u) ==
    UNION { {H(code, "abs", s, r) : s \in AbsSites(c), r \in (IF c.client = "pool" THEN {<<"d", "q">>} ELSE Refs)}
            \cup {H(code, "schemerel", s, <<"d", "q">>) : s \in RelSites(c)}
            \cup {H(code, "pathabs", SA, r) : r \in (IF c.client = "pool" THEN {<<"q">>} ELSE {<<"d", ".", "..", "d", "q">>})}
            \cup (IF c.client = "pool" THEN {} ELSE {H(code, "rel", SA, r) : r \in (IF Alpha = "full" THEN {<<"q">>, <<"..", "q">>} ELSE {<<"..", "q">>})})
          : code \in Codes }

-----------------------------------------------------------------------------
\* emission: one JSON line per terminated behaviour (scenario + the Model's expected observations)
Scenario == [cfg |-> cfg, hops |-> IF Mode = "planned" THEN plan ELSE hist, wire |-> wire, outcome |-> outcome, bad |-> bad]
EmitInv == (pc = "done") => PrintT(<<"SC", ToJson(Scenario)>>)
=============================================================================
