---------------------------- MODULE MC_TLSVerify ----------------------------
(* Exhaustive configuration of TLSVerify (stage 1) + enumeration of the lattice by index and   *)
(* emission of lattice points with the three-valued expectation of the Rules and the Model's   *)
(* predicted observation (stage 2).  The harness never decodes an index itself: it learns the   *)
(* factor table from the LATTICE line, chooses WHICH indices to run (2-way covering array +     *)
(* seeded sample in quick, everything in thorough) and receives every chosen point back from    *)
(* TLC as a record of level names together with what is expected of it.                         *)
EXTENDS TLSVerify, Json, IOUtils, TLCExt, SequencesExt

\* sub-lattices for the cfg files
AllRoutes   == RouteL
AllBackends == BackendL
AllHosts    == HostL
NoTlsProxyRoutes == {"direct", "tunnel_http"}
DirectRoute == {"direct"}
PinnedRoute == {"tunnel_https_pinned"}
SmallHosts  == {"lower", "dot", "ipv4"}
DnsHostOnly == {"lower"}
IpHostOnly  == {"ipv4"}
NoDefects   == {}
OnlyDefaultStoreDeviation == {"DefaultStoreAlsoTrusted"}
AllSans     == SanL
DnsSans     == {"exact", "mismatch", "cn_only"}
IpSans      == {"wildcard", "ip_match", "ip_mismatch"}
QuickSans   == {"exact", "cn_only", "ip_mismatch"}
TwoSans     == {"exact", "mismatch"}
OneSan      == {"exact"}

\* backend x route as ONE factor so that the index space is a plain product (TLS-in-TLS does not
\* exist for pyOpenSSL)
Stacks == <<"ssl/direct", "ssl/tunnel_http", "pyopenssl/direct", "pyopenssl/tunnel_http",
            "ssl/tunnel_https_good", "ssl/tunnel_https_bad", "ssl/tunnel_https_pinned">>
StackBackend(s) == IF s \in {"pyopenssl/direct", "pyopenssl/tunnel_http"} THEN "pyopenssl" ELSE "ssl"
StackRoute(s) == CASE s \in {"ssl/direct", "pyopenssl/direct"} -> "direct"
                   [] s \in {"ssl/tunnel_http", "pyopenssl/tunnel_http"} -> "tunnel_http"
                   [] s = "ssl/tunnel_https_good" -> "tunnel_https_good"
                   [] s = "ssl/tunnel_https_pinned" -> "tunnel_https_pinned"
                   [] OTHER -> "tunnel_https_bad"

\* caller context x CA source as ONE factor (CAs travel inside the caller's context iff there is one)
Trusts == <<"none/file", "none/data", "none/dir", "none/none",
            "default_like/ctx", "nocheck/ctx", "mode_none/ctx", "urllib3_ctx/ctx">>
TrustCtx(t) == CASE t = "default_like/ctx" -> "default_like" [] t = "nocheck/ctx" -> "nocheck"
                 [] t = "mode_none/ctx" -> "mode_none" [] t = "urllib3_ctx/ctx" -> "urllib3_ctx" [] OTHER -> "none"
TrustCa(t) == CASE t = "none/file" -> "file" [] t = "none/data" -> "data" [] t = "none/dir" -> "dir"
                [] t = "none/none" -> "none" [] OTHER -> "ctx"

\* factor order and level order define the lattice index (mixed radix, first factor fastest)
Factors == <<
    [name |-> "reqs",   levels |-> <<"default", "REQUIRED", "OPTIONAL", "NONE">>],
    [name |-> "ah",     levels |-> <<"unset", "False", "match", "mismatch">>],
    [name |-> "fp",     levels |-> <<"unset", "right", "wrong", "badlen">>],
    [name |-> "sh",     levels |-> <<"unset", "match", "mismatch">>],
    [name |-> "trust",  levels |-> Trusts],
    [name |-> "issuer", levels |-> <<"trusted", "untrusted", "default_store">>],
    [name |-> "san",    levels |-> <<"exact", "wildcard", "mismatch", "ip_match", "ip_mismatch", "cn_only">>],
    [name |-> "host",   levels |-> <<"lower", "upper", "dot", "ipv4", "ipv6zone">>],
    [name |-> "stack",  levels |-> Stacks] >>

RECURSIVE Size(_)
Size(k) == IF k > Len(Factors) THEN 1 ELSE Len(Factors[k].levels) * Size(k + 1)
LatticeSize == Size(1)

RECURSIVE Decode(_, _)
Decode(i, k) == IF k > Len(Factors) THEN <<>>
                ELSE <<Factors[k].levels[(i % Len(Factors[k].levels)) + 1]>> \o Decode(i \div Len(Factors[k].levels), k + 1)

CfgOfIdx(i) == LET d == Decode(i, 1) IN
    [reqs |-> d[1], ah |-> d[2], fp |-> d[3], sh |-> d[4], ctx |-> TrustCtx(d[5]), casrc |-> TrustCa(d[5]),
     backend |-> StackBackend(d[9]), route |-> StackRoute(d[9])]
SrvOfIdx(i) == LET d == Decode(i, 1) IN [issuer |-> d[6], san |-> d[7], host |-> d[8]]

InLattice(i) == CfgOfIdx(i) \in Cfg /\ SrvOfIdx(i) \in Srv

\* the factor table and the lattice size, printed once
\* (plain strings: TLC's pretty-printer wraps tuples wider than 80 columns, never a string)
ASSUME PrintT("LATTICE|" \o ToJson([factors |-> Factors, size |-> LatticeSize]))
\* the level sequences enumerate exactly the level sets of the specification
ASSUME /\ Range(Factors[1].levels) = ReqsL /\ Range(Factors[2].levels) = AHL /\ Range(Factors[3].levels) = FPL
       /\ Range(Factors[4].levels) = SHL /\ Range(Factors[6].levels) = IssuerL
       /\ {<<TrustCtx(Trusts[x]), TrustCa(Trusts[x])>> : x \in DOMAIN Trusts}
              = {<<c, a>> \in CtxL \X CaSrcL : ValidTrust(c, a)}
       /\ Range(Factors[7].levels) = SanL /\ Range(Factors[8].levels) = HostL
       /\ {<<StackBackend(Stacks[x]), StackRoute(Stacks[x])>> : x \in DOMAIN Stacks}
              = {<<b, r>> \in BackendL \X RouteL : ValidStack(b, r)}
       /\ \A k \in DOMAIN Factors : Cardinality(Range(Factors[k].levels)) = Len(Factors[k].levels)

\* The named deviation "DefaultStoreAlsoTrusted" is refuted on a concrete witness in EVERY run of this
\* module (and by a full model-checking run in the thorough tier): CA given as ca_cert_data only, server
\* certificate signed by a CA that is only in the default trust store.  With the deviation the model
\* sends (clause violated); without it the model blocks.
WitnessCfg == [reqs |-> "default", ah |-> "unset", fp |-> "unset", sh |-> "unset", ctx |-> "none", casrc |-> "data",
               backend |-> "ssl", route |-> "direct"]
WitnessSrv == [issuer |-> "default_store", san |-> "exact", host |-> "lower"]
ASSUME /\ ~R_SentImpliesDemandedPassed(WitnessCfg, WitnessSrv,
                                        ObsOf(FinalKD(WitnessCfg, WitnessSrv, {"DefaultStoreAlsoTrusted"})))
       /\ RulesClause(WitnessCfg, WitnessSrv, ObsOf(FinalKD(WitnessCfg, WitnessSrv, {}))) = "ok"
       /\ FinalKD(WitnessCfg, WitnessSrv, {}).pc = "raised"

-----------------------------------------------------------------------------
(* stage 2: emission                                                                            *)
CONSTANTS EmitMode,   \* "sel": the indices listed in IOEnv.SEL_FILE
                      \* "shard": the indices i in ShardLo..ShardHi with i % ShardK = ShardS
          ShardLo, ShardHi, ShardK, ShardS

SelIdx == JsonDeserialize(IOEnv.SEL_FILE)      \* JSON array of lattice indices ([] in shard mode)

EmitIdx == IF EmitMode = "sel" THEN {SelIdx[k] : k \in DOMAIN SelIdx}
           ELSE {i \in ShardLo..ShardHi : i < LatticeSize /\ i % ShardK = ShardS}

EmitInit == \E i \in EmitIdx : InLattice(i) /\ st = InitState(CfgOfIdx(i), SrvOfIdx(i))
EmitSpec == EmitInit /\ [][Next]_vars

RECURSIVE Encode(_, _, _)
Encode(d, k, mult) == IF k > Len(Factors) THEN 0
                      ELSE (CHOOSE x \in 1..Len(Factors[k].levels) : Factors[k].levels[x] = d[k]) * mult - mult
                           + Encode(d, k + 1, mult * Len(Factors[k].levels))
TrustOf(cfg) == CHOOSE t \in Range(Trusts) : TrustCtx(t) = cfg.ctx /\ TrustCa(t) = cfg.casrc
StackOf(cfg) == CHOOSE s \in Range(Stacks) : StackBackend(s) = cfg.backend /\ StackRoute(s) = cfg.route
IdxOf(cfg, srv) == Encode(<<cfg.reqs, cfg.ah, cfg.fp, cfg.sh, TrustOf(cfg), srv.issuer, srv.san, srv.host, StackOf(cfg)>>, 1, 1)

PointRec(s) ==
    [idx |-> IdxOf(s.cfg, s.srv),
     p |-> [reqs |-> s.cfg.reqs, ah |-> s.cfg.ah, fp |-> s.cfg.fp, sh |-> s.cfg.sh, ctx |-> s.cfg.ctx,
            casrc |-> s.cfg.casrc, backend |-> s.cfg.backend, route |-> s.cfg.route,
            issuer |-> s.srv.issuer, san |-> s.srv.san, host |-> s.srv.host],
     mode |-> EffMode(s.cfg), nameterm |-> NameTerm(s.cfg),
     demanded |-> SetToSeq(AllDemanded(s.cfg)),
     failed |-> SetToSeq(AllDemanded(s.cfg) \cap Failed(s.srv, s.cfg)),
     expect |-> Expect(s.cfg, s.srv), validated |-> Validated(s.cfg),
     model |-> [outcome |-> OutcomeClass(s), obs |-> ObsOf(s), sni |-> s.sni, by |-> s.by, pv |-> s.pVerified]]

\* ACTION_CONSTRAINT: every lattice point is printed exactly once, when its run concludes
Emit == (st'.pc = "done") => PrintT("PT|" \o ToJson(PointRec(st)))

\* the index really is the inverse of Decode on every point the model visits
IndexRoundTrip == st.pc = "new" => (CfgOfIdx(IdxOf(st.cfg, st.srv)) = st.cfg /\ SrvOfIdx(IdxOf(st.cfg, st.srv)) = st.srv)
=============================================================================
