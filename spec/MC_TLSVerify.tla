---------------------------- MODULE MC_TLSVerify ----------------------------
(* Exhaustive configuration of TLSVerify (stage 1) + enumeration of the lattice by index and   *)
(* emission of lattice points with the three-valued expectation of the Rules and the Model's   *)
(* predicted observation (stage 2).  The harness never decodes an index itself: it learns the   *)
(* factor table from the LATTICE line, chooses WHICH indices to run (2-way covering array +     *)
(* seeded sample in quick, everything in thorough) and receives every chosen point back from    *)
(* TLC as a record of level names together with what is expected of it.                         *)
EXTENDS TLSVerify, Json, IOUtils, TLCExt, SequencesExt

\* sub-lattices for the cfg files
AllRoutes   == RouteL
AllBackends == BackendL
AllHosts    == HostL
NoTlsProxyRoutes == {"direct", "tunnel_http"}
DirectRoute == {"direct"}
PinnedRoute == {"tunnel_https_pinned"}
SmallHosts  == {"lower", "dot", "ipv4"}
DnsHostOnly == {"lower"}
IpHostOnly  == {"ipv4"}
NoDefects   == {}
OnlyDefaultStoreDeviation == {"DefaultStoreAlsoTrusted"}
OnlyUpFrontDeviation == {"HostnameOwnerDecidedUpFront"}
SharedRoutes == {"direct", "tunnel_https_shared_pah"}
AllSans     == SanL
DnsSans     == {"exact", "mismatch", "cn_only"}
IpSans      == {"wildcard", "ip_match", "ip_mismatch"}
QuickSans   == {"exact", "ip_mismatch"}
TwoSans     == {"exact", "mismatch"}
OneSan      == {"exact"}

\* backend x route as ONE factor so that the index space is a plain product (TLS-in-TLS does not
\* exist for pyOpenSSL)
Stacks == <<"ssl/direct", "ssl/tunnel_http", "pyopenssl/direct", "pyopenssl/tunnel_http",
            "ssl/tunnel_https_good", "ssl/tunnel_https_bad", "ssl/tunnel_https_pinned",
            "ssl/tunnel_https_shared", "ssl/tunnel_https_shared_pah">>
StackBackend(s) == IF s \in {"pyopenssl/direct", "pyopenssl/tunnel_http"} THEN "pyopenssl" ELSE "ssl"
StackRoute(s) == CASE s \in {"ssl/direct", "pyopenssl/direct"} -> "direct"
                   [] s \in {"ssl/tunnel_http", "pyopenssl/tunnel_http"} -> "tunnel_http"
                   [] s = "ssl/tunnel_https_good" -> "tunnel_https_good"
                   [] s = "ssl/tunnel_https_pinned" -> "tunnel_https_pinned"
                   [] s = "ssl/tunnel_https_shared" -> "tunnel_https_shared"
                   [] s = "ssl/tunnel_https_shared_pah" -> "tunnel_https_shared_pah"
                   [] OTHER -> "tunnel_https_bad"

\* caller context x CA source as ONE factor (CAs travel inside the caller's context iff there is one)
\* ... x the history of that context object (only for the kinds that start with check_hostname on)
Trusts == <<"none/file", "none/data", "none/dir", "none/none",
            "default_like/ctx", "nocheck/ctx", "mode_none/ctx", "urllib3_ctx/ctx",
            "default_like/ctx/after_ah", "default_like/ctx/after_fp",
            "urllib3_ctx/ctx/after_ah", "urllib3_ctx/ctx/after_fp">>
TrustCtx(t) == CASE t \in {"default_like/ctx", "default_like/ctx/after_ah", "default_like/ctx/after_fp"} -> "default_like"
                 [] t = "nocheck/ctx" -> "nocheck" [] t = "mode_none/ctx" -> "mode_none"
                 [] t \in {"urllib3_ctx/ctx", "urllib3_ctx/ctx/after_ah", "urllib3_ctx/ctx/after_fp"} -> "urllib3_ctx"
                 [] OTHER -> "none"
TrustHist(t) == CASE t \in {"default_like/ctx/after_ah", "urllib3_ctx/ctx/after_ah"} -> "after_ah"
                  [] t \in {"default_like/ctx/after_fp", "urllib3_ctx/ctx/after_fp"} -> "after_fp"
                  [] OTHER -> "fresh"
TrustCa(t) == CASE t = "none/file" -> "file" [] t = "none/data" -> "data" [] t = "none/dir" -> "dir"
                [] t = "none/none" -> "none" [] OTHER -> "ctx"

\* factor order and level order define the lattice index (mixed radix, first factor fastest)
Factors == <<
    [name |-> "reqs",   levels |-> <<"default", "REQUIRED", "OPTIONAL", "NONE">>],
    [name |-> "ah",     levels |-> <<"unset", "False", "match", "mismatch">>],
    [name |-> "fp",     levels |-> <<"unset", "right", "wrong", "badlen">>],
    [name |-> "sh",     levels |-> <<"unset", "match", "mismatch">>],
    [name |-> "trust",  levels |-> Trusts],
    [name |-> "issuer", levels |-> <<"trusted", "untrusted", "default_store">>],
    [name |-> "san",    levels |-> <<"exact", "wildcard", "mismatch", "ip_match", "ip_mismatch", "cn_only">>],
    [name |-> "host",   levels |-> <<"lower", "upper", "dot", "ipv4", "ipv6zone">>],
    [name |-> "stack",  levels |-> Stacks] >>

RECURSIVE Size(_)
Size(k) == IF k > Len(Factors) THEN 1 ELSE Len(Factors[k].levels) * Size(k + 1)
LatticeSize == Size(1)

RECURSIVE Decode(_, _)
Decode(i, k) == IF k > Len(Factors) THEN <<>>
                ELSE <<Factors[k].levels[(i % Len(Factors[k].levels)) + 1]>> \o Decode(i \div Len(Factors[k].levels), k + 1)

CfgOfIdx(i) == LET d == Decode(i, 1) IN
    [reqs |-> d[1], ah |-> d[2], fp |-> d[3], sh |-> d[4], ctx |-> TrustCtx(d[5]), casrc |-> TrustCa(d[5]),
     hist |-> TrustHist(d[5]), backend |-> StackBackend(d[9]), route |-> StackRoute(d[9])]
SrvOfIdx(i) == LET d == Decode(i, 1) IN [issuer |-> d[6], san |-> d[7], host |-> d[8]]

InLattice(i) == CfgOfIdx(i) \in Cfg /\ SrvOfIdx(i) \in Srv

\* the factor table and the lattice size, printed once
\* (plain strings: TLC's pretty-printer wraps tuples wider than 80 columns, never a string)
ASSUME PrintT("LATTICE|" \o ToJson([factors |-> Factors, size |-> LatticeSize]))
\* the level sequences enumerate exactly the level sets of the specification
ASSUME /\ Range(Factors[1].levels) = ReqsL /\ Range(Factors[2].levels) = AHL /\ Range(Factors[3].levels) = FPL
       /\ Range(Factors[4].levels) = SHL /\ Range(Factors[6].levels) = IssuerL
       /\ {<<TrustCtx(Trusts[x]), TrustCa(Trusts[x]), TrustHist(Trusts[x])>> : x \in DOMAIN Trusts}
              = {<<c, a, h>> \in CtxL \X CaSrcL \X HistL : ValidTrust(c, a) /\ ValidHist(c, h)}
       /\ Range(Factors[7].levels) = SanL /\ Range(Factors[8].levels) = HostL
       /\ {<<StackBackend(Stacks[x]), StackRoute(Stacks[x])>> : x \in DOMAIN Stacks}
              = {<<b, r>> \in BackendL \X RouteL : ValidStack(b, r)}
       /\ \A k \in DOMAIN Factors : Cardinality(Range(Factors[k].levels)) = Len(Factors[k].levels)

\* The named deviation "DefaultStoreAlsoTrusted" is refuted on a concrete witness in EVERY run of this
\* module (and by a full model-checking run in the thorough tier): CA given as ca_cert_data only, server
\* certificate signed by a CA that is only in the default trust store.  With the deviation the model
\* sends (clause violated); without it the model blocks.
WitnessCfg == [reqs |-> "default", ah |-> "unset", fp |-> "unset", sh |-> "unset", ctx |-> "none", casrc |-> "data",
               hist |-> "fresh", backend |-> "ssl", route |-> "direct"]
WitnessSrv == [issuer |-> "default_store", san |-> "exact", host |-> "lower"]
ASSUME /\ ~R_SentImpliesDemandedPassed(WitnessCfg, WitnessSrv,
                                        ObsOf(FinalKD(WitnessCfg, WitnessSrv, {"DefaultStoreAlsoTrusted"})))
       /\ RulesClause(WitnessCfg, WitnessSrv, ObsOf(FinalKD(WitnessCfg, WitnessSrv, {}))) = "ok"
       /\ FinalKD(WitnessCfg, WitnessSrv, {}).pc = "raised"

\* Likewise "HostnameOwnerDecidedUpFront", on the two histories that flip check_hostname on a caller's
\* context OBJECT before the judged handshake: (a) TLS-in-TLS with proxy_ssl_context IS ssl_context and
\* proxy_assert_hostname set; (b) an earlier connection through the same context with assert_hostname=<name>.
\* Server: trusted issuer, certificate for a DIFFERENT name.
SharedWitness == [reqs |-> "default", ah |-> "unset", fp |-> "unset", sh |-> "unset", ctx |-> "default_like",
                  casrc |-> "ctx", hist |-> "fresh", backend |-> "ssl", route |-> "tunnel_https_shared_pah"]
ReuseWitness  == [SharedWitness EXCEPT !.hist = "after_ah", !.route = "direct"]
OtherNameSrv  == [issuer |-> "trusted", san |-> "mismatch", host |-> "lower"]
ASSUME \A w \in {SharedWitness, ReuseWitness} :
          /\ ~R_SentImpliesDemandedPassed(w, OtherNameSrv, ObsOf(FinalKD(w, OtherNameSrv, {"HostnameOwnerDecidedUpFront"})))
          /\ FinalKD(w, OtherNameSrv, {}).pc = "raised" /\ FinalKD(w, OtherNameSrv, {}).by = "urllib3-name"
          /\ FinalKD(w, OtherNameSrv, {}).ctxCheckHostname = "off"

-----------------------------------------------------------------------------
(* stage 2: emission                                                                            *)
CONSTANTS EmitMode,   \* "sel": the indices listed in IOEnv.SEL_FILE
                      \* "shard": the indices i in ShardLo..ShardHi with i % ShardK = ShardS
          ShardLo, ShardHi, ShardK, ShardS

SelIdx == JsonDeserialize(IOEnv.SEL_FILE)      \* JSON array of lattice indices ([] in shard mode)

EmitIdx == IF EmitMode = "sel" THEN {SelIdx[k] : k \in DOMAIN SelIdx}
           ELSE {i \in ShardLo..ShardHi : i < LatticeSize /\ i % ShardK = ShardS}

EmitInit == \E i \in EmitIdx : InLattice(i) /\ st = InitState(CfgOfIdx(i), SrvOfIdx(i))
EmitSpec == EmitInit /\ [][Next]_vars

RECURSIVE Encode(_, _, _)
Encode(d, k, mult) == IF k > Len(Factors) THEN 0
                      ELSE (CHOOSE x \in 1..Len(Factors[k].levels) : Factors[k].levels[x] = d[k]) * mult - mult
                           + Encode(d, k + 1, mult * Len(Factors[k].levels))
TrustOf(cfg) == CHOOSE t \in Range(Trusts) : TrustCtx(t) = cfg.ctx /\ TrustCa(t) = cfg.casrc /\ TrustHist(t) = cfg.hist
StackOf(cfg) == CHOOSE s \in Range(Stacks) : StackBackend(s) = cfg.backend /\ StackRoute(s) = cfg.route
IdxOf(cfg, srv) == Encode(<<cfg.reqs, cfg.ah, cfg.fp, cfg.sh, TrustOf(cfg), srv.issuer, srv.san, srv.host, StackOf(cfg)>>, 1, 1)

PointRec(s) ==
    [idx |-> IdxOf(s.cfg, s.srv),
     p |-> [reqs |-> s.cfg.reqs, ah |-> s.cfg.ah, fp |-> s.cfg.fp, sh |-> s.cfg.sh, ctx |-> s.cfg.ctx,
            casrc |-> s.cfg.casrc, hist |-> s.cfg.hist, backend |-> s.cfg.backend, route |-> s.cfg.route,
            issuer |-> s.srv.issuer, san |-> s.srv.san, host |-> s.srv.host],
     mode |-> EffMode(s.cfg), nameterm |-> NameTerm(s.cfg),
     demanded |-> SetToSeq(AllDemanded(s.cfg)),
     failed |-> SetToSeq(AllDemanded(s.cfg) \cap Failed(s.srv, s.cfg)),
     expect |-> Expect(s.cfg, s.srv), validated |-> Validated(s.cfg),
     model |-> [outcome |-> OutcomeClass(s), obs |-> ObsOf(s), sni |-> s.sni, by |-> s.by, pv |-> s.pVerified]]

\* ACTION_CONSTRAINT: every lattice point is printed exactly once, when its run concludes
Emit == (st'.pc = "done") => PrintT("PT|" \o ToJson(PointRec(st)))

\* the index really is the inverse of Decode on every point the model visits
IndexRoundTrip == st.pc = "new" => (CfgOfIdx(IdxOf(st.cfg, st.srv)) = st.cfg /\ SrvOfIdx(IdxOf(st.cfg, st.srv)) = st.srv)
=============================================================================
