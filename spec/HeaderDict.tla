---------------------------- MODULE HeaderDict ----------------------------
(* Reference model of urllib3's HTTPHeaderDict (property C16): a case-insensitive,            *)
(* order-preserving multimap.  Up to NObj live objects (an original, copies, union results).   *)
(* An object is a sequence of entries [k |-> lower-cased name, d |-> display name,              *)
(* vs |-> non-empty sequence of value lines].                                                   *)
(*                                                                                             *)
(* Rules of the reference (the property statement):                                            *)
(*   assignment replaces (keeps the entry's position, last-set spelling becomes the display     *)
(*   name); add appends a line (or comma-joins onto the last line when combine) and keeps the   *)
(*   first-seen spelling; names compare case-insensitively; extend / |= / | add line by line     *)
(*   from a snapshot of the source; update assigns the source's merged values; pop / setdefault  *)
(*   see the merged value; copies and unions share nothing with their sources.                  *)
EXTENDS Naturals, Sequences, FiniteSets, TLC

CONSTANTS NObj,        \* number of object slots
          Names,       \* header names (strings)
          Values,      \* header values (strings)
          MaxDepth,    \* bound on the number of operations
          Sources      \* constant non-HTTPHeaderDict sources: records [kind, pairs]

NONE == "<none>"
KEYERROR == "<KeyError>"

\* TLC cannot lower-case a string; the alphabet is fixed, so Lower is a table.
Lower(n) == CASE n = "A" -> "a" [] n = "a" -> "a" [] n = "B" -> "b" [] n = "b" -> "b"
              [] n = "Set-Cookie" -> "set-cookie" [] n = "set-cookie" -> "set-cookie"
              [] n = "SET-COOKIE" -> "set-cookie"
              [] OTHER -> n

VARIABLES objs,    \* [1..NObj -> Seq(Entry)]
          live,    \* subset of 1..NObj
          depth,   \* number of operations so far
          last     \* [op, args, res] of the last operation (observation only; hidden by View)

vars == <<objs, live, depth, last>>
View == <<objs, live>>

-----------------------------------------------------------------------------
(* Pure functions on one object (a sequence of entries)                      *)

Idx(o, n) == IF \E i \in 1..Len(o) : o[i].k = Lower(n)
             THEN CHOOSE i \in 1..Len(o) : o[i].k = Lower(n) ELSE 0

RECURSIVE Join(_)
Join(vs) == IF Len(vs) = 1 THEN vs[1] ELSE vs[1] \o ", " \o Join(Tail(vs))

Get(o, n) == IF Idx(o, n) = 0 THEN NONE ELSE Join(o[Idx(o, n)].vs)
GetList(o, n) == IF Idx(o, n) = 0 THEN <<>> ELSE o[Idx(o, n)].vs
Has(o, n) == Idx(o, n) # 0

RemoveIdx(o, i) == [j \in 1..(Len(o) - 1) |-> IF j < i THEN o[j] ELSE o[j + 1]]

SetItem(o, n, v) ==
    LET e == [k |-> Lower(n), d |-> n, vs |-> <<v>>] IN
    IF Idx(o, n) = 0 THEN Append(o, e) ELSE [o EXCEPT ![Idx(o, n)] = e]

DelItem(o, n) == IF Idx(o, n) = 0 THEN o ELSE RemoveIdx(o, Idx(o, n))

AddLine(o, n, v, combine) ==
    LET i == Idx(o, n) IN
    IF i = 0 THEN Append(o, [k |-> Lower(n), d |-> n, vs |-> <<v>>])
    ELSE IF combine
         THEN [o EXCEPT ![i].vs = [@ EXCEPT ![Len(@)] = @ \o ", " \o v]]
         ELSE [o EXCEPT ![i].vs = Append(@, v)]

\* per-line view and merged view of an object (what iteritems / itermerged yield)
RECURSIVE LinesOf(_)
LinesOf(o) == IF o = <<>> THEN <<>>
              ELSE [j \in 1..Len(o[1].vs) |-> <<o[1].d, o[1].vs[j]>>] \o LinesOf(Tail(o))
MergedOf(o) == [i \in 1..Len(o) |-> <<o[i].d, Join(o[i].vs)>>]

RECURSIVE ExtendPairs(_, _)
ExtendPairs(o, ps) == IF ps = <<>> THEN o
                      ELSE ExtendPairs(AddLine(o, ps[1][1], ps[1][2], FALSE), Tail(ps))
RECURSIVE AssignPairs(_, _)
AssignPairs(o, ps) == IF ps = <<>> THEN o
                      ELSE AssignPairs(SetItem(o, ps[1][1], ps[1][2]), Tail(ps))

\* what a source contributes to extend (line by line) and to update (assignment)
ExtendFrom(o, src) == ExtendPairs(o, src)                 \* src already a sequence of pairs
SrcLines(s) == s.pairs                                    \* constant source: its pairs in order

-----------------------------------------------------------------------------
\* An operation is a record [op, i, n, v, j, src]; Apply gives its complete effect:
\* new objects, new live set and the value returned / exception raised.
\*   i   = receiver object      n, v = name and value arguments
\*   j   = other HTTPHeaderDict operand, or the slot receiving a newly created object
\*   src = index of a constant source, or (or_obj) the slot receiving the result
Free(lv) == (1..NObj) \ lv
Ret(o, lv, r) == [objs |-> o, live |-> lv, res |-> r]

Apply(o, lv, e) ==
    LET i == e.i  n == e.n  v == e.v  j == e.j  s == e.src  me == o[e.i] IN
    CASE e.op = "setitem"    -> Ret([o EXCEPT ![i] = SetItem(@, n, v)], lv, NONE)
      [] e.op = "delitem"    -> Ret([o EXCEPT ![i] = DelItem(@, n)], lv, IF Has(me, n) THEN NONE ELSE KEYERROR)
      [] e.op = "discard"    -> Ret([o EXCEPT ![i] = DelItem(@, n)], lv, NONE)
      [] e.op = "add"        -> Ret([o EXCEPT ![i] = AddLine(@, n, v, FALSE)], lv, NONE)
      [] e.op = "addc"       -> Ret([o EXCEPT ![i] = AddLine(@, n, v, TRUE)], lv, NONE)
      [] e.op = "setdefault" -> Ret([o EXCEPT ![i] = IF Has(@, n) THEN @ ELSE SetItem(@, n, v)], lv,
                                    IF Has(me, n) THEN Get(me, n) ELSE v)
      [] e.op = "pop"        -> Ret([o EXCEPT ![i] = DelItem(@, n)], lv, IF Has(me, n) THEN Get(me, n) ELSE KEYERROR)
      [] e.op = "popd"       -> Ret([o EXCEPT ![i] = DelItem(@, n)], lv, IF Has(me, n) THEN Get(me, n) ELSE v)
      \* extend / |= / update with another live HTTPHeaderDict j (snapshot of j's lines / merged values)
      [] e.op = "extend_obj" -> Ret([o EXCEPT ![i] = ExtendPairs(@, LinesOf(o[j]))], lv, NONE)
      [] e.op = "ior_obj"    -> Ret([o EXCEPT ![i] = ExtendPairs(@, LinesOf(o[j]))], lv, NONE)
      [] e.op = "update_obj" -> Ret([o EXCEPT ![i] = AssignPairs(@, MergedOf(o[j]))], lv, NONE)
      \* the same with a constant source (dict, list of pairs, keyword arguments)
      [] e.op = "extend_src" -> Ret([o EXCEPT ![i] = ExtendPairs(@, Sources[s].pairs)], lv, NONE)
      [] e.op = "ior_src"    -> Ret([o EXCEPT ![i] = ExtendPairs(@, Sources[s].pairs)], lv, NONE)
      [] e.op = "update_src" -> Ret([o EXCEPT ![i] = AssignPairs(@, Sources[s].pairs)], lv, NONE)
      \* operations creating a new object
      [] e.op = "copy"       -> Ret([o EXCEPT ![j] = me], lv \cup {j}, NONE)
      [] e.op = "or_obj"     -> Ret([o EXCEPT ![s] = ExtendPairs(me, LinesOf(o[j]))], lv \cup {s}, NONE)
      [] e.op = "or_src"     -> Ret([o EXCEPT ![j] = ExtendPairs(me, Sources[s].pairs)], lv \cup {j}, NONE)
      \* src | hd  is  HTTPHeaderDict(src) extended with hd
      [] e.op = "ror_src"    -> Ret([o EXCEPT ![j] = ExtendPairs(ExtendPairs(<<>>, Sources[s].pairs), LinesOf(me))],
                                    lv \cup {j}, NONE)
      [] e.op = "drop"       -> Ret([o EXCEPT ![i] = <<>>], lv \ {i}, NONE)

E(op, i, n, v, j, s) == [op |-> op, i |-> i, n |-> n, v |-> v, j |-> j, src |-> s]
SrcIdx(kinds) == {s \in DOMAIN Sources : Sources[s].kind \in kinds}

\* every operation enabled with the given live set
Ops(lv) ==
    UNION { {E(op, i, n, v, 0, 0) : op \in {"setitem", "add", "addc", "setdefault", "popd"}, n \in Names, v \in Values}
            \cup {E(op, i, n, NONE, 0, 0) : op \in {"delitem", "discard", "pop"}, n \in Names}
            \cup {E(op, i, NONE, NONE, j, 0) : op \in {"extend_obj", "ior_obj", "update_obj"}, j \in lv \ {i}}
            \cup {E(op, i, NONE, NONE, 0, s) : op \in {"extend_src", "update_src"}, s \in DOMAIN Sources}
            \cup {E("ior_src", i, NONE, NONE, 0, s) : s \in SrcIdx({"dict", "list"})}
            \cup {E("copy", i, NONE, NONE, j, 0) : j \in Free(lv)}
            \cup {E("or_obj", i, NONE, NONE, j, r) : j \in lv, r \in Free(lv)}
            \cup {E(op, i, NONE, NONE, r, s) : op \in {"or_src", "ror_src"}, r \in Free(lv), s \in SrcIdx({"dict", "list"})}
            \cup (IF i # 1 THEN {E("drop", i, NONE, NONE, 0, 0)} ELSE {})
          : i \in lv }

Init == /\ objs = [i \in 1..NObj |-> <<>>]
        /\ live = {1}
        /\ depth = 0
        /\ last = [op |-> "init", i |-> 1, n |-> NONE, v |-> NONE, j |-> 0, src |-> 0, res |-> NONE]

Do(e) == LET r == Apply(objs, live, e) IN
         /\ objs' = r.objs /\ live' = r.live /\ depth' = depth + 1
         /\ last' = [op |-> e.op, i |-> e.i, n |-> e.n, v |-> e.v, j |-> e.j, src |-> e.src, res |-> r.res]

Next == depth < MaxDepth /\ \E e \in Ops(live) : Do(e)

Spec == Init /\ [][Next]_vars

-----------------------------------------------------------------------------
(* Properties of the reference itself (stage 1).                              *)

WellFormed(o) == /\ \A i \in 1..Len(o) : Len(o[i].vs) >= 1 /\ o[i].k = Lower(o[i].d)
                 /\ \A i, j \in 1..Len(o) : i # j => o[i].k # o[j].k
TypeOK == \A i \in 1..NObj : WellFormed(objs[i])

\* lookup is case-insensitive
CaseInsensitive == \A i \in live : \A n, m \in Names :
                      Lower(n) = Lower(m) => Get(objs[i], n) = Get(objs[i], m)
\* merged view is the join of the per-line view
RECURSIVE LinesFor(_, _)
LinesFor(ls, k) == IF ls = <<>> THEN <<>>
                   ELSE IF Lower(ls[1][1]) = k THEN <<ls[1][2]>> \o LinesFor(Tail(ls), k)
                   ELSE LinesFor(Tail(ls), k)
MergedIsJoinOfLines == \A i \in live : \A e \in 1..Len(objs[i]) :
                         LinesFor(LinesOf(objs[i]), objs[i][e].k) = objs[i][e].vs
\* an operation on object i changes no other object (copies and unions are independent)
Independent == [][\A j \in 1..NObj :
                    (j # last'.i /\ ~(last'.op \in {"copy", "or_obj", "or_src", "ror_src", "drop"}))
                       => objs'[j] = objs[j]]_vars
\* no operation loses, duplicates or reorders a value it was not asked to change:
\* entries whose key is not named by the op keep their relative order and values
Untouched(o1, o2, k) ==
    LET f(o) == SelectSeq(o, LAMBDA e : e.k # k) IN f(o1) = f(o2)
OthersPreserved == [][(last'.op \in {"setitem", "delitem", "discard", "add", "addc", "setdefault", "pop", "popd"})
                        => Untouched(objs[last'.i], objs'[last'.i], Lower(last'.n))]_vars

=============================================================================
