------------------------------- MODULE Retry -------------------------------
(* C04 - retries respect every budget, spare non-idempotent requests, and terminate.           *)
(*                                                                                             *)
(* Two layers over the same event vocabulary (DESIGN 1.1):                                     *)
(*                                                                                             *)
(*  RULES  - the property.  A total monitor `Observe` folds GROUND-TRUTH events (what the      *)
(*           network saw: connection attempts, wire messages, the stage at which a fault was   *)
(*           injected, the scripted reply, every sleep, the final outcome) into an observation *)
(*           record; the clauses WithinBudgets, NoResendAfterReach, FalseReraises,             *)
(*           RetryAfterOnlyFor, SleepsInRange, CallerRetryUntouched, ExhaustionShape are state *)
(*           predicates over that record and the CALLER's policy.  A retry is charged to the   *)
(*           category of the stage where the fault really happened (TCP connect -> connect,    *)
(*           CONNECT refusal -> other, send/receive after the first request byte -> read,      *)
(*           response status -> status), never to what urllib3 thinks it was.                  *)
(*                                                                                             *)
(*  MODEL  - what HTTPConnectionPool.urlopen + Retry.from_int / increment / is_retry /         *)
(*           is_exhausted / sleep do, one action per real step (Derive, Attempt, Classify,     *)
(*           Increment, StatusRetry, Sleep, Recurse, Return, Raise) and one NAMED deviation    *)
(*           (SleepUnclamped) guarded by KnownDefects.  The Model decrements with urllib3's own    *)
(*           classification (`filed`) and EMITS the same events the harness records, so that   *)
(*           Model |= Rules is checked by TLC with the very monitor that judges real traces.   *)
(*                                                                                             *)
(* Every step is a pure operator (XFn) over a model record, wrapped by an action here and      *)
(* folded over a recorded outcome sequence by Retry_Trace.tla (refinement = drift verdict).     *)
EXTENDS Integers, Sequences, FiniteSets, TLC

CONSTANTS Cfgs,          \* set of configurations (records, fields below) explored from Init
          Outcomes,      \* environment alphabet: what may happen to one attempt
          MaxLen,        \* after MaxLen scripted outcomes the environment only answers 200
          KnownDefects,  \* subset of {"RetryAfterNotClamped"}: named deviations from the design
          TrackTrail     \* TRUE: keep the outcome trail / emitted events in the state (emission)

NoneV  == -9             \* Python None
FalseV == -8             \* Python False
IsNum(x) == x # NoneV /\ x # FalseV
Min(a, b) == IF a <= b THEN a ELSE b

(* A configuration = the caller's choice.  how/level: the form in which `retries` is given      *)
(* ("false" | "int" | "retry" | "default" (nothing given), at "request" or "pool" level);       *)
(* total..other: counters (ints, NoneV, FalseV); allowed: "default" | "none" | "post";         *)
(* forcelist: status_forcelist = {500}; ros: raise_on_status; respect:                          *)
(* respect_retry_after_header; factor/bmax/jitter: backoff_* in milliseconds; method; route:    *)
(* "direct" | "forward" (pool behind a forwarding proxy) | "tunnel" (CONNECT);                 *)
(* ka: "keep" | "close" (does the scripted server keep the connection alive after a reply).     *)

DefaultAllowed  == {"HEAD", "GET", "PUT", "DELETE", "OPTIONS", "TRACE"}
RetryAfterCodes == {413, 429, 503}
DefaultBackoffMax == 120000

-----------------------------------------------------------------------------
(* Environment alphabet: ground truth of one attempt.  stage = where the harness injects.      *)
OC(o) ==
  CASE o = "ConnRefused" -> [stage |-> "connect", kind |-> "refused", status |-> 0,   ra |-> -1, neg |-> 0]
    [] o = "ConnTimeout" -> [stage |-> "connect", kind |-> "timeout", status |-> 0,   ra |-> -1, neg |-> 0]
    [] o = "TunRefused"  -> [stage |-> "tunnel",  kind |-> "refused", status |-> 0,   ra |-> -1, neg |-> 0]
    [] o = "SendErr"     -> [stage |-> "send",    kind |-> "unreach", status |-> 0,   ra |-> -1, neg |-> 0]
    [] o = "ReadTimeout" -> [stage |-> "recv",    kind |-> "timeout", status |-> 0,   ra |-> -1, neg |-> 0]
    [] o = "ReadReset"   -> [stage |-> "recv",    kind |-> "reset",   status |-> 0,   ra |-> -1, neg |-> 0]
    [] o = "ReadEOF"     -> [stage |-> "recv",    kind |-> "eof",     status |-> 0,   ra |-> -1, neg |-> 0]
    [] o = "ReadGarbage" -> [stage |-> "recv",    kind |-> "garbage", status |-> 0,   ra |-> -1, neg |-> 0]
    [] o = "OK200"       -> [stage |-> "status",  kind |-> "resp",    status |-> 200, ra |-> -1, neg |-> 0]
    [] o = "S500"        -> [stage |-> "status",  kind |-> "resp",    status |-> 500, ra |-> -1, neg |-> 0]
    [] o = "S500RA"      -> [stage |-> "status",  kind |-> "resp",    status |-> 500, ra |-> 11000, neg |-> 0]
    [] o = "S429RA"      -> [stage |-> "status",  kind |-> "resp",    status |-> 429, ra |-> 7000, neg |-> 0]
    [] o = "S429RA0"     -> [stage |-> "status",  kind |-> "resp",    status |-> 429, ra |-> 0, neg |-> 0]
    [] o = "S503RA"      -> [stage |-> "status",  kind |-> "resp",    status |-> 503, ra |-> 3000, neg |-> 0]
    [] o = "S413RA"      -> [stage |-> "status",  kind |-> "resp",    status |-> 413, ra |-> 300000, neg |-> 0]
    [] o = "S404RA"      -> [stage |-> "status",  kind |-> "resp",    status |-> 404, ra |-> 9000, neg |-> 0]
    \* Retry-After given as an HTTP-date.  ra = what the server asks for (a date in the past asks for no
    \* wait: 0); neg = date - now in ms when the date already passed (what an unclamped parse would yield)
    [] o = "S429RAdSkew" -> [stage |-> "status",  kind |-> "resp",    status |-> 429, ra |-> 0, neg |-> -2000]
    [] o = "S503RAdSkew" -> [stage |-> "status",  kind |-> "resp",    status |-> 503, ra |-> 0, neg |-> -2000]
    [] o = "S413RAdPast" -> [stage |-> "status",  kind |-> "resp",    status |-> 413, ra |-> 0, neg |-> -86400000]
    [] o = "S500RAdPast" -> [stage |-> "status",  kind |-> "resp",    status |-> 500, ra |-> 0, neg |-> -86400000]
    [] o = "S429RAdNow"  -> [stage |-> "status",  kind |-> "resp",    status |-> 429, ra |-> 0, neg |-> 0]
    [] o = "S429RAdFut"  -> [stage |-> "status",  kind |-> "resp",    status |-> 429, ra |-> 4000, neg |-> 0]
    [] o = "S500RAdFut"  -> [stage |-> "status",  kind |-> "resp",    status |-> 500, ra |-> 4000, neg |-> 0]
AllOutcomes == {"ConnRefused", "ConnTimeout", "TunRefused", "SendErr", "ReadTimeout", "ReadReset", "ReadEOF",
                "ReadGarbage", "OK200", "S500", "S500RA", "S429RA", "S429RA0", "S503RA", "S413RA", "S404RA",
                "S429RAdSkew", "S503RAdSkew", "S413RAdPast", "S500RAdPast", "S429RAdNow", "S429RAdFut", "S500RAdFut"}

(* ground-truth category of a stage *)
TruthCat(stage) == CASE stage = "connect" -> "connect"
                     [] stage = "tunnel"  -> "other"
                     [] stage \in {"send", "recv"} -> "read"
                     [] OTHER -> "status"
FaultCats == {"connect", "read", "other"}

-----------------------------------------------------------------------------
(* Events: one uniform record shape, produced by the Model and by the harness alike.           *)
E0 == [ev |-> "", newconn |-> FALSE, stage |-> "", kind |-> "", status |-> 0, ra |-> -1, lo |-> 0, hi |-> 0,
       method |-> "", form |-> "", fam |-> "", carries |-> "na", same |-> TRUE, rt |-> <<>>]
EvAtt(newc)         == [E0 EXCEPT !.ev = "att", !.newconn = newc]
EvMsg(meth, form)   == [E0 EXCEPT !.ev = "msg", !.method = meth, !.form = form]
EvFault(stage, k)   == [E0 EXCEPT !.ev = "fault", !.stage = stage, !.kind = k]
EvReply(k, st, ra)  == [E0 EXCEPT !.ev = "reply", !.kind = k, !.status = st, !.ra = ra]
EvSleep(lo, hi)     == [E0 EXCEPT !.ev = "sleep", !.lo = lo, !.hi = hi]
EvEnd(k, st, fam, carries, rt) ==
    [E0 EXCEPT !.ev = "end", !.kind = k, !.status = st, !.fam = fam, !.carries = carries, !.rt = rt]

-----------------------------------------------------------------------------
(* The caller's policy, as documented (Rules side; independent of from_int).                   *)
DefaultPolicy(t) == [total |-> t, connect |-> NoneV, read |-> NoneV, status |-> NoneV, other |-> NoneV,
                     allowed |-> "default", forcelist |-> FALSE, ros |-> TRUE, respect |-> TRUE,
                     factor |-> 0, bmax |-> DefaultBackoffMax, jitter |-> 0]
OwnPolicy(c) == [total |-> c.total, connect |-> c.connect, read |-> c.read, status |-> c.status, other |-> c.other,
                 allowed |-> c.allowed, forcelist |-> c.forcelist, ros |-> c.ros, respect |-> c.respect,
                 factor |-> c.factor, bmax |-> c.bmax, jitter |-> c.jitter]
Policy(c) == CASE c.how = "retry"   -> OwnPolicy(c)
               [] c.how = "int"     -> DefaultPolicy(c.total)     \* "retry connection errors that many times"
               [] c.how = "false"   -> DefaultPolicy(FalseV)      \* retries disabled
               [] c.how = "default" -> DefaultPolicy(3)           \* "If None (default) will retry 3 times"

MethodAllowed(p, meth) == CASE p.allowed = "none" -> TRUE
                            [] p.allowed = "post" -> meth = "POST"
                            [] OTHER -> meth \in DefaultAllowed
Forcelisted(p, s) == p.forcelist /\ s = 500
(* a status response may trigger a retry only if forcelisted, or 413/429/503 carrying Retry-After *)
(* while the header is respected (ra >= 0 means: header present)                                *)
Retryable(p, s, ra) == Forcelisted(p, s) \/ (p.respect /\ ra >= 0 /\ s \in RetryAfterCodes)

-----------------------------------------------------------------------------
(* RULES: the total monitor.                                                                   *)
Ob0 == [att |-> 0, msgs |-> 0, last |-> "none", lastStage |-> "", lastKind |-> "", lastStatus |-> 0, lastRA |-> -1,
        reached |-> FALSE, rc |-> 0, rr |-> 0, rs |-> 0, ro |-> 0,
        resent |-> 0, badretry |-> 0, badsleep |-> 0, ghost |-> 0,
        ended |-> FALSE, end |-> E0]

Charge(ob) == CASE ob.last = "connect" -> [ob EXCEPT !.rc = @ + 1]
                [] ob.last = "read"    -> [ob EXCEPT !.rr = @ + 1]
                [] ob.last = "status"  -> [ob EXCEPT !.rs = @ + 1]
                [] ob.last = "other"   -> [ob EXCEPT !.ro = @ + 1]
                [] ob.last = "pending" -> [ob EXCEPT !.ghost = @ + 1]   \* attempt without a known outcome
                [] OTHER -> ob                                           \* first attempt
ObsAtt(p, meth, ob) ==
    LET o1 == Charge(ob)
        o2 == IF ob.last = "status" /\ ~Retryable(p, ob.lastStatus, ob.lastRA)
              THEN [o1 EXCEPT !.badretry = @ + 1] ELSE o1
    IN [o2 EXCEPT !.att = @ + 1, !.last = "pending", !.lastStage = "", !.lastKind = "", !.lastStatus = 0, !.lastRA = -1]
Resend(p, meth, ob) == IF ob.reached /\ ~MethodAllowed(p, meth) THEN [ob EXCEPT !.resent = @ + 1] ELSE ob
ObsMsg(p, meth, ob, e) == [Resend(p, e.method, ob) EXCEPT !.msgs = @ + 1]
ObsFault(p, meth, ob, e) ==
    LET cat == TruthCat(e.stage)
        o1 == IF e.stage = "send" THEN Resend(p, meth, ob) ELSE ob   \* request bytes were being written
    IN [o1 EXCEPT !.last = cat, !.lastStage = e.stage, !.lastKind = e.kind, !.reached = @ \/ cat = "read"]
ObsReply(p, meth, ob, e) ==
    IF e.kind = "resp"
    THEN [ob EXCEPT !.last = "status", !.lastStage = "status", !.lastKind = "resp", !.lastStatus = e.status,
                    !.lastRA = e.ra, !.reached = TRUE]
    ELSE [ob EXCEPT !.last = "read", !.lastStage = "recv", !.lastKind = e.kind, !.reached = TRUE]
SleepOK(p, ob, e) ==
    \/ 0 <= e.lo /\ e.lo <= e.hi /\ e.hi <= p.bmax
    \/ /\ e.lo = e.hi /\ ob.last = "status" /\ ob.lastRA = e.hi /\ p.respect
       /\ (ob.lastStatus \in RetryAfterCodes \/ Forcelisted(p, ob.lastStatus))
ObsSleep(p, meth, ob, e) == IF SleepOK(p, ob, e) THEN ob ELSE [ob EXCEPT !.badsleep = @ + 1]
ObsEnd(p, meth, ob, e) == [ob EXCEPT !.ended = TRUE, !.end = e]

Observe(p, meth, ob, e) ==
    CASE e.ev = "att"   -> ObsAtt(p, meth, ob)
      [] e.ev = "msg"   -> ObsMsg(p, meth, ob, e)
      [] e.ev = "fault" -> ObsFault(p, meth, ob, e)
      [] e.ev = "reply" -> ObsReply(p, meth, ob, e)
      [] e.ev = "sleep" -> ObsSleep(p, meth, ob, e)
      [] e.ev = "end"   -> ObsEnd(p, meth, ob, e)
      [] OTHER -> [ob EXCEPT !.ghost = @ + 1]
RECURSIVE ObserveAll(_, _, _, _)
ObserveAll(p, meth, ob, es) == IF es = <<>> THEN ob ELSE ObserveAll(p, meth, Observe(p, meth, ob, Head(es)), Tail(es))

(* ---- the clauses ---- *)
Retried(ob) == ob.rc + ob.rr + ob.rs + ob.ro
B0(x) == IF x = FalseV THEN 0 ELSE x                 \* False = no retry at all in that category
WithinBudgets(p, ob) ==
    /\ p.total   # NoneV => Retried(ob) <= B0(p.total)
    /\ p.connect # NoneV => ob.rc <= B0(p.connect)
    /\ p.read    # NoneV => ob.rr <= B0(p.read)
    /\ p.status  # NoneV => ob.rs <= B0(p.status)
    \* latitude: a pre-send fault after the TCP connect (TLS / CONNECT refusal) may be charged to
    \* `other` or to `connect`; a TCP connect fault is `connect`
    /\ p.other   # NoneV => \/ ob.ro <= B0(p.other)
                            \/ p.connect = NoneV
                            \/ ob.rc + ob.ro <= B0(p.connect) + B0(p.other)
NoResendAfterReach(p, ob) == ob.resent = 0
FalseReraises(p, ob) ==
    p.total = FalseV =>
        /\ Retried(ob) = 0
        /\ (ob.ended /\ ob.last \in FaultCats) => (ob.end.kind = "raise" /\ ob.end.carries # "no")
RetryAfterOnlyFor(p, ob) == ob.badretry = 0
SleepsInRange(p, ob) == ob.badsleep = 0
CallerRetryUntouched(p, ob) == ob.ended => ob.end.same

CatBudget(p, cat) == CASE cat = "connect" -> p.connect [] cat = "read" -> p.read
                       [] cat = "status" -> p.status [] OTHER -> NoneV   \* `other`: see latitude, only total counts
CatRetried(ob, cat) == CASE cat = "connect" -> ob.rc [] cat = "read" -> ob.rr [] cat = "status" -> ob.rs [] OTHER -> ob.ro
GroundExhausted(p, ob) ==                     \* no retry left for the last outcome, by ground truth
    \/ IsNum(p.total) /\ Retried(ob) >= p.total
    \/ IsNum(CatBudget(p, ob.last)) /\ CatRetried(ob, ob.last) >= CatBudget(p, ob.last)
MayReraise(p, meth, ob) ==                    \* the documented "raise at once" cases
    \/ p.total = FalseV
    \/ ob.last = "connect" /\ p.connect = FalseV
    \/ ob.last = "read" /\ (p.read = FalseV \/ ~MethodAllowed(p, meth))
ExhaustionShape(p, meth, ob) ==
    ob.ended =>
      LET e == ob.end IN
      /\ ob.att >= 1
      /\ e.kind \in {"response", "maxretry", "raise"}
      /\ ob.last \in FaultCats =>
            /\ e.kind \in {"maxretry", "raise"}
            /\ e.carries # "no"                       \* carries the LAST cause
            /\ e.fam # "resp"
            /\ (GroundExhausted(p, ob) /\ ~MayReraise(p, meth, ob)) => e.kind = "maxretry"
      /\ ob.last = "status" =>
            \/ e.kind = "response" /\ e.status = ob.lastStatus
                 /\ ~( Forcelisted(p, ob.lastStatus) /\ MethodAllowed(p, meth) /\ p.ros /\ p.total # FalseV
                       /\ GroundExhausted(p, ob) )        \* exhaustion + raise_on_status => MaxRetryError
            \/ e.kind = "maxretry" /\ e.fam = "resp" /\ e.carries # "no" /\ p.ros
                 /\ Retryable(p, ob.lastStatus, ob.lastRA) /\ MethodAllowed(p, meth)
      /\ ob.last \in FaultCats \cup {"status"}
Accounted(p, ob) == ob.ghost = 0               \* every attempt has a ground-truth outcome (harness sanity)

FirstFailing(p, meth, ob) ==
    IF ~FalseReraises(p, ob) THEN "FalseReraises"
    ELSE IF ~WithinBudgets(p, ob) THEN "WithinBudgets"
    ELSE IF ~NoResendAfterReach(p, ob) THEN "NoResendAfterReach"
    ELSE IF ~RetryAfterOnlyFor(p, ob) THEN "RetryAfterOnlyFor"
    ELSE IF ~SleepsInRange(p, ob) THEN "SleepsInRange"
    ELSE IF ~CallerRetryUntouched(p, ob) THEN "CallerRetryUntouched"
    ELSE IF ~ExhaustionShape(p, meth, ob) THEN "ExhaustionShape"
    ELSE IF ~Accounted(p, ob) THEN "Accounted"
    ELSE "ok"

-----------------------------------------------------------------------------
(* MODEL: pure step operators.  m = [pc, eff, cnt, nh, keep, cur, filed, fam, resp, res]        *)
M0 == [pc |-> "derive", eff |-> DefaultPolicy(0),
       cnt |-> [total |-> 0, connect |-> NoneV, read |-> NoneV, status |-> NoneV, other |-> NoneV],
       nh |-> 0,            \* len(Retry.history): consecutive errors so far
       keep |-> FALSE,      \* the previous connection went back to the pool alive
       cur |-> "", filed |-> "", fam |-> "", resp |-> FALSE,
       res |-> [kind |-> "", status |-> 0, fam |-> "", rt |-> <<>>]]
Step(m2, es) == [m |-> m2, ev |-> es]

(* Derive: urlopen line 712 `Retry.from_int(retries, redirect, default=self.retries)` and the    *)
(* pool constructor (`retries is None -> Retry.DEFAULT`).                                        *)
ArgAt(c, lvl) == IF c.how = "default" \/ c.level # lvl THEN "none" ELSE c.how
FromInt(c, arg) == CASE arg = "retry"    -> OwnPolicy(c)              \* isinstance(retries, Retry): as is
                     [] arg = "int"      -> DefaultPolicy(c.total)    \* cls(retries, redirect=...)
                     [] arg = "false"    -> DefaultPolicy(FalseV)
                     [] arg = "DEFAULT"  -> DefaultPolicy(3)          \* Retry.DEFAULT = Retry(3)
DeriveFn(c, m) ==
    LET poolRetries == IF ArgAt(c, "pool") = "none" THEN "DEFAULT" ELSE ArgAt(c, "pool")
        arg == IF ArgAt(c, "request") = "none" THEN poolRetries ELSE ArgAt(c, "request")
        eff == FromInt(c, arg)
    IN Step([m EXCEPT !.pc = "attempt", !.eff = eff,
                      !.cnt = [total |-> eff.total, connect |-> eff.connect, read |-> eff.read,
                               status |-> eff.status, other |-> eff.other]], <<>>)

(* Attempt: _get_conn / _make_request meet the environment's choice o.                          *)
Form(c) == IF c.route = "forward" THEN "abs" ELSE "origin"
AttemptFn(c, m, o) ==
    LET oc == OC(o)
        newc == ~m.keep \/ oc.stage \in {"connect", "tunnel"}
        att == EvAtt(newc)
        msg == EvMsg(c.method, Form(c))
    IN CASE oc.stage \in {"connect", "tunnel", "send"} ->
                Step([m EXCEPT !.pc = "classify", !.cur = o], <<att, EvFault(oc.stage, oc.kind)>>)
         [] oc.stage = "recv" /\ oc.kind \in {"timeout", "reset"} ->
                Step([m EXCEPT !.pc = "classify", !.cur = o], <<att, msg, EvFault(oc.stage, oc.kind)>>)
         [] oc.stage = "recv" ->
                Step([m EXCEPT !.pc = "classify", !.cur = o], <<att, msg, EvReply(oc.kind, 0, -1)>>)
         [] OTHER ->
                Step([m EXCEPT !.pc = "status", !.cur = o], <<att, msg, EvReply("resp", oc.status, oc.ra)>>)

(* Classify: the `except` clause of urlopen (lines 812-840) turns the low-level error into the   *)
(* urllib3 exception whose class decides the counter.  (The former deviation D2 - EOF / reset     *)
(* behind a forwarding proxy filed under `other` - was repaired in the code and deleted here.)    *)
ClassifyFn(c, m, defects) ==
    LET oc == OC(m.cur)
        prox == c.route # "direct"
        filed == CASE oc.stage = "connect" -> "connect"      \* ProxyError is unwrapped by _is_connection_error
                   [] oc.stage = "tunnel"  -> "other"
                   [] OTHER -> "read"
        fam == CASE oc.stage = "connect" -> IF prox THEN "proxy" ELSE "conn"
                 [] oc.stage = "tunnel"  -> "proxy"
                 [] OTHER -> "read"
    IN Step([m EXCEPT !.pc = "increment", !.filed = filed, !.fam = fam], <<>>)

(* Retry.increment / is_exhausted *)
Dec(x) == IF x = NoneV THEN NoneV ELSE IF x = FalseV THEN -1 ELSE x - 1     \* False - 1 = -1 in Python
Exhausted(cnt) == \E f \in {"total", "connect", "read", "status", "other"} : IsNum(cnt[f]) /\ cnt[f] < 0
Truthy(x) == IsNum(x) /\ x # 0
RtOf(cnt) == <<cnt.total, cnt.connect, cnt.read, cnt.status, cnt.other>>

IncrementFn(c, m) ==
    LET cnt == m.cnt
        f == m.filed
        reraise == Step([m EXCEPT !.pc = "raise", !.res = [kind |-> "raise", status |-> 0, fam |-> m.fam, rt |-> <<>>]], <<>>)
    IN IF cnt.total = FalseV THEN reraise
       ELSE IF f = "connect" /\ cnt.connect = FalseV THEN reraise
       ELSE IF f = "read" /\ (cnt.read = FalseV \/ ~MethodAllowed(m.eff, c.method)) THEN reraise
       ELSE LET c2 == [cnt EXCEPT !.total = Dec(@), ![f] = Dec(@)] IN
            IF Exhausted(c2)
            THEN Step([m EXCEPT !.pc = "raise", !.res = [kind |-> "maxretry", status |-> 0, fam |-> m.fam, rt |-> <<>>]], <<>>)
            ELSE Step([m EXCEPT !.pc = "sleep", !.cnt = c2, !.nh = @ + 1, !.resp = FALSE, !.keep = FALSE], <<>>)

(* is_retry + the status branch of urlopen (lines 930-960) *)
IsRetry(c, m) ==
    LET oc == OC(m.cur) IN
    /\ MethodAllowed(m.eff, c.method)
    /\ \/ Forcelisted(m.eff, oc.status)
       \/ Truthy(m.cnt.total) /\ m.eff.respect /\ oc.ra >= 0 /\ oc.status \in RetryAfterCodes
ReturnNow(c, m) == Step([m EXCEPT !.pc = "return",
                            !.res = [kind |-> "response", status |-> OC(m.cur).status, fam |-> "", rt |-> RtOf(m.cnt)]], <<>>)
StatusRetryFn(c, m) ==
    LET c2 == [m.cnt EXCEPT !.total = Dec(@), !.status = Dec(@)] IN
    IF Exhausted(c2)
    THEN IF m.eff.ros
         THEN Step([m EXCEPT !.pc = "raise", !.res = [kind |-> "maxretry", status |-> 0, fam |-> "resp", rt |-> <<>>]], <<>>)
         ELSE ReturnNow(c, m)                       \* response.retries is the Retry before the increment
    ELSE Step([m EXCEPT !.pc = "sleep", !.cnt = c2, !.nh = @ + 1, !.resp = TRUE, !.keep = (c.ka = "keep")], <<>>)
StatusFn(c, m) == IF IsRetry(c, m) THEN StatusRetryFn(c, m) ELSE ReturnNow(c, m)

(* Retry.sleep: Retry-After first (when respected and > 0), else exponential backoff.           *)
(* parse_retry_after clamps at 0: a Retry-After date that already passed asks for no wait.       *)
(* RetryAfterNotClamped (deviation, must be refuted): the clamp is lost, sleep_for_retry calls    *)
(* time.sleep with a negative number, which raises ValueError out of urlopen.                     *)
IsUnclamped(c, m, defects) == /\ "RetryAfterNotClamped" \in defects
                              /\ m.resp /\ m.eff.respect /\ OC(m.cur).neg < 0
SleepFn(c, m, defects) ==
    LET oc == OC(m.cur)
        ra == IF m.resp /\ m.eff.respect /\ oc.ra > 0 THEN oc.ra ELSE 0
        base == m.eff.factor * (2 ^ (IF m.nh >= 1 THEN m.nh - 1 ELSE 0))
        lo == Min(m.eff.bmax, base)
        hi == Min(m.eff.bmax, base + m.eff.jitter)
        es == IF ra > 0 THEN <<EvSleep(ra, ra)>>
              ELSE IF m.nh <= 1 \/ hi <= 0 THEN <<>>
              ELSE <<EvSleep(lo, hi)>>
    IN IF IsUnclamped(c, m, defects)
       THEN Step([m EXCEPT !.pc = "raise", !.res = [kind |-> "raw", status |-> 0, fam |-> "x:ValueError", rt |-> <<>>]],
                 <<EvSleep(oc.neg, oc.neg)>>)
       ELSE Step([m EXCEPT !.pc = "recurse"], es)
RecurseFn(c, m) == Step([m EXCEPT !.pc = "attempt", !.cur = "", !.filed = "", !.fam = "", !.resp = FALSE], <<>>)
RaiseFn(c, m)   == Step([m EXCEPT !.pc = "done"],
                        <<EvEnd(m.res.kind, 0, m.res.fam, IF m.res.kind = "raw" THEN "na" ELSE "yes", <<>>)>>)
ReturnFn(c, m)  == Step([m EXCEPT !.pc = "done"], <<EvEnd("response", m.res.status, "", "na", m.res.rt)>>)

(* every non-environment step, by pc (used by the fold in Retry_Trace) *)
StepFn(c, m, defects) ==
    CASE m.pc = "derive"    -> DeriveFn(c, m)
      [] m.pc = "classify"  -> ClassifyFn(c, m, defects)
      [] m.pc = "increment" -> IncrementFn(c, m)
      [] m.pc = "status"    -> StatusFn(c, m)
      [] m.pc = "sleep"     -> SleepFn(c, m, defects)
      [] m.pc = "recurse"   -> RecurseFn(c, m)
      [] m.pc = "raise"     -> RaiseFn(c, m)
      [] m.pc = "return"    -> ReturnFn(c, m)

-----------------------------------------------------------------------------
(* MODEL: the state machine.                                                                   *)
VARIABLES cfg,     \* the configuration (constant after Init)
          m,       \* model record
          trail,   \* outcomes consumed so far (environment choices)
          evs,     \* events emitted so far (expected trace)
          ob       \* Rules monitor state over the emitted events
vars == <<cfg, m, trail, evs, ob>>

P == Policy(cfg)

Init == /\ cfg \in Cfgs
        /\ m = M0 /\ trail = <<>> /\ evs = <<>> /\ ob = Ob0

Do(r) == /\ m' = r.m
         /\ evs' = IF TrackTrail THEN evs \o r.ev ELSE evs
         /\ ob' = ObserveAll(P, cfg.method, ob, r.ev)
         /\ UNCHANGED cfg

(* After MaxLen scripted outcomes the environment stops injecting: the origin answers 200 (on   *)
(* the tunnel route the proxy keeps refusing CONNECT: no TLS party, see MC_Retry).  The tunnel   *)
(* route only ever fails before the request is sent.                                             *)
TailOutcome(c) == IF c.route = "tunnel" THEN "TunRefused" ELSE "OK200"
EnvAllows(o) == /\ (ob.att < MaxLen \/ o = TailOutcome(cfg))
                /\ IF cfg.route = "tunnel" THEN OC(o).stage \in {"connect", "tunnel"} ELSE OC(o).stage # "tunnel"

Derive     == m.pc = "derive"    /\ Do(DeriveFn(cfg, m))    /\ UNCHANGED trail
Attempt(o) == /\ m.pc = "attempt" /\ EnvAllows(o) /\ Do(AttemptFn(cfg, m, o))
              /\ trail' = IF TrackTrail THEN Append(trail, o) ELSE trail
Classify   == m.pc = "classify"  /\ Do(ClassifyFn(cfg, m, {})) /\ UNCHANGED trail
Increment  == m.pc = "increment" /\ Do(IncrementFn(cfg, m)) /\ UNCHANGED trail
StatusRetry == m.pc = "status" /\ IsRetry(cfg, m)  /\ Do(StatusRetryFn(cfg, m)) /\ UNCHANGED trail
StatusPass  == m.pc = "status" /\ ~IsRetry(cfg, m) /\ Do(ReturnNow(cfg, m))     /\ UNCHANGED trail
Sleep      == m.pc = "sleep" /\ ~IsUnclamped(cfg, m, KnownDefects) /\ Do(SleepFn(cfg, m, {})) /\ UNCHANGED trail
SleepUnclamped == m.pc = "sleep" /\ IsUnclamped(cfg, m, KnownDefects) /\ Do(SleepFn(cfg, m, KnownDefects)) /\ UNCHANGED trail
Recurse    == m.pc = "recurse"   /\ Do(RecurseFn(cfg, m))   /\ UNCHANGED trail
Raise      == m.pc = "raise"     /\ Do(RaiseFn(cfg, m))     /\ UNCHANGED trail
Return     == m.pc = "return"    /\ Do(ReturnFn(cfg, m))    /\ UNCHANGED trail

Next == \/ Derive \/ (\E o \in Outcomes : Attempt(o)) \/ Classify \/ Increment
        \/ StatusRetry \/ StatusPass \/ Sleep \/ SleepUnclamped \/ Recurse \/ Raise \/ Return
Spec == Init /\ [][Next]_vars /\ WF_vars(Next)

Done == m.pc = "done"

-----------------------------------------------------------------------------
(* What TLC checks on the Model (stage 1): the Rules clauses, through the same monitor.        *)
TypeOK == /\ m.pc \in {"derive", "attempt", "classify", "increment", "status", "sleep", "recurse", "raise", "return", "done"}
          /\ TrackTrail => ob.att = Len(trail)
          /\ m.nh >= 0
InvWithinBudgets        == WithinBudgets(P, ob)
InvNoResendAfterReach   == NoResendAfterReach(P, ob)
InvFalseReraises        == FalseReraises(P, ob)
InvRetryAfterOnlyFor    == RetryAfterOnlyFor(P, ob)
InvSleepsInRange        == SleepsInRange(P, ob)
InvCallerRetryUntouched == CallerRetryUntouched(P, ob)
InvExhaustionShape      == ExhaustionShape(P, cfg.method, ob)
InvAccounted            == Accounted(P, ob)
InvRules                == FirstFailing(P, cfg.method, ob) = "ok"
(* the design the Model implements agrees with the documented meaning of False / int / None     *)
InvDeriveAgrees         == m.pc # "derive" => m.eff = P
(* wire bound of the statement: attempts <= 1 + total *)
InvWireBound            == IsNum(P.total) => ob.att <= 1 + P.total
(* with the deviation RetryAfterNotClamped enabled the Model breaks exactly SleepsInRange first   *)
InvOnlyUnclampedSignature == FirstFailing(P, cfg.method, ob) \in {"ok", "SleepsInRange"}
(* termination: every configuration whose total is not None stops, whatever the environment does *)
Bounded(c) == Policy(c).total # NoneV
Terminates == Bounded(cfg) => <>Done
=============================================================================
