------------------------------- MODULE MC_Url -------------------------------
(* Exhaustive configurations + emission for Url (C14 and C15).                *)
(* C14: the input domain is   Pfx \o w,  w over the alphabet, Len(w) <= N     *)
(* partitioned into shards by the first one or two symbols of w, so that the  *)
(* shards together visit every string exactly once (stage 1 = union).         *)
(* C15 (second half): the domain is the set of URL shapes MCWireSeeds.        *)
EXTENDS Url, Json

CONSTANTS PrefixId,    \* 0: none, 1: "http://", 2: "https://", 3: "HTTP://a@", 4: "hTTps://B:1@"
          N,           \* bound on Len(w)
          SeedLen,     \* 0, 1 or 2: number of symbols that select the shard (0: no sharding)
          C1, C2       \* the selecting symbols (C1 = 0: the shard of all w shorter than SeedLen)

\* delimiter-heavy alphabet of the property:  a 1 / ? # \ @ : [ ] % .
MCAlpha12 == {97, 49, 47, 63, 35, 92, 64, 58, 91, 93, 37, 46}
\* the same plus an upper-case hex letter (host lower-casing / escape upper-casing)
MCAlpha13 == MCAlpha12 \cup {66}
\* the encoder's alphabet:  % a 1 B z SP / @ ? e-acute   (hex lower/upper, non-hex, must-encode, delimiters, non-ASCII)
MCAlphaEnc == {37, 97, 49, 66, 122, 32, 47, 64, 63, 233}
\* dot-segment alphabet:  / . a
MCAlphaPath == {47, 46, 97}

Pfx == CASE PrefixId = 1 -> <<104, 116, 116, 112, 58, 47, 47>>
         [] PrefixId = 2 -> <<104, 116, 116, 112, 115, 58, 47, 47>>
         [] PrefixId = 3 -> <<72, 84, 84, 80, 58, 47, 47, 97, 64>>
         [] PrefixId = 4 -> <<104, 84, 84, 112, 115, 58, 47, 47, 66, 58, 49, 64>>
         [] OTHER -> <<>>

MCMaxLen == Len(Pfx) + N
MCGrow == C1 # 0 \/ SeedLen = 0          \* SeedLen = 0: one shard, the whole domain
MCSeeds == IF C1 = 0
           THEN {Pfx} \cup (IF SeedLen = 2 THEN {Pfx \o <<c>> : c \in Alphabet} ELSE {})
           ELSE IF SeedLen = 2 THEN {Pfx \o <<C1, C2>>} ELSE {Pfx \o <<C1>>}

\* one line per string: the reference reading (kind, positions of userinfo and host in the
\* prefixed string, port) and the observation the model predicts
UrlTuple(u) == <<u.scheme, u.auth, u.host, u.port, u.path, u.query, u.fragment>>
\* sparse: strings for which the model predicts LocationParseError print nothing
EmitOf(r, m, ev) ==
    m.k # "lpe" =>
        PrintT(<<"R", ToJson(<<s, r.kind, r.pos, r.port, m.k,
                               IF m.k = "url" THEN UrlTuple(m.u) ELSE <<>>,
                               IF m.k = "url" THEN ev.k2 ELSE "-",
                               IF m.k = "url" THEN ev.u2 = ev.u ELSE FALSE,
                               IsHttp(r) /\ r.host # <<>> >>)>>)
EmitRef == EmitOf(Ref(s), ModelParse(s), ModelEvent(s))

-----------------------------------------------------------------------------
(* C15: URL shapes.  The same variable s ranges over the texts of the shapes (Seeds <- MCWireSeeds, *)
(* Grow <- FALSE); every text is read with Ref and the wire image derived with WireOf.               *)
CONSTANTS WLevel,      \* 1: quick subset, 2: all shapes
          WShard, WShards   \* this run handles the shapes whose host index % WShards = WShard

Ascii == " !\"#$%&'()*+,-./0123456789:;<=>?@ABCDEFGHIJKLMNOPQRSTUVWXYZ[\\]^_`abcdefghijklmnopqrstuvwxyz{|}~"
Code(ch) == 31 + CHOOSE i \in 1..Len(Ascii) : SubSeq(Ascii, i, i) = ch
S(str) == [i \in 1..Len(str) |-> Code(SubSeq(str, i, i))]

Buecher == <<98, 252, 99, 104, 101, 114>>
WSchemes == {S("http"), S("https")}
WHostSeq == << S("example.com"), S("example.com."), S("127.0.0.1"), S("[::1]"), S("[fe80::1%25eth0]"),
               S("[fe80::1%eth0]"), Buecher \o S(".example"), Buecher \o S(".example."), S("[::ffff:1.2.3.4]"),
               S("a-b.c_d.example"), <<20363, 12360>> \o S(".jp") >>
WHostIdx == IF WLevel = 1 THEN 1..8 ELSE 1..Len(WHostSeq)
WPorts == IF WLevel = 1 THEN {<<>>, S(":"), S(":80"), S(":443"), S(":8080"), S(":0")}
          ELSE {<<>>, S(":"), S(":80"), S(":443"), S(":080"), S(":00443"), S(":8080"), S(":0"), S(":65535")}
WUserinfos == IF WLevel = 1 THEN {<<>>, S("u:p@")} ELSE {<<>>, S("u:p@"), S("a@b@"), S("%41:%zz@")}
WTails == IF WLevel = 1 THEN {<<>>, S("/"), S("/a/../b?x=1#frag"), S("?q"), S("#f"), S("/a%20b/./%7e?y%2f")}
          ELSE {<<>>, S("/"), S("/a/../b?x=1#frag"), S("?q"), S("#f"), S("/a%20b/./%7e?y%2f"), S("/a b?c d#e f"),
                S("//x"), S("/%zz?%"), S("\\x"), S("/p?"), S("/../..?a?b#c#d"), S("/") \o Buecher \o S("?") \o Buecher}
CSS == S("://")
MCWireSeeds == { sch \o CSS \o ui \o WHostSeq[h] \o po \o tl :
                    sch \in WSchemes, ui \in WUserinfos, h \in {i \in WHostIdx : i % WShards = WShard},
                    po \in WPorts, tl \in WTails }
MCProxy == S("http://Proxy.test:3128")
PxRef == Ref(MCProxy)

\* variants of a URL that differ only in scheme/host letter case or an explicit default port, built
\* from the reading itself; plus one control that is NOT equivalent (another port)
Upper(t) == IF t = <<>> THEN <<>> ELSE [i \in 1..Len(t) |-> UpperC(t[i])]
UpperHost(h) == IF Bracketed(h) /\ HasAny(h, {PCT})
                THEN Upper(SubSeq(h, 1, FirstIn(h, 1, Len(h), {PCT}))) \o SubSeq(h, FirstIn(h, 1, Len(h), {PCT}) + 1, Len(h))
                ELSE Upper(h)
RestOf(R) == R.path \o (IF R.query = NONE THEN <<>> ELSE <<QM>> \o R.query)
                    \o (IF R.fragment = NONE THEN <<>> ELSE <<HASH>> \o R.fragment)
Compose(sch, R, host, portpart) == sch \o <<COLON, SLASH, SLASH>> \o (IF R.userinfo = NONE THEN <<>> ELSE R.userinfo \o <<AT>>)
                                   \o host \o portpart \o RestOf(R)
PortPart(R) == IF R.colon THEN <<COLON>> \o R.digits ELSE <<>>
TogglePort(R, sc) == IF R.port = NOPORT THEN <<COLON>> \o Digits(DefaultPort(sc))
                     ELSE IF R.port = DefaultPort(sc) THEN <<>> ELSE PortPart(R)
P8081 == S(":8081")
ProxyDial == S("proxy.test")
VariantsOf2(R, sc) == << Compose(Upper(R.scheme), R, UpperHost(R.host), PortPart(R)),
                         Compose(R.scheme, R, R.host, TogglePort(R, sc)),
                         Compose(Upper(R.scheme), R, UpperHost(R.host), TogglePort(R, sc)),
                         Compose(R.scheme, R, R.host, P8081) >>
VariantsOf(R) == VariantsOf2(R, Lower(R.scheme))

\* ---- stage 1 (C15)
PxModes == {"none", "proxy"}
PxText(px) == IF px = "none" THEN NONE ELSE MCProxy
\* every shape is inside the property's quantifier
ShapesDefined == WireDefined(Ref(s))
\* Model |= Rules: the monitor accepts the observation WireOf describes
WireSelfConsistentOf(R) == \A px \in PxModes : WireClauses(WireObs(s, PxText(px), WireOf(R, px, PxRef))) = {}
WireSelfConsistent == WireSelfConsistentOf(Ref(s))
\* the four derivations agree with each other
FourAgreeOf(R, W, hp) ==
    /\ W.key[2] = WireHost(R.host) /\ W.dialhost = Unbracket(W.key[2]) /\ W.dialport = W.key[3]
    /\ ~hp.bad /\ Unbracket(SubSeq(W.hosthdr, hp.h1, hp.hend)) = BareHost(W.dialhost)
    /\ (IF hp.colon THEN PortVal(W.hosthdr, hp.d1, Len(W.hosthdr), 0) ELSE DefaultPort(W.key[1])) = W.dialport
    /\ W.sni # NONE => /\ W.sni = BareHost(W.dialhost) /\ ~HasAny(W.sni, {LBR, RBR, PCT}) /\ W.sni[Len(W.sni)] # DOT
                       /\ W.sni = Unbracket(SubSeq(W.hosthdr, hp.h1, hp.hend))
    /\ (W.sni # NONE) = (W.key[1] = HTTPS)
    /\ ~HasAny(W.target, {HASH, BSL}) /\ W.target[1] = SLASH
    /\ OnlyAllowed(SubSeq(W.target, 1, FirstIn(W.target, 1, Len(W.target), {QM}) - 1), "path")
    /\ NoDotSegments(SubSeq(W.target, 1, FirstIn(W.target, 1, Len(W.target), {QM}) - 1))
FourAgree1(R, W) == FourAgreeOf(R, W, HostPort(W.hosthdr, 1, Len(W.hosthdr)))
FourDerivationsAgree == FourAgree1(Ref(s), WireOf(Ref(s), "none", PxRef))
\* through the proxy: dial the proxy; the absolute-form / CONNECT target names the same host and port; no
\* userinfo, no fragment
ProxiedAgreeOf(R, W, D, T) ==
    /\ W.dialhost = ProxyDial /\ W.dialport = 3128
    /\ W.hosthdr = D.hosthdr /\ W.sni = D.sni /\ W.key = D.key
    /\ W.mode = "forward" => /\ T.userinfo = NONE /\ T.fragment = NONE /\ T.kind = "auth"
                             /\ T.host = D.key[2] /\ EffPort(T, D.key[1]) = D.key[3]
                             /\ T.path \o (IF T.query = NONE THEN <<>> ELSE <<QM>> \o T.query) = D.target
    /\ W.mode = "tunnel" => /\ W.target = D.target
                            /\ W.connect = D.key[2] \o <<COLON>> \o Digits(D.key[3])
ProxiedAgree1(R, W) == ProxiedAgreeOf(R, W, WireOf(R, "none", PxRef), IF W.mode = "forward" THEN Ref(W.target) ELSE R)
ProxiedDerivationsAgree == ProxiedAgree1(Ref(s), WireOf(Ref(s), "proxy", PxRef))
\* case / default-port variants: equivalent, same pool key, same wire image; the control is not
VariantsSameOf(R, vs) ==
    /\ \A i \in 1..3 : /\ Equivalent(R, Ref(vs[i]))
                       /\ \A px \in PxModes : WireOf(Ref(vs[i]), px, PxRef) = WireOf(R, px, PxRef)
    /\ ~Equivalent(R, Ref(vs[4])) /\ WireOf(Ref(vs[4]), "none", PxRef).key # WireOf(R, "none", PxRef).key
R0(R) == (R.port # 0) => VariantsSameOf(R, VariantsOf(R))
VariantsSameKeySameWire == R0(Ref(s))

EmitWireOf(R) ==
    PrintT(<<"W", ToJson([s |-> s, px |-> MCProxy,
                          wire |-> [px \in PxModes |-> WireOf(R, px, PxRef)],
                          facts |-> [px \in PxModes |-> WireFacts(R, px)],
                          vars |-> VariantsOf(R),
                          eq |-> [i \in 1..4 |-> Equivalent(R, Ref(VariantsOf(R)[i]))]])>>)
EmitWire == EmitWireOf(Ref(s))
=============================================================================
