------------------------------- MODULE MC_Url -------------------------------
(* Exhaustive configuration + emission for Url (C14).  The input domain is   *)
(*   Pfx \o w,  w over the alphabet, Len(w) <= N                              *)
(* partitioned into shards by the first one or two symbols of w, so that the  *)
(* shards together visit every string exactly once (stage 1 = union).         *)
EXTENDS Url, Json

CONSTANTS PrefixId,    \* 0: none, 1: "http://", 2: "https://", 3: "HTTP://a@", 4: "hTTps://B:1@"
          N,           \* bound on Len(w)
          SeedLen,     \* 1 or 2: number of symbols that select the shard
          C1, C2       \* the selecting symbols (C1 = 0: the shard of all w shorter than SeedLen)

\* delimiter-heavy alphabet of the property:  a 1 / ? # \ @ : [ ] % .
MCAlpha12 == {97, 49, 47, 63, 35, 92, 64, 58, 91, 93, 37, 46}
\* the same plus an upper-case hex letter (host lower-casing / escape upper-casing)
MCAlpha13 == MCAlpha12 \cup {66}

Pfx == CASE PrefixId = 1 -> <<104, 116, 116, 112, 58, 47, 47>>
         [] PrefixId = 2 -> <<104, 116, 116, 112, 115, 58, 47, 47>>
         [] PrefixId = 3 -> <<72, 84, 84, 80, 58, 47, 47, 97, 64>>
         [] PrefixId = 4 -> <<104, 84, 84, 112, 115, 58, 47, 47, 66, 58, 49, 64>>
         [] OTHER -> <<>>

MCMaxLen == Len(Pfx) + N
MCGrow == C1 # 0
MCSeeds == IF C1 = 0
           THEN {Pfx} \cup (IF SeedLen = 2 THEN {Pfx \o <<c>> : c \in Alphabet} ELSE {})
           ELSE IF SeedLen = 2 THEN {Pfx \o <<C1, C2>>} ELSE {Pfx \o <<C1>>}

\* one line per string: the reference reading (kind, positions of userinfo and host in the
\* prefixed string, port) and the observation the model predicts
UrlTuple(u) == <<u.scheme, u.auth, u.host, u.port, u.path, u.query, u.fragment>>
EmitOf(r, m) ==
        PrintT(<<"R", ToJson(<<s, r.kind, r.pos, r.port, m.k,
                               IF m.k = "url" THEN UrlTuple(m.u) ELSE <<>> >>)>>)
=============================================================================
