---------------------------- MODULE Timeout_Trace ----------------------------
(* Batch trace validation for C19.  Every trace is one run recorded from the real urllib3:      *)
(*   [cfg |-> [ps, D, sch, rs], ctor |-> outcome of building the pool,                          *)
(*    reqs |-> one record per request with what reached the socket layer on the virtual clock]   *)
(* in exactly the shape of Timeout!Run.  The monitor is total: it evaluates the RULES clauses of  *)
(* Timeout.tla (TraceVerdict - the operator that stage 1 proves "ok" on every behaviour of the    *)
(* model) on the logged values, prints one VERDICT line per trace naming the first failing        *)
(* clause and the request it occurred in, and moves on.                                           *)
EXTENDS Timeout, Json, IOUtils

Traces == JsonDeserialize(IOEnv.TRACE_FILE)
NoConfigs == {}      \* the model's constants are not used by the monitor

VARIABLE tid
tvars == <<vars, tid>>

NoCfg == [ps |-> [kind |-> "omit", t |-> UNSET, c |-> UNSET, r |-> UNSET], D |-> NONE, sch |-> "http", rs |-> <<>>]
TInit == /\ tid = 1
         /\ cfg = NoCfg /\ pc = "done" /\ k = 1 /\ ctor = "" /\ poolT = NoTimeout /\ reqT = NoTimeout
         /\ connOpen = FALSE /\ connTimeout = NONE /\ sockT = NONE /\ clock = 0 /\ hist = <<>>
         /\ cur = Blank(NoCfg.ps, 0)

TNext == /\ tid <= Len(Traces)
         /\ LET v == TraceVerdict(Traces[tid])
                f == TraceCovers(Traces[tid])
            IN PrintT(<<"VERDICT", tid, v[1], v[2], f[1], f[2], f[3], f[4], f[5], f[6]>>)
         /\ tid' = tid + 1
         /\ UNCHANGED vars

TSpec == TInit /\ [][TNext]_tvars
=============================================================================
