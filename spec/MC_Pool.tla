------------------------------ MODULE MC_Pool ------------------------------
(* Exhaustive configurations + history emission for Pool (C01).                               *)
(* No VIEW: `hist` makes every distinct history a distinct state, so TLC enumerates paths.    *)
(* Emission: one JSON line per finished history (scenario + the Model's expected              *)
(* observations).  Sharded over (configuration, first outcome) so that K single-worker JVMs   *)
(* partition the histories exactly (the shards are disjoint and their union is everything).   *)
EXTENDS Pool, Json

CONSTANTS ShardK, ShardS, CfgNs, CfgRetries, CfgRoutes, CfgModes,
          SampleM     \* 1: emit every finished history; M > 1: emit the histories whose index sum is 0 modulo M

Modes == << [p |-> TRUE, r |-> TRUE], [p |-> FALSE, r |-> FALSE], [p |-> FALSE, r |-> TRUE], [p |-> TRUE, r |-> FALSE] >>

MCConfigs == {[n |-> n, block |-> b, retries |-> r, preload |-> Modes[m].p, release |-> Modes[m].r, route |-> ro] :
                 n \in CfgNs, b \in BOOLEAN, r \in CfgRetries, m \in CfgModes, ro \in CfgRoutes}

\* ---- alphabets ----
ErrSyms == {"c_refused", "c_timeout", "s_oserr", "r_timeout", "r_reset", "r_eof", "r_garbage", "r_ssl"}
MCAll   == NewSyms \cup ConnectSyms \cup SendSyms \cup RecvSyms \cup ReplySyms
\* one representative per class (used for later attempts / later requests in the quick tier)
MCReps  == {"n_invalid", "n_boom", "c_refused", "c_boom", "s_epipe", "s_oserr", "r_timeout", "r_eof", "r_boom",
            "ok_ka", "ok_close", "s503_ka", "r302_ka", "short", "b_boom"}
MCSmall == {"n_invalid", "c_refused", "r_eof", "r_boom", "ok_ka", "ok_close", "s503_ka", "r302_ka", "short"}
MCTiny  == {"r_eof", "ok_ka", "ok_close", "short", "r302_ka"}
MCTinyN == {"n_invalid", "r_eof", "ok_ka", "ok_close", "short", "r302_ka"}
MCTinyS == {"n_invalid", "r_eof", "ok_ka", "ok_chunked", "short", "r302_ka", "s503_ra_bad", "s503_ra_boom"}
MCMicro == {"r_eof", "ok_ka", "short"}
MCMicroN == {"n_invalid", "r_eof", "ok_ka", "short"}
MCDispMicro == {"read", "release", "stream", "read1cl"}
MCCov == {"ok_ka", "r_eof", "s503_ra_bad"}
MCDispTwo == {"read", "release"}
MCHead == {"ok_ka", "ok_close", "ok_chunked", "ok_10", "r_eof"}
MCNoHead == {}
\* will-close replies x mid-body faults (plus the plain ones), for the small exhaustive "edge" plan of the quick tier
MCEdge == {"ok_ka", "ok_close", "ok_10", "s204_ka", "short_close", "bc_boom", "bc_reset", "bc_timeout"}
MCDispAll == {"read", "read2rel", "release", "drain", "close", "stream", "read1all", "read1n", "read1cl"}
MCDispSmall == {"read", "release", "close", "stream", "read1cl"}
MCNoDefects == {}
MCTraitsNone == {}
MCTraitsOldRelease == {"ReleaseLeavesUnfinishedOpen"}
MCTraitsD2 == {"D2_ProxyReadErrorMisfiled"}
MCTraitsOldReleaseD2 == {"ReleaseLeavesUnfinishedOpen", "D2_ProxyReadErrorMisfiled"}
MCF1 == {"C01_F1"}
MCMutCloseNoRelease == {"M_CloseNoRelease"}
MCMutFinallyNoRelease == {"M_FinallyNoRelease"}
MCMutFullNoClose == {"M_FullNoClose"}
MCMutExcept == {"M_ExceptDropsHTTPException"}
MCMutReleaseKeeps == {"M_ReleaseKeepsConn"}
MCMutDropped == {"M_DroppedNotClosed"}
MCSleepBeforeDrain == {"SleepBeforeDrain"}
MCRead1EndDoesNotClose == {"Read1EndDoesNotClose"}
MCHeadShortcutOutsideCatcher == {"HeadShortcutOutsideCatcher"}
MCUncleanExitClosesConnOnly == {"UncleanExitClosesConnOnly"}
MCReleaseOnlyIfConn == {"ReleaseOnlyIfConn"}
MCPutWithoutCheckout == {"PutWithoutCheckout"}

\* ---- sharding ----
SymSeq == <<"n_invalid", "n_boom", "c_refused", "c_timeout", "c_boom", "s_epipe", "s_reset", "s_oserr", "s_boom", "r_timeout", "r_reset",
            "r_eof", "r_garbage", "r_ssl", "r_boom", "ok_ka", "ok_close", "ok_chunked", "s503_ka", "s503_close",
            "s503_ra_bad", "s503_ra_boom", "r302_ka",
            "r302_close", "short", "b_boom", "b_reset", "b_timeout", "x_stale", "ok_10", "s204_ka", "short_close",
            "bc_boom", "bc_reset", "bc_timeout">>
SymIdx(s) == CHOOSE i \in 1..Len(SymSeq) : SymSeq[i] = s
RIdx(r) == CASE r = "F" -> 0 [] r = "0" -> 1 [] r = "1" -> 2 [] OTHER -> 3
CfgIdx(c) == RIdx(c.retries) + 5 * (IF c.preload THEN 1 ELSE 0) + 3 * (IF c.release THEN 1 ELSE 0)
             + 7 * c.n + (IF c.block THEN 11 ELSE 0) + (IF c.route = "fwd" THEN 13 ELSE 0)
\* histories are assigned to shards by (configuration, first outcome); those that begin with a request that fails
\* before any checkout (no outcome) by configuration alone
ShardC == /\ (hist = <<>> /\ att # <<>>) => ((CfgIdx(cfg) + 3 * SymIdx(att[1])) % ShardK = ShardS)
          /\ (hist # <<>> /\ hist[1].how = "badarg") => (CfgIdx(cfg) % ShardK = ShardS)

\* ---- sampling (quick tier): histories whose index sum is 0 modulo SampleM.  Every factor (configuration ordinal,
\* outcome index of each attempt, disposal index of each disposal) runs over at least SampleM consecutive values, so
\* for any two factors fixed some value of a third makes the sum 0: every pair of (configuration, outcome, disposal)
\* values that occurs in the full product also occurs in the sample.
\* (ordered so that MCDispMicro, MCDispSmall and MCDispAll are each an initial segment: consecutive indices)
DispSeq == <<"read", "release", "stream", "read1cl", "close", "read2rel", "drain", "read1all", "read1n">>
DispIdx(d) == CHOOSE i \in 1..Len(DispSeq) : DispSeq[i] = d
ModeIdx(c) == CHOOSE m \in 1..4 : Modes[m].p = c.preload /\ Modes[m].r = c.release
CfgOrd(c) == RIdx(c.retries) + 4 * (ModeIdx(c) - 1) + 16 * (c.n - 1) + 32 * (IF c.block THEN 1 ELSE 0)
             + 64 * (IF c.route = "fwd" THEN 1 ELSE 0)
RECURSIVE SeqSum(_)
SeqSum(q) == IF q = <<>> THEN 0 ELSE q[1] + SeqSum(Tail(q))
StepIdx(st) == IF st.op = "disp" THEN DispIdx(st.how)
               ELSE IF st.op = "cut" THEN 1
               ELSE SeqSum([i \in 1..Len(st.atts) |-> SymIdx(st.atts[i])]) + (IF st.how = "badarg" THEN 1 ELSE IF st.how = "head" THEN 2 ELSE 0)
Sampled == SampleM = 1 \/ (CfgOrd(cfg) + SeqSum([i \in 1..Len(hist) |-> StepIdx(hist[i])])) % SampleM = 0

\* ---- emission ----
Fin == [qlen |-> Len(queue),
        pooled |-> Cardinality({i \in 1..Len(queue) : queue[i] # NONE}),
        pooled_open |-> Cardinality({i \in 1..Len(queue) : QSocks[i] # 0}),
        dials |-> Len(socks)]
Emit == (pc = "idle" /\ pc' = "done" /\ Sampled) =>
            PrintT(<<"SC", ToJson([cfg |-> cfg, steps |-> hist, fin |-> Fin])>>)
NoEmit == TRUE
=============================================================================
