---------------------------- MODULE Redirect ----------------------------
(* Redirect handling of urllib3 (properties C05 and C06).                                        *)
(*                                                                                               *)
(* MODEL  (implementation-shaped): PoolManager.urlopen / ProxyManager.urlopen (cross-host         *)
(* redirects handled by the manager: derive the Retry, urljoin, 303 rewrite, strip loop,          *)
(* increment, recurse), the redirect branch of HTTPConnectionPool.urlopen (bare pool: host check, *)
(* 303 rewrite, increment, recurse with the Location verbatim) and Retry.__init__ / from_int /    *)
(* increment / is_exhausted for the redirect counters.                                           *)
(*                                                                                               *)
(* RULES  (the property, independent of the mechanism): a small monitor automaton over what an    *)
(* outside observer sees -- the caller's configuration, the 3xx answers the servers gave, the     *)
(* requests that reached the network (per origin) and the outcome.  MsgClause judges each new     *)
(* request, EndClause the outcome; both name the failing clause.  The budget comes from the       *)
(* caller's policy (Pol/Budget/Disabled), origin equality and relative resolution from the        *)
(* monitor's own operators (Origin, Resolve) -- never from the Model's eff/cur variables.         *)
(* The same MsgClause/EndClause/GAfter operators are used by Redirect_Trace.tla on traces         *)
(* recorded from the real code.                                                                  *)
EXTENDS Integers, Sequences, FiniteSets, TLC

CONSTANTS Mode,          \* "free": the environment picks every answer;  "planned": Init picks a whole plan
          MaxHops,       \* free mode: at most this many 3xx answers
          Deviations,    \* named deviations of the Model (all repaired or hypothetical; used as non-vacuity gates):
                         \* "D1", "D10", "AbsentOnly", "EmptyIsMissing", "FrozensetNotNormalised", "NoJoin", "KeepBody303",
                         \* "FirstHopOnly", "IgnorePort"
          CfgSet,        \* set of caller configurations
          PlanSet(_),    \* planned mode: the plans (sequences of 3xx answers) tried for a configuration
          HopAlphabet(_, _)   \* free mode: the 3xx answers possible for (cfg, current url)

N == -100    \* Python None
F == -200    \* Python False (counters themselves only ever reach -1)

-----------------------------------------------------------------------------
(* URLs on symbolic components.  port 0 = not written.  path = sequence of segments.              *)

LowerHost(h) == CASE h = "A.TEST" -> "a.test" [] h = "B.Test" -> "b.test" [] h = "Proxy.Test" -> "proxy.test"
                  [] OTHER -> h
DefaultPort(s) == IF s = "https" THEN 443 ELSE 80
Origin(u) == <<u.scheme, LowerHost(u.host), IF u.port = 0 THEN DefaultPort(u.scheme) ELSE u.port>>
SameOrigin(u, v) == Origin(u) = Origin(v)

\* RFC 3986 5.2.4 on segment sequences (no trailing dot segments are ever generated)
RECURSIVE RemDots(_, _)
RemDots(in, out) ==
    IF in = <<>> THEN out
    ELSE IF Head(in) = ".." THEN RemDots(Tail(in), IF out = <<>> THEN out ELSE SubSeq(out, 1, Len(out) - 1))
    ELSE IF Head(in) = "." THEN RemDots(Tail(in), out)
    ELSE RemDots(Tail(in), Append(out, Head(in)))

\* A 3xx answer: [code, form, scheme, host, port, ref].  RFC 3986 5.2.2 reference resolution.
Resolve(cur, h) ==
    CASE h.form = "abs"       -> [scheme |-> h.scheme, host |-> h.host, port |-> h.port, path |-> RemDots(h.ref, <<>>)]
      [] h.form = "schemerel" -> [scheme |-> cur.scheme, host |-> h.host, port |-> h.port, path |-> RemDots(h.ref, <<>>)]
      [] h.form = "pathabs"   -> [cur EXCEPT !.path = RemDots(h.ref, <<>>)]
      [] h.form = "rel"       -> [cur EXCEPT !.path = RemDots(SubSeq(cur.path, 1, Len(cur.path) - 1) \o h.ref, <<>>)]

NoHop == [code |-> 0, form |-> "none", scheme |-> "", host |-> "", port |-> 0, ref |-> <<>>]
OK200 == [NoHop EXCEPT !.code = 200]

-----------------------------------------------------------------------------
(* Headers.  Caller entries: [kind, sp, vals]; on the wire: set of <<kind, joined value>>.        *)

DefaultRemove == {"auth", "cookie", "pauth"}          \* Retry.DEFAULT_REMOVE_HEADERS_ON_REDIRECT
ContentKinds == {"ctype", "clen", "te"}               \* what a 303 follow-up must not carry
RECURSIVE Join(_)
Join(vs) == IF Len(vs) = 1 THEN vs[1] ELSE vs[1] \o ", " \o Join(Tail(vs))
RECURSIVE ValsOf(_, _)
ValsOf(hs, k) == IF hs = <<>> THEN <<>>
                 ELSE (IF hs[1].kind = k THEN hs[1].vals ELSE <<>>) \o ValsOf(Tail(hs), k)
KindsIn(hs) == {hs[i].kind : i \in 1..Len(hs)}
HdrSet(hs) == {<<k, Join(ValsOf(hs, k))>> : k \in KindsIn(hs)}
WireKinds(m) == {x[1] : x \in m.hdrs}

-----------------------------------------------------------------------------
(* RULES                                                                                          *)
(* A policy value: [kind, total, redirect, raise, remove, rmsp, rmct], kind in none/false/int/retry. *)
(* remove = the KINDS of header named by remove_headers_on_redirect (membership is case-insensitive on *)
(* both sides); rmsp / rmct = how the caller wrote the names (spelling) and handed them over (list,    *)
(* tuple, set, frozenset, DEFAULT | {extra}); "default" = the keyword was not passed.                  *)

NonePol == [kind |-> "none", total |-> N, redirect |-> N, raise |-> TRUE, remove |-> DefaultRemove, rmsp |-> "default",
            rmct |-> "default"]
\* Request level first, then pool / manager constructor.  A request-level None -- the kwarg omitted, or passed
\* explicitly as retries=None (c.reqnone) -- means "use the lower level".
Pol(c) == IF c.reqpol.kind # "none" THEN c.reqpol ELSE c.clipol
\* The headers in effect: the request's own mapping when it supplies one (c.carrier # "none", whatever it holds),
\* otherwise the pool / manager-level defaults.  Defaults never come back once the request's mapping is in use.
EffHdrs(c) == IF c.carrier # "none" THEN c.hdrs ELSE c.dhdrs
Managed(c) == c.client \in {"pm", "proxy"}
Disabled(c) == \/ ~c.flag
               \/ Pol(c).kind = "false"
               \/ Pol(c).kind = "retry" /\ (Pol(c).redirect = F \/ Pol(c).total = F)
Inf == 1000
Fin(x) == IF x = N THEN Inf ELSE x
Min2(a, b) == IF a < b THEN a ELSE b
Budget(c) == IF Disabled(c) THEN 0
             ELSE CASE Pol(c).kind = "none"  -> 3                                  \* Retry.DEFAULT = Retry(3)
                    [] Pol(c).kind = "int"   -> Pol(c).total
                    [] Pol(c).kind = "retry" -> Min2(Fin(Pol(c).total), Fin(Pol(c).redirect))
Returns3xx(c) == Disabled(c) \/ (Pol(c).kind = "retry" /\ ~Pol(c).raise)
RemoveSet(c) == IF Pol(c).kind = "retry" THEN Pol(c).remove ELSE DefaultRemove
BodyTok(c, payload) == IF c.body = "none" THEN "none" ELSE payload

NoMsg == [url |-> [scheme |-> "", host |-> "", port |-> 0, path |-> <<>>], method |-> "", body |-> "none", hdrs |-> {}]
\* monitor state: requests seen, expected URL of the last one, a cross-origin hop happened, last request
G0(c) == [n |-> 0, exp |-> c.start, tainted |-> FALSE, s303 |-> FALSE, lm |-> NoMsg]

ExpUrl(c, g, hop) == IF g.n = 0 THEN c.start ELSE Resolve(g.exp, hop)
GAfter(c, g, hop, m) ==
    [n |-> g.n + 1, exp |-> ExpUrl(c, g, hop),
     tainted |-> g.tainted \/ (g.n > 0 /\ ~SameOrigin(g.exp, ExpUrl(c, g, hop))),
     s303 |-> g.s303 \/ (g.n > 0 /\ hop.code = 303), lm |-> m]

\* Verdict on the (g.n+1)-th request m, reached through the 3xx answer `hop` (NoHop for the first).
MsgClause(c, g, hop, m, payload, skip) ==
    LET first == g.n = 0
        g2 == GAfter(c, g, hop, m)
        supplied == KindsIn(EffHdrs(c))
        must(k) == /\ ~(k \in RemoveSet(c))                     \* sensitive kinds: stripping early is over-caution
                   /\ ~(k = "ctype" /\ g2.s303)                 \* content headers go with the body
        on(name) == ~(name \in skip)         \* clauses of the other property of the pair can be switched off
    IN
    IF on("RedirectWithinBudget") /\ g.n > Budget(c) THEN "RedirectWithinBudget"
    ELSE IF on("NoContactWhenDisabled") /\ Disabled(c) /\ ~first THEN "NoContactWhenDisabled"
    ELSE IF on("SingleHostRefuses") /\ ~Managed(c)
            /\ (\/ Origin(m.url) # Origin(c.start)                                         \* sent to another host
                \/ ~first /\ hop.form = "abs" /\ ~SameOrigin(Resolve(g.exp, hop), c.start))  \* followed, not refused
         THEN "SingleHostRefuses"
    ELSE IF on("RelativeResolved") /\ (Managed(c) \/ first) /\ (Origin(m.url) # Origin(g2.exp) \/ m.url.path # g2.exp.path)
         THEN "RelativeResolved"
    ELSE IF on("SeeOtherRewrites") /\ ~first /\ hop.code = 303
            /\ (m.method # "GET" \/ m.body # "none" \/ WireKinds(m) \cap ContentKinds # {})
         THEN "SeeOtherRewrites"
    ELSE IF on("OthersKeepMethodBody") /\ first /\ (m.method # c.method \/ m.body # BodyTok(c, payload)) THEN "OthersKeepMethodBody"
    ELSE IF on("OthersKeepMethodBody") /\ ~first /\ hop.code # 303 /\ (m.method # g.lm.method \/ m.body # g.lm.body)
         THEN "OthersKeepMethodBody"
    ELSE IF on("SensitiveStripped") /\ Managed(c) /\ g2.tainted /\ WireKinds(m) \cap RemoveSet(c) # {} THEN "SensitiveStripped"
    ELSE IF on("OthersPreserved") /\ \E k \in supplied : must(k) /\ ~(<<k, Join(ValsOf(EffHdrs(c), k))>> \in m.hdrs)
         THEN "OthersPreserved"
    ELSE "ok"

\* Verdict on the outcome.  lr = the last answer the client received (OK200 or a 3xx answer).
Resp(s) == [kind |-> "resp", status |-> s]
Raised(k) == [kind |-> k, status |-> 0]
NoOutcome == [kind |-> "none", status |-> 0]
EndClause(c, g, lr, out, skip) ==
    LET followed == g.n - 1
        target == Resolve(g.exp, lr)
        need(name, good) == IF good \/ name \in skip THEN "ok" ELSE name IN
    IF ~(out.kind \in {"resp", "MaxRetryError", "HostChangedError"}) THEN "OnlyDocumentedOutcomes"
    ELSE IF lr.code = 200 THEN need("ReturnShape", out = Resp(200))
    ELSE IF Disabled(c) THEN need("NoContactWhenDisabled", out = Resp(lr.code))
    ELSE IF followed >= Budget(c)
         THEN need("ExhaustionShape", out = (IF Returns3xx(c) THEN Resp(lr.code) ELSE Raised("MaxRetryError")))
    ELSE IF ~Managed(c) /\ lr.form = "abs" /\ ~SameOrigin(target, c.start)
         THEN need("SingleHostRefuses", out = Raised("HostChangedError"))
    ELSE "ok"      \* stopped although the budget allowed more: "never exceeds" is not violated (drift at most)

-----------------------------------------------------------------------------
(* MODEL                                                                                          *)

VARIABLES cfg, plan, pc, eff, cur, curform, method, body, hdrs, resp, outcome, hist, wire, g, bad,
          hdrsAlt,    \* observation only: the headers the design without the recorded deviations would carry
          allpx       \* every redirect followed so far pointed at the forwarding proxy's own origin (class of D10)
vars == <<cfg, plan, pc, eff, cur, curform, method, body, hdrs, resp, outcome, hist, wire, g, bad, hdrsAlt, allpx>>
View == <<cfg, plan, pc, eff, cur, curform, method, body, hdrs, resp, outcome, g, bad, hdrsAlt, allpx>>   \* hist, wire: observation only

Payload == "payload"

\* Retry.__init__ (the part that concerns redirects)
RetryInit(total, redirect, raise, remove) ==
    IF redirect = F \/ total = F
    THEN [total |-> total, redirect |-> 0, raise |-> FALSE, remove |-> remove]
    ELSE [total |-> total, redirect |-> redirect, raise |-> raise, remove |-> remove]
RetryDefault == RetryInit(3, N, TRUE, DefaultRemove)
\* Retry.__init__ lower-cases every name of remove_headers_on_redirect, whatever container carried them.
\* Deviation FrozensetNotNormalised: a frozenset is taken for already normalised, so only names the caller happened
\* to write in lower case (and the class default's own members) still match header.lower() in the strip loop.
Normalised(q) == IF "FrozensetNotNormalised" \in Deviations /\ q.rmct \in {"frozenset", "defaultplus"} /\ q.rmsp # "lower"
                 THEN (IF q.rmct = "defaultplus" THEN q.remove \cap DefaultRemove ELSE {})
                 ELSE q.remove
\* Retry.from_int(retries, redirect=flag, default=default)
FromInt(p, flag, default) ==
    LET q == IF p.kind = "none" THEN default ELSE p IN
    IF q.kind = "none" THEN RetryDefault
    ELSE IF q.kind = "retry" THEN RetryInit(q.total, q.redirect, q.raise, Normalised(q))
    ELSE RetryInit(q.total, IF flag THEN N ELSE F, TRUE, DefaultRemove)        \* cls(retries, redirect=bool(redirect) and None)
\* poolmanager.py: retries = kw.get("retries"); if None: the constructor's; if not a Retry: from_int
MgrDerive(c) ==
    LET r == IF c.reqpol.kind # "none" THEN c.reqpol
             ELSE IF "D1" \in Deviations THEN NonePol
             ELSE IF "AbsentOnly" \in Deviations /\ c.reqnone THEN NonePol     \* kw.get("retries", <constructor's>)
             ELSE c.clipol IN
    FromInt(r, c.flag, NonePol)
\* Retry.increment for a redirect response + is_exhausted
Dec(x) == IF x = N THEN N ELSE IF x = F THEN -1 ELSE x - 1
Increment(r) == [r EXCEPT !.total = Dec(@), !.redirect = Dec(@)]
IsExhausted(r) == \E x \in {r.total, r.redirect} : x # N /\ x # F /\ x < 0
NoRetry == RetryInit(N, N, TRUE, {})

Init == \E c \in CfgSet : \E p \in (IF Mode = "planned" THEN PlanSet(c) ELSE {<<>>}) :
           /\ cfg = c /\ plan = p /\ pc = "derive" /\ eff = NoRetry
           /\ cur = c.start /\ curform = "pathabs" /\ method = c.method /\ body = c.body /\ hdrs = EffHdrs(c)
           /\ resp = NoHop /\ outcome = NoOutcome /\ hist = <<>> /\ wire = <<>> /\ g = G0(c) /\ bad = "ok" /\ hdrsAlt = EffHdrs(c) /\ allpx = (c.client = "proxy")

First(b, c) == IF b = "ok" THEN c ELSE b
Finish(out) == /\ outcome' = out /\ pc' = "done" /\ bad' = First(bad, EndClause(cfg, g, resp, out, {}))

DerivePolicy ==
    /\ pc = "derive"
    /\ eff' = IF cfg.client = "pool" THEN FromInt(cfg.reqpol, cfg.flag, cfg.clipol) ELSE MgrDerive(cfg)
    /\ pc' = "attempt"
    /\ UNCHANGED <<cfg, plan, cur, curform, method, body, hdrs, resp, outcome, hist, wire, g, bad, hdrsAlt, allpx>>

\* HTTPConnectionPool.is_same_host: (scheme, normalised host, port with the default filled in)
IsSameHost(u, v) == IF "IgnorePort" \in Deviations
                    THEN u.scheme = v.scheme /\ LowerHost(u.host) = LowerHost(v.host)
                    ELSE SameOrigin(u, v)
\* ... as used by the bare pool's assert_same_host on the verbatim Location
PoolSameHost == CASE curform \in {"pathabs", "schemerel"} -> TRUE      \* url.startswith("/")
                  [] curform = "abs" -> IsSameHost(cur, cfg.start)
                  [] OTHER -> FALSE                                    \* "p1" parses as a host name
HostPort(u) == IF u.port = 0 THEN u.host ELSE u.host \o ":" \o ToString(u.port)
WireUrl == IF cfg.client # "pool" THEN cur
           ELSE [cfg.start EXCEPT !.path = IF curform = "schemerel" THEN <<"", HostPort(cur)>> \o cur.path ELSE cur.path]
AutoHdrs == CASE body = "bytes" -> {<<"clen", "7">>} [] body = "file" -> {<<"te", "chunked">>} [] OTHER -> {}
MkMsg == [url |-> WireUrl, method |-> method, body |-> IF body = "none" THEN "none" ELSE Payload,
          hdrs |-> HdrSet(hdrs) \cup AutoHdrs]
AltHdrs == HdrSet(hdrsAlt) \cup AutoHdrs

\* a SensitiveStripped failure inside the input class of the recorded finding D10 is latched with its class
D10Tag == "SensitiveStripped@forwarding-proxy-own-origin"
Tagged(cl) == IF cl = "SensitiveStripped" /\ cfg.client = "proxy" /\ allpx THEN D10Tag ELSE cl
Attempt ==
    /\ pc = "attempt"
    /\ IF cfg.client = "pool" /\ ~PoolSameHost
       THEN /\ Finish(Raised("HostChangedError"))                 \* assert_same_host, before any I/O
            /\ UNCHANGED <<wire, g>>
       ELSE /\ wire' = Append(wire, [msg |-> MkMsg, alt |-> AltHdrs])
            /\ g' = GAfter(cfg, g, resp, MkMsg)
            /\ bad' = First(bad, Tagged(MsgClause(cfg, g, resp, MkMsg, Payload, {})))
            /\ pc' = "await" /\ UNCHANGED outcome
    /\ UNCHANGED <<cfg, plan, eff, cur, curform, method, body, hdrs, resp, hist, hdrsAlt, allpx>>

\* the environment: the server that received the request answers 200 or a redirect.
\* A file-like body is only ever redirected by a 303 (which drops it): re-sending a stream after 301/302/307/308
\* is the subject of C11 (recorded there as D3/D4), not of the redirect policy.
EnvOK(h) == body = "file" => h.code = 303
NextHops == IF Mode = "planned"
            THEN (IF Len(hist) < Len(plan) THEN {plan[Len(hist) + 1]} ELSE {})
            ELSE (IF Len(hist) < MaxHops THEN {h \in HopAlphabet(cfg, cur) : EnvOK(h)} ELSE {})
Respond ==
    /\ pc = "await"
    /\ \/ \E h \in NextHops : resp' = h /\ hist' = Append(hist, h)
       \/ (Mode = "free" \/ NextHops = {}) /\ resp' = OK200 /\ UNCHANGED hist
    /\ pc' = "handle"
    /\ UNCHANGED <<cfg, plan, eff, cur, curform, method, body, hdrs, outcome, wire, g, bad, hdrsAlt, allpx>>

\* `redirect and response.get_redirect_location()` is falsy: hand the response to the caller
Return ==
    /\ pc = "handle" /\ (resp.code = 200 \/ ~cfg.flag)
    /\ Finish(Resp(resp.code))
    /\ UNCHANGED <<cfg, plan, eff, cur, curform, method, body, hdrs, resp, hist, wire, g, hdrsAlt, allpx>>

Drop303(hs) == SelectSeq(hs, LAMBDA e : e.kind # "ctype")     \* _prepare_for_method_change
See303 == resp.code = 303
Rewrite303 ==
    /\ method' = IF See303 THEN "GET" ELSE method
    /\ body' = IF See303 /\ ~("KeepBody303" \in Deviations) THEN "none" ELSE body

\* connectionpool.py: redirect branch of a bare pool -- the Location is re-requested verbatim
PoolRedirect ==
    /\ pc = "handle" /\ resp.code # 200 /\ cfg.flag /\ cfg.client = "pool"
    /\ Rewrite303
    /\ hdrs' = IF See303 THEN Drop303(hdrs) ELSE hdrs
    /\ hdrsAlt' = IF See303 THEN Drop303(hdrsAlt) ELSE hdrsAlt
    /\ cur' = Resolve(cur, resp) /\ curform' = resp.form
    /\ pc' = "incr"
    /\ UNCHANGED <<cfg, plan, eff, resp, outcome, hist, wire, g, bad, allpx>>

\* poolmanager.py: urljoin, 303 rewrite, strip loop
Verbatim(h) == [scheme |-> cur.scheme, host |-> cur.host, port |-> cur.port, path |-> h.ref]
ConnSameHost(target) ==      \* conn.is_same_host(redirect_location): conn is the pool that sent the request
    IF cfg.client = "proxy" /\ "D10" \in Deviations
    THEN IsSameHost(target, cfg.proxy)       \* forwarding: the pool asked is the proxy's
    ELSE IsSameHost(target, cur)
ManagerRedirect ==
    /\ pc = "handle" /\ resp.code # 200 /\ cfg.flag /\ cfg.client # "pool"
    /\ LET target == IF "NoJoin" \in Deviations /\ resp.form \in {"pathabs", "rel"} THEN Verbatim(resp) ELSE Resolve(cur, resp)
           h1 == IF See303 THEN Drop303(hdrs) ELSE hdrs
           strip == /\ eff.remove # {} /\ ~ConnSameHost(target)
                    /\ ("FirstHopOnly" \in Deviations => hist = <<resp>>)
           a1 == IF See303 THEN Drop303(hdrsAlt) ELSE hdrsAlt
       IN /\ cur' = target
          /\ hdrs' = IF strip THEN SelectSeq(h1, LAMBDA e : ~(e.kind \in eff.remove)) ELSE h1
          /\ hdrsAlt' = IF eff.remove # {} /\ ~SameOrigin(target, cur)
                        THEN SelectSeq(a1, LAMBDA e : ~(e.kind \in eff.remove)) ELSE a1
          /\ allpx' = (allpx /\ SameOrigin(target, cfg.proxy))
    /\ Rewrite303
    /\ pc' = "incr"
    /\ UNCHANGED <<cfg, plan, eff, curform, resp, outcome, hist, wire, g, bad>>

\* retries.increment(...) succeeded: recurse into urlopen with the new target
Follow ==
    /\ pc = "incr" /\ ~IsExhausted(Increment(eff))
    /\ eff' = Increment(eff) /\ pc' = "attempt"
    \* `if "headers" not in kw: kw["headers"] = self.headers` -- the key is present from the first call on, so the
    \* defaults are not consulted again (deviation EmptyIsMissing: an emptied mapping is taken for a missing one)
    /\ hdrs' = IF "EmptyIsMissing" \in Deviations /\ cfg.client # "pool" /\ hdrs = <<>> THEN cfg.dhdrs ELSE hdrs
    /\ UNCHANGED <<cfg, plan, cur, curform, method, body, resp, outcome, hist, wire, g, bad, hdrsAlt, allpx>>

\* MaxRetryError inside increment: re-raise, or hand out the last 3xx when raise_on_redirect is False
Exhaust ==
    /\ pc = "incr" /\ IsExhausted(Increment(eff))
    /\ Finish(IF eff.raise THEN Raised("MaxRetryError") ELSE Resp(resp.code))
    /\ UNCHANGED <<cfg, plan, eff, cur, curform, method, body, hdrs, resp, hist, wire, g, hdrsAlt, allpx>>

Next == DerivePolicy \/ Attempt \/ Respond \/ Return \/ PoolRedirect \/ ManagerRedirect \/ Follow \/ Exhaust
Spec == Init /\ [][Next]_vars

-----------------------------------------------------------------------------
(* Stage 1: Model |= Rules, one INVARIANT line per clause (bad holds the first failing clause).   *)

RedirectWithinBudget   == bad # "RedirectWithinBudget"
NoContactWhenDisabled  == bad # "NoContactWhenDisabled"
SeeOtherRewrites       == bad # "SeeOtherRewrites"
OthersKeepMethodBody   == bad # "OthersKeepMethodBody"
RelativeResolved       == bad # "RelativeResolved"
ExhaustionShape        == bad # "ExhaustionShape"
ReturnShape            == bad # "ReturnShape"
OnlyDocumentedOutcomes == bad # "OnlyDocumentedOutcomes"
SensitiveStripped      == bad # "SensitiveStripped" /\ bad # D10Tag
OthersPreserved        == bad # "OthersPreserved"
SingleHostRefuses      == bad # "SingleHostRefuses"

\* as the code is: the only failures of SensitiveStripped lie in the input class of the recorded finding D10
\* (forwarding proxy, and every redirect followed so far pointed at the proxy's own origin)
SensitiveStrippedExceptD10 == bad # "SensitiveStripped"

\* Model-level sanity: what the mechanism's counters say agrees with the caller-level budget
ClausesKnown == bad \in {"ok", "RedirectWithinBudget", "NoContactWhenDisabled", "SeeOtherRewrites", "OthersKeepMethodBody",
                         "RelativeResolved", "ExhaustionShape", "ReturnShape", "OnlyDocumentedOutcomes",
                         "SensitiveStripped", "OthersPreserved", "SingleHostRefuses", D10Tag}
WireBound == Len(wire) <= Len(hist) + 1 /\ g.n = Len(wire) /\ (g.n > 0 => g.lm = wire[Len(wire)].msg)
\* once stripped, a sensitive header never comes back (the Model's own view of "every later request")
StrippedStaysStripped == [][\A k \in KindsIn(hdrs') : k \in KindsIn(hdrs)]_vars
\* the manager never sends a body after a 303 and never changes method otherwise
MethodOnlyBy303 == [][method' # method => (resp.code = 303 /\ method' = "GET")]_vars
\* follows exactly as far as the budget allows when nothing else stops it (the drift-level expectation)
FollowsToBudget == (pc = "done" /\ resp.code # 200 /\ cfg.flag /\ outcome.kind # "HostChangedError")
                      => Len(wire) - 1 = Budget(cfg)
=============================================================================
