------------------------------- MODULE PoolConc -------------------------------
(* C02 - concurrent use of one HTTPConnectionPool (urllib3/connectionpool.py, response.py).          *)
(*                                                                                                  *)
(* Two layers over the same observable state:                                                       *)
(*                                                                                                  *)
(*  RULES  - the property, as predicates over an *observable* record `o` (what a by-stander can      *)
(*           see: the pool pointer, the contents of the one queue object, open sockets, who holds   *)
(*           which connection, the last socket I/O, request outcomes, who is parked in a blocking   *)
(*           checkout).  The same operators are evaluated by TLC on the design model below          *)
(*           (INVARIANT / PROPERTY lines of MC_PoolConc) and on every event trace recorded from the  *)
(*           real code (PoolConc_Trace: total monitor, names the failing clause).                    *)
(*                                                                                                  *)
(*  MODEL  - what the code does, one action per statement that tests / loads / uses / swaps         *)
(*           `self.pool`:  _get_conn  G1 (test) G2 (load) G3 (queue.get)                            *)
(*                         _put_conn  P2 (load) P3 (queue.put) P4 (closed-pool arm: close)          *)
(*                         close()    C0 (test) C1 (swap) C2 (drain: queue.get until Empty)         *)
(*           plus the request I/O (Send / Recv with environment-chosen outcomes incl. a failing    *)
(*           attempt that is retried), the `finally` of urlopen, the streaming response's release   *)
(*           at end of body, release_conn() on an unfinished body (close, then put) and Drop (pool object collected ->     *)
(*           weakref.finalize drains whatever the queue object still holds).                        *)
(*           Named deviation actions (constant Deviations) reproduce seeded mutants / repaired      *)
(*           defects so that every Rules clause is shown non-vacuous at design level; constant      *)
(*           Repairs = {"WakeOnClose"} models a *candidate* repair of D8 (close() feeds the orphaned *)
(*           queue a sentinel that parked checkouts hand on): TLC shows it sufficient for two        *)
(*           request threads and insufficient for three (MC plans in vh/c02.py).                     *)
(*                                                                                                  *)
(*  As-is deviation kept in the model: D8 - a checkout parked on the queue object that close()      *)
(*  orphans is never woken (G3 stays disabled).  EventuallyQuiescent therefore fails exactly on     *)
(*  block=True pools with a closer; QuiescentOrD8 / Inv_HangOnlyD8 state that this history class    *)
(*  (OrphanWaiters) is the ONLY way not to become quiescent.                                         *)
EXTENDS Naturals, Sequences, FiniteSets, TLC

CONSTANTS NThreads,    \* request threads are 1..NThreads
          HasCloser,   \* BOOLEAN: thread NThreads+1 calls close() once, at any time
          MaxSize, Block,
          Reqs,        \* requests per request thread
          Streaming,   \* BOOLEAN: preload_content=False (response keeps the connection until the body is read)
          Outcomes,    \* subset of {"ok", "okclose", "fail", "partial"}: what the server may do to one attempt
                       \*   ("partial", Streaming only: the body stalls half-way, the caller reads what is there and
                       \*   calls release_conn() on the unfinished response)
          MaxFails,    \* failing attempts per request (= the retries the caller allows)
          MaxConn,     \* bound on connection objects ever created
          Deviations,  \* subset of {"D12", "NoAttrArm", "DoublePut", "NoClearConn", "DrainThenDisable", "NoBlockRaise",
                       \*            "LoadOnce", "PutBeforeClose"}
          Repairs,     \* subset of {"WakeOnClose"}
          KeepHist     \* BOOLEAN: record hist / script (emission runs); FALSE keeps the stage-1 state space small

NONE == 0
Threads == 1..NThreads
Closer == NThreads + 1
Procs == IF HasCloser THEN 1..(NThreads + 1) ELSE Threads
SENT == MaxConn + 1          \* the wake-up sentinel of the WakeOnClose repair (never a connection)

(* =============================================== RULES =============================================== *)
(* o.ptr "open"|"closed"  o.queue Seq(ids, 0 = None)  o.open set of open sockets  o.holds [thread->set]  *)
(* o.lastio <<thread, conn, "io"|"close">> or <<>>: the socket operation the last step performed         *)
(* o.cur / o.got [thread -> <<thread, request>> or <<>>]                                                   *)
(* o.outs set of [o |-> outcome, closed |-> BOOLEAN]  o.dropped  o.alive  o.waiting (sets of threads)    *)
(* o.pre  threads that were already parked inside queue.get when close() swapped the queue out            *)
(* o.swapok  slot conservation held when close() disabled the pool: queue length + slots on lease = maxsize *)
(*           (in the unchanged code close() drains only AFTER the swap, so nothing is missing at the swap)     *)
(* o.sep  threads whose checkout obtained its queue reference by a statement of its own (not by the       *)
(*        `self.pool.get(...)` expression itself) and has not completed the get yet                        *)

InQueue(o, c) == \E i \in 1..Len(o.queue) : o.queue[i] = c
IsConn(c) == c # NONE /\ c # SENT

ExclusiveUse(o) ==
    /\ \A t, u \in DOMAIN o.holds : t # u => o.holds[t] \cap o.holds[u] = {}
    \* socket I/O only by the thread that holds the connection; nobody closes a connection another thread holds
    /\ o.lastio # <<>> =>
          IF o.lastio[3] = "io" THEN o.lastio[2] \in o.holds[o.lastio[1]]
          ELSE \A u \in DOMAIN o.holds : u # o.lastio[1] => o.lastio[2] \notin o.holds[u]
NotPooledWhileUsed(o) == \A t \in DOMAIN o.holds : \A c \in o.holds[t] : ~InQueue(o, c)
NoDuplicate(o) == \A i, j \in 1..Len(o.queue) : (i # j /\ IsConn(o.queue[i])) => o.queue[i] # o.queue[j]
BlockBound(o) == Block => Cardinality(o.open) <= MaxSize
OwnResponse(o) == \A t \in DOMAIN o.got : o.got[t] = <<>> \/ o.got[t] = o.cur[t]
AllowedOutcome(x) == \/ x.o = "resp"
                     \/ x.o = "ClosedPoolError" /\ HasCloser /\ x.closed
ClosedPoolOutcome(o) == \A x \in o.outs : AllowedOutcome(x)
ClosedAndDroppedLeavesNothing(o) == o.dropped => o.open = {}
Quiescent(o) == o.alive = {}
Hung(o) == o.alive # {} /\ o.alive \subseteq o.waiting      \* every unfinished thread is parked in a checkout
NoHang(o) == ~Hung(o)
\* the history class of defect D8, with the exact pre-conditions of the unchanged code: a block=True pool,
\* close() has swapped the queue out, everyone who is still unfinished is parked in the blocking checkout on
\* that (now orphaned) queue object, and each of them either was parked inside queue.get when the swap
\* happened or holds a reference loaded by the `self.pool.get(...)` expression itself (no statement of the
\* checkout ran between loading the reference and calling get)
\* and (3) no slot had vanished when the pool was disabled: a waiter can only be parked because every slot
\* is on lease to somebody else (queue length + leases = maxsize at the swap) - a queue that close() itself
\* emptied while the pool still looked open is a different hang
OrphanWaiters(o) == /\ Block /\ o.ptr = "closed" /\ Hung(o)
                    /\ \A w \in o.waiting : w \in o.pre \/ w \notin o.sep
                    /\ o.swapok

\* total monitor: the first failing clause, in a fixed order
FirstFailing(o) ==
    IF ~ExclusiveUse(o) THEN "ExclusiveUse"
    ELSE IF ~NotPooledWhileUsed(o) THEN "NotPooledWhileUsed"
    ELSE IF ~NoDuplicate(o) THEN "NoDuplicate"
    ELSE IF ~BlockBound(o) THEN "BlockBound"
    ELSE IF ~OwnResponse(o) THEN "OwnResponse"
    ELSE IF ~ClosedPoolOutcome(o) THEN "ClosedPoolOutcome"
    ELSE IF ~ClosedAndDroppedLeavesNothing(o) THEN "ClosedAndDroppedLeavesNothing"
    ELSE IF ~NoHang(o) THEN "EventuallyQuiescent"
    ELSE "ok"

(* =============================================== MODEL =============================================== *)
VARIABLES ptr,      \* "open" | "closed": self.pool is the queue / None
          queue,    \* contents of the one LifoQueue object (it survives close() as an orphan)
          open,     \* connections whose socket is open
          wire,     \* [conn -> Seq(<<thread, request>>)] replies written by the server and not yet read
          holds, lastio, outs, got, cur, dropped,    \* observable bookkeeping (see RULES)
          loc,      \* [proc -> record]: pc, conn, lq (loaded queue reference), left, fails, clean, err,
                    \*   site (who called _put_conn: "U" urlopen, "A" end of body, "E" explicit release), sclose, dbl
          fresh,    \* next unused connection id
          script,   \* [thread -> Seq(outcome)] outcomes the environment chose, in the thread's attempt order
          res,      \* [thread -> Seq(outcome)] how each request ended for its caller (emission only)
          hist      \* sequence of <<proc, kind>>: the critical-event ordering (emission only)

vars == <<ptr, queue, open, wire, holds, lastio, outs, got, cur, dropped, loc, fresh, script, res, hist>>

Dev(d) == d \in Deviations
L0 == [pc |-> "idle", conn |-> NONE, lq |-> "none", left |-> Reqs, fails |-> 0, clean |-> FALSE,
       err |-> "", site |-> "U", sclose |-> FALSE, dbl |-> FALSE, sep |-> FALSE, pre |-> FALSE, part |-> FALSE, slot |-> FALSE, swapok |-> TRUE]

Init == /\ ptr = "open"
        /\ queue = [i \in 1..MaxSize |-> NONE]
        /\ open = {} /\ wire = [c \in 1..MaxConn |-> <<>>]
        /\ holds = [t \in Threads |-> {}] /\ lastio = <<>> /\ outs = {}
        /\ got = [t \in Threads |-> <<>>] /\ cur = [t \in Threads |-> <<>>] /\ dropped = FALSE
        /\ loc = [p \in Procs |-> IF p \in Threads THEN L0 ELSE [L0 EXCEPT !.pc = "c0", !.left = 0]]
        /\ fresh = 1 /\ script = [t \in Threads |-> <<>>] /\ res = [t \in Threads |-> <<>>] /\ hist = <<>>

Set(p, r) == loc' = [loc EXCEPT ![p] = r]
Pc(p) == loc[p].pc
Pop(q) == SubSeq(q, 1, Len(q) - 1)
Top(q) == q[Len(q)]

Finished(p) == IF p \in Threads THEN Pc(p) = "idle" /\ loc[p].left = 0 ELSE Pc(p) = "cdone"
Parked(p) == /\ p \in Threads /\ Pc(p) = "g3" /\ queue = <<>> /\ Block /\ ~Dev("NoBlockRaise")

(* ---- urlopen: start of a request *)
Start(t) == /\ Pc(t) = "idle" /\ loc[t].left > 0
            /\ Set(t, [loc[t] EXCEPT !.pc = "g1", !.left = @ - 1, !.fails = 0, !.err = "", !.site = "U",
                                      !.conn = NONE, !.clean = FALSE, !.sclose = FALSE, !.dbl = FALSE, !.sep = FALSE, !.part = FALSE, !.slot = FALSE])
            /\ cur' = [cur EXCEPT ![t] = <<t, Reqs - loc[t].left + 1>>]
            /\ got' = [got EXCEPT ![t] = <<>>]
            /\ UNCHANGED <<ptr, queue, open, wire, holds, outs, dropped, fresh, script, res>>

(* ---- _get_conn *)
\* `if self.pool is None: raise ClosedPoolError` - the exception passes through urlopen's finally,
\* which calls _put_conn(None) before the caller sees it
\* (deviation LoadOnce: `pool = self.pool; if pool is None: raise ...; pool.get(...)` - the reference is read
\*  by a statement of its own, the None test is local, the AttributeError arm is gone)
G1(t) == /\ Pc(t) = "g1"
         /\ IF ptr = "closed" THEN Set(t, [loc[t] EXCEPT !.pc = "p2", !.err = "ClosedPoolError", !.conn = NONE])
            ELSE IF Dev("LoadOnce") THEN Set(t, [loc[t] EXCEPT !.pc = "g3", !.lq = "q", !.sep = TRUE])
            ELSE Set(t, [loc[t] EXCEPT !.pc = "g2"])
         /\ UNCHANGED <<ptr, queue, open, wire, holds, outs, got, cur, dropped, fresh, script, res>>
\* LOAD self.pool (the operand of `.get`): on None the attribute access raises AttributeError, which
\* _get_conn turns into ClosedPoolError (no queue operation happens)
G2(t) == /\ Pc(t) = "g2"
         /\ IF ptr = "open" THEN Set(t, [loc[t] EXCEPT !.pc = "g3", !.lq = "q"])
            ELSE Set(t, [loc[t] EXCEPT !.pc = "p2", !.conn = NONE, !.lq = "none",
                                      !.err = IF Dev("NoAttrArm") THEN "AttributeError" ELSE "ClosedPoolError"])
         /\ UNCHANGED <<ptr, queue, open, wire, holds, outs, got, cur, dropped, fresh, script, res>>
\* .get(block=self.block) on the loaded queue object (live or already orphaned); Empty -> new
\* connection unless block, in which case the thread is parked until the queue is fed
G3(t) == /\ Pc(t) = "g3"
         /\ IF queue # <<>> THEN
               /\ queue' = Pop(queue)
               /\ IF Top(queue) = SENT
                     THEN Set(t, [loc[t] EXCEPT !.pc = "g3s"]) /\ UNCHANGED holds
                     ELSE /\ Set(t, [loc[t] EXCEPT !.pc = "g4", !.conn = Top(queue), !.sep = FALSE, !.slot = Block])   \* (slots are only accounted on block=True pools)
                          /\ holds' = [holds EXCEPT ![t] = IF Top(queue) = NONE THEN @ ELSE @ \cup {Top(queue)}]
            ELSE /\ ~Block \/ Dev("NoBlockRaise")
                 /\ Set(t, [loc[t] EXCEPT !.pc = "g4", !.conn = NONE, !.sep = FALSE]) /\ UNCHANGED <<queue, holds>>
         /\ UNCHANGED <<ptr, open, wire, outs, got, cur, dropped, fresh, script, res>>
\* WakeOnClose repair: the sentinel is handed on to the next waiter, the request fails with ClosedPoolError
G3S(t) == /\ Pc(t) = "g3s"
          /\ queue' = IF Len(queue) < MaxSize THEN Append(queue, SENT) ELSE queue   \* put(block=False); Full is swallowed
          /\ Set(t, [loc[t] EXCEPT !.pc = "p2", !.conn = NONE, !.err = "ClosedPoolError"])
          /\ UNCHANGED <<ptr, open, wire, holds, outs, got, cur, dropped, fresh, script, res>>
\* `return conn or self._new_conn()`
G4(t) == /\ Pc(t) = "g4"
         /\ IF loc[t].conn # NONE THEN Set(t, [loc[t] EXCEPT !.pc = "send"]) /\ UNCHANGED <<fresh, holds>>
            ELSE /\ fresh <= MaxConn
                 /\ Set(t, [loc[t] EXCEPT !.pc = "send", !.conn = fresh])
                 /\ holds' = [holds EXCEPT ![t] = @ \cup {fresh}]
                 /\ fresh' = fresh + 1
         /\ UNCHANGED <<ptr, queue, open, wire, outs, got, cur, dropped, script, res>>

(* ---- one attempt on the wire *)
Send(t) == /\ Pc(t) = "send"
           /\ LET c == loc[t].conn IN
              /\ open' = open \cup {c}                              \* (re)connect if needed
              /\ wire' = [wire EXCEPT ![c] = Append(IF c \in open THEN @ ELSE <<>>, cur[t])]
              /\ lastio' = <<t, c, "io">>
           /\ Set(t, [loc[t] EXCEPT !.pc = "recv"])
           /\ UNCHANGED <<ptr, queue, holds, outs, got, cur, dropped, fresh, script, res>>
Recv(t) == /\ Pc(t) = "recv"
           /\ \E oc \in Outcomes :
              LET c == loc[t].conn IN
              /\ oc = "fail" => loc[t].fails < MaxFails
              /\ oc = "partial" => Streaming
              /\ script' = IF KeepHist THEN [script EXCEPT ![t] = Append(@, oc)] ELSE script
              /\ lastio' = <<t, c, "io">>
              /\ IF oc = "fail"
                 THEN /\ wire' = [wire EXCEPT ![c] = <<>>] /\ UNCHANGED open          \* server cut the connection
                      /\ Set(t, [loc[t] EXCEPT !.pc = "fin", !.clean = FALSE, !.fails = @ + 1])
                      /\ UNCHANGED got
                 ELSE /\ got' = [got EXCEPT ![t] = IF wire[c] = <<>> THEN <<0, 0>> ELSE Head(wire[c])]
                      /\ wire' = [wire EXCEPT ![c] = IF oc = "okclose" \/ @ = <<>> THEN <<>> ELSE Tail(@)]
                      /\ open' = IF oc = "okclose" /\ ~Streaming THEN open \ {c} ELSE open
                      /\ Set(t, [loc[t] EXCEPT !.pc = "fin", !.clean = TRUE, !.sclose = (oc = "okclose"), !.part = (oc = "partial")])
           /\ UNCHANGED <<ptr, queue, holds, outs, cur, dropped, fresh, res>>

(* ---- urlopen: finally *)
Fin(t) == /\ Pc(t) = "fin"
          /\ IF ~loc[t].clean THEN        \* conn.close(); conn = None; _put_conn(None); then retry
                /\ open' = open \ {loc[t].conn}
                /\ Set(t, [loc[t] EXCEPT !.pc = "p2", !.conn = NONE, !.site = "U"])
             ELSE IF Streaming THEN       \* the response keeps the connection; the caller reads the body
                /\ Set(t, [loc[t] EXCEPT !.pc = "resp"]) /\ UNCHANGED open
             ELSE Set(t, [loc[t] EXCEPT !.pc = "p2", !.site = "U"]) /\ UNCHANGED open
          /\ UNCHANGED <<ptr, queue, wire, holds, outs, got, cur, dropped, fresh, script, res>>
\* caller reads the body: to its end (last I/O on the connection, then the response releases it by itself),
\* or - "partial" - only what has arrived, after which the caller calls release_conn() on the unfinished body
RespRead(t) == /\ Pc(t) = "resp"
               /\ lastio' = <<t, loc[t].conn, "io">>
               /\ open' = IF loc[t].sclose THEN open \ {loc[t].conn} ELSE open    \* Connection: close
               /\ Set(t, [loc[t] EXCEPT !.pc = IF ~loc[t].part THEN "p2" ELSE IF Dev("PutBeforeClose") THEN "p2" ELSE "rc",
                                         !.site = IF loc[t].part THEN "R" ELSE "A"])
               /\ UNCHANGED <<ptr, queue, wire, holds, outs, got, cur, dropped, fresh, script, res>>
\* release_conn() of an unfinished response: `self._connection.close()` - and only then _put_conn(connection).
\* (deviation PutBeforeClose: the connection is put back first and closed afterwards)
RelClose(t) == /\ Pc(t) = "rc"
               /\ lastio' = <<t, loc[t].conn, "close">>
               /\ open' = open \ {loc[t].conn}
               /\ wire' = [wire EXCEPT ![loc[t].conn] = <<>>]
               /\ Set(t, [loc[t] EXCEPT !.pc = IF Dev("PutBeforeClose") THEN "end" ELSE "p2"])
               /\ UNCHANGED <<ptr, queue, holds, outs, got, cur, dropped, fresh, script, res>>
\* explicit release_conn() afterwards: a no-op because release_conn cleared the back-reference
RespRelease(t) == /\ Pc(t) = "rel"
                  /\ IF Dev("NoClearConn") THEN Set(t, [loc[t] EXCEPT !.pc = "p2", !.site = "E"])
                                           ELSE Set(t, [loc[t] EXCEPT !.pc = "end"])
                  /\ UNCHANGED <<ptr, queue, open, wire, holds, outs, got, cur, dropped, fresh, script, res>>

(* ---- _put_conn(conn) *)
\* `pool = self.pool` (the reference is read once; D12 repair)
P2(t) == /\ Pc(t) = "p2"
         /\ Set(t, [loc[t] EXCEPT !.pc = IF ptr = "open" THEN "p3" ELSE "p4", !.lq = IF ptr = "open" THEN "q" ELSE "none"])
         /\ UNCHANGED <<ptr, queue, open, wire, holds, outs, got, cur, dropped, fresh, script, res>>
\* pool.put(conn, block=False): lands in the queue object that was loaded, orphaned or not
P3(t) == /\ Pc(t) = "p3"
         /\ IF Len(queue) < MaxSize THEN
               /\ queue' = Append(queue, loc[t].conn)
               /\ IF Dev("DoublePut") /\ ~loc[t].dbl /\ loc[t].conn # NONE
                     THEN Set(t, [loc[t] EXCEPT !.pc = "p3", !.dbl = TRUE, !.slot = FALSE])
                     ELSE Set(t, [loc[t] EXCEPT !.pc = "pend", !.slot = FALSE])
               /\ UNCHANGED open
            ELSE \* queue.Full: close the connection; FullPoolError when block, else log the size
               /\ open' = open \ {loc[t].conn} /\ UNCHANGED queue
               \* (WakeOnClose repair: a full *orphaned* queue is the closed-pool arm, not an error)
               /\ Set(t, [loc[t] EXCEPT !.pc = IF Dev("D12") /\ ~Block THEN "p3log" ELSE "pend", !.slot = FALSE,
                                         !.err = IF Block /\ @ = "" /\ ~("WakeOnClose" \in Repairs /\ ptr = "closed")
                                                 THEN "FullPoolError" ELSE @])
         /\ holds' = [holds EXCEPT ![t] = {}]
         /\ UNCHANGED <<ptr, wire, outs, got, cur, dropped, fresh, script, res>>
\* deviation D12 (repaired in the tree): the log call evaluates self.pool.qsize() again
P3Log(t) == /\ Pc(t) = "p3log"
            /\ Set(t, [loc[t] EXCEPT !.pc = "pend", !.err = IF ptr = "closed" /\ @ = "" THEN "AttributeError" ELSE @])
            /\ UNCHANGED <<ptr, queue, open, wire, holds, outs, got, cur, dropped, fresh, script, res>>
\* closed-pool arm: `if conn: conn.close()`
P4(t) == /\ Pc(t) = "p4"
         /\ open' = open \ {loc[t].conn}
         /\ Set(t, [loc[t] EXCEPT !.pc = "pend", !.slot = FALSE])
         /\ UNCHANGED <<ptr, queue, wire, holds, outs, got, cur, dropped, fresh, script, res>>
\* back in the caller of _put_conn
PEnd(t) == /\ Pc(t) = "pend"
           /\ LET l == loc[t] IN
              IF l.err # "" THEN Set(t, [l EXCEPT !.pc = "end"])
              ELSE IF l.site = "U" /\ ~l.clean THEN Set(t, [l EXCEPT !.pc = "g1", !.dbl = FALSE])   \* retry: urlopen recurses
              ELSE IF l.site = "A" THEN Set(t, [l EXCEPT !.pc = "rel", !.dbl = FALSE])
              ELSE IF l.site = "R" /\ Dev("PutBeforeClose") THEN Set(t, [l EXCEPT !.pc = "rc"])
              ELSE Set(t, [l EXCEPT !.pc = "end"])
           /\ UNCHANGED <<ptr, queue, open, wire, holds, outs, got, cur, dropped, fresh, script, res>>
\* the request is over for the caller (response read and released, or exception seen)
End(t) == /\ Pc(t) = "end"
          /\ outs' = outs \cup {[o |-> IF loc[t].err = "" THEN "resp" ELSE loc[t].err, closed |-> ptr = "closed"]}
          /\ got' = [got EXCEPT ![t] = IF loc[t].err = "" THEN @ ELSE <<>>]
          /\ holds' = [holds EXCEPT ![t] = {}]
          /\ Set(t, [loc[t] EXCEPT !.pc = "idle", !.conn = NONE])
          /\ res' = IF KeepHist THEN [res EXCEPT ![t] = Append(@, IF loc[t].err = "" THEN "resp" ELSE loc[t].err)] ELSE res
          /\ UNCHANGED <<ptr, queue, open, wire, cur, dropped, fresh, script>>

(* ---- close() *)
C0(k) == /\ Pc(k) = "c0"
         /\ Set(k, [loc[k] EXCEPT !.pc = IF ptr = "closed" THEN "cdone"
                                          ELSE IF Dev("DrainThenDisable") THEN "c2" ELSE "c1",
                                   !.lq = IF Dev("DrainThenDisable") /\ ptr = "open" THEN "q" ELSE @])
         /\ UNCHANGED <<ptr, queue, open, wire, holds, outs, got, cur, dropped, fresh, script, res>>
\* old_pool, self.pool = self.pool, None
C1(k) == /\ Pc(k) = "c1"
         /\ ptr' = "closed"
         /\ loc' = [p \in Procs |->
                      IF p = k THEN [loc[k] EXCEPT !.pc = IF Dev("DrainThenDisable") THEN "cdone" ELSE "c2",
                                                   !.lq = IF ptr = "open" THEN "q" ELSE "none",
                                                   \* slot conservation at the moment the pool is disabled
                                                   !.swapok = (Len(queue) + Cardinality({t \in Threads : loc[t].slot}) = MaxSize)]
                      ELSE [loc[p] EXCEPT !.pre = Parked(p)]]        \* who is parked inside get at the swap
         /\ UNCHANGED <<queue, open, wire, holds, outs, got, cur, dropped, fresh, script, res>>
\* _close_pool_connections(old_pool): one get per step until Empty
C2(k) == /\ Pc(k) = "c2"
         /\ IF loc[k].lq = "q" /\ queue # <<>> THEN
               /\ open' = open \ {Top(queue)} /\ queue' = Pop(queue) /\ UNCHANGED loc
            ELSE /\ Set(k, [loc[k] EXCEPT !.pc = IF Dev("DrainThenDisable") THEN "c1"
                                                  ELSE IF "WakeOnClose" \in Repairs THEN "c3" ELSE "cdone"])
                 /\ UNCHANGED <<queue, open>>
         /\ UNCHANGED <<ptr, wire, holds, outs, got, cur, dropped, fresh, script, res>>
\* WakeOnClose repair: feed the orphaned queue one sentinel so that parked checkouts wake up
C3(k) == /\ Pc(k) = "c3"
         /\ queue' = IF Len(queue) < MaxSize THEN Append(queue, SENT) ELSE queue
         /\ Set(k, [loc[k] EXCEPT !.pc = "cdone"])
         /\ UNCHANGED <<ptr, open, wire, holds, outs, got, cur, dropped, fresh, script, res>>

(* ---- observable record of the model state *)
Obs == [ptr |-> ptr, queue |-> queue, open |-> open, holds |-> holds, lastio |-> lastio, cur |-> cur, got |-> got,
        outs |-> outs, dropped |-> dropped,
        alive |-> {p \in Procs : ~Finished(p)}, waiting |-> {p \in Procs : Parked(p)},
        pre |-> {p \in Procs : loc[p].pre}, sep |-> {p \in Procs : loc[p].sep},
        swapok |-> \A p \in Procs \ Threads : loc[p].swapok]

(* ---- the pool object is dropped: weakref.finalize drains the queue object; nothing else refers to connections *)
Drop == /\ Quiescent(Obs) /\ ~dropped /\ dropped' = TRUE
        /\ open' = open \ {queue[i] : i \in 1..Len(queue)}
        /\ queue' = <<>>
        /\ UNCHANGED <<ptr, wire, holds, outs, got, cur, loc, fresh, script, res>>

(* ---- next-state relation: critical actions extend hist, local ones do not; I/O sets lastio itself *)
Crit(A, p, k) == A /\ lastio' = <<>> /\ hist' = IF KeepHist THEN Append(hist, <<p, k>>) ELSE hist
Local(A) == A /\ lastio' = <<>> /\ UNCHANGED hist
IOStep(A) == A /\ UNCHANGED hist

ThreadNext(t) ==
    \/ Local(Start(t)) \/ Crit(G1(t), t, "test") \/ Crit(G2(t), t, "load") \/ Crit(G3(t), t, "qget")
    \/ Crit(G3S(t), t, "qput") \/ Local(G4(t)) \/ IOStep(Send(t)) \/ IOStep(Recv(t)) \/ Local(Fin(t))
    \/ IOStep(RespRead(t)) \/ IOStep(RelClose(t)) \/ Local(RespRelease(t))
    \/ Crit(P2(t), t, "load") \/ Crit(P3(t), t, "qput") \/ Crit(P3Log(t), t, "load") \/ Local(P4(t))
    \/ Local(PEnd(t)) \/ Local(End(t))
CloserNext(k) == \/ Crit(C0(k), k, "test") \/ Crit(C1(k), k, "swap") \/ Crit(C2(k), k, "qget") \/ Crit(C3(k), k, "qput")

Next == \/ \E t \in Threads : ThreadNext(t)
        \/ \E k \in Procs \ Threads : CloserNext(k)
        \/ Local(Drop)

Fair == /\ \A t \in Threads : WF_vars(ThreadNext(t))
        /\ HasCloser => WF_vars(CloserNext(Closer))
Spec == Init /\ [][Next]_vars /\ Fair

(* ---- what TLC checks on the model (stage 1) *)
TypeOK == /\ ptr \in {"open", "closed"} /\ Len(queue) <= MaxSize /\ fresh <= MaxConn + 1
          /\ \A t \in Threads : holds[t] \subseteq 1..MaxConn
Inv_ExclusiveUse == ExclusiveUse(Obs)
Inv_NotPooledWhileUsed == NotPooledWhileUsed(Obs)
Inv_NoDuplicate == NoDuplicate(Obs)
Inv_BlockBound == BlockBound(Obs)
Inv_OwnResponse == OwnResponse(Obs)
Inv_ClosedPoolOutcome == ClosedPoolOutcome(Obs)
Inv_ClosedAndDroppedLeavesNothing == ClosedAndDroppedLeavesNothing(Obs)
Inv_NoHang == NoHang(Obs)
Inv_HangOnlyD8 == Hung(Obs) => OrphanWaiters(Obs)      \* as-is code: the only hang is the D8 history class
Inv_Rules == FirstFailing(Obs) \in {"ok", "EventuallyQuiescent"}
EventuallyQuiescent == <>[]Quiescent(Obs)
QuiescentOrD8 == <>[](Quiescent(Obs) \/ OrphanWaiters(Obs))
=============================================================================
