---------------------------- MODULE MC_Multipart ----------------------------
(* Bounded configurations + emission for Multipart (C20).                      *)
EXTENDS Multipart, Json, IOUtils

CONSTANTS ShardK, ShardS,   \* emission is sharded: each process prints the states with ShardOf = ShardS
          StrLen            \* bound on exhaustively enumerated names / filenames

\* all sequences over S of length <= n
RECURSIVE Strs(_, _)
Strs(S, n) == IF n = 0 THEN {<<>>}
              ELSE LET P == Strs(S, n - 1) IN P \cup {Append(p, c) : p \in {q \in P : Len(q) = n - 1}, c \in S}

F(form, name, hasfn, fn, ct, loc, kind, data) ==
    [form |-> form, name |-> name, hasfn |-> hasfn, fn |-> fn, ct |-> ct, loc |-> loc, kind |-> kind, data |-> data]

-----------------------------------------------------------------------------
\* (A) every NAME over the hostile alphabet up to StrLen, in four surroundings
PoolNames ==
    LET N == Strs(HostileSyms, StrLen) IN
         {F("plain", n, FALSE, <<>>, "", "", "str", <<"a">>) : n \in N}
    \cup {F("t2", n, TRUE, <<"Q", "CR", "LF">>, "", "", "bytes", <<"CR", "LF", "DA", "DA", "FF">>) : n \in N}
    \cup {F("rf", n, FALSE, <<>>, "image/jpeg", "/loc", "str", <<>>) : n \in N}
    \cup {F("t3", n, FALSE, <<>>, "text/plain", "", "bytes", <<"NA">>) : n \in N}

\* (B) every FILENAME over the hostile alphabet + ".txt" up to StrLen, in four surroundings
PoolFilenames ==
    LET N == Strs(HostileSyms \cup {"TXT"}, StrLen) IN
         {F("t2", <<"a">>, TRUE, n, "", "", "str", <<"a", "CR", "LF">>) : n \in N}
    \cup {F("t3", <<"Q", "SC">>, TRUE, n, "image/jpeg", "", "bytes", <<"FF">>) : n \in N}
    \cup {F("t3", <<"LF">>, TRUE, n, "", "", "str", <<>>) : n \in N}
    \cup {F("rf", <<"BS">>, TRUE, n, "", "/loc", "str", <<"DA", "DA">>) : n \in N}

\* (C) every VALUE over CR LF - a b (str) / CR LF - 0xFF (bytes) up to DataLen: delimiter look-alikes
DataLen == StrLen + 2
PoolData ==
         {F("plain", <<"a">>, FALSE, <<>>, "", "", "str", d) : d \in Strs({"CR", "LF", "DA", "a", "b"}, DataLen)}
    \cup {F("t2", <<"CR">>, FALSE, <<>>, "", "", "bytes", d) : d \in Strs({"CR", "LF", "DA", "FF"}, DataLen)}

\* (D) a small pool of hostile fields for LISTS: payloads that would inject a parameter, a header
\*     line, a blank line or a whole part if they were written unescaped (they use punctuation and
\*     words on purpose: a name is any string), a literal "%22", empty names, a None filename, ...
PoolMixed == {
    F("plain", <<"a">>, FALSE, <<>>, "", "", "str", <<"a">>),
    F("plain", <<"a", "Q", "SC", "SP", "filename", "EQ", "Q", "a">>, FALSE, <<>>, "", "", "bytes", <<>>),
    F("t2", <<"a", "CR", "LF", "Content-Type", "CO", "SP", "text/plain">>, TRUE,
            <<"Q", "CR", "LF", "CR", "LF", "DA", "DA", "b", "CR", "LF">>, "", "", "bytes", <<"FF", "CR", "LF", "DA", "DA">>),
    F("t3", <<"NA", "BS", "Q">>, TRUE, <<"a", "TXT">>, "image/jpeg", "", "str", <<"NA", "CR", "LF">>),
    F("t2", <<"PC", "2", "2">>, TRUE, <<"LF", "TXT">>, "", "", "str", <<"PC", "SC">>),
    F("t2", <<"BS">>, FALSE, <<>>, "", "", "bytes", <<"DA", "DA">>),
    F("rf", <<"SC", "CR", "LF", "DA", "DA", "b", "DA", "DA", "CR", "LF">>, TRUE, <<>>, "", "/loc", "str",
            <<"CR", "LF", "DA", "DA", "a">>),
    F("rf", <<>>, FALSE, <<>>, "text/plain", "", "bytes", <<"CR", "LF", "CR", "LF">>),
    F("t3", <<"DA", "DA">>, FALSE, <<>>, "text/plain", "", "str", <<"DA">>),
    F("rf", <<"Q">>, TRUE, <<"Q">>, "", "", "str", <<"Q", "CR">>) }

PoolMixedSmall == {f \in PoolMixed : f.form # "t3"}

BStd == {<<"b">>}
BHostile == {<<"b">>, <<"a">>, <<"DA", "a">>, <<"DA", "DA">>, <<"a", "DA", "b">>}
BData == {<<"b">>, <<"a">>, <<"DA">>, <<"DA", "a">>, <<"DA", "DA">>, <<"a", "DA">>, <<"b", "a", "b">>}

-----------------------------------------------------------------------------
\* Emission: every state (boundary, field list) once, with the model's encoding.
SymCode(c) == CASE c = "Q" -> 1 [] c = "CR" -> 2 [] c = "LF" -> 3 [] c = "SC" -> 4 [] c = "BS" -> 5 [] c = "DA" -> 6
                [] c = "a" -> 7 [] c = "NA" -> 8 [] c = "PC" -> 9 [] c = "TXT" -> 10 [] c = "FF" -> 11 [] c = "b" -> 12
                [] OTHER -> 13
RECURSIVE SeqHash(_, _)
SeqHash(s, i) == IF i > Len(s) THEN 0 ELSE ((i + 1) * SymCode(s[i]) + 3 * SeqHash(s, i + 1)) % 9973
FieldHash(f) == 3 * SeqHash(f.name, 1) + 5 * SeqHash(f.fn, 1) + 7 * SeqHash(f.data, 1) + Len(f.form) + Len(f.ct)
RECURSIVE ListHash(_, _)
ListHash(l, i) == IF i > Len(l) THEN 0 ELSE ((i + 1) * FieldHash(l[i]) + 5 * ListHash(l, i + 1)) % 9973
ShardOf == (ListHash(fs, 1) + SeqHash(b, 1)) % ShardK

Emit == (ShardOf = ShardS) =>
            PrintT(<<"FL", ToJson([b |-> b, fs |-> fs, adm |-> Admissible(fs, b),
                                   enc |-> Encode(fs, b), ct |-> ContentType(b)])>>)
=============================================================================
