--------------------------- MODULE SSLTransport_Trace ---------------------------
(* Batch trace validation for the SSLTransport growth module: every trace is the event log     *)
(* recorded while the real SSLTransport replayed one schedule.  Total monitor: the Rules of     *)
(* SSLTransport.tla are evaluated on the whole log and the earliest offending position and its  *)
(* clause (or "ok") are printed per trace.                                                      *)
EXTENDS SSLTransport, Json, IOUtils

Traces == JsonDeserialize(IOEnv.TRACE_FILE)
ToSeq(s) == [i \in 1..Len(s) |-> s[i]]
NormEv(e) == [e EXCEPT !.data = IF e.data = <<>> THEN <<>> ELSE ToSeq(e.data)]
NormLog(t) == [i \in 1..Len(t.events) |-> NormEv(t.events[i])]

VARIABLE tid
tvars == <<vars, tid>>
TInit == /\ tid = 1
         /\ cfg = "-" /\ log = <<>> /\ pc = "trace" /\ cur = NoCall /\ last = "-" /\ nop = 0 /\ wire = <<>> /\ wpart = 0
         /\ incFull = <<>> /\ incEof = FALSE /\ sockEof = FALSE /\ outgoing = <<>> /\ hs = 0 /\ pend = <<0, 0>>
         /\ taken = 0 /\ mfbuf = <<0, 0>> /\ mfUsed = FALSE /\ rxClosed = FALSE /\ txClosed = FALSE /\ srvHs = FALSE
         /\ srvWritten = 0 /\ srvWrites = 0 /\ srvClosedTx = FALSE /\ cliSent = 0 /\ srvGot = 0 /\ closed = 0
         /\ stimeout = 0 /\ tmo = 0 /\ broken = FALSE /\ sched = <<>>
TNext == /\ tid <= Len(Traces)
         /\ LET v == Verdict(Traces[tid].cfg, NormLog(Traces[tid])) IN PrintT(<<"VERDICT", tid, v[1], v[2]>>)
         /\ tid' = tid + 1
         /\ UNCHANGED vars
TSpec == TInit /\ [][TNext]_tvars
=============================================================================
