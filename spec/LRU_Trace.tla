------------------------------ MODULE LRU_Trace ------------------------------
(* Batch trace validation for C17 (container clause, sequential histories): every trace is a   *)
(* sequence of operations performed by ONE thread on a real RecentlyUsedContainer, each logged  *)
(* with everything the caller can observe: the returned value / KeyError, the values handed to  *)
(* the dispose callback during the call (in call order) and whether the container's lock was    *)
(* held by the caller at any of those calls, len() and keys() afterwards and - when the harness *)
(* could look - the complete recency order.                                                     *)
(*                                                                                             *)
(* The monitor replays each operation with LRU!Apply (the same operator that TLC checked in      *)
(* stage 1 and that produced the emitted transitions) and compares.  It is total: a mismatch     *)
(* prints  <<"VERDICT", tid, position, clause>>  naming the failing clause and the monitor       *)
(* moves on to the next trace; a clean trace prints clause "ok".  Soft (model-shape) mismatches  *)
(* print <<"DRIFT", tid, position, what>> and do not affect the verdict.                         *)
(*                                                                                             *)
(* trace  = [m |-> maxsize, hasd |-> dispose_func installed, ev |-> <<event, ...>>]              *)
(* event  = [op, k, v,            the operation (LRU!E)                                          *)
(*           res,                 returned value as string, "<none>", "<KeyError>", "<keys>"     *)
(*           rk,                  keys() result (sequence of keys) for op = "keys"               *)
(*           disp, held,          values passed to dispose_func / lock held during such a call    *)
(*           n, ks,               len(c) and keys() after the operation                          *)
(*           hasord, ord]         recency order after the operation (<<[k, v], ...>>) if seen     *)
EXTENDS LRU, Json, IOUtils, TLCExt

Traces == JsonDeserialize(IOEnv.TRACE_FILE)

TrKeys == {"a", "b", "c", "d"}
TrValues == {1}
TrMaxSizes == {0}

VARIABLES tid, l
tvars == <<order, maxsize, last, tid, l>>

SeqToSet(s) == {s[i] : i \in 1..Len(s)}

TInit == /\ order = <<>> /\ maxsize = 0 /\ tid = 1 /\ l = 1
         /\ last = [op |-> "init"]

\* The Rules clauses of the container, evaluated on one logged event e against the reference
\* result r = Apply(order, m, e).  Returns the name of the first failing clause.
Clause(o, m, hasd, r, e) ==
    IF e.res # r.res THEN "ReturnValue"
    ELSE IF e.op = "keys" /\ SeqToSet(e.rk) # r.rk THEN "ReturnValue"
    ELSE IF hasd /\ ~SameBag(e.disp, r.disp) THEN "DisposeExactlyOnce"
    ELSE IF ~hasd /\ e.disp # <<>> THEN "DisposeExactlyOnce"
    ELSE IF e.held THEN "DisposeOutsideLock"
    ELSE IF e.n > m THEN "Bound"
    ELSE IF e.n # Len(r.order) THEN "ReferenceState"
    ELSE IF SeqToSet(e.ks) # KeySet(r.order) THEN (IF e.op \in {"get", "getd", "has"} THEN "ReferenceState" ELSE "LRUOrder")
    ELSE IF e.hasord /\ e.ord # r.order THEN "LRUOrder"
    ELSE "ok"

\* the code disposes cleared values in recency order; the statement does not demand it
Soft(r, e, hasd) == IF hasd /\ e.disp # r.disp THEN "DisposeOrder" ELSE "ok"

NextTrace == /\ tid' = tid + 1 /\ l' = 1 /\ order' = <<>> /\ UNCHANGED <<maxsize, last>>

TNext ==
    /\ tid <= Len(Traces)
    /\ LET T == Traces[tid] IN
       IF l > Len(T.ev)
       THEN PrintT(<<"VERDICT", tid, l, "ok">>) /\ NextTrace
       ELSE LET e == T.ev[l]
                r == Apply(order, T.m, E(e.op, e.k, e.v))
                c == Clause(order, T.m, T.hasd, r, e) IN
            IF c = "ok"
            THEN /\ (Soft(r, e, T.hasd) # "ok" => PrintT(<<"DRIFT", tid, l, Soft(r, e, T.hasd)>>))
                 /\ order' = r.order /\ l' = l + 1 /\ UNCHANGED <<tid, maxsize, last>>
            ELSE PrintT(<<"VERDICT", tid, l, c>>) /\ NextTrace

TSpec == TInit /\ [][TNext]_tvars
=============================================================================
