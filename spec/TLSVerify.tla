------------------------------- MODULE TLSVerify -------------------------------
(* C07 -- "an HTTPS request is sent only over a connection verified as configured".           *)
(*                                                                                             *)
(* A DECISION model (not a protocol model) of how urllib3 decides whether a TLS peer may be    *)
(* talked to.  Two layers over the same lattice of configurations x servers:                   *)
(*                                                                                             *)
(*   Rules  -- the property: which checks the caller's settings DEMAND (Demanded), which of    *)
(*             them the server really passes (Passed / Failed: ground truth fixed by how the   *)
(*             harness minted the certificate, three-valued where the statement leaves room),  *)
(*             and three clauses over what an outside observer can see of one connection       *)
(*             attempt (request bytes at the server, exception, peer-side EOF, is_verified,    *)
(*             InsecureRequestWarning).  The SAME clause operators judge model states (stage   *)
(*             1, this module) and recorded real handshakes (TLSVerify_Trace).                 *)
(*   Model  -- what urllib3 does, one action per real step of                                  *)
(*             HTTPSConnection.__init__ / connect / _connect_tls_proxy / _tunnel /             *)
(*             _ssl_wrap_socket_and_match_hostname / create_urllib3_context /                  *)
(*             HTTPSConnectionPool._validate_conn / conn.request.                              *)
(*             TLC checks Model |= Rules on the whole lattice, monotonicity, and that every    *)
(*             outcome class is reached; the Model's predicted observation is emitted with     *)
(*             every lattice point (MC_TLSVerify) and compared with the real one (drift).      *)
(*                                                                                             *)
(* Cryptography (is the chain valid, are two digests equal, the handshake itself) is OpenSSL's *)
(* and enters only as environment facts: issuer trusted/untrusted, SAN shape, pin right/wrong. *)
EXTENDS Naturals, Sequences, FiniteSets, TLC

-----------------------------------------------------------------------------
(* The lattice                                                                                *)

ReqsL    == {"default", "REQUIRED", "OPTIONAL", "NONE"}          \* cert_reqs
AHL      == {"unset", "False", "match", "mismatch"}              \* assert_hostname
FPL      == {"unset", "right", "wrong", "badlen"}                \* assert_fingerprint
SHL      == {"unset", "match", "mismatch"}                       \* server_hostname
CtxL     == {"none", "default_like", "nocheck", "mode_none", "urllib3_ctx"}   \* caller-supplied SSLContext
  \* default_like = ssl.create_default_context(); nocheck = same with check_hostname off; mode_none = same
  \* with verify_mode CERT_NONE too; urllib3_ctx = urllib3.util.ssl_.create_urllib3_context() (documented:
  \* CERT_REQUIRED, check_hostname on, commonName fallback off)
BackendL == {"ssl", "pyopenssl"}
RouteL   == {"direct", "tunnel_http", "tunnel_https_good", "tunnel_https_bad", "tunnel_https_pinned",
             "tunnel_https_shared", "tunnel_https_shared_pah"}
  \* ..._shared: good https proxy and proxy_ssl_context IS the caller's ssl_context (one shared object; with
  \* no caller context it degenerates to tunnel_https_good); ..._shared_pah: the same with
  \* proxy_assert_hostname set (to the proxy's right name)
  \* CONNECT tunnel through an http proxy, or through an https proxy whose certificate is good (trusted,
  \* right name), bad (untrusted issuer), or good and additionally pinned with proxy_assert_fingerprint
CaSrcL   == {"file", "data", "dir", "none", "ctx"}
  \* how the CONFIGURED CAs reach the client: ca_certs file, ca_cert_data PEM text, ca_cert_dir hashed
  \* directory, not at all (=> the process default trust store is the configured set), or inside the
  \* caller-supplied context (the caller did load_verify_locations itself)
IssuerL  == {"trusted", "untrusted", "default_store"}
  \* who signed the origin's certificate: the private CA the harness hands over whenever a CA source is
  \* configured; a CA in no store; a CA that is ONLY in the process default trust store
SanL     == {"exact", "wildcard", "mismatch", "ip_match", "ip_mismatch", "cn_only"}
HostL    == {"lower", "upper", "dot", "ipv4", "ipv6zone"}        \* spelling of the requested host

HttpsProxyRoutes == {"tunnel_https_good", "tunnel_https_bad", "tunnel_https_pinned",
                     "tunnel_https_shared", "tunnel_https_shared_pah"}
HistL    == {"fresh", "after_ah", "after_fp"}
  \* history of the caller-supplied context OBJECT: fresh, or already used by an earlier connection that had
  \* assert_hostname=<name> / assert_fingerprint=<right pin> (to a good server, same cert_reqs); the point
  \* describes the LATER connection, which is the one judged

CONSTANTS Routes,      \* sub-lattice explored: subset of RouteL
          Backends,    \* subset of BackendL
          Hosts,       \* subset of HostL
          Sans,        \* subset of SanL
          KnownDefects \* named deviations of the real code the Model reproduces (subset of AllKnownDefects);
                       \* {} = the design the finding asks for

\* "PinnedProxySilencesWarning": _validate_conn warns only when NEITHER the origin NOR the proxy leg is
\* verified, so a pinned (hence "verified") https proxy silences the warning for an unvalidated origin.
AllKnownDefects == {"PinnedProxySilencesWarning"}
\* deviations that are NOT in the code: each must make TLC report a clause (the spec can see them)
RefutableDeviations == {"DefaultStoreAlsoTrusted", "HostnameOwnerDecidedUpFront"}

\* TLS-in-TLS needs SSLContext.wrap_bio, which the pyOpenSSL context does not have: those points
\* are outside the lattice (urllib3 refuses them with ProxySchemeUnsupported).
ValidStack(backend, route) == route \in HttpsProxyRoutes => backend = "ssl"

\* CAs travel inside the caller's context exactly when there is one
ValidTrust(ctx, casrc) == (ctx = "none") <=> (casrc # "ctx")

\* a history needs a caller context; only the kinds that start with check_hostname on are crossed with it
ValidHist(ctx, hist) == hist # "fresh" => ctx \in {"default_like", "urllib3_ctx"}

Cfg == {c \in [reqs : ReqsL, ah : AHL, fp : FPL, sh : SHL, ctx : CtxL, casrc : CaSrcL, hist : HistL,
               backend : Backends, route : Routes] :
            ValidStack(c.backend, c.route) /\ ValidTrust(c.ctx, c.casrc) /\ ValidHist(c.ctx, c.hist)}
Srv == [issuer : IssuerL, san : Sans, host : Hosts]

-----------------------------------------------------------------------------
(* RULES, part 1: what the settings demand                                                     *)

\* verify_mode the caller-context kinds are documented to have
CtxMode(k) == IF k = "mode_none" THEN "NONE" ELSE "REQUIRED"

\* "by default chain validation ... plus a hostname match": the effective verification mode is the
\* explicit cert_reqs, else the caller context's own mode, else REQUIRED.
EffMode(cfg) == IF cfg.reqs # "default" THEN cfg.reqs
                ELSE IF cfg.ctx # "none" THEN CtxMode(cfg.ctx) ELSE "REQUIRED"

\* Which name the configuration designates for the hostname check: assert_hostname when it is a
\* name, else the server_hostname override, else the requested (or tunnelled-to) host.
\* "certname" = a name the certificate was minted for, "nomatch" = a name no certificate carries.
TermOfSH(cfg) == CASE cfg.sh = "match" -> "certname" [] cfg.sh = "mismatch" -> "nomatch" [] OTHER -> "host"
NameTerm(cfg) == CASE cfg.ah = "match" -> "certname" [] cfg.ah = "mismatch" -> "nomatch" [] OTHER -> TermOfSH(cfg)

Pinned(cfg) == cfg.fp # "unset"

\* The checks the settings demand of the ORIGIN's certificate.
Demanded(cfg) ==
    (IF Pinned(cfg) THEN {"pin"} ELSE {})
    \cup (IF EffMode(cfg) = "REQUIRED" THEN {"chain"} ELSE {})
    \cup (IF EffMode(cfg) # "NONE" /\ cfg.ah # "False" /\ ~Pinned(cfg) THEN {"name"} ELSE {})

\* ... and of an HTTPS proxy's certificate (the same cert_reqs governs the proxy leg; a proxy pin
\* replaces the proxy name check exactly as an origin pin replaces the origin name check).
ProxyPinned(cfg) == cfg.route = "tunnel_https_pinned"
ProxyAH(cfg)     == cfg.route = "tunnel_https_shared_pah"         \* proxy_assert_hostname = the proxy's name
SharedCtx(cfg)   == cfg.route \in {"tunnel_https_shared", "tunnel_https_shared_pah"} /\ cfg.ctx # "none"
ProxyDemanded(cfg) ==
    IF cfg.route \notin HttpsProxyRoutes THEN {}
    ELSE (IF ProxyPinned(cfg) THEN {"ppin"} ELSE {})
         \cup (IF EffMode(cfg) = "REQUIRED" THEN {"pchain"} ELSE {})
         \cup (IF EffMode(cfg) # "NONE" /\ ~ProxyPinned(cfg) THEN {"pname"} ELSE {})

\* "made without certificate validation (cert_reqs other than REQUIRED and no pinned fingerprint)"
\* -- of the ORIGIN: a pin on the proxy's certificate validates the proxy, not the peer the request
\* is for.
Validated(cfg) == EffMode(cfg) = "REQUIRED" \/ Pinned(cfg)

\* A caller context that itself checks hostnames combined with cert_reqs=NONE is a configuration
\* conflict: Python's ssl refuses it (ValueError) before a single TLS byte is written.
\* LATITUDE: the statement does not say how such a conflict is resolved -- refusing the configuration
\* (nothing sent, exception type unconstrained) and honouring the explicit cert_reqs=NONE are both
\* inside it; the Rules only insist that a refusal sends nothing and leaves no socket open.
Conflict(cfg) == cfg.backend = "ssl" /\ cfg.ctx \in {"default_like", "urllib3_ctx"} /\ cfg.reqs = "NONE"

-----------------------------------------------------------------------------
(* RULES, part 2: ground truth about the server (from how the certificate was minted)          *)

DnsHost(h) == h \in {"lower", "upper", "dot"}      \* all three spell a.svc.test; the others are IPs

\* does the certificate carry the requested host?   "cn": only as a bare commonName (no SAN)
HostTruth(san, h) ==
    CASE san \in {"exact", "wildcard"} -> IF DnsHost(h) THEN "pass" ELSE "fail"
      [] san = "ip_match"              -> IF DnsHost(h) THEN "fail" ELSE "pass"
      [] san = "cn_only"               -> IF DnsHost(h) THEN "cn" ELSE "fail"
      [] OTHER                         -> "fail"        \* mismatch, ip_mismatch

RawTermTruth(term, srv) ==
    CASE term = "nomatch"  -> "fail"
      [] term = "certname" -> IF srv.san = "cn_only" THEN "cn" ELSE "pass"
      [] OTHER             -> HostTruth(srv.san, srv.host)

\* LATITUDE: a SAN-less certificate matches only through the commonName fallback.  urllib3's own
\* context (built internally or handed back by the caller) switches the fallback off (=> the name
\* check fails); any other caller-supplied context keeps its own hostname_checks_common_name, so
\* the statement does not decide that case (either).
NameTruth(cfg, srv) ==
    LET raw == RawTermTruth(NameTerm(cfg), srv) IN
    IF raw = "cn" THEN (IF cfg.ctx \in {"none", "urllib3_ctx"} THEN "fail" ELSE "either") ELSE raw

\* "chain validation against the CONFIGURED CAs": when any CA source is configured the private CA is the
\* configured set and the default trust store must not count; when none is configured, the default
\* store is the configured set.
PrivateConfigured(cfg) == cfg.casrc # "none"
ChainTruth(cfg, issuer) ==
    CASE issuer = "trusted"       -> IF PrivateConfigured(cfg) THEN "pass" ELSE "fail"
      [] issuer = "default_store" -> IF PrivateConfigured(cfg) THEN "fail" ELSE "pass"
      [] OTHER                    -> "fail"

Truth(c, cfg, srv) ==
    CASE c = "chain"  -> ChainTruth(cfg, srv.issuer)
      [] c = "name"   -> NameTruth(cfg, srv)
      [] c = "pin"    -> IF cfg.fp = "right" THEN "pass" ELSE "fail"      \* wrong digest / impossible length
      [] c = "pchain" -> ChainTruth(cfg, IF cfg.route = "tunnel_https_bad" THEN "untrusted" ELSE "trusted")
      [] c = "pname"  -> "pass"                                            \* proxy.test for proxy.test
      [] c = "ppin"   -> "pass"                                            \* the right proxy pin
      [] OTHER        -> "pass"

Checks == {"chain", "name", "pin", "pchain", "pname", "ppin"}
Passed(srv, cfg) == {c \in Checks : Truth(c, cfg, srv) = "pass"}
Failed(srv, cfg) == {c \in Checks : Truth(c, cfg, srv) = "fail"}

AllDemanded(cfg) == Demanded(cfg) \cup ProxyDemanded(cfg)

\* Three-valued expectation.  LATITUDE: rejecting MORE than demanded is never a violation; with
\* CERT_OPTIONAL OpenSSL still validates the chain in client mode, so a chain failure there may
\* or may not block; a backend that cannot read a CA source (pyOpenSSL: ca_cert_data alone, the
\* default store) fails closed.
BackendCannotLoad(cfg) == cfg.backend = "pyopenssl" /\ cfg.casrc \in {"data", "none"}
MustBlock(cfg, srv)      == AllDemanded(cfg) \cap Failed(srv, cfg) # {}
ProxyMustBlock(cfg, srv) == ProxyDemanded(cfg) \cap Failed(srv, cfg) # {}
MayBlock(cfg, srv) ==
    \/ MustBlock(cfg, srv)
    \/ \E c \in AllDemanded(cfg) : Truth(c, cfg, srv) = "either"
    \/ EffMode(cfg) = "OPTIONAL" /\ (Truth("chain", cfg, srv) = "fail"
                                    \/ (cfg.route \in HttpsProxyRoutes /\ Truth("pchain", cfg, srv) = "fail"))
    \/ BackendCannotLoad(cfg) /\ (cfg.casrc = "data" \/ EffMode(cfg) # "NONE")   \* loading fails whatever the mode

Expect(cfg, srv) == IF Conflict(cfg) THEN "refused"
                    ELSE IF MustBlock(cfg, srv) THEN "block"
                    ELSE IF MayBlock(cfg, srv) THEN "either" ELSE "send"

-----------------------------------------------------------------------------
(* RULES, part 3: the clauses, over an observation of one attempt                              *)
(*   o.sent     some byte of the HTTP request reached the origin party                         *)
(*   o.proxied  the CONNECT request reached the proxy party                                    *)
(*   o.resp     the caller got a response                                                      *)
(*   o.exc      "none" | "ssl" (urllib3 SSLError, possibly inside MaxRetryError / ProxyError)   *)
(*              | "config" (ValueError of the conflict) | "other"                              *)
(*   o.closed   every socket that was dialled was seen closed by its peer (EOF / reset)        *)
(*   o.verified conn.is_verified as reported when the request was issued                       *)
(*   o.warned   InsecureRequestWarning was emitted                                             *)

R_SentImpliesDemandedPassed(cfg, srv, o) ==
    /\ o.sent => ~MustBlock(cfg, srv)
    /\ o.proxied => ~ProxyMustBlock(cfg, srv)
    /\ o.resp => o.sent
    /\ o.exc = "config" => ~o.sent

R_FailedCheckRaisesSSLErrorAndCloses(cfg, srv, o) ==
    /\ MustBlock(cfg, srv) => ((o.exc = "ssl" /\ o.closed /\ ~o.resp)
                                \/ (Conflict(cfg) /\ o.exc = "config" /\ o.closed /\ ~o.resp))
    /\ o.exc = "config" => (o.closed /\ ~o.resp)

R_UnverifiedWarnedAndNotReportedVerified(cfg, srv, o) ==
    (o.sent /\ ~Validated(cfg)) => (o.warned /\ ~o.verified)

\* total: name of the first failing clause
RulesClause(cfg, srv, o) ==
    IF ~R_SentImpliesDemandedPassed(cfg, srv, o) THEN "SentImpliesDemandedPassed"
    ELSE IF ~R_FailedCheckRaisesSSLErrorAndCloses(cfg, srv, o) THEN "FailedCheckRaisesSSLErrorAndCloses"
    ELSE IF ~R_UnverifiedWarnedAndNotReportedVerified(cfg, srv, o) THEN "UnverifiedWarnedAndNotReportedVerified"
    ELSE "ok"

-----------------------------------------------------------------------------
(* MODEL: urllib3's decision procedure, one step per real statement group                      *)

VARIABLE st
vars == <<st>>

\* concrete names behind the terms (SNI is part of the predicted observation; drift only)
SniOf(term, srv) ==
    CASE term = "nomatch"  -> "nomatch.test"
      [] term = "certname" -> (CASE srv.san = "wildcard" -> "b.svc.test"
                                 [] srv.san = "mismatch" -> "other.test"
                                 [] srv.san \in {"ip_match", "ip_mismatch"} -> "<none>"   \* no SNI for IPs
                                 [] OTHER -> "a.svc.test")
      [] OTHER             -> IF DnsHost(srv.host) THEN "a.svc.test" ELSE "<none>"

InitStateKD(cfg, srv, kd) ==
    [cfg |-> cfg, srv |-> srv, pc |-> "new", kd |-> kd,
     certReqs |-> "unset",     \* HTTPSConnection.cert_reqs
     own |-> FALSE,            \* default_ssl_context: urllib3 built the context itself
     vmode |-> "unset",        \* context.verify_mode
     checkHost |-> FALSE,      \* context.check_hostname: OpenSSL matches the name in the handshake
     cnFallback |-> FALSE,     \* context.hostname_checks_common_name
     trusts |-> {},            \* CA sets in the context's store: subset of {"private", "default"}
     ctxCheckHostname |-> "unset",  \* check_hostname attribute of the caller-supplied context OBJECT; it
                               \* persists across legs and connections: "unset" (as the caller made it) | "on" | "off"
     pVerified |-> "none",     \* conn.proxy_is_verified: "none" | "true" | "false"
     isVerified |-> FALSE,     \* conn.is_verified
     sockOpen |-> FALSE, hs |-> FALSE, sni |-> "<none>",
     connectSent |-> FALSE, reqBytes |-> FALSE, warned |-> FALSE,
     exc |-> "none", by |-> "none"]     \* by: which component rejected (free per LATITUDE; drift only)
InitState(cfg, srv) == InitStateKD(cfg, srv, KnownDefects)

Refuse(s) == [s EXCEPT !.pc = "refused", !.exc = "config", !.sockOpen = FALSE]

\* what context.check_hostname reads on the caller's object right now
KindCheckHost(cfg) == CASE cfg.ctx = "default_like" -> TRUE
                        [] cfg.ctx = "urllib3_ctx" -> cfg.backend = "ssl"     \* made by urllib3's factory
                        [] OTHER -> FALSE
CurCheckHost(s) == IF s.ctxCheckHostname = "unset" THEN KindCheckHost(s.cfg) ELSE s.ctxCheckHostname = "on"
OnOff(b) == IF b THEN "on" ELSE "off"

DerivedReqs(cfg) == IF cfg.reqs # "default" THEN cfg.reqs
                    ELSE IF cfg.ctx # "none" THEN CtxMode(cfg.ctx) ELSE "REQUIRED"

Raise(s, by) == [s EXCEPT !.pc = "raised", !.exc = "ssl", !.sockOpen = FALSE, !.by = by]

\* --- HTTPSConnection.__init__: "cert_reqs depends on ssl_context so calculate last"
\* --- an EARLIER connection through the same caller context (assert_hostname=<name> or a right pin, same
\*     cert_reqs, good server): its DecideWhoChecksHostname flipped check_hostname off ON THE OBJECT --
\*     unless it never got that far (ValueError of the conflict).  (pyOpenSSL contexts cannot serve a second
\*     connection at all -- finding C07-F2 -- so no earlier connection is made there.)
En_PriorConnection(s) == s.pc = "new" /\ s.cfg.hist # "fresh"
PriorConnectionStep(s) ==
    LET conflict == s.cfg.backend = "ssl" /\ CurCheckHost(s) /\ DerivedReqs(s.cfg) = "NONE" IN
    [s EXCEPT !.ctxCheckHostname = IF s.cfg.backend = "pyopenssl" \/ conflict THEN @ ELSE "off", !.pc = "primed"]

En_DeriveCertReqs(s) == (s.pc = "new" /\ s.cfg.hist = "fresh") \/ s.pc = "primed"
DeriveCertReqsStep(s) == [s EXCEPT !.certReqs = DerivedReqs(s.cfg), !.pc = "derived"]

\* --- connect(): self._new_conn()
En_Dial(s) == s.pc = "derived"
DialStep(s) ==
    [s EXCEPT !.sockOpen = TRUE,
              !.pc = CASE s.cfg.route = "direct" -> "connected"
                       [] s.cfg.route = "tunnel_http" -> "at_proxy"
                       [] OTHER -> "proxy_tls"]

\* --- the trust store a context ends up with (both legs use the same code):
\*     `if not ca_certs and not ca_cert_dir and not ca_cert_data and default_ssl_context and
\*      hasattr(context, "load_default_certs"): context.load_default_certs()`, then in ssl_wrap_socket
\*     `if ca_certs or ca_cert_dir or ca_cert_data: context.load_verify_locations(...)`.
\*     Named deviation "DefaultStoreAlsoTrusted" (NOT a defect of the code; TLC must refute it): the
\*     guard forgets ca_cert_data, so the default store is loaded on top of the configured PEM text.
StoreAfterLoading(s, own, before) ==
    LET given    == IF s.cfg.casrc = "ctx" THEN (IF own THEN {"file"} ELSE {}) ELSE {s.cfg.casrc} \ {"none"}
        seen     == IF "DefaultStoreAlsoTrusted" \in s.kd THEN given \ {"data"} ELSE given
        defaults == IF own /\ seen = {} /\ s.cfg.backend = "ssl" THEN {"default"} ELSE {}   \* pyOpenSSL: no such method
        loaded   == IF given # {} THEN {"private"} ELSE {}
    IN before \cup defaults \cup loaded

\* --- _connect_tls_proxy: same wrap-and-verify function, proxy_config's context (none here => a
\*     fresh urllib3 context with the connection's cert_reqs), server_hostname = proxy host
En_ProxyHandshake(s) == s.pc = "proxy_tls"
\*     With proxy_ssl_context IS ssl_context the proxy leg works on the caller's object: the verify_mode
\*     assignment can hit the conflict, and proxy_assert_hostname flips check_hostname off for good.
ProxyHandshakeStep(s) ==
    LET signer == IF s.cfg.route = "tunnel_https_bad" THEN "nobody" ELSE "private"
        \* (when the caller brought a context the harness also passes ca_certs for the proxy leg)
        shared == SharedCtx(s.cfg)
        chk    == shared /\ CurCheckHost(s)
        chk2   == IF ProxyAH(s.cfg) THEN FALSE ELSE chk
        store  == IF shared THEN StoreAfterLoading(s, FALSE, {"private"}) ELSE StoreAfterLoading(s, TRUE, {})
    IN
    IF shared /\ chk /\ s.certReqs = "NONE" THEN Refuse(s)
    ELSE IF s.cfg.backend = "pyopenssl" /\ s.cfg.casrc = "data" THEN Raise(s, "pyopenssl-cannot-load-cadata")
    ELSE IF s.certReqs # "NONE" /\ signer \notin store
    THEN Raise(s, "openssl-proxy-chain")
    ELSE [s EXCEPT !.pVerified = IF s.certReqs = "REQUIRED" \/ ProxyPinned(s.cfg) THEN "true" ELSE "false",
                   !.ctxCheckHostname = IF shared THEN OnOff(chk2) ELSE @,
                   !.pc = "at_proxy"]

\* --- _tunnel(): CONNECT goes to the proxy; an http proxy is by definition unverified
En_Tunnel(s) == s.pc = "at_proxy"
TunnelStep(s) ==
    [s EXCEPT !.connectSent = TRUE,
              !.pVerified = IF s.cfg.route = "tunnel_http" THEN "false" ELSE @,
              !.pc = "connected"]

\* --- _ssl_wrap_socket_and_match_hostname, first half: create_urllib3_context() or the caller's
\*     context, then `context.verify_mode = resolve_cert_reqs(cert_reqs)`
En_BuildContext(s) == s.pc = "connected"
BuildContextStep(s) ==
    LET own  == s.cfg.ctx = "none"
        \* create_urllib3_context: CERT_REQUIRED and not pyOpenSSL => check_hostname = True
        chk0 == IF own THEN (s.certReqs = "REQUIRED" /\ s.cfg.backend = "ssl")
                ELSE CurCheckHost(s)       \* the caller's object as earlier legs / connections left it
        \* ssl.SSLContext refuses verify_mode = CERT_NONE while check_hostname is on
        refuse == ~own /\ s.cfg.backend = "ssl" /\ chk0 /\ s.certReqs = "NONE"
    IN IF refuse
       THEN Refuse(s)
       ELSE [s EXCEPT !.own = own, !.vmode = s.certReqs, !.checkHost = chk0,
                      \* ssl.create_default_context keeps the fallback on, urllib3's factory turns it off
                      !.cnFallback = ~own /\ s.cfg.backend = "ssl" /\ s.cfg.ctx # "urllib3_ctx",
                      !.trusts = IF own THEN {} ELSE {"private"},     \* the caller loaded its CA itself
                      !.pc = "ctx_built"]

\* --- "In some cases, we want to verify hostnames ourselves"
En_DecideWhoChecksHostname(s) == s.pc = "ctx_built"
DecideWhoChecksHostnameStep(s) ==
    LET ourselves == s.cfg.fp # "unset" \/ s.cfg.ah # "unset" \/ s.cfg.backend = "pyopenssl"
        chk == IF ourselves THEN FALSE ELSE s.checkHost
    IN [s EXCEPT !.checkHost = chk,
                 !.ctxCheckHostname = IF s.own THEN @ ELSE OnOff(chk),     \* written onto the caller's object
                 !.pc = "decided"]

\* --- load_default_certs() guard + ssl_wrap_socket(): load_verify_locations()
En_LoadCAs(s) == s.pc = "decided"
LoadCAsStep(s) ==
    IF s.cfg.backend = "pyopenssl" /\ s.cfg.casrc = "data" THEN Raise(s, "pyopenssl-cannot-load-cadata")
    ELSE [s EXCEPT !.trusts = StoreAfterLoading(s, s.own, @), !.pc = "loaded"]

\* --- ssl_wrap_socket(): the handshake.  OpenSSL validates the chain whenever verify_mode is not
\*     NONE (OPTIONAL behaves like REQUIRED on the client side) and the name when check_hostname.
En_Handshake(s) == s.pc = "loaded"
HandshakeStep(s) ==
    LET term      == TermOfSH(s.cfg)                     \* server_hostname or host
        s1        == [s EXCEPT !.sni = SniOf(term, s.srv)]
        signer    == CASE s.srv.issuer = "trusted" -> "private" [] s.srv.issuer = "default_store" -> "default"
                       [] OTHER -> "nobody"
        chainFail == s.vmode # "NONE" /\ signer \notin s.trusts
        raw       == RawTermTruth(term, s.srv)
        nameFail  == s.checkHost /\ (raw = "fail" \/ (raw = "cn" /\ ~s.cnFallback))
    IN IF chainFail THEN Raise(s1, "openssl-chain")
       ELSE IF nameFail THEN Raise(s1, "openssl-name")
       ELSE [s1 EXCEPT !.hs = TRUE, !.pc = "handshaken"]

\* --- `if assert_fingerprint:` _assert_fingerprint(peer DER, pin)
En_AssertFingerprint(s) == s.pc = "handshaken" /\ s.cfg.fp # "unset"
AssertFingerprintStep(s) ==
    IF s.cfg.fp = "right" THEN [s EXCEPT !.pc = "checked"] ELSE Raise(s, "urllib3-pin")

\* --- `elif verify_mode != CERT_NONE and not check_hostname and assert_hostname is not False:`
\*     _match_hostname(cert, assert_hostname or server_hostname, hostname_checks_common_name)
\*     Named deviation "HostnameOwnerDecidedUpFront" (NOT in the code; TLC must refute it): the branch
\*     tests a flag computed once from the ARGUMENTS instead of the live context.check_hostname, so a
\*     context that an earlier leg / connection flipped off (or that the caller made that way) is matched
\*     by nobody.
MatchesOurselves(s) ==
    /\ s.cfg.fp = "unset" /\ s.vmode # "NONE" /\ s.cfg.ah # "False"
    /\ IF "HostnameOwnerDecidedUpFront" \in s.kd
       THEN s.cfg.ah \in {"match", "mismatch"} \/ s.cfg.backend = "pyopenssl"
       ELSE ~s.checkHost
En_MatchHostname(s) == s.pc = "handshaken" /\ MatchesOurselves(s)
MatchHostnameStep(s) ==
    LET raw == RawTermTruth(NameTerm(s.cfg), s.srv)
        \* own context => commonName never consulted; otherwise the context's own switch
        ok  == raw = "pass" \/ (raw = "cn" /\ ~s.own /\ s.cnFallback)
    IN IF ok THEN [s EXCEPT !.pc = "checked"] ELSE Raise(s, "urllib3-name")

\* --- neither branch taken
En_NoPostHandshakeCheck(s) == s.pc = "handshaken" /\ s.cfg.fp = "unset" /\ ~MatchesOurselves(s)
NoPostHandshakeCheckStep(s) == [s EXCEPT !.pc = "checked"]

\* --- is_verified = verify_mode == CERT_REQUIRED or bool(assert_fingerprint)
En_ComputeIsVerified(s) == s.pc = "checked"
ComputeIsVerifiedStep(s) ==
    LET v == s.vmode = "REQUIRED" \/ s.cfg.fp # "unset"
    IN [s EXCEPT !.isVerified = v,
                 !.pVerified = IF s.cfg.route # "direct" /\ @ = "none" THEN (IF v THEN "true" ELSE "false") ELSE @,
                 !.pc = "connected_tls"]

\* --- _validate_conn: `if not conn.is_verified and not conn.proxy_is_verified: warn`
\*     (design asked for, KnownDefects = {}: warn whenever the ORIGIN connection is not verified)
En_Warn(s) == s.pc = "connected_tls"
WarnStep(s) ==
    [s EXCEPT !.warned = ~s.isVerified /\ (IF "PinnedProxySilencesWarning" \in s.kd THEN s.pVerified # "true" ELSE TRUE),
              !.pc = "validated"]

\* --- conn.request(): first bytes of the HTTP request
En_SendRequest(s) == s.pc = "validated"
SendRequestStep(s) == [s EXCEPT !.reqBytes = TRUE, !.pc = "sent"]

Terminal(s) == s.pc \in {"sent", "raised", "refused"}

OutcomeClass(s) ==
    CASE s.pc = "refused" -> "ConfigRefused"
      [] s.pc = "raised"  -> "SSLErrorBeforeRequest"
      [] s.pc = "sent" /\ s.isVerified /\ ~s.warned -> "SentVerified"
      [] s.pc = "sent" /\ ~s.isVerified /\ s.warned -> "SentUnverifiedWarned"
      [] OTHER -> "Anomalous"
OutcomeClasses == {"SSLErrorBeforeRequest", "SentVerified", "SentUnverifiedWarned", "ConfigRefused"}

\* the step function (used by the actions below AND by the pure Run / Outcome operators)
NextState(s) ==
    CASE En_PriorConnection(s)         -> PriorConnectionStep(s)
      [] En_DeriveCertReqs(s)          -> DeriveCertReqsStep(s)
      [] En_Dial(s)                    -> DialStep(s)
      [] En_ProxyHandshake(s)          -> ProxyHandshakeStep(s)
      [] En_Tunnel(s)                  -> TunnelStep(s)
      [] En_BuildContext(s)            -> BuildContextStep(s)
      [] En_DecideWhoChecksHostname(s) -> DecideWhoChecksHostnameStep(s)
      [] En_LoadCAs(s)                 -> LoadCAsStep(s)
      [] En_Handshake(s)               -> HandshakeStep(s)
      [] En_AssertFingerprint(s)       -> AssertFingerprintStep(s)
      [] En_MatchHostname(s)           -> MatchHostnameStep(s)
      [] En_NoPostHandshakeCheck(s)    -> NoPostHandshakeCheckStep(s)
      [] En_ComputeIsVerified(s)       -> ComputeIsVerifiedStep(s)
      [] En_Warn(s)                    -> WarnStep(s)
      [] En_SendRequest(s)             -> SendRequestStep(s)
      [] OTHER                         -> s

RECURSIVE Run(_)
Run(s) == IF Terminal(s) \/ s.pc = "done" THEN s ELSE Run(NextState(s))

FinalKD(cfg, srv, kd) == Run(InitStateKD(cfg, srv, kd))
Final(cfg, srv)   == Run(InitState(cfg, srv))
Outcome(cfg, srv) == OutcomeClass(Final(cfg, srv))

\* what an outside observer sees of a model state
ObsOf(s) == [sent |-> s.reqBytes, proxied |-> s.connectSent, resp |-> s.pc = "sent", exc |-> s.exc,
             closed |-> ~s.sockOpen, verified |-> s.isVerified, warned |-> s.warned]

\* actions
PriorConnection         == En_PriorConnection(st)         /\ st' = PriorConnectionStep(st)
DeriveCertReqs          == En_DeriveCertReqs(st)          /\ st' = DeriveCertReqsStep(st)
Dial                    == En_Dial(st)                    /\ st' = DialStep(st)
ProxyHandshake          == En_ProxyHandshake(st)          /\ st' = ProxyHandshakeStep(st)
Tunnel                  == En_Tunnel(st)                  /\ st' = TunnelStep(st)
BuildContext            == En_BuildContext(st)            /\ st' = BuildContextStep(st)
DecideWhoChecksHostname == En_DecideWhoChecksHostname(st) /\ st' = DecideWhoChecksHostnameStep(st)
LoadCAs                 == En_LoadCAs(st)                 /\ st' = LoadCAsStep(st)
Handshake               == En_Handshake(st)               /\ st' = HandshakeStep(st)
AssertFingerprint       == En_AssertFingerprint(st)       /\ st' = AssertFingerprintStep(st)
MatchHostname           == En_MatchHostname(st)           /\ st' = MatchHostnameStep(st)
NoPostHandshakeCheck    == En_NoPostHandshakeCheck(st)    /\ st' = NoPostHandshakeCheckStep(st)
ComputeIsVerified       == En_ComputeIsVerified(st)       /\ st' = ComputeIsVerifiedStep(st)
Warn                    == En_Warn(st)                    /\ st' = WarnStep(st)
SendRequest             == En_SendRequest(st)             /\ st' = SendRequestStep(st)

\* terminal bookkeeping, one action per outcome class so that TLC's coverage counts the classes
\* (anti-vacuity: "every outcome class reached" is read back from these counters)
ReportSSLErrorBeforeRequest ==
    Terminal(st) /\ OutcomeClass(st) = "SSLErrorBeforeRequest" /\ st' = [st EXCEPT !.pc = "done"]
ReportSentVerified ==
    Terminal(st) /\ OutcomeClass(st) = "SentVerified" /\ st' = [st EXCEPT !.pc = "done"]
ReportSentUnverifiedWarned ==
    Terminal(st) /\ OutcomeClass(st) = "SentUnverifiedWarned" /\ st' = [st EXCEPT !.pc = "done"]
ReportConfigRefused ==
    Terminal(st) /\ OutcomeClass(st) = "ConfigRefused" /\ st' = [st EXCEPT !.pc = "done"]
ReportAnomalous ==
    Terminal(st) /\ OutcomeClass(st) = "Anomalous" /\ st' = [st EXCEPT !.pc = "done"]

Init == \E cfg \in Cfg, srv \in Srv : st = InitState(cfg, srv)

Next == \/ PriorConnection \/ DeriveCertReqs \/ Dial \/ ProxyHandshake \/ Tunnel \/ BuildContext \/ DecideWhoChecksHostname
        \/ LoadCAs \/ Handshake \/ AssertFingerprint \/ MatchHostname \/ NoPostHandshakeCheck \/ ComputeIsVerified
        \/ Warn \/ SendRequest
        \/ ReportSSLErrorBeforeRequest \/ ReportSentVerified \/ ReportSentUnverifiedWarned
        \/ ReportConfigRefused \/ ReportAnomalous

Spec == Init /\ [][Next]_vars /\ WF_vars(Next)

-----------------------------------------------------------------------------
(* What TLC checks (stage 1)                                                                   *)

PCs == {"new", "primed", "derived", "proxy_tls", "at_proxy", "connected", "ctx_built", "decided", "loaded", "handshaken", "checked",
        "connected_tls", "validated", "sent", "raised", "refused", "done"}
TypeOK == /\ st.cfg \in Cfg /\ st.srv \in Srv /\ st.pc \in PCs /\ st.kd = KnownDefects
          /\ st.trusts \subseteq {"private", "default"} /\ st.ctxCheckHostname \in {"unset", "on", "off"}
          /\ st.certReqs \in ReqsL \cup {"unset"} /\ st.vmode \in ReqsL \cup {"unset"}
          /\ st.pVerified \in {"none", "true", "false"} /\ st.exc \in {"none", "ssl", "config"}
          /\ \A f \in {"own", "checkHost", "cnFallback", "isVerified", "sockOpen", "hs", "connectSent",
                       "reqBytes", "warned"} : st[f] \in BOOLEAN

\* the three clauses of the statement, on EVERY reachable state of the model
SentImpliesDemandedPassed == R_SentImpliesDemandedPassed(st.cfg, st.srv, ObsOf(st))
FailedCheckRaisesSSLErrorAndCloses ==
    (Terminal(st) \/ st.pc = "done") => R_FailedCheckRaisesSSLErrorAndCloses(st.cfg, st.srv, ObsOf(st))
UnverifiedWarnedAndNotReportedVerified == R_UnverifiedWarnedAndNotReportedVerified(st.cfg, st.srv, ObsOf(st))

\* Strengthening a setting never turns a rejection of the peer into an acceptance.  One-step
\* weakenings (the order is generated by them): verification mode REQUIRED > OPTIONAL > NONE,
\* assert_hostname anything > False, a checking caller context > the same with verify_mode NONE,
\* and on the server side trusted > untrusted issuer, good > bad proxy certificate.
\* (A pin is NOT ordered against "no pin": by design it replaces the hostname check.)
WithReqs(cfg, r) == [cfg EXCEPT !.reqs = r]
Weakenings(cfg, srv) ==
    (IF EffMode(cfg) = "REQUIRED" THEN {<<WithReqs(cfg, "OPTIONAL"), srv>>} ELSE {})
    \cup (IF EffMode(cfg) = "OPTIONAL" THEN {<<WithReqs(cfg, "NONE"), srv>>} ELSE {})
    \cup (IF cfg.ah # "False" THEN {<<[cfg EXCEPT !.ah = "False"], srv>>} ELSE {})
    \cup (IF cfg.ctx \in {"default_like", "nocheck", "urllib3_ctx"} /\ cfg.reqs = "default"
          THEN {<<[cfg EXCEPT !.ctx = "mode_none"], srv>>} ELSE {})
    \cup (IF srv.issuer = "untrusted" THEN {<<cfg, [srv EXCEPT !.issuer = "trusted"]>>} ELSE {})
    \cup (IF cfg.route = "tunnel_https_bad" /\ "tunnel_https_good" \in Routes
          THEN {<<[cfg EXCEPT !.route = "tunnel_https_good"], srv>>} ELSE {})
Monotone ==
    st.pc = "sent" =>
        \A w \in Weakenings(st.cfg, st.srv) :
            LET f == Final(w[1], w[2]) IN f.pc = "sent" \/ f.pc = "refused"

\* the Model stays inside the three-valued envelope and is exact where the envelope is two-valued
WithinExpectation ==
    Terminal(st) =>
        LET e == Expect(st.cfg, st.srv) IN
        /\ e = "refused" => st.pc = "refused"
        /\ e = "block"   => st.pc = "raised"
        /\ e = "send"    => st.pc = "sent"
        /\ st.pc = "refused" => e = "refused"

NoAnomalousOutcome == Terminal(st) => OutcomeClass(st) \in OutcomeClasses

\* With KnownDefects # {} the Model describes the code AS IT IS: the two clauses above may fail, but only
\* on the recorded signature (anything else is a new violation), and the defect must really show.
KnownSignature(cfg) == "PinnedProxySilencesWarning" \in KnownDefects /\ ProxyPinned(cfg) /\ ~Validated(cfg)
UnverifiedWarned_ModuloKnown ==
    KnownSignature(st.cfg) \/ R_UnverifiedWarnedAndNotReportedVerified(st.cfg, st.srv, ObsOf(st))
NoAnomalous_ModuloKnown == Terminal(st) => (KnownSignature(st.cfg) \/ OutcomeClass(st) \in OutcomeClasses)
KnownDefectAlwaysShows ==
    (st.pc = "sent" /\ KnownSignature(st.cfg)) => ~R_UnverifiedWarnedAndNotReportedVerified(st.cfg, st.srv, ObsOf(st))
PureRunAgrees == Terminal(st) => Final(st.cfg, st.srv) = st

\* ordering of the real steps (action properties)
NoRequestByteBeforeValidation == [][st'.reqBytes /\ ~st.reqBytes => st.pc = "validated"]_vars
WarningDecidedBeforeRequest   == [][st'.warned # st.warned => st.pc = "connected_tls"]_vars
RaiseClosesSocket             == [][st'.pc = "raised" => ~st'.sockOpen /\ ~st'.reqBytes]_vars
VerifiedNeverRevised          == [][st.pc \in {"validated", "sent"} => st'.isVerified = st.isVerified]_vars
EveryAttemptConcludes         == <>(st.pc = "done")
=============================================================================
