--------------------------- MODULE TLSVerify_Trace ---------------------------
(* Batch validation of recorded REAL handshakes (C07, stage 4).  One trace = one lattice point  *)
(* (level names, as emitted by MC_TLSVerify) + the raw facts recorded while the real urllib3    *)
(* made (or refused to make) the request over the in-memory TLS party:                          *)
(*    conns[]  per dialled socket, from the SERVER side: handshake completed, SNI seen, CONNECT *)
(*             arrived (proxy front), did any HTTP request byte arrive, did the peer see EOF    *)
(*    exc[]    exception class chain (qualified names, outermost first), status, warned,        *)
(*    seen[]   conn.is_verified / proxy_is_verified at connect() return and at request() entry   *)
(* The monitor is total: it abstracts the raw facts into the observation record of TLSVerify,   *)
(* evaluates the SAME Rules clauses that stage 1 checked on the model (hard verdict: name of    *)
(* the failing clause) and compares with the Model's prediction Final(cfg, srv) (drift verdict),*)
(* prints one "VERDICT|id|hard clause|drift clause" line per trace and moves on.                                              *)
EXTENDS TLSVerify, Json, IOUtils, TLCExt

Traces == JsonDeserialize(IOEnv.TRACE_FILE)

TrRoutes == RouteL
TrBackends == BackendL
TrHosts == HostL
TrSans == SanL

VARIABLE tid
tvars == <<st, tid>>

CfgOfRec(p) == [reqs |-> p.reqs, ah |-> p.ah, fp |-> p.fp, sh |-> p.sh, ctx |-> p.ctx, casrc |-> p.casrc, hist |-> p.hist,
                backend |-> p.backend, route |-> p.route]
SrvOfRec(p) == [issuer |-> p.issuer, san |-> p.san, host |-> p.host]

UrllibSSLError == "urllib3.exceptions.SSLError"
Wrappers == {UrllibSSLError, "urllib3.exceptions.MaxRetryError", "urllib3.exceptions.ProxyError"}

\* raw facts -> observation record of the Rules
Abs(r) ==
    [sent     |-> \E i \in DOMAIN r.conns : r.conns[i].req,
     proxied  |-> \E i \in DOMAIN r.conns : r.conns[i].connect,
     resp     |-> r.status = 200,
     exc      |-> IF Len(r.exc) = 0 THEN "none"
                  ELSE IF r.exc[1] \in Wrappers /\ (\E i \in DOMAIN r.exc : r.exc[i] = UrllibSSLError) THEN "ssl"
                  ELSE IF r.exc[1] = "builtins.ValueError" THEN "config"
                  ELSE "other",
     closed   |-> \A i \in DOMAIN r.conns : r.conns[i].eof,
     verified |-> \E i \in DOMAIN r.seen : r.seen[i].at = "request" /\ r.seen[i].v,
     warned   |-> r.warned]

LastSni(r) == IF Len(r.conns) = 0 THEN "<none>" ELSE r.conns[Len(r.conns)].sni
ReqPV(r) == IF \E i \in DOMAIN r.seen : r.seen[i].at = "request"
            THEN r.seen[CHOOSE i \in DOMAIN r.seen : r.seen[i].at = "request"].pv ELSE "na"

\* soft: does the real run look like the Model's run of the same point?
DriftClause(m, o, r) ==
    IF m.pc = "sent" /\ ~(o.sent /\ o.resp /\ o.exc = "none") THEN "Outcome:model-sends"
    ELSE IF m.pc = "raised" /\ ~(o.exc = "ssl" /\ ~o.sent) THEN "Outcome:model-raises"
    ELSE IF m.pc = "refused" /\ ~(o.exc = "config" /\ ~o.sent) THEN "Outcome:model-refuses"
    ELSE IF o.proxied # m.connectSent THEN "ConnectSent"
    ELSE IF o.warned # m.warned THEN "Warned"
    ELSE IF m.pc = "sent" /\ o.verified # m.isVerified THEN "IsVerified"
    ELSE IF m.pc = "sent" /\ m.cfg.route # "direct" /\ ReqPV(r) # m.pVerified THEN "ProxyIsVerified"
    ELSE IF m.pc # "sent" /\ ~o.closed THEN "Closed"
    ELSE IF LastSni(r) # m.sni THEN "SNI"
    ELSE IF Len(r.conns) = 0 THEN "Dials"        \* (a retrying caller dials again after a failed check)
    ELSE "ok"

Dummy == InitState([reqs |-> "default", ah |-> "unset", fp |-> "unset", sh |-> "unset", ctx |-> "none", casrc |-> "file", hist |-> "fresh",
                    backend |-> "ssl", route |-> "direct"],
                   [issuer |-> "trusted", san |-> "exact", host |-> "lower"])

\* one line per trace; a plain string, because TLC's pretty-printer wraps tuples wider than 80 columns
Verdict(id, hard, drift) == PrintT("VERDICT|" \o ToString(id) \o "|" \o hard \o "|" \o drift)

TInit == tid = 1 /\ st = Dummy

TNext ==
    /\ tid <= Len(Traces)
    /\ LET t == Traces[tid]
           cfg == CfgOfRec(t.p)
           srv == SrvOfRec(t.p)
       IN IF ~(cfg \in Cfg /\ srv \in Srv)
          THEN Verdict(t.id, "MalformedTrace", "ok") /\ st' = st
          ELSE IF ~t.o.joined
          THEN Verdict(t.id, "HarnessStall", "ok") /\ st' = st
          ELSE LET o == Abs(t.o)
                   m  == FinalKD(cfg, srv, AllKnownDefects)     \* the code as it is
                   m0 == FinalKD(cfg, srv, {})                  \* the code as the findings ask it to be
                   d  == IF DriftClause(m0, o, t.o) = "ok" THEN "ok" ELSE DriftClause(m, o, t.o)
               IN Verdict(t.id, RulesClause(cfg, srv, o), d) /\ st' = m
    /\ tid' = tid + 1

TSpec == TInit /\ [][TNext]_tvars
=============================================================================
