---------------------------- MODULE H2Probe ----------------------------
(* The HTTP/2 probe cache of urllib3 (src/urllib3/http2/probe.py), as used by
   HTTPSConnection.connect (src/urllib3/connection.py): per origin at most one thread probes
   whether the origin speaks HTTP/2; the others wait for its verdict.

   Grain of atomicity: ONE ACTION = ONE LOCK OPERATION of the real code plus the straight-line
   code that follows it up to (not including) the next lock operation.  This is exactly the grain
   of the cooperative scheduler in vh/h2probe.py (a thread parks before every lock operation), so a
   behaviour of this spec is a schedule of the real code and vice versa.

     acquire_and_get(key):                       set_and_release(key, v):
       GAcq   with self._lock:  (enter); look up / create   SEnter  with key_lock:       (enter, re-entrant)
       GRel     (exit); return a known value       SExit     ValueError check;  (exit); write value
       KAcq   key_lock.acquire(); read value       SRel    key_lock.release()
       [KRel  key_lock.release()  -- only in the repaired code, when the value read is known]

   Deviation of the code as found (constant ReleaseOnKnown = FALSE): a thread that WAITED for the
   key lock and then reads a known value returns it while still holding the key lock and never
   releases it (the caller only calls set_and_release when it got None).  A third waiter then
   blocks forever.  ReleaseOnKnown = TRUE is the repaired design.                                *)
EXTENDS Naturals, FiniteSets, Sequences, TLC

CONSTANTS Threads,        \* e.g. {"t1","t2","t3"}
          Keys,           \* origins, e.g. {"k1"} or {"k1","k2"}
          ReleaseOnKnown  \* BOOLEAN, see above

NoOne == "nobody"
Known == {"yes", "no"}

VARIABLES KeyOf,     \* [Threads -> Keys]  scenario (never changes): the origin each thread connects to
          Plan,      \* [Threads -> {"yes","no","fail"}]  scenario: what the connect attempt yields IF this thread probes
          glock,     \* holder of self._lock, or NoOne
          kown,      \* [Keys -> Threads \cup {NoOne}]   owner of the key's RLock
          kcnt,      \* [Keys -> Nat]                    its recursion count
          val,       \* [Keys -> {"absent","unknown","yes","no"}]   _cache_values (absent = no entry)
          pc,        \* [Threads -> program counter]
          got,       \* [Threads -> {"none","unknown","yes","no"}]  what acquire_and_get returned ("none" = not yet)
          loc        \* [Threads -> {"none","unknown","yes","no"}]  the thread's local `value` (last read of the cache)

cfgvars == <<KeyOf, Plan>>
vars == <<KeyOf, Plan, glock, kown, kcnt, val, pc, got, loc>>

PCs == {"GAcq", "GRel", "KAcq", "KRel", "SEnter", "SExit", "SRel", "done", "valueerror"}

TypeOK == /\ KeyOf \in [Threads -> Keys] /\ Plan \in [Threads -> {"yes", "no", "fail"}]
          /\ glock \in Threads \cup {NoOne}
          /\ kown \in [Keys -> Threads \cup {NoOne}]
          /\ kcnt \in [Keys -> 0..3]
          /\ val \in [Keys -> {"absent", "unknown", "yes", "no"}]
          /\ pc \in [Threads -> PCs]
          /\ got \in [Threads -> {"none", "unknown", "yes", "no"}]
          /\ loc \in [Threads -> {"none", "unknown", "yes", "no"}]
          /\ \A k \in Keys : (kown[k] = NoOne) <=> (kcnt[k] = 0)

Init == /\ KeyOf \in [Threads -> Keys] /\ Plan \in [Threads -> {"yes", "no", "fail"}]
        /\ glock = NoOne
        /\ kown = [k \in Keys |-> NoOne]
        /\ kcnt = [k \in Keys |-> 0]
        /\ val = [k \in Keys |-> "absent"]
        /\ pc = [t \in Threads |-> "GAcq"]
        /\ got = [t \in Threads |-> "none"]
        /\ loc = [t \in Threads |-> "none"]

Goto(t, l) == pc' = [pc EXCEPT ![t] = l]
KeyFree(t) == kown[KeyOf[t]] \in {NoOne, t}
KAcquire(t) == /\ kown' = [kown EXCEPT ![KeyOf[t]] = t]
               /\ kcnt' = [kcnt EXCEPT ![KeyOf[t]] = @ + 1]
KRelease(t) == /\ kcnt' = [kcnt EXCEPT ![KeyOf[t]] = @ - 1]
               /\ kown' = [kown EXCEPT ![KeyOf[t]] = IF kcnt[KeyOf[t]] = 1 THEN NoOne ELSE t]

\* ---- acquire_and_get
\* `with self._lock:` entered; the body runs in the same step: look the entry up, create it if absent
GAcq(t) == /\ pc[t] = "GAcq" /\ glock = NoOne
           /\ glock' = t /\ Goto(t, "GRel")
           /\ LET k == KeyOf[t] IN
              /\ val' = [val EXCEPT ![k] = IF @ = "absent" THEN "unknown" ELSE @]
              /\ loc' = [loc EXCEPT ![t] = IF val[k] = "absent" THEN "unknown" ELSE val[k]]
           /\ UNCHANGED <<cfgvars, kown, kcnt, got>>

\* leaving the `with`; a known value is returned right away (no key lock), otherwise go and wait for the key lock
GRel(t) == /\ pc[t] = "GRel" /\ glock = t
           /\ glock' = NoOne
           /\ IF loc[t] \in Known
                THEN got' = [got EXCEPT ![t] = loc[t]] /\ Goto(t, "done")
                ELSE Goto(t, "KAcq") /\ UNCHANGED got
           /\ UNCHANGED <<cfgvars, kown, kcnt, val, loc>>

KAcq(t) == /\ pc[t] = "KAcq" /\ KeyFree(t)
           /\ KAcquire(t)
           /\ loc' = [loc EXCEPT ![t] = val[KeyOf[t]]]
           /\ IF val[KeyOf[t]] \in Known
                THEN IF ReleaseOnKnown
                       THEN Goto(t, "KRel") /\ UNCHANGED got      \* returned after the release
                       ELSE /\ got' = [got EXCEPT ![t] = val[KeyOf[t]]]
                            /\ Goto(t, "done")                   \* deviation: returns still holding the key lock
                ELSE /\ got' = [got EXCEPT ![t] = "unknown"]     \* got None: this thread is the prober; it connects, then reports
                     /\ Goto(t, "SEnter")
           /\ UNCHANGED <<cfgvars, glock, val>>

\* repaired code only: release the key lock, then return the value read under it
KRel(t) == /\ pc[t] = "KRel" /\ kown[KeyOf[t]] = t
           /\ KRelease(t) /\ Goto(t, "done")
           /\ got' = [got EXCEPT ![t] = loc[t]]
           /\ UNCHANGED <<cfgvars, glock, val, loc>>

\* ---- set_and_release (called only by a thread whose acquire_and_get returned None)
Report(t) == IF Plan[t] = "fail" THEN "unknown" ELSE Plan[t]

SEnter(t) == /\ pc[t] = "SEnter" /\ KeyFree(t)
             /\ KAcquire(t) /\ Goto(t, "SExit")
             /\ UNCHANGED <<cfgvars, glock, val, got, loc>>

SExit(t) == /\ pc[t] = "SExit" /\ kown[KeyOf[t]] = t
            /\ KRelease(t)                             \* leaves the `with`; the outer acquire is still held
            /\ IF Report(t) = "unknown" /\ val[KeyOf[t]] \in Known
                 THEN Goto(t, "valueerror") /\ UNCHANGED val   \* "Cannot reset HTTP/2 support ..." — defensive, must be unreachable
                 ELSE /\ val' = [val EXCEPT ![KeyOf[t]] = Report(t)]   \* the write happens before the final release
                      /\ Goto(t, "SRel")
            /\ UNCHANGED <<cfgvars, glock, got, loc>>

SRel(t) == /\ pc[t] = "SRel" /\ kown[KeyOf[t]] = t
           /\ KRelease(t) /\ Goto(t, "done")
           /\ UNCHANGED <<cfgvars, glock, val, got, loc>>

Step(t) == GAcq(t) \/ GRel(t) \/ KAcq(t) \/ KRel(t) \/ SEnter(t) \/ SExit(t) \/ SRel(t)
Finished == \A t \in Threads : pc[t] \in {"done", "valueerror"}
Next == (\E t \in Threads : Step(t)) \/ (Finished /\ UNCHANGED vars)
Spec == Init /\ [][Next]_vars /\ \A t \in Threads : WF_vars(Step(t))

\* ------------------------------------------------------------------ Rules
Probing(t) == got[t] = "unknown" /\ pc[t] \in {"SEnter", "SExit", "SRel"}
\* at most one thread per origin is between "acquire_and_get returned None" and "set_and_release done"
AtMostOneProber == \A k \in Keys : Cardinality({t \in Threads : KeyOf[t] = k /\ Probing(t)}) <= 1
\* a prober holds the key lock for the whole probe, so waiters really wait
ProberHoldsKeyLock == \A t \in Threads : Probing(t) => kown[KeyOf[t]] = t
\* a verdict handed to a caller is the cached verdict
ReturnedIsCached == \A t \in Threads : got[t] \in Known => val[KeyOf[t]] = got[t]
\* the defensive ValueError is unreachable
NoValueError == \A t \in Threads : pc[t] # "valueerror"
\* once everybody is done no lock is left held (a leaked key lock blocks every later prober/waiter)
NoLockLeak == Finished => (glock = NoOne /\ \A k \in Keys : kown[k] = NoOne)
\* a thread that is done holds nothing
DoneHoldsNothing == \A t \in Threads : pc[t] = "done" => (glock # t /\ \A k \in Keys : kown[k] # t)
\* a known verdict is never changed or forgotten
KnownIsStable == [][\A k \in Keys : val[k] \in Known => val'[k] = val[k]]_vars
\* liveness: every thread gets through (no deadlock, no lost wake-up)
EveryoneFinishes == <>[]Finished
\* a state in which some thread is not finished and nobody can move
Stuck == ~Finished /\ \A t \in Threads : ~ENABLED Step(t)
NeverStuck == ~Stuck
=============================================================================
